(* BuilderSysP.v — builder sessions at system level.
   The operation alphabet of model/System.v contains the public Builder API (OBNew, OBPush, OBPushNode,
   OBFinish); Refine.step_refines covers the collection operations only.  This file says what the
   *system* does when a history uses the builder:
   1. value sessions  OBNew d 0 ; OBPush v1 ; ... ; OBPush vn ; OBFinish  from ANY state satisfying
      SysInv: the answers, the registers (untouched), the builder slot (empty afterwards) and the
      system invariant (kept, with the same abstract registers), the invalid-depth and the
      builder-full cases; no panic;
   2. frame: builder operations never touch the registers, OBNew/OBPush/OBPushNode only allocate
      (the memo table is literally unchanged), hence they keep SysInv individually in any state;
      interleaving OBNew/OBPush operations with collection operations does not change what the
      collection operations answer (run level), and does not change what the builder operations answer;
   3. subtree sessions (OBNew d L ; OBPushNode a path_j ... ; OBFinish) over the level-L subtrees of a flushed
      handle (what List::pop_front does): node_session_ok lifts BuilderP.feed_canon_full the same way;
   4. a closed instance (u64 over VecMap, hash Hc) and sessions evaluated by the kernel.
   Parts 1 and 3 need `ek_wf ek` only (no collision freedom: HashP.tree_hash_exact needs valid memos, and the
   memos of builder nodes are absent); the interleaving theorems of part 2 need the hypotheses of
   Refine.step_refines because they run collection operations.
   Proof file; no model code. *)
From Coq Require Import FMapPositive.
From MH Require Import Inv IfaceP IterP IntraP WulP RepeatP BuilderP CollCtorP CollObsP HashP CodecP
  SysInv RefineBase RefineA RefineB Refine UMapP Instances FinalP.
Local Open Scope N_scope.

(* ====================================================================================== *)
(* 0. generic facts about programs                                                          *)
(* ====================================================================================== *)
(* the allocator never goes back, whatever the program *)
Lemma run_next_mono {A} (m : prog A) : forall s, (next s <= next (snd (run m s)))%positive.
Proof.
  induction m as [A a|A e|A c|A k IH|A i k IH|A i d k IH|A p IHp q IHq k IHk|A t k IH]; cbn [run snd]; intros s; try lia.
  - specialize (IH (next s) (bump s)). cbn [bump next] in IH. lia.
  - apply IH.
  - specialize (IH (mset s i d)). cbn [mset next] in IH. exact IH.
  - specialize (IHp s). destruct (run p s) as [[a|e|c] s1]; cbn [snd] in *; try exact IHp.
    specialize (IHq s1). destruct (run q s1) as [[b|e|c] s2]; cbn [snd] in *; try lia.
    specialize (IHk a b s2). lia.
  - apply IH.
Qed.

(* every value the program can return satisfies P (failures and panics are not values) *)
Fixpoint leaves {A} (P : A -> Prop) (m : prog A) : Prop :=
  match m with
  | Ret a => P a
  | Fail _ | Crash _ => True
  | Fresh k => forall i, leaves P (k i)
  | GetMemo _ k => forall d, leaves P (k d)
  | SetMemo _ _ k => leaves P k
  | Par _ _ k => forall a b, leaves P (k a b)
  | Note _ k => leaves P k
  end.
Lemma leaves_bind {A B} (P : B -> Prop) (m : prog A) (f : A -> prog B) :
  (forall a, leaves P (f a)) -> leaves P (bind m f).
Proof.
  induction m as [A a|A e|A c|A k IH|A i k IH|A i d k IH|A p IHp q IHq k IHk|A t k IH]; cbn [leaves bind]; intros Hf; auto.
Qed.
Lemma leaves_run {A} (P : A -> Prop) (m : prog A) : leaves P m -> forall s a, fst (run m s) = Ok a -> P a.
Proof.
  induction m as [A a|A e|A c|A k IH|A i k IH|A i d k IH|A p IHp q IHq k IHk|A t k IH]; cbn [leaves run fst]; intros Hm s x E;
    try discriminate.
  - injection E as <-. exact Hm.
  - eapply IH; eauto.
  - eapply IH; eauto.
  - eapply IH; eauto.
  - destruct (run p s) as [[a|e|c] s1]; try discriminate. destruct (run q s1) as [[b|e|c] s2]; try discriminate.
    eapply IHk; eauto.
  - eapply IH; eauto.
Qed.

(* programs that only allocate and never panic (they may fail) / never fail either *)
Fixpoint nocrash {A} (m : prog A) : Prop :=
  match m with
  | Ret _ | Fail _ => True
  | Fresh k => forall i, nocrash (k i)
  | Note _ k => nocrash k
  | _ => False
  end.
Fixpoint total {A} (m : prog A) : Prop :=
  match m with
  | Ret _ => True
  | Fresh k => forall i, total (k i)
  | Note _ k => total k
  | _ => False
  end.
Lemma nocrash_bind {A B} (m : prog A) (f : A -> prog B) : nocrash m -> (forall a, nocrash (f a)) -> nocrash (bind m f).
Proof.
  induction m as [A a|A e|A c|A k IH|A i k IH|A i d k IH|A p IHp q IHq k IHk|A t k IH]; cbn [nocrash bind]; intros Hm Hf; auto;
    try contradiction.
Qed.
Lemma total_bind {A B} (m : prog A) (f : A -> prog B) : total m -> (forall a, total (f a)) -> total (bind m f).
Proof.
  induction m as [A a|A e|A c|A k IH|A i k IH|A i d k IH|A p IHp q IHq k IHk|A t k IH]; cbn [total bind]; intros Hm Hf; auto;
    try contradiction.
Qed.
Lemma total_try {A} (m : prog A) : nocrash m -> total (try_ m).
Proof.
  induction m as [A a|A e|A c|A k IH|A i k IH|A i d k IH|A p IHp q IHq k IHk|A t k IH]; cbn [nocrash total try_]; intros Hm; auto;
    try contradiction.
Qed.
Lemma total_allocp {A} (m : prog A) : total m -> allocp m.
Proof.
  induction m as [A a|A e|A c|A k IH|A i k IH|A i d k IH|A p IHp q IHq k IHk|A t k IH]; cbn [total allocp]; intros Hm; auto.
Qed.
Lemma total_run {A} (m : prog A) : total m -> forall s, exists a, fst (run m s) = Ok a.
Proof.
  induction m as [A a|A e|A c|A k IH|A i k IH|A i d k IH|A p IHp q IHq k IHk|A t k IH]; cbn [total run fst]; intros Hm s;
    try contradiction; eauto.
Qed.
Lemma allocp_run {A} (m : prog A) : allocp m -> forall s, alloc_only s (snd (run m s)).
Proof.
  intros Hm s. exact (wp_run m _ s (allocp_wp0 Rexact m s Hm)).
Qed.
Lemma run_bind {A B} (m : prog A) (f : A -> prog B) : forall s,
  run (bind m f) s =
  match run m s with (Ok a, s') => run (f a) s' | (Err e, s') => (Err e, s') | (Panic c, s') => (Panic c, s') end.
Proof.
  induction m as [A a|A e|A c|A k IH|A i k IH|A i d k IH|A p IHp q IHq k IHk|A t k IH]; cbn [bind run]; intros s; auto.
  destruct (run p s) as [[a|e|c] s1]; auto. destruct (run q s1) as [[b|e|c] s2]; auto.
Qed.
Lemma run_try_ok {A} (m : prog A) : forall s a s', run m s = (Ok a, s') -> run (try_ m) s = (Ok (inr a), s').
Proof.
  induction m as [A a|A e|A c|A k IH|A i k IH|A i d k IH|A p IHp q IHq k IHk|A t k IH]; cbn [try_ run]; intros s x s' E;
    try discriminate; auto.
  - injection E as <- <-. reflexivity.
  - destruct (run p s) as [[a|e|c] s1]; try discriminate. destruct (run q s1) as [[b|e|c] s2]; try discriminate. auto.
Qed.

Section BuilderSys.
  Context {T U : Type}.
  Variable ek : ekind T.
  Variable M : umap_impl T U.
  Variable H : digest -> digest -> digest.
  Variable capN : N.
  Variable vec_based : bool.
  Variable uinv : U -> Prop.
  Variable valid : T -> Prop.
  Hypothesis EKW : ek_wf ek.
  Hypothesis UL : umap_lawful ek M uinv.
  Hypothesis CAP : capacity_ok capN.
  Hypothesis CF : collision_free H.
  Hypothesis TRI : troot_inj ek.
  Hypothesis ECO : ek_codec_on ek valid.
  Notation tree := (tree T).
  Notation handle := (handle T U).
  Notation sys := (@sys T U).
  Notation aval := (@aval T).
  Notation sregs := (@sregs T).
  Notation res := (@res T).
  Notation op := (@op T).
  Notation gok := (gok ek H).
  Notation SysInv := (SysInv ek M H capN uinv).
  Notation spec_ok := (spec_ok ek H capN vec_based valid).
  Notation step := (step ek M H capN vec_based).
  Notation model_run := (model_run ek M H capN vec_based).
  Notation spec_run := (spec_run ek H capN vec_based valid).
  Notation spec_run_det := (spec_run_det ek H capN vec_based valid).
  Notation vals_valid := (vals_valid valid).
  Notation op_ok := (op_ok ek valid).

  (* ================= SysInv does not mention the builder slot ================= *)
  Lemma live_trees_regs (s s' : sys) : regs s' = regs s -> live_trees s' = live_trees s.
  Proof. intros E. unfold live_trees. rewrite E. reflexivity. Qed.
  Lemma SysInv_regs st (s s' : sys) (a : sregs) : regs s' = regs s -> SysInv st s a -> SysInv st s' a.
  Proof.
    intros E (L & F & G). split; [rewrite E; exact L|]. split; [rewrite E; exact F|].
    rewrite (live_trees_regs s s' E). exact G.
  Qed.

  (* hashing a member of the family keeps the global invariant of the family *)
  Lemma gok_changes st st' (G : list tree) (t : tree) : gok st G -> In t G -> changes ek H st st' t -> gok st' G.
  Proof.
    intros (IDF & BV & MB) Hin Ch. assert (Hn : next st' = next st) by apply Ch.
    split; [exact IDF|]. split.
    - intros t2 Ht. destruct (BV t2 Ht) as [B V]. split; [rewrite Hn; exact B|].
      eapply mvalid_changes; [exact Ch| |exact V]. eapply idf_pair_o; eauto.
    - eapply changes_memo_below; [exact Ch| |exact MB]. apply BV, Hin.
  Qed.

  (* ================= runs ================= *)
  Lemma model_run_app os1 : forall os2 (s : sys) st rs1 s1 st1, model_run s st os1 = Some (rs1, s1, st1) ->
    model_run s st (os1 ++ os2) =
    match model_run s1 st1 os2 with Some (rs2, s2, st2) => Some (rs1 ++ rs2, s2, st2) | None => None end.
  Proof.
    induction os1 as [|o os1 IH]; intros os2 s st rs1 s1 st1 E; cbn [Refine.model_run app] in *.
    - injection E as <- <- <-. destruct (model_run s st os2) as [[[rs2 s2] st2]|]; reflexivity.
    - destruct (run (step s o) st) as [[[r s']|e|c] st']; try discriminate.
      destruct (model_run s' st' os1) as [[[rs s2] st2]|] eqn:E1; try discriminate.
      injection E as <- <- <-. rewrite (IH os2 _ _ _ _ _ E1).
      destruct (model_run s2 st2 os2) as [[[rs2 s3] st3]|]; reflexivity.
  Qed.
  Lemma model_run_length os : forall (s : sys) st rs s' st', model_run s st os = Some (rs, s', st') -> length rs = length os.
  Proof.
    induction os as [|o os IH]; intros s st rs s' st' E; cbn [Refine.model_run] in E.
    - injection E as <- _ _. reflexivity.
    - destruct (run (step s o) st) as [[[r s1]|e|c] st1]; try discriminate.
      destruct (model_run s1 st1 os) as [[[rs1 s2] st2]|] eqn:E1; try discriminate.
      injection E as <- _ _. cbn [length]. f_equal. eapply IH; eauto.
  Qed.
  (* `model_run os = Some _` says that no step of the history panicked or failed: every prefix runs, and the
     next operation returns Ok *)
  Lemma model_run_no_panic os1 o os2 (s : sys) st rs s' st' : model_run s st (os1 ++ o :: os2) = Some (rs, s', st') ->
    exists rs1 s1 st1 r s2, model_run s st os1 = Some (rs1, s1, st1) /\ fst (run (step s1 o) st1) = Ok (r, s2).
  Proof.
    revert s st rs s' st'. induction os1 as [|o1 os1 IH]; intros s st rs s' st' E; cbn [Refine.model_run app] in *.
    - destruct (run (step s o) st) as [[[r s1]|e|c] st1] eqn:Er; try discriminate. exists [], s, st, r, s1.
      rewrite Er. auto.
    - destruct (run (step s o1) st) as [[[r s1]|e|c] st1]; try discriminate.
      destruct (model_run s1 st1 (os1 ++ o :: os2)) as [[[rs1 s2] st2]|] eqn:E1; try discriminate.
      destruct (IH _ _ _ _ _ E1) as (rs0 & s3 & st3 & r3 & s4 & E3 & E4). rewrite E3. eauto 10.
  Qed.

  (* ====================================================================================== *)
  (* 1. value sessions                                                                       *)
  (* ====================================================================================== *)
  Definition value_session (d : nat) (vs : list T) : list op :=
    OBNew (N.of_nat d) 0 :: map (fun v => OBPush v) vs ++ [OBFinish].

  Definition bnew (d : nat) : builder T := {| bstack := []; bdepth := d; blevel := 0; blength := 0; bcap := cap ek d |}.

  (* the builder b, in allocator state st, is what `Builder::new(d, 0)` followed by pushing vs leaves; s0 is the
     state in which the session started (stk_inv depends on st through `next st` only) *)
  Definition bshape (s0 st : state) (b : builder T) (d : nat) (vs : list T) : Prop :=
    stk_inv s0 st [] (bstack b) /\ brep ek (pstack (shb b)) vs /\
    blength b = lenN vs /\ bdepth b = d /\ bcap b = cap ek d /\ blevel b = 0.
  (* an uninterrupted session: additionally nothing but allocation happened since s0 *)
  Definition bsess (s0 st : state) (b : builder T) (d : nat) (vs : list T) : Prop :=
    alloc_only s0 st /\ bshape s0 st b d vs.

  Lemma bshape_new st d : bshape st st (bnew d) d [].
  Proof.
    split; [apply stk_inv_nil|]. split; [apply brep_nil|]. cbn [bnew blength bdepth bcap blevel]. auto.
  Qed.
  Lemma bshape_mono s0 st st' b d vs : bshape s0 st b d vs -> (next st <= next st')%positive -> bshape s0 st' b d vs.
  Proof. intros (SI & R) Hn. split; [eapply stk_mono; eauto|exact R]. Qed.

  (* ---------- OBNew ---------- *)
  Lemma run_new_ok (s : sys) st d : (d + pd_of ek <= 63)%nat ->
    run (step s (OBNew (N.of_nat d) 0)) st = (Ok (ROk, bset s (Some (bnew d))), st).
  Proof. intros Hd. cbn [System.step]. rewrite (builder_new_ok ek d 0 Hd). reflexivity. Qed.

  (* Builder::new with an invalid depth: the error of BuilderP.new_invalid_depth, nothing changes *)
  Theorem new_invalid_depth_sys (s : sys) st (depth level : N) : 63 < depth + N.of_nat (pd_of ek) ->
    run (step s (OBNew depth level)) st = (Ok (RErr (BuilderInvalidDepth depth), s), st).
  Proof. intros Hd. cbn [System.step]. rewrite (new_invalid_depth ek depth level Hd). reflexivity. Qed.
  Corollary value_session_invalid_depth (s : sys) st (d : nat) : (d + pd_of ek > 63)%nat ->
    run (step s (OBNew (N.of_nat d) 0)) st = (Ok (RErr (BuilderInvalidDepth (N.of_nat d)), s), st).
  Proof. intros Hd. apply new_invalid_depth_sys. lia. Qed.

  (* ---------- OBPush ---------- *)
  Lemma push_wp R s0 st b d vs v : bshape s0 st b d vs -> lenN vs < cap ek d ->
    wp R (try_ (builder_push ek b v))
       (fun o st' => exists b', o = Ok (inr b') /\ alloc_only st st' /\ bshape s0 st' b' d (vs ++ [v])) st.
  Proof.
    intros (SI & BR & HL & HD & HC & HV) Hlt.
    destruct (ppush_ok ek (shb b) vs v BR) as (pb' & P & BR' & L' & D' & C' & V').
    - exact HL.
    - cbn [shb pcap]. rewrite HC. exact Hlt.
    - apply wp_try. eapply wp_mono; [|apply (push_sim ek R s0 [] b v st SI)].
      intros o st'. rewrite P. intros (b' & -> & Hshb & (A & I' & _ & _)).
      exists b'. split; [reflexivity|]. split; [exact A|]. subst pb'.
      cbn [shb pstack plength pdepth pcap plevel] in *.
      split; [exact I'|]. split; [exact BR'|]. repeat split; congruence.
  Qed.

  Lemma step_push_ok (s : sys) st s0 b d vs v : bslot s = Some b -> bshape s0 st b d vs -> lenN vs < cap ek d ->
    exists b' st', run (step s (OBPush v)) st = (Ok (ROk, bset s (Some b')), st') /\
                   alloc_only st st' /\ bshape s0 st' b' d (vs ++ [v]).
  Proof.
    intros Eb BS Hlt.
    assert (W : wp Rexact (step s (OBPush v))
                  (fun o st' => exists b', o = Ok (ROk, bset s (Some b')) /\ alloc_only st st' /\ bshape s0 st' b' d (vs ++ [v])) st).
    { cbn [System.step]. rewrite Eb. apply wp_bind. eapply wp_mono; [|apply (push_wp Rexact s0 st b d vs v BS Hlt)].
      intros o st' (b' & -> & A & BS'). cbn [lift wp]. eauto. }
    apply wp_run in W. destruct (run (step s (OBPush v)) st) as [o st']. cbn [fst snd] in W.
    destruct W as (b' & -> & A & BS'). eauto.
  Qed.

  (* the builder is full: BuilderFull, and nothing changes (neither the builder nor the shared state) *)
  Lemma step_push_full (s : sys) st s0 b d vs v : bslot s = Some b -> bshape s0 st b d vs -> lenN vs = cap ek d ->
    run (step s (OBPush v)) st = (Ok (RErr BuilderFull, s), st).
  Proof.
    intros Eb (_ & _ & HL & _ & HC & _) E. cbn [System.step]. rewrite Eb. unfold builder_push.
    rewrite HL, HC, E, N.eqb_refl. reflexivity.
  Qed.

  (* ---------- OBFinish ---------- *)
  (* what OBFinish does once the builder has returned its tree *)
  Definition finish_tail (s' : sys) (t : tree) (depth : nat) (len : N) : prog (res * sys) :=
    (root <- tree_hash ek H t ;;
     z <- fresh ;;
     r2 <- try_ (incremental ek depth (Zero z depth) (elems t) 0) ;;
     let inc := match r2 with inl _ => false | inr t2 => tree_eqb ek t t2 end in
     Ret (RFinish depth len t root inc, s'))%prog.
  Lemma step_finish_unfold (s : sys) b : bslot s = Some b ->
    step s OBFinish =
    (r <- try_ (builder_finish ek b) ;;
     match r with
     | inl e => Ret (RErr e, bset s None)
     | inr (t, depth, len) => finish_tail (bset s None) t depth len
     end)%prog.
  Proof. intros E. cbn [System.step]. rewrite E. reflexivity. Qed.

  (* the tree is canonical for vs and well formed together with the family G: the root answered is the hash of
     the canonical tree, the incremental rebuild agrees, and the family stays well formed *)
  Lemma finish_tail_wp st1 (s' : sys) (G : list tree) (t : tree) d vs :
    gok st1 (t :: G) -> shape t = canon ek d vs -> lenN vs <= cap ek d ->
    wp Rexact (finish_tail s' t d (lenN vs))
       (fun o st' => o = Ok (RFinish d (lenN vs) t (shash ek H (canon ek d vs)) true, s') /\
                     gok st' (t :: G) /\ (next st1 <= next st')%positive /\
                     (has_memo t = true -> mget st' (idof t) = shash ek H (canon ek d vs))) st1.
  Proof.
    intros G1 Hsh Hl. unfold finish_tail.
    assert (IDt : idf [t]) by (destruct G1 as (IDF & _); eapply idf_single_o; [exact IDF|left; reflexivity]).
    assert (V1 : mvalid ek H st1 t) by (destruct G1 as (_ & BV1 & _); apply BV1; left; reflexivity).
    apply wp_bind. eapply wp_mono; [|apply (tree_hash_exact ek H t st1 IDt V1 (canon_packed_le ek d t vs Hsh Hl))].
    intros o st2 (-> & Ch & _ & Hm). cbn [lift].
    assert (G2 : gok st2 (t :: G)) by (eapply gok_changes; [exact G1|left; reflexivity|exact Ch]).
    cbn [bind fresh wp].
    assert (He : elems t = vs) by (unfold elems; rewrite Hsh; apply selems_canon; exact Hl).
    rewrite He. apply wp_bind. apply wp_try.
    eapply wp_mono; [|apply (incremental_canon_alloc ek d vs (next st2) Rexact (bump st2) Hl)].
    intros o st4 (t2 & -> & Hs2 & A4). cbn [lift wp].
    assert (A24 : alloc_only st2 st4) by (eapply ao_trans; [apply ao_bump|exact A4]).
    split.
    - rewrite (tree_eqb_shape ek EKW t t2) by congruence. unfold hash_spec. rewrite Hsh. reflexivity.
    - split; [eapply gok_alloc_only; eauto|]. split.
      + destruct Ch as [Hn2 _]. destruct A24 as [_ Hn4]. lia.
      + intros Hmm. rewrite (mget_alloc st2 st4 _ A24), (Hm Hmm). unfold hash_spec. rewrite Hsh. reflexivity.
  Qed.

  (* the session started in s0 with SysInv; nothing but allocation happened since *)
  Lemma finish_wp s0 st (s : sys) (a : sregs) b d vs : SysInv s0 s a -> bslot s = Some b -> bsess s0 st b d vs ->
    (d + pd_of ek <= 63)%nat -> lenN vs <= cap ek d ->
    wp Rexact (step s OBFinish)
       (fun o st' => exists t, o = Ok (RFinish d (lenN vs) t (shash ek H (canon ek d vs)) true, bset s None) /\
                      shape t = canon ek d vs /\ gok st' (t :: live_trees s) /\ fresh_or_from s0 st' [] t /\
                      (has_memo t = true -> mget st' (idof t) = shash ek H (canon ek d vs))) st.
  Proof.
    intros I Eb (AO & SI & BR & HL & HD & HC & HV) Hd Hl.
    assert (Hfin : pfinish ek (shb b) = Ok (canon ek d vs, d, lenN vs)).
    { pose proof (pfinish_ok ek (shb b) vs BR) as P. cbn [shb plength pcap pdepth plevel] in P. rewrite HD in P.
      apply P; auto.
      - rewrite HC. exact Hl. }
    pose proof (SysInv_gok _ _ _ _ _ _ _ _ I) as G0.
    rewrite (step_finish_unfold s b Eb). apply wp_bind. apply wp_try.
    eapply wp_mono; [|apply (finish_sim ek Rexact s0 [] b st SI)].
    intros o st1. rewrite Hfin. intros (f & t & -> & Hsh & A1 & SI1 & _ & _). cbn [lift].
    destruct SI1 as (Hn1 & Hall1 & Hid1).
    assert (FF : fresh_or_from s0 st1 [] t).
    { inversion Hall1 as [|e1 l1 He1 _]; subst. apply He1. }
    assert (IDt : idf [t]).
    { destruct (Hid1 (srcs_ok_nil s0)) as [Hi _]. cbn [trees map snd app] in Hi. exact Hi. }
    assert (AO1 : alloc_only s0 st1) by (eapply ao_trans; eauto).
    assert (IDF' : idf (t :: live_trees s)).
    { destruct G0 as (IDF0 & BV0 & _). apply (idf_cons_fresh s0 st1 (live_trees s) [] t); auto.
      - intros t0 Ht0. apply BV0, Ht0.
      - intros t0 []. }
    assert (G1 : gok st1 (t :: live_trees s)).
    { apply (gok_alloc_idf ek H s0 st1 (live_trees s) [] t); auto. intros t0 []. }
    eapply wp_mono; [|apply (finish_tail_wp st1 (bset s None) (live_trees s) t d vs G1 Hsh Hl)].
    intros o st' (-> & G' & Hn & Hm). exists t. split; [reflexivity|]. split; [exact Hsh|]. split; [exact G'|].
    split; [eapply fof_mono; eauto|exact Hm].
  Qed.

  Lemma step_finish_ok s0 st (s : sys) (a : sregs) b d vs : SysInv s0 s a -> bslot s = Some b -> bsess s0 st b d vs ->
    (d + pd_of ek <= 63)%nat -> lenN vs <= cap ek d ->
    exists t st', run (step s OBFinish) st = (Ok (RFinish d (lenN vs) t (shash ek H (canon ek d vs)) true, bset s None), st') /\
      shape t = canon ek d vs /\ gok st' (t :: live_trees s) /\ SysInv st' (bset s None) a /\ fresh_or_from s0 st' [] t /\
      (has_memo t = true -> mget st' (idof t) = shash ek H (canon ek d vs)).
  Proof.
    intros I Eb BS Hd Hl. pose proof (wp_run _ _ _ (finish_wp s0 st s a b d vs I Eb BS Hd Hl)) as W.
    destruct (run (step s OBFinish) st) as [o st']. cbn [fst snd] in W. destruct W as (t & -> & Hsh & G & FF & Hm).
    exists t, st'. split; [reflexivity|]. split; [exact Hsh|]. split; [exact G|]. split; [|split; assumption].
    apply (SysInv_regs st' s); [reflexivity|]. eapply SysInv_state; [exact I|]. eapply gok_forget; eauto.
  Qed.

  (* ---------- the pushes of a session ---------- *)
  Lemma run_pushes vs2 : forall (s : sys) st s0 b d vs1, bslot s = Some b -> bsess s0 st b d vs1 ->
    lenN (vs1 ++ vs2) <= cap ek d ->
    exists s' b' st', model_run s st (map (fun v => OBPush v) vs2) = Some (map (fun _ => ROk) vs2, s', st') /\
      regs s' = regs s /\ bslot s' = Some b' /\ bsess s0 st' b' d (vs1 ++ vs2).
  Proof.
    induction vs2 as [|v vs2 IH]; intros s st s0 b d vs1 Eb [AO BS] Hl.
    - cbn [map Refine.model_run]. exists s, b, st. rewrite app_nil_r. split; [reflexivity|]. split; [reflexivity|]. split; [exact Eb|]. split; assumption.
    - cbn [map Refine.model_run].
      destruct (step_push_ok s st s0 b d vs1 v Eb BS) as (b1 & st1 & E & A1 & BS1).
      { rewrite lenN_app, lenN_cons in Hl. lia. }
      rewrite E.
      destruct (IH (bset s (Some b1)) st1 s0 b1 d (vs1 ++ [v]) eq_refl) as (s' & b' & st' & E' & R' & B' & BS').
      { split; [eapply ao_trans; eauto|exact BS1]. }
      { rewrite <- app_assoc. exact Hl. }
      rewrite E'. exists s', b', st'. rewrite <- app_assoc in BS'. cbn [app] in BS'.
      split; [reflexivity|]. split; [exact R'|]. split; [exact B'|exact BS'].
  Qed.

  (* ---------- 1a: a complete value session, from any state satisfying the system invariant ---------- *)
  Theorem value_session_ok st (s : sys) (a : sregs) d vs : SysInv st s a ->
    (d + pd_of ek <= 63)%nat -> lenN vs <= cap ek d ->
    exists t s' st',
      model_run s st (value_session d vs) =
        Some (ROk :: map (fun _ => ROk) vs ++ [RFinish d (lenN vs) t (shash ek H (canon ek d vs)) true], s', st') /\
      shape t = canon ek d vs /\
      regs s' = regs s /\ bslot s' = None /\ SysInv st' s' a /\
      (* the tree handed out is well formed together with the live trees, and new *)
      gok st' (t :: live_trees s') /\ fresh_or_from st st' [] t /\
      (has_memo t = true -> mget st' (idof t) = shash ek H (canon ek d vs)).
  Proof.
    intros I Hd Hl. unfold value_session. cbn [Refine.model_run]. rewrite (run_new_ok s st d Hd).
    destruct (run_pushes vs (bset s (Some (bnew d))) st st (bnew d) d [] eq_refl) as (s1 & b1 & st1 & E1 & R1 & B1 & BS1).
    { split; [apply ao_refl|apply bshape_new]. }
    { exact Hl. }
    cbn [app] in BS1. cbn [bset regs] in R1.
    rewrite (model_run_app _ _ _ _ _ _ _ E1). cbn [Refine.model_run].
    destruct (step_finish_ok st st1 s1 a b1 d vs (SysInv_regs st s s1 a R1 I) B1 BS1 Hd Hl) as (t & st2 & E2 & Hsh & G & I2 & FF & Hm).
    rewrite E2. exists t, (bset s1 None), st2. split; [reflexivity|]. split; [exact Hsh|].
    split; [exact R1|]. split; [reflexivity|]. split; [exact I2|]. split; [|split; assumption].
    rewrite (live_trees_regs s1 (bset s1 None) eq_refl). exact G.
  Qed.

  (* the root answered is the SSZ merkleization of vs padded to the capacity of depth d *)
  Corollary value_session_root st (s : sys) (a : sregs) d vs : SysInv st s a ->
    (d + pd_of ek <= 63)%nat -> lenN vs <= cap ek d ->
    exists t s' st',
      model_run s st (value_session d vs) =
        Some (ROk :: map (fun _ => ROk) vs ++ [RFinish d (lenN vs) t (merkleize H d (HashP.chunks ek vs)) true], s', st') /\
      shape t = canon ek d vs /\ regs s' = regs s /\ bslot s' = None /\ SysInv st' s' a.
  Proof.
    intros I Hd Hl. destruct (value_session_ok st s a d vs I Hd Hl) as (t & s' & st' & E & Hsh & R & B & I' & _).
    rewrite (shash_canon_merkle ek H d vs Hl) in E. eauto 10.
  Qed.

  (* no step of a value session panics (nor fails): stated on the interpreter *)
  Corollary value_session_no_panic st (s : sys) (a : sregs) d vs os1 o os2 : SysInv st s a ->
    (d + pd_of ek <= 63)%nat -> lenN vs <= cap ek d -> value_session d vs = os1 ++ o :: os2 ->
    exists rs1 s1 st1 r s2, model_run s st os1 = Some (rs1, s1, st1) /\ fst (run (step s1 o) st1) = Ok (r, s2).
  Proof.
    intros I Hd Hl E. destruct (value_session_ok st s a d vs I Hd Hl) as (t & s' & st' & Em & _).
    rewrite E in Em. eapply model_run_no_panic; eauto.
  Qed.

  (* ---------- 1c: one push too many ---------- *)
  Theorem value_session_full st (s : sys) (a : sregs) d vs1 v : SysInv st s a ->
    (d + pd_of ek <= 63)%nat -> lenN vs1 = cap ek d ->
    exists s1 st1,
      (* the first cap d pushes answer ROk, the next one BuilderFull ... *)
      model_run s st (OBNew (N.of_nat d) 0 :: map (fun v => OBPush v) (vs1 ++ [v])) =
        Some (ROk :: map (fun _ => ROk) vs1 ++ [RErr BuilderFull], s1, st1) /\
      (* ... and leaves everything as it was before it *)
      model_run s st (OBNew (N.of_nat d) 0 :: map (fun v => OBPush v) vs1) = Some (ROk :: map (fun _ => ROk) vs1, s1, st1) /\
      regs s1 = regs s /\ SysInv st1 s1 a /\
      (* a following OBFinish returns the tree of the first cap d values *)
      exists t s2 st2,
        model_run s1 st1 [OBFinish] = Some ([RFinish d (lenN vs1) t (shash ek H (canon ek d vs1)) true], s2, st2) /\
        shape t = canon ek d vs1 /\ regs s2 = regs s /\ bslot s2 = None /\ SysInv st2 s2 a /\ gok st2 (t :: live_trees s2).
  Proof.
    intros I Hd Hl. cbn [Refine.model_run]. rewrite (run_new_ok s st d Hd).
    destruct (run_pushes vs1 (bset s (Some (bnew d))) st st (bnew d) d [] eq_refl) as (s1 & b1 & st1 & E1 & R1 & B1 & BS1).
    { split; [apply ao_refl|apply bshape_new]. }
    { cbn [app]. lia. }
    cbn [app] in BS1. cbn [bset regs] in R1. exists s1, st1.
    rewrite map_app, (model_run_app _ _ _ _ _ _ _ E1), E1. cbn [map Refine.model_run].
    rewrite (step_push_full s1 st1 st b1 d vs1 v B1 (proj2 BS1) Hl).
    split; [reflexivity|]. split; [reflexivity|]. split; [exact R1|].
    assert (I1 : SysInv st1 s1 a).
    { apply (SysInv_regs st1 s s1 a R1). eapply SysInv_alloc; [exact I|apply BS1]. }
    split; [exact I1|].
    destruct (step_finish_ok st st1 s1 a b1 d vs1 (SysInv_regs st s s1 a R1 I) B1 BS1 Hd) as (t & st2 & E2 & Hsh & G & I2 & _); [lia|].
    rewrite E2. exists t, (bset s1 None), st2. split; [reflexivity|]. split; [exact Hsh|].
    split; [exact R1|]. split; [reflexivity|]. split; [exact I2|].
    rewrite (live_trees_regs s1 (bset s1 None) eq_refl). exact G.
  Qed.

  (* ====================================================================================== *)
  (* 2. frame: builder operations against registers, memos and the system invariant          *)
  (* ====================================================================================== *)
  Definition builder_op (o : op) : bool := negb (collection_op o).
  (* the builder operations that only allocate *)
  Definition bop_alloc (o : op) : bool := match o with OBNew _ _ | OBPush _ | OBPushNode _ _ => true | _ => false end.
  (* ... and never panic *)
  Definition bop_nm (o : op) : bool := match o with OBNew _ _ | OBPush _ => true | _ => false end.

  (* no builder operation writes a register (the converse of Refine.step_regs_frame) *)
  Lemma step_builder_leaves (s : sys) o : builder_op o = true -> leaves (fun rs : res * sys => regs (snd rs) = regs s) (step s o).
  Proof.
    intros Hb. destruct o; cbn [builder_op collection_op negb] in Hb; try discriminate Hb; cbn [System.step].
    - apply leaves_bind. intros [e|b]; reflexivity.
    - destruct (bslot s) as [b|]; [|reflexivity]. apply leaves_bind. intros [e|b']; [destruct e|]; reflexivity.
    - destruct (bslot s) as [b|]; [|reflexivity]. unfold System.with_reg, System.bad.
      destruct (rget s a) as [h|]; [|reflexivity]. destruct (has_pending M h); [reflexivity|].
      destruct (subtree_at (htree h) path) as [t|]; [|reflexivity].
      apply leaves_bind. intros [e|b']; [destruct e|]; reflexivity.
    - destruct (bslot s) as [b|]; [|reflexivity]. apply leaves_bind. intros [e|[[t dd] ln]]; [reflexivity|].
      apply leaves_bind. intros root. apply leaves_bind. intros z. apply leaves_bind. intros r2. reflexivity.
  Qed.
  Theorem builder_regs_frame (s : sys) o st r s' st' : builder_op o = true ->
    run (step s o) st = (Ok (r, s'), st') -> regs s' = regs s.
  Proof.
    intros Hb E. apply (leaves_run _ _ (step_builder_leaves s o Hb) st (r, s')). rewrite E. reflexivity.
  Qed.

  Lemma step_bop_allocp (s : sys) o : bop_alloc o = true -> allocp (step s o).
  Proof.
    intros Hb. destruct o; cbn [bop_alloc] in Hb; try discriminate Hb; cbn [System.step].
    - apply allocp_bind; [apply allocp_try, allocp_new|]. intros [e|b]; exact I.
    - destruct (bslot s) as [b|]; [|exact I]. apply allocp_bind; [apply allocp_try, allocp_push|].
      intros [e|b']; [destruct e|]; exact I.
    - destruct (bslot s) as [b|]; [|exact I]. unfold System.with_reg, System.bad.
      destruct (rget s a) as [h|]; [|exact I]. destruct (has_pending M h); [exact I|].
      destruct (subtree_at (htree h) path) as [t|]; [|exact I].
      apply allocp_bind; [apply allocp_try, allocp_push_node|]. intros [e|b']; [destruct e|]; exact I.
  Qed.

  (* OBNew, OBPush, OBPushNode in ANY state: registers untouched, the memo table literally unchanged, and
     therefore the system invariant survives with the same abstract registers *)
  Theorem bop_frame st (s : sys) o r s' st' : bop_alloc o = true -> run (step s o) st = (Ok (r, s'), st') ->
    regs s' = regs s /\ alloc_only st st' /\ forall a, SysInv st s a -> SysInv st' s' a.
  Proof.
    intros Hb E.
    assert (R : regs s' = regs s) by (eapply builder_regs_frame; [|exact E]; destruct o; try discriminate Hb; reflexivity).
    assert (A : alloc_only st st').
    { pose proof (allocp_run _ (step_bop_allocp s o Hb) st) as A. rewrite E in A. exact A. }
    split; [exact R|]. split; [exact A|]. intros a I. apply (SysInv_regs st' s s' a R). eapply SysInv_alloc; eauto.
  Qed.
  (* whatever the outcome (also when OBPushNode panics) the shared state was only allocated in *)
  Theorem bop_alloc_only st (s : sys) o : bop_alloc o = true -> alloc_only st (snd (run (step s o) st)).
  Proof. intros Hb. apply allocp_run, step_bop_allocp, Hb. Qed.

  (* OBNew and OBPush never panic, in any state and whatever the builder slot holds *)
  Lemma nocrash_merge_n n : forall (top : tree) st, nocrash (merge_n n top st).
  Proof.
    induction n as [|n IH]; intros top st; cbn [merge_n]; [exact I|].
    destruct st as [|[f0 l0] st']; [exact I|]. cbn [bind fresh nocrash]. intros i. apply IH.
  Qed.
  Lemma nocrash_push b v : nocrash (builder_push ek b v).
  Proof.
    unfold builder_push. cbv beta zeta. destruct (blength b =? bcap b); [exact I|]. apply nocrash_bind.
    - destruct (is_packed ek).
      + destruct (blength b mod pf_of ek =? 0); [cbn [bind fresh nocrash]; auto|].
        destruct (bstack b) as [|[[|] [i0 v0|i0 vs0|i0 l0 r0|i0 d0]] st]; try exact I.
        destruct (lenN vs0 =? pf_of ek); exact I.
      + cbn [bind fresh nocrash]. auto.
    - intros [top st]. apply nocrash_bind; [apply nocrash_merge_n|]. intros [top' st']. exact I.
  Qed.
  Lemma nocrash_new depth level : nocrash (builder_new ek depth level).
  Proof. unfold builder_new. cbv beta zeta. destruct (63 <? depth + N.of_nat (pd_of ek)); exact I. Qed.
  Lemma step_bop_total (s : sys) o : bop_nm o = true -> total (step s o).
  Proof.
    intros Hb. destruct o; cbn [bop_nm] in Hb; try discriminate Hb; cbn [System.step].
    - apply total_bind; [apply total_try, nocrash_new|]. intros [e|b]; exact I.
    - destruct (bslot s) as [b|]; [|exact I]. apply total_bind; [apply total_try, nocrash_push|].
      intros [e|b']; [destruct e|]; exact I.
  Qed.
  Theorem bop_step st (s : sys) o : bop_nm o = true ->
    exists r s' st', run (step s o) st = (Ok (r, s'), st') /\ regs s' = regs s /\ alloc_only st st' /\
                     forall a, SysInv st s a -> SysInv st' s' a.
  Proof.
    intros Hb. destruct (total_run _ (step_bop_total s o Hb) st) as ([r s'] & E).
    destruct (run (step s o) st) as [out st'] eqn:Er. cbn [fst] in E. subst out.
    exists r, s', st'. split; [reflexivity|]. eapply bop_frame; [|exact Er]. destruct o; try discriminate Hb; reflexivity.
  Qed.

  (* ---------- interleaving ---------- *)
  (* a history of collection operations and OBNew/OBPush operations, in any order *)
  Definition mixed_ok (o : op) : Prop := op_ok o \/ bop_nm o = true.
  (* the answers to the collection operations of the history *)
  Fixpoint coll_res (os : list op) (rs : list res) : list res :=
    match os, rs with
    | o :: os', r :: rs' => if collection_op o then r :: coll_res os' rs' else coll_res os' rs'
    | _, _ => []
    end.
  Definition coll_ops (os : list op) : list op := filter (fun o => collection_op o) os.

  Lemma bop_nm_not_coll (o : op) : bop_nm o = true -> collection_op o = false.
  Proof. destruct o; cbn; congruence. Qed.

  (* the collection operations of a mixed history are answered within the specification of the collection
     sub-history, started from the same abstract state; the invariant holds at the end *)
  Theorem interleave_refines os : forall st (s : sys) (a : sregs), SysInv st s a -> vals_valid a -> Forall mixed_ok os ->
    exists rs s' st' a', model_run s st os = Some (rs, s', st') /\
      spec_run a (coll_ops os) (coll_res os rs) a' /\ SysInv st' s' a' /\ vals_valid a'.
  Proof.
    induction os as [|o os IH]; intros st s a I Hv Hok; cbn [Refine.model_run].
    - exists [], s, st, a. split; [reflexivity|]. split; [constructor|auto].
    - inversion Hok as [|o' os' Ho Hok']. subst o' os'. destruct Ho as [(Hc & Hw & Hov)|Hb].
      + destruct (step_run ek M H capN vec_based uinv valid EKW UL CAP CF TRI ECO st s a o Hc Hw Hv I)
          as (r & s1 & st1 & a1 & Er & _ & Hs & I1). rewrite Er.
        pose proof (spec_ok_vals_valid ek H capN vec_based valid a o r a1 Hc Hov Hv Hs) as Hv1.
        destruct (IH st1 s1 a1 I1 Hv1 Hok') as (rs & s2 & st2 & a2 & Em & Hr & I2 & Hv2). rewrite Em.
        exists (r :: rs), s2, st2, a2. split; [reflexivity|]. unfold coll_ops. cbn [filter coll_res]. rewrite Hc.
        split; [econstructor; eauto|auto].
      + destruct (bop_step st s o Hb) as (r & s1 & st1 & Er & _ & _ & I1). rewrite Er.
        destruct (IH st1 s1 a (I1 a I) Hv Hok') as (rs & s2 & st2 & a2 & Em & Hr & I2 & Hv2). rewrite Em.
        exists (r :: rs), s2, st2, a2. split; [reflexivity|]. unfold coll_ops. cbn [filter coll_res].
        rewrite (bop_nm_not_coll o Hb). auto.
  Qed.

  Lemma coll_ops_ok os : Forall mixed_ok os -> Forall op_ok (coll_ops os).
  Proof.
    induction 1 as [|o os Ho _ IH]; unfold coll_ops; cbn [filter]; [constructor|].
    destruct Ho as [Ho|Hb].
    - destruct Ho as (Hc & R). rewrite Hc. constructor; [split; assumption|exact IH].
    - rewrite (bop_nm_not_coll o Hb). exact IH.
  Qed.

  (* ... hence exactly as the history without the builder operations answers them, wherever the specification
     is functional (always, except for the SSZ decoders and `==` on dirty handles) *)
  Theorem interleave_same_answers os st (s : sys) (a : sregs) : SysInv st s a -> vals_valid a -> Forall mixed_ok os ->
    exists rs s1 st1 a1 rs0 s0 st0 a0,
      model_run s st os = Some (rs, s1, st1) /\ model_run s st (coll_ops os) = Some (rs0, s0, st0) /\
      spec_run a (coll_ops os) (coll_res os rs) a1 /\ spec_run a (coll_ops os) rs0 a0 /\
      SysInv st1 s1 a1 /\ SysInv st0 s0 a0 /\
      (spec_run_det a (coll_ops os) rs0 a0 -> coll_res os rs = rs0 /\ a1 = a0) /\
      (Forall (fun o => det_op o = true) (coll_ops os) -> coll_res os rs = rs0 /\ a1 = a0).
  Proof.
    intros I Hv Hok.
    destruct (interleave_refines os st s a I Hv Hok) as (rs & s1 & st1 & a1 & E1 & R1 & I1 & _).
    destruct (run_refines_from ek M H capN vec_based uinv valid EKW UL CAP CF TRI ECO (coll_ops os) st s a I Hv (coll_ops_ok os Hok))
      as (rs0 & s0 & st0 & a0 & E0 & R0 & I0 & _).
    exists rs, s1, st1, a1, rs0, s0, st0, a0. repeat (split; [assumption|]). split.
    - intros Hd. destruct (spec_run_det_unique ek H capN vec_based valid _ _ _ _ Hd _ _ R1) as [<- <-]. auto.
    - intros Hd. pose proof (spec_run_det_of ek H capN vec_based valid _ _ _ _ Hd R0) as Hd0.
      destruct (spec_run_det_unique ek H capN vec_based valid _ _ _ _ Hd0 _ _ R1) as [<- <-]. auto.
  Qed.
  (* ---------- the builder half of an interleaved session ---------- *)
  (* tree_hash never fails on a tree whose packed leaves are not over-full, whatever the memo table holds *)
  Lemma tree_hash_total R : forall (t : tree) s, packed_ok ek t ->
    wp R (tree_hash ek H t) (fun o s' => exists h, o = Ok h /\ next s' = next s) s.
  Proof.
    unfold packed_ok.
    induction t as [i v|i vs|i l IHl r IHr|i z]; intros s P; cbn [tree_hash wp shape spacked_ok] in *.
    - intros e _. destruct (e =? 0); cbn [negb wp]; eexists; split; reflexivity.
    - intros e _. destruct (e =? 0); cbn [negb wp]; [|eexists; split; reflexivity].
      destruct (N.ltb_spec (pf_of ek) (lenN vs)) as [L|L]; [lia|]. cbn [wp]. eexists; split; reflexivity.
    - destruct P as [Pl Pr]. intros e _. destruct (e =? 0); cbn [negb wp]; [|eexists; split; reflexivity].
      eapply wp_mono; [|apply (IHl s Pl)]. intros [a|e1|c1] s1 (h1 & E1 & N1); try discriminate.
      eapply wp_mono; [|apply (IHr s1 Pr)]. intros [b|e2|c2] s2 (h2 & E2 & N2); try discriminate.
      cbn [wp]. eexists; split; [reflexivity|cbn [mset next]; congruence].
    - eexists; split; reflexivity.
  Qed.

  (* OBFinish after an interleaved session: everything but the value of the root (the memo table may have been
     written by the collection operations in between; that they write no memo of a builder node is not
     covered by Refine.step_refines) *)
  Lemma step_finish_shape (s : sys) st s0 b d vs : bslot s = Some b -> bshape s0 st b d vs ->
    (d + pd_of ek <= 63)%nat -> lenN vs <= cap ek d ->
    exists t root st', run (step s OBFinish) st = (Ok (RFinish d (lenN vs) t root true, bset s None), st') /\
                       shape t = canon ek d vs.
  Proof.
    intros Eb (SI & BR & HL & HD & HC & HV) Hd Hl.
    assert (Hfin : pfinish ek (shb b) = Ok (canon ek d vs, d, lenN vs)).
    { pose proof (pfinish_ok ek (shb b) vs BR) as P. cbn [shb plength pcap pdepth plevel] in P. rewrite HD in P.
      apply P; auto. rewrite HC. exact Hl. }
    assert (W : wp Rexact (step s OBFinish)
                  (fun o _ => exists t root, o = Ok (RFinish d (lenN vs) t root true, bset s None) /\ shape t = canon ek d vs) st).
    { cbn [System.step]. rewrite Eb. apply wp_bind. apply wp_try.
      eapply wp_mono; [|apply (finish_sim ek Rexact s0 [] b st SI)].
      intros o st1. rewrite Hfin. intros (f & t & -> & Hsh & _). cbn [lift].
      apply wp_bind. eapply wp_mono; [|apply (tree_hash_total Rexact t st1)].
      2:{ unfold packed_ok. rewrite Hsh. apply canon_packed_ok. exact Hl. }
      intros o st2 (h & -> & _). cbn [lift]. cbn [bind fresh wp].
      assert (He : elems t = vs) by (unfold elems; rewrite Hsh; apply selems_canon; exact Hl).
      rewrite He. apply wp_bind. apply wp_try.
      eapply wp_mono; [|apply (incremental_canon_alloc ek d vs (next st2) Rexact (bump st2) Hl)].
      intros o st4 (t2 & -> & Hs2 & _). cbn [lift wp]. exists t, h.
      rewrite (tree_eqb_shape ek EKW t t2) by congruence. auto. }
    apply wp_run in W. destruct (run (step s OBFinish) st) as [o st']. cbn [fst snd] in W.
    destruct W as (t & root & -> & Hsh). eauto.
  Qed.

  (* the answers to the builder operations of the history *)
  Fixpoint bop_res (os : list op) (rs : list res) : list res :=
    match os, rs with
    | o :: os', r :: rs' => if collection_op o then bop_res os' rs' else r :: bop_res os' rs'
    | _, _ => []
    end.
  Definition bop_ops (os : list op) : list op := filter (fun o => negb (collection_op o)) os.

  Lemma interleave_pushes d os : forall st (s : sys) (a : sregs) b s0 vs1 vs2,
    SysInv st s a -> vals_valid a -> Forall mixed_ok os -> bop_ops os = map (fun v => OBPush v) vs2 ->
    bslot s = Some b -> bshape s0 st b d vs1 -> lenN (vs1 ++ vs2) <= cap ek d ->
    exists rs s' st' a' b', model_run s st os = Some (rs, s', st') /\ bop_res os rs = map (fun _ => ROk) vs2 /\
      spec_run a (coll_ops os) (coll_res os rs) a' /\ SysInv st' s' a' /\ vals_valid a' /\
      bslot s' = Some b' /\ bshape s0 st' b' d (vs1 ++ vs2).
  Proof.
    induction os as [|o os IH]; intros st s a b s0 vs1 vs2 I Hv Hok Hbo Eb BS Hl; cbn [Refine.model_run].
    - destruct vs2 as [|v vs2]; [|discriminate Hbo]. rewrite app_nil_r.
      exists [], s, st, a, b. split; [reflexivity|]. split; [reflexivity|]. split; [constructor|auto].
    - inversion Hok as [|o' os' Ho Hok']. subst o' os'. destruct Ho as [(Hc & Hw & Hov)|Hb].
      + unfold bop_ops in Hbo. cbn [filter] in Hbo. rewrite Hc in Hbo. cbn [negb] in Hbo.
        destruct (step_run ek M H capN vec_based uinv valid EKW UL CAP CF TRI ECO st s a o Hc Hw Hv I)
          as (r & s1 & st1 & a1 & Er & Hbs & Hs & I1). rewrite Er.
        pose proof (spec_ok_vals_valid ek H capN vec_based valid a o r a1 Hc Hov Hv Hs) as Hv1.
        pose proof (run_next_mono (step s o) st) as Hn. rewrite Er in Hn. cbn [snd] in Hn.
        destruct (IH st1 s1 a1 b s0 vs1 vs2 I1 Hv1 Hok' Hbo) as (rs & s2 & st2 & a2 & b2 & Em & Hbr & Hr & I2 & Hv2 & Eb2 & BS2).
        { rewrite Hbs. exact Eb. }
        { eapply bshape_mono; eauto. }
        { exact Hl. }
        rewrite Em. exists (r :: rs), s2, st2, a2, b2. split; [reflexivity|].
        unfold coll_ops. cbn [filter coll_res bop_res]. rewrite Hc.
        split; [exact Hbr|]. split; [econstructor; eauto|auto].
      + pose proof (bop_nm_not_coll o Hb) as Hc. unfold bop_ops in Hbo. cbn [filter] in Hbo. rewrite Hc in Hbo. cbn [negb] in Hbo.
        destruct vs2 as [|v vs2]; [discriminate Hbo|]. cbn [map] in Hbo. injection Hbo as -> Hbo.
        destruct (step_push_ok s st s0 b d vs1 v Eb BS) as (b1 & st1 & Er & A1 & BS1).
        { rewrite lenN_app, lenN_cons in Hl. lia. }
        rewrite Er.
        assert (I1 : SysInv st1 (bset s (Some b1)) a).
        { apply (SysInv_regs st1 s); [reflexivity|]. eapply SysInv_alloc; eauto. }
        destruct (IH st1 (bset s (Some b1)) a b1 s0 (vs1 ++ [v]) vs2 I1 Hv Hok' Hbo eq_refl BS1)
          as (rs & s2 & st2 & a2 & b2 & Em & Hbr & Hr & I2 & Hv2 & Eb2 & BS2).
        { rewrite <- app_assoc. exact Hl. }
        rewrite Em. exists (ROk :: rs), s2, st2, a2, b2. split; [reflexivity|].
        unfold coll_ops. cbn [filter coll_res bop_res collection_op map]. rewrite Hbr.
        rewrite <- app_assoc in BS2. cbn [app] in BS2. auto 10.
  Qed.

  (* a value session (without its OBFinish) interleaved in any way with collection operations: the builder
     operations answer as in the uninterrupted session, the collection operations within their specification
     (see interleave_same_answers), the invariant holds, and a following OBFinish returns a tree of the right shape *)
  Theorem interleave_session d vs os : forall st (s : sys) (a : sregs), SysInv st s a -> vals_valid a -> Forall mixed_ok os ->
    bop_ops os = OBNew (N.of_nat d) 0 :: map (fun v => OBPush v) vs ->
    (d + pd_of ek <= 63)%nat -> lenN vs <= cap ek d ->
    exists rs s' st' a' b s0, model_run s st os = Some (rs, s', st') /\
      bop_res os rs = ROk :: map (fun _ => ROk) vs /\
      spec_run a (coll_ops os) (coll_res os rs) a' /\ SysInv st' s' a' /\ vals_valid a' /\
      bslot s' = Some b /\ bshape s0 st' b d vs /\
      exists t root st2, run (step s' OBFinish) st' = (Ok (RFinish d (lenN vs) t root true, bset s' None), st2) /\
                         shape t = canon ek d vs.
  Proof.
    induction os as [|o os IH]; intros st s a I Hv Hok Hbo Hd Hl; [discriminate Hbo|]. cbn [Refine.model_run].
    inversion Hok as [|o' os' Ho Hok']. subst o' os'. destruct Ho as [(Hc & Hw & Hov)|Hb].
    - unfold bop_ops in Hbo. cbn [filter] in Hbo. rewrite Hc in Hbo. cbn [negb] in Hbo.
      destruct (step_run ek M H capN vec_based uinv valid EKW UL CAP CF TRI ECO st s a o Hc Hw Hv I)
        as (r & s1 & st1 & a1 & Er & Hbs & Hs & I1). rewrite Er.
      pose proof (spec_ok_vals_valid ek H capN vec_based valid a o r a1 Hc Hov Hv Hs) as Hv1.
      destruct (IH st1 s1 a1 I1 Hv1 Hok' Hbo Hd Hl) as (rs & s2 & st2 & a2 & b2 & s0 & Em & Hbr & Hr & I2 & Hv2 & Eb2 & BS2 & Fin).
      rewrite Em. exists (r :: rs), s2, st2, a2, b2, s0. split; [reflexivity|].
      unfold coll_ops. cbn [filter coll_res bop_res]. rewrite Hc.
      split; [exact Hbr|]. split; [econstructor; eauto|auto 10].
    - pose proof (bop_nm_not_coll o Hb) as Hc. unfold bop_ops in Hbo. cbn [filter] in Hbo. rewrite Hc in Hbo. cbn [negb] in Hbo.
      injection Hbo as -> Hbo. rewrite (run_new_ok s st d Hd).
      destruct (interleave_pushes d os st (bset s (Some (bnew d))) a (bnew d) st [] vs
                  (SysInv_regs st s (bset s (Some (bnew d))) a eq_refl I) Hv Hok' Hbo eq_refl (bshape_new st d) Hl)
        as (rs & s2 & st2 & a2 & b2 & Em & Hbr & Hr & I2 & Hv2 & Eb2 & BS2).
      rewrite Em. exists (ROk :: rs), s2, st2, a2, b2, st. split; [reflexivity|].
      unfold coll_ops. cbn [filter coll_res bop_res collection_op]. rewrite Hbr. cbn [app] in BS2.
      split; [reflexivity|]. split; [exact Hr|]. split; [exact I2|]. split; [exact Hv2|]. split; [exact Eb2|]. split; [exact BS2|].
      eapply step_finish_shape; eauto.
  Qed.

  (* ====================================================================================== *)
  (* 3. subtree sessions: OBNew d L ; OBPushNode a path_1 ; ... ; OBPushNode a path_k ; OBFinish *)
  (* ====================================================================================== *)
  (* what List::pop_front does with the Internal items of its level iterator: the subtrees u_j at the given
     paths of the (flushed) handle in register a are the consecutive level-L blocks of `rest`
     (Defs.items_blocks, the hypothesis of BuilderP.feed_canon_full) *)
  Definition node_session (d L a : nat) (paths : list (list bool)) : list op :=
    OBNew (N.of_nat d) (N.of_nat L) :: map (fun p => OBPushNode a p) paths ++ [OBFinish].

  (* OBPushNode passes compute_len of the node; Builder::push_node is fed 2^L for all nodes but the last by pop_front *)
  Fixpoint nonlast_full (L : nat) (us : list tree) : Prop :=
    match us with [] => True | u :: r => (r <> [] -> compute_len u = pow2 L) /\ nonlast_full L r end.

  Lemma internal_nodes_map (us : list tree) : internal_nodes (map (fun u => LInternal u) us) = us.
  Proof. induction us as [|u us IH]; cbn [map internal_nodes flat_map app]; [reflexivity|]. f_equal. exact IH. Qed.

  Lemma items_blocks_nonlast L (us : list tree) : (pd_of ek <= L)%nat -> forall rest,
    items_blocks ek L (map (fun u => LInternal u) us) rest -> nonlast_full L us.
  Proof.
    intros Hpd. induction us as [|u us IH]; intros rest IB; cbn [nonlast_full map] in *; [exact I|].
    inversion IB as [|u' blk items rest' Hne Hsh Hlen IB'|]; subst. split; [|eapply IH; eauto].
    intros Hr.
    assert (E : lenN blk = pow2 L).
    { destruct Hlen as [E|[-> _]]; [exact E|]. exfalso. destruct us as [|u2 us]; [congruence|]. cbn [map] in IB'.
      inversion IB' as [|u3 blk3 items3 rest3 Hne3 _ _ _ E3|]. destruct blk3; [congruence|discriminate]. }
    rewrite compute_len_elems. unfold elems. rewrite Hsh, selems_canon; [exact E|].
    unfold cap. replace (L - pd_of ek + pd_of ek)%nat with L by lia. lia.
  Qed.

  Lemma gok_add_subtrees st (G X : list tree) : gok st G -> (forall u, In u X -> subt_in u G) -> gok st (X ++ G).
  Proof.
    intros (IDF & BV & MB) HX.
    assert (HXG : forall t, In t (X ++ G) -> subt_in t G).
    { intros t Ht. apply in_app_or in Ht. destruct Ht as [Ht|Ht]; [apply HX; exact Ht|apply subt_in_here; exact Ht]. }
    split; [apply (IntraP.idf_sub G); assumption|]. split; [|exact MB].
    intros t Ht. split.
    - apply (below_in _ G); [intros t0 H0; apply BV, H0|apply HXG, Ht].
    - apply (mvalid_in ek H st G); [intros t0 H0; apply BV, H0|apply HXG, Ht].
  Qed.

  Lemma run_push_nodes L a (h : handle) : has_pending M h = false -> forall paths us,
    Forall2 (fun p u => subtree_at (htree h) p = Some u) paths us -> nonlast_full L us ->
    forall (s : sys) st b b' st', rget s a = Some h -> bslot s = Some b ->
    run (pop_front_feed ek (map (fun u => LInternal u) us) L b) st = (Ok b', st') ->
    exists s', model_run s st (map (fun p => OBPushNode a p) paths) = Some (map (fun _ => ROk) paths, s', st') /\
               regs s' = regs s /\ bslot s' = Some b'.
  Proof.
    intros Hp paths us F. induction F as [|p u paths us Hsub F IH]; intros NF s st b b' st' Eh Eb Er;
      cbn [map Refine.model_run pop_front_feed] in *.
    - injection Er as <- <-. exists s. auto.
    - destruct NF as [Hlen NF]. cbv zeta in Er.
      assert (Esub : (if match map (fun u => LInternal u) us with [] => true | _ => false end then compute_len u else pow2 L)
                     = compute_len u).
      { destruct us; cbn [map]; [reflexivity|]. symmetry. apply Hlen. discriminate. }
      rewrite Esub, run_bind in Er.
      destruct (run (builder_push_node ek b u (compute_len u)) st) as [[b1|e|c] st1] eqn:E1; try discriminate.
      assert (Es : run (step s (OBPushNode a p)) st = (Ok (ROk, bset s (Some b1)), st1)).
      { cbn [System.step]. rewrite Eb. unfold System.with_reg. rewrite Eh, Hp, Hsub.
        rewrite run_bind, (run_try_ok _ _ _ _ E1). reflexivity. }
      rewrite Es. destruct (IH NF (bset s (Some b1)) st1 b1 b' st' Eh eq_refl Er) as (s' & Em & R & B).
      rewrite Em. exists s'. auto.
  Qed.

  Lemma Forall2_In_r {A B} (P : A -> B -> Prop) l l' : Forall2 P l l' -> forall y, In y l' -> exists x, In x l /\ P x y.
  Proof.
    induction 1 as [|x y l l' Hxy _ IH]; intros z Hz; [destruct Hz|].
    destruct Hz as [<-|Hz]; [exists x; split; [left; reflexivity|exact Hxy]|].
    destruct (IH z Hz) as (x' & Hx' & Hp). exists x'. split; [right; exact Hx'|exact Hp].
  Qed.

  Theorem node_session_ok st (s : sys) (ar : sregs) d L a (h : handle) paths (us : list tree) rest :
    SysInv st s ar -> rget s a = Some h -> has_pending M h = false ->
    Forall2 (fun p u => subtree_at (htree h) p = Some u) paths us ->
    items_blocks ek L (map (fun u => LInternal u) us) rest ->
    (d + pd_of ek <= 63)%nat -> ((pd_of ek <= L)%nat \/ (L = O /\ us = [])) -> (L <= d + pd_of ek)%nat ->
    lenN rest <= cap ek d ->
    exists t s' st',
      model_run s st (node_session d L a paths) =
        Some (ROk :: map (fun _ => ROk) paths ++ [RFinish d (lenN rest) t (shash ek H (canon ek d rest)) true], s', st') /\
      shape t = canon ek d rest /\
      (* the pushed subtrees are shared with the source, everything else is new *)
      (forall u, In u us -> subt u t) /\ fresh_or_from st st' us t /\
      regs s' = regs s /\ bslot s' = None /\ SysInv st' s' ar /\ gok st' (t :: live_trees s').
  Proof.
    intros I Eh Hp F IB Hd Hcase HL Hl.
    pose proof (internal_nodes_map us) as Ein.
    assert (NF : nonlast_full L us).
    { destruct Hcase as [Hpd|[_ ->]]; [eapply items_blocks_nonlast; eauto|exact Logic.I]. }
    assert (Hcase' : (pd_of ek <= L)%nat \/ (L = O /\ internal_nodes (map (fun u => LInternal u) us) = [])).
    { rewrite Ein. exact Hcase. }
    pose proof (wp_run _ _ _ (feed_canon_full ek d L (map (fun u => LInternal u) us) rest Rexact st Hd Hcase' HL IB Hl)) as W.
    rewrite (builder_new_ok ek d (N.of_nat L) Hd) in W. cbn [bind] in W. rewrite run_bind in W.
    set (b0 := {| bstack := []; bdepth := d; blevel := N.of_nat L; blength := 0; bcap := pow2 (d + pd_of ek) |}) in *.
    destruct (run (pop_front_feed ek (map (fun u => LInternal u) us) L b0) st) as [[b'|e|c] st1] eqn:E1; cbn [fst snd] in W;
      [|destruct W as (t & Habs & _); discriminate Habs..].
    destruct (run (builder_finish ek b') st1) as [o st2] eqn:E2. cbn [fst snd] in W.
    destruct W as (t & -> & Hsh & AO & FF & Hidf & Hret). rewrite Ein in *.
    (* the family: the live trees and the pushed subtrees *)
    pose proof (SysInv_gok _ _ _ _ _ _ _ _ I) as G0.
    assert (Hsubs : forall u, In u us -> subt_in u (live_trees s)).
    { intros u Hu. destruct (Forall2_In_r _ _ _ F u Hu) as (p & _ & Hsub). exists (htree h).
      split; [eapply rget_live; eauto|eapply subtree_at_subt; eauto]. }
    pose proof (gok_add_subtrees st (live_trees s) us G0 Hsubs) as GU.
    assert (IDt : idf [t]).
    { eapply idf_incl_o; [apply Hidf|].
      - eapply idf_incl_o; [apply GU|]. intros x Hx. apply in_or_app. left. exact Hx.
      - intros u Hu. destruct GU as (_ & BV & _). apply BV. apply in_or_app. left. exact Hu.
      - intros x [<-|[]]. left. reflexivity. }
    assert (IDF' : idf (t :: us ++ live_trees s)).
    { destruct GU as (IDFU & BVU & _). apply (idf_cons_fresh st st2 (us ++ live_trees s) us t); auto.
      - intros t0 Ht0. apply BVU, Ht0.
      - intros t0 Ht0. apply in_or_app. left. exact Ht0. }
    assert (G2 : gok st2 (t :: live_trees s)).
    { eapply gok_incl; [apply (gok_alloc_idf ek H st st2 (us ++ live_trees s) us t GU AO)|]; auto.
      - intros t0 Ht0. apply in_or_app. left. exact Ht0.
      - intros x [<-|Hx]; [left; reflexivity|right; apply in_or_app; right; exact Hx]. }
    (* the run *)
    unfold node_session. cbn [Refine.model_run].
    assert (En : run (step s (OBNew (N.of_nat d) (N.of_nat L))) st = (Ok (ROk, bset s (Some b0)), st)).
    { cbn [System.step]. rewrite (builder_new_ok ek d (N.of_nat L) Hd). reflexivity. }
    rewrite En.
    destruct (run_push_nodes L a h Hp paths us F NF (bset s (Some b0)) st b0 b' st1 Eh eq_refl E1) as (s1 & Em & R1 & B1).
    cbn [bset regs] in R1. rewrite (model_run_app _ _ _ _ _ _ _ Em). cbn [Refine.model_run].
    rewrite (step_finish_unfold s1 b' B1), run_bind, (run_try_ok _ _ _ _ E2).
    pose proof (wp_run _ _ _ (finish_tail_wp st2 (bset s1 None) (live_trees s) t d rest G2 Hsh Hl)) as W2.
    destruct (run (finish_tail (bset s1 None) t d (lenN rest)) st2) as [o3 st3]. cbn [fst snd] in W2.
    destruct W2 as (-> & G3 & Hn3 & _).
    exists t, (bset s1 None), st3. split; [reflexivity|]. split; [exact Hsh|]. split; [exact Hret|].
    split; [eapply fof_mono; eauto|]. split; [exact R1|]. split; [reflexivity|].
    rewrite (live_trees_regs s (bset s1 None) R1). split; [|exact G3].
    apply (SysInv_regs st3 s); [exact R1|]. eapply SysInv_state; [exact I|]. eapply gok_forget; eauto.
  Qed.

  (* value sessions from every reachable state *)
  Corollary value_session_reachable (s : sys) st d vs : reachable ek M H capN vec_based valid s st ->
    (d + pd_of ek <= 63)%nat -> lenN vs <= cap ek d ->
    exists a t s' st',
      SysInv st s a /\
      model_run s st (value_session d vs) =
        Some (ROk :: map (fun _ => ROk) vs ++ [RFinish d (lenN vs) t (shash ek H (canon ek d vs)) true], s', st') /\
      shape t = canon ek d vs /\ regs s' = regs s /\ bslot s' = None /\ SysInv st' s' a.
  Proof.
    intros Hr Hd Hl. destruct (reachable_inv ek M H capN vec_based uinv valid EKW UL CAP CF TRI ECO s st Hr) as (a & I & _).
    destruct (value_session_ok st s a d vs I Hd Hl) as (t & s' & st' & E & Hsh & R & B & I' & _). exists a, t, s', st'. auto 10.
  Qed.
End BuilderSys.

(* ====================================================================================== *)
(* closed instance: List<u64>-style builder over VecMap, hash Hc                           *)
(* ====================================================================================== *)
Definition Mvec : umap_impl U64 (vecmap U64) := @vecmap_impl U64.

Theorem value_session_u64 (capN : N) (vec_based : bool) st (s : @sys U64 (vecmap U64)) a d vs :
  SysInv (ek_uintW 3) Mvec Hc capN (fun _ => True) st s a ->
  (d + pd_of (ek_uintW 3) <= 63)%nat -> lenN vs <= cap (ek_uintW 3) d ->
  exists t s' st',
    model_run (ek_uintW 3) Mvec Hc capN vec_based s st (value_session d vs) =
      Some (ROk :: map (fun _ => ROk) vs ++ [RFinish d (lenN vs) t (merkleize Hc d (HashP.chunks (ek_uintW 3) vs)) true], s', st') /\
    shape t = canon (ek_uintW 3) d vs /\ regs s' = regs s /\ bslot s' = None /\
    SysInv (ek_uintW 3) Mvec Hc capN (fun _ => True) st' s' a.
Proof. apply (value_session_root (ek_uintW 3) Mvec Hc capN vec_based (fun _ => True) ek_u64W_wf). Qed.

Theorem interleave_same_answers_u64 (capN : N) (vec_based : bool) : capacity_ok capN ->
  forall os st (s : @sys U64 (vecmap U64)) a,
  SysInv (ek_uintW 3) Mvec Hc capN (fun _ => True) st s a -> vals_valid (fun _ => True) a ->
  Forall (mixed_ok (ek_uintW 3) (fun _ => True)) os ->
  exists rs s1 st1 a1 rs0 s0 st0 a0,
    model_run (ek_uintW 3) Mvec Hc capN vec_based s st os = Some (rs, s1, st1) /\
    model_run (ek_uintW 3) Mvec Hc capN vec_based s st (coll_ops os) = Some (rs0, s0, st0) /\
    spec_run (ek_uintW 3) Hc capN vec_based (fun _ => True) a (coll_ops os) (coll_res os rs) a1 /\
    spec_run (ek_uintW 3) Hc capN vec_based (fun _ => True) a (coll_ops os) rs0 a0 /\
    SysInv (ek_uintW 3) Mvec Hc capN (fun _ => True) st1 s1 a1 /\ SysInv (ek_uintW 3) Mvec Hc capN (fun _ => True) st0 s0 a0 /\
    (spec_run_det (ek_uintW 3) Hc capN vec_based (fun _ => True) a (coll_ops os) rs0 a0 -> coll_res os rs = rs0 /\ a1 = a0) /\
    (Forall (fun o => det_op o = true) (coll_ops os) -> coll_res os rs = rs0 /\ a1 = a0).
Proof.
  intros CAP os st s a. apply (interleave_same_answers (ek_uintW 3) Mvec Hc capN vec_based (fun _ => True) (fun _ => True)
    ek_u64W_wf (vecmap_lawful (ek_uintW 3)) CAP Hc_collision_free (ek_uintW_troot_inj 3) (ek_uintW_codec_on 3)).
Qed.

(* a concrete session, evaluated by the kernel: depth 3 (capacity 32 values of u64, 8 chunks), five values *)
Definition w64 (n : N) : U64 := match mkW (wbits (Nat.pow 2 3)) n with Some v => v | None => W0 _ end.
Definition vs5 : list U64 := [w64 11; w64 22; w64 33; w64 44; w64 55].

(* The answers are projected to plain numbers before they are compared (`res_map wval`): normalising a goal whose
   *types* mention U64 = {n | n <? 2^64 = true} makes `vm_compute` go under the binder of the subset type, where
   `n <? 2^64` unfolds into a match with 2^64 cases. *)
Fixpoint tree_map {A B} (f : A -> B) (t : tree A) : tree B :=
  match t with
  | Leaf i v => Leaf i (f v) | Packed i vs => Packed i (map f vs)
  | Node i l r => Node i (tree_map f l) (tree_map f r) | Zero i d => Zero i d
  end.
Definition res_map {A B} (f : A -> B) (r : @res A) : @res B :=
  match r with
  | ROk => ROk | RVal v => RVal (option_map f v) | RNum n => RNum n | RSome b => RSome b | RBool b => RBool b
  | RIter vs hs => RIter (map f vs) hs
  | RLevel items => RLevel (map (fun it => (fst it, map f (snd it))) items)
  | RBytes b n => RBytes b n | RVals vs => RVals (map f vs) | RHash d => RHash d | RHashes ds => RHashes ds
  | RFinish d n t root inc => RFinish d n (tree_map f t) root inc
  | RErr e => RErr e
  end.
Definition root5 : digest := merkleize Hc 3 (HashP.chunks (ek_uintW 3) vs5).
Example session_u64_computed :
  option_map (fun x => map (res_map (@wval _)) (fst (fst x)))
    (model_run (ek_uintW 3) Mvec Hc 8 true init_sys init_state (value_session 3 vs5)) =
  Some [ROk; ROk; ROk; ROk; ROk; ROk;
        RFinish 3 5 (Node 7%positive (Node 5%positive (Node 3%positive (Packed 1%positive [11; 22; 33; 44]) (Packed 2%positive [55])) (Zero 4%positive 1)) (Zero 6%positive 2)) root5 true].
Proof. vm_compute. reflexivity. Qed.
Example session_u64_by_theorem :
  exists t s' st',
    model_run (ek_uintW 3) Mvec Hc 8 true init_sys init_state (value_session 3 vs5) =
      Some (ROk :: map (fun _ => ROk) vs5 ++ [RFinish 3 (lenN vs5) t (merkleize Hc 3 (HashP.chunks (ek_uintW 3) vs5)) true], s', st') /\
    shape t = canon (ek_uintW 3) 3 vs5 /\ regs s' = regs init_sys /\ bslot s' = None /\
    SysInv (ek_uintW 3) Mvec Hc 8 (fun _ => True) st' s' init_sregs.
Proof.
  apply (value_session_u64 8 true init_state init_sys init_sregs 3 vs5).
  - apply SysInv_init.
  - vm_compute. lia.
  - vm_compute. discriminate.
Qed.

(* a subtree session on a concrete list: register 0 holds [1..12] (three packed leaves at depth 3); pushing the
   leaves at paths 001 and 010 (level 2 = one packed leaf each) and finishing rebuilds the list without its first
   four values -- the two leaves are shared (identities 2 and 4 are those of the source tree), the root is the
   merkleization of [5..12] *)
Definition vs12 : list U64 := map w64 [1; 2; 3; 4; 5; 6; 7; 8; 9; 10; 11; 12].
Definition root8 : digest := merkleize Hc 3 (HashP.chunks (ek_uintW 3) (dropN 4 vs12)).
Example node_session_u64_computed :
  option_map (fun x => map (res_map (@wval _)) (fst (fst x)))
    (model_run (ek_uintW 3) Mvec Hc 32 true init_sys init_state
       (ONewList 0 vs12 :: node_session 3 2 0 [[false; false; true]; [false; true; false]])) =
  Some [ROk; ROk; ROk; ROk;
        RFinish 3 8 (Node 14%positive (Node 12%positive (Node 10%positive (Packed 2%positive [5; 6; 7; 8])
                                                                         (Packed 4%positive [9; 10; 11; 12]))
                                                       (Zero 11%positive 1)) (Zero 13%positive 2)) root8 true].
Proof. vm_compute. reflexivity. Qed.

Print Assumptions value_session_ok.
Print Assumptions value_session_root.
Print Assumptions value_session_no_panic.
Print Assumptions new_invalid_depth_sys.
Print Assumptions value_session_invalid_depth.
Print Assumptions value_session_full.
Print Assumptions builder_regs_frame.
Print Assumptions bop_frame.
Print Assumptions bop_alloc_only.
Print Assumptions bop_step.
Print Assumptions interleave_refines.
Print Assumptions interleave_same_answers.
Print Assumptions interleave_session.
Print Assumptions value_session_reachable.
Print Assumptions value_session_u64.
Print Assumptions interleave_same_answers_u64.
Print Assumptions session_u64_computed.
Print Assumptions session_u64_by_theorem.
Print Assumptions node_session_ok.
Print Assumptions node_session_u64_computed.
