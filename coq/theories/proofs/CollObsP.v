(* CollObsP.v — handle-level specifications of the observers and codecs of model/Coll.v (task `collobs`).
   Proof file; no model code.  Everything is stated in terms of the plain list `l` a handle represents
   (`hinv ek M capN uinv h l`, `hclean`) and the global state invariant `gok ek H st G` of Inv.v, so that a
   system-level proof can chain the statements: precondition `gok st G` + `hinv` of the handle arguments +
   membership of their trees in `G`; postcondition `gok st' G'` with `G' = htree h' :: G` (or `G`).

   Section assumptions: EKW : ek_wf ek, UL : umap_lawful ek M uinv, CAP : capacity_ok capN; in the sub-sections
   additionally CF : collision_free H and TRI : troot_inj ek (rebase), apply_spec (intra_rebase),
   ECO : ek_codec_on ek valid, build_spec / build_fail / vtf_spec (codecs).

   Exported (see the Print Assumptions list at the end). *)
From Coq Require Import FMapPositive.
From MH Require Import Inv IfaceP IterP HashP CodecP RebaseP IntraP WulP.
Local Open Scope N_scope.

(* ---------- generic facts about wp ---------- *)
Lemma wp_true {A} R (m : prog A) : forall s, wp R m (fun _ _ => True) s.
Proof.
  induction m as [A a|A e|A c|A k IH|A i k IH|A i d k IH|A p IHp q IHq k IHk|A t k IH]; cbn [wp]; intros s; auto.
  eapply wp_mono; [|apply IHp]. intros [a|e|c] s1 _; auto.
  eapply wp_mono; [|apply IHq]. intros [b|e|c] s2 _; auto.
Qed.

(* ---------- generic facts about `idf` and `gok` ---------- *)
Section Gok.
  Context {T : Type}.
  Variable ek : ekind T.
  Variable H : digest -> digest -> digest.
  Notation tree := (tree T).

  Lemma idf_incl (G G' : list tree) : idf G -> incl G' G -> idf G'.
  Proof. intros I Hi t1 t2 u v I1 I2. apply I; apply Hi; assumption. Qed.
  Lemma idf_single (G : list tree) t : idf G -> In t G -> idf [t].
  Proof. intros I Ht. apply (idf_incl G); [exact I|]. intros x [<-|[]]. exact Ht. Qed.
  Lemma idf_pair (G : list tree) t1 t2 : idf G -> In t1 G -> In t2 G -> idf [t1; t2].
  Proof. intros I H1 H2. apply (idf_incl G); [exact I|]. intros x [<-|[<-|[]]]; assumption. Qed.

  Lemma gok_incl st (G G' : list tree) : gok ek H st G -> incl G' G -> gok ek H st G'.
  Proof.
    intros (I & BV & MB) Hi. split; [eapply idf_incl; eauto|]. split; [|exact MB].
    intros t Ht. apply BV, Hi, Ht.
  Qed.
  Lemma gok_below st (G : list tree) t : gok ek H st G -> In t G -> below (next st) t.
  Proof. intros (_ & BV & _) Ht. apply BV, Ht. Qed.
  Lemma gok_mvalid st (G : list tree) t : gok ek H st G -> In t G -> mvalid ek H st t.
  Proof. intros (_ & BV & _) Ht. apply BV, Ht. Qed.
End Gok.

Section CollObsP.
  Context {T U : Type}.
  Variable ek : ekind T.
  Variable M : umap_impl T U.
  Variable H : digest -> digest -> digest.
  Variable capN : N.
  Variable uinv : U -> Prop.
  Hypothesis EKW : ek_wf ek.
  Hypothesis UL : umap_lawful ek M uinv.
  Hypothesis CAP : capacity_ok capN.
  Notation tree := (tree T).
  Notation handle := (handle T U).
  Notation hinv := (hinv ek M capN uinv).
  Notation hclean := (hclean ek M capN uinv).
  Notation gok := (gok ek H).

  (* ====================================================================== *)
  (* 4. Root (C02)                                                           *)
  (* ====================================================================== *)
  (* tree_hash_root of a clean handle is the SSZ hash_tree_root of the list it represents; the global
     invariant is kept for the same family of trees (no allocation; memos only go from absent to true) *)
  Theorem coll_root_spec : forall (h : handle) (l : list T) (st : state) (G : list tree),
    hclean h l -> gok st G -> In (htree h) G ->
    wp Rexact (coll_tree_hash_root ek M H h)
       (fun o st' => o = Ok (ssz_root ek H (hlist h) capN l) /\ gok st' G /\
                     next st' = next st /\ changes ek H st st' (htree h) /\
                     (has_memo (htree h) = true -> mget st' (idof (htree h)) = hash_spec ek H (htree h))) st.
  Proof.
    intros h l st G [HI HP] GK Hin. pose proof GK as (IDF & BV & MB). destruct CAP as [C1 C2].
    eapply wp_mono; [|apply (root_is_ssz_hinv ek H M uinv capN h l st UL C1 C2 HI HP)].
    - intros o st' (Eo & Ch & _ & Hm). split; [exact Eo|]. split; [|split; [apply Ch|split; [exact Ch|exact Hm]]].
      assert (Hn : next st' = next st) by apply Ch.
      split; [exact IDF|]. split.
      + intros t Ht. destruct (BV t Ht) as [B V]. split; [rewrite Hn; exact B|].
        eapply mvalid_changes; [exact Ch| |exact V]. eapply idf_pair; eauto.
      + eapply changes_memo_below; [exact Ch| |exact MB]. apply BV, Hin.
    - eapply idf_single; eauto.
    - apply BV, Hin.
  Qed.

  (* ====================================================================== *)
  (* 5. Rebase (C07)                                                         *)
  (* ====================================================================== *)
  Section RebaseObs.
    Hypothesis CF : collision_free H.
    Hypothesis TRI : troot_inj ek.

    Lemma hs_inj_cf : forall fd n (t1 t2 : tree), wfc ek fd n t1 -> wfc ek fd n t2 ->
      hash_spec ek H t1 = hash_spec ek H t2 -> shape t1 = shape t2.
    Proof. apply hs_inj_from_canon_inj. apply (shash_canon_inj ek H EKW CF TRI). Qed.

    (* List/Vector::rebase_on: the result represents the same list, nothing the plain-sequence
       specification sees changes, and the global invariant holds for the old family extended by the
       (possibly new) tree of the result.  `base` is the same value afterwards; its memos are untouched (frame). *)
    Theorem coll_rebase_spec : forall (h base : handle) (l lb : list T) (st : state) (G : list tree),
      hinv h l -> hinv base lb -> hlist h = hlist base ->
      gok st G -> In (htree h) G -> In (htree base) G ->
      wp Rexact (coll_rebase_on ek h base)
         (fun o st' => exists h', o = Ok h' /\ hinv h' l /\ abs_of M h' l = abs_of M h l /\
                                  hupd h' = hupd h /\ hdepth h' = hdepth h /\
                                  shape (htree h') = shape (htree h) /\
                                  gok st' (htree h' :: G) /\ frame st st' /\
                                  fresh_or_from st st' [htree h; htree base] (htree h')) st.
    Proof.
      intros h base l lb st G HI HIb Hk GK Hin Hinb. pose proof GK as (IDF & BV & MB).
      destruct (BV _ Hin) as [B1 V1]. destruct (BV _ Hinb) as [B2 V2].
      assert (X : xid (htree h) (htree base)) by (apply idf_xid; eapply idf_pair; eauto).
      eapply wp_mono; [|apply (coll_rebase_on_hinv ek H EKW hs_inj_cf M capN uinv h base l lb st CAP HI HIb Hk B1 B2 V1 V2 X)].
      intros o st' [(h' & -> & _ & Eu & Eb & Ed & El & Sh & F & MBk & B' & V' & Fo & Fu) HI'].
      specialize (HI' h' eq_refl). exists h'. split; [reflexivity|]. split; [exact HI'|].
      split; [unfold abs_of, has_pending; rewrite Eu, Eb, El; reflexivity|].
      split; [exact Eu|]. split; [exact Ed|]. split; [exact Sh|]. split; [|split; [exact F|exact Fo]].
      assert (Nx : (next st <= next st')%positive) by apply F.
      split; [|split].
      - apply (idf_install st st'); [intros t0 Ht0; apply BV, Ht0|exact IDF| |exact Fu].
        eapply fof_weaken; [exact Fo|lia|lia|].
        intros t0 [<-|[<-|[]]]; [exists (htree h)|exists (htree base)]; (split; [assumption|apply RebaseP.subt_refl]).
      - intros t [<-|Ht]; [split; assumption|]. destruct (BV t Ht) as [B V].
        split; [eapply below_mono; eauto|eapply mvalid_frame; eauto].
      - apply MBk, MB.
    Qed.
  End RebaseObs.

  (* ====================================================================== *)
  (* 6. Intra (C09)                                                          *)
  (* ====================================================================== *)
  (* the collection kind is never changed (any read relation; no invariant needed) *)
  Lemma apply_updates_hlist R (h : handle) s :
    wp R (apply_updates ek M capN h) (fun o _ => forall (e : option error) (h' : handle), o = Ok (e, h') -> hlist h' = hlist h) s.
  Proof.
    assert (Hsame : forall (e0 : option error) u, forall (e : option error) (h' : handle), Ok (e0, with_upd h u) = Ok (e, h') -> hlist h' = hlist h).
    { intros e0 u e h' E. injection E as _ <-. reflexivity. }
    unfold apply_updates.
    destruct (uis_empty M (hupd h)); [cbn [wp]; intros e h' E; injection E as _ <-; reflexivity|].
    destruct (umax_index M (hupd h)) as [m|]; [|cbn [wp]; apply Hsame].
    destruct (hlist h) eqn:Ek.
    - destruct (capN <=? m); [cbn [wp]; apply Hsame|].
      apply wp_bind. eapply wp_mono; [|apply wp_true]. intros [[e1|t1]|e1|c1] s1 _; cbn [lift wp];
        intros e h' E; try discriminate E; injection E as _ <-; reflexivity.
    - destruct (hblen h <=? m); [cbn [wp]; apply Hsame|].
      apply wp_bind. eapply wp_mono; [|apply wp_true]. intros [[e1|t1]|e1|c1] s1 _; cbn [lift wp];
        intros e h' E; try discriminate E; injection E as _ <-; cbn [with_tree with_upd hlist]; exact Ek.
  Qed.
  Lemma coll_intra_hlist R (h : handle) s :
    wp R (coll_intra_rebase ek M H capN h) (fun o _ => forall (e : option error) (h' : handle), o = Ok (e, h') -> hlist h' = hlist h) s.
  Proof.
    unfold coll_intra_rebase. apply wp_bind. eapply wp_mono; [|apply apply_updates_hlist].
    intros [[e1 h1]|e1|c1] s1 Hl; cbn [lift]; try (intros e h' E; discriminate E).
    specialize (Hl e1 h1 eq_refl). destruct e1 as [e1|]; [cbn [wp]; intros e h' E; injection E as _ <-; exact Hl|].
    apply wp_bind. eapply wp_mono; [|apply wp_true]. intros [d|e2|c2] s2 _; cbn [lift]; try (intros e h' E; discriminate E).
    apply wp_bind. eapply wp_mono; [|apply wp_true].
    intros [[e3|[[|t3] k3]]|e3|c3] s3 _; cbn [lift wp]; intros e h' E; try discriminate E; injection E as _ <-;
      cbn [with_tree hlist]; exact Hl.
  Qed.

  Section IntraObs.
    Hypothesis NZ : nonzero_hash H.
    Hypothesis apply_spec : forall (h : handle) l s, hinv h l ->
      wp Rexact (apply_updates ek M capN h)
         (fun o s' => exists h', o = Ok (None, h') /\ hinv h' l /\ has_pending M h' = false /\
                                 alloc_only s s' /\ fresh_or_from s s' [htree h] (htree h')) s.

    (* List/Vector::intra_rebase: never fails; the result is clean, represents the same list, and the global
       invariant holds for the old family extended by the tree of the result; the root of the result is hashed *)
    Theorem coll_intra_spec_gok : forall (h : handle) (l : list T) (st : state) (G : list tree),
      hinv h l -> gok st G -> In (htree h) G ->
      wp Rexact (coll_intra_rebase ek M H capN h)
         (fun o st' => exists h', o = Ok (None, h') /\ hclean h' l /\ hlist h' = hlist h /\
                                  gok st' (htree h' :: G) /\
                                  (forall i a b, htree h' = Node i a b -> mget st' i = hash_spec ek H (htree h'))) st.
    Proof.
      intros h l st G HI (IDF & BV & MB) Hin.
      eapply wp_mono; [|apply wp_conj;
        [apply (coll_intra_spec_memo ek H EKW NZ M capN uinv CAP apply_spec h l st G HI IDF Hin BV MB)|
         apply (coll_intra_hlist Rexact h st)]].
      intros o st' [(h' & G' & -> & HI' & HP' & Inc & Hin' & IDF' & BV' & MB' & Hm) Hl].
      exists h'. split; [reflexivity|]. split; [split; assumption|]. split; [apply (Hl None h' eq_refl)|].
      split; [|exact Hm].
      assert (Inc' : incl (htree h' :: G) G') by (intros x [<-|Hx]; [exact Hin'|apply Inc, Hx]).
      split; [eapply idf_incl; eauto|]. split; [|exact MB'].
      intros t Ht. apply BV', Inc', Ht.
    Qed.
  End IntraObs.
End CollObsP.

Print Assumptions coll_root_spec.
Print Assumptions coll_rebase_spec.
Print Assumptions coll_intra_hlist.
Print Assumptions coll_intra_spec_gok.
