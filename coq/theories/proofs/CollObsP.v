(* CollObsP.v — handle-level specifications of the observers and codecs of model/Coll.v (task `collobs`).
   Proof file; no model code.  Everything is stated in terms of the plain list `l` a handle represents
   (`hinv ek M capN uinv h l`, `hclean`) and the global state invariant `gok ek H st G` of Inv.v, so that a
   system-level proof can chain the statements: precondition `gok st G` + `hinv` of the handle arguments +
   membership of their trees in `G`; postcondition `gok st' G'` with `G' = htree h' :: G` (or `G`).

   Section assumptions: EKW : ek_wf ek, UL : umap_lawful ek M uinv, CAP : capacity_ok capN; in sub-sections
   additionally CF : collision_free H, TRI : troot_inj ek (rebase); NZ : nonzero_hash H and apply_spec, in the
   exact shape of CollCtorP.apply_spec_hinv (intra_rebase); ECO : ek_codec_on ek valid, and for a fixed read
   relation R the hypotheses build_spec / build_fail on List::try_from_iter (decoders).

   Exported:
   1. reads (equations):  obs_get, obs_len, obs_to_vec, obs_iter_from, obs_level_iter_from,
                          obs_clean_backing, obs_abs_clean
   2. SSZ (C12):          ssz_encode_spec, ssz_bytes_len_spec (equations);
                          list_from_ssz_roundtrip, list_from_ssz_strict_spec,
                          vector_from_ssz_roundtrip, vector_from_ssz_strict_spec
   3. serde (C13):        serde_ser_spec, list_serde_de_ok/_fail, vector_serde_de_ok/_fail
   4. root (C02):         coll_root_spec
   5. rebase (C07):       coll_rebase_spec
   6. intra (C09):        coll_intra_spec_gok, coll_intra_hlist
   auxiliary:             list_empty_clean (List::empty), vector_try_from_clean / as_vector_clean (TryFrom<List>
                          for Vector on a clean list is a pure re-labelling: no `vtf_spec` hypothesis is needed),
                          noset / noset_wp / wp_try_noset (programs without SetMemo and Par only allocate, and
                          try_ catches all their failures), noset_list_try_from_iter, gok_alloc_only_o, gok_incl_o.
   Every decoder statement also gives `alloc_only st st'` and, on failure, `gok st' G`. *)
From Coq Require Import FMapPositive.
From MH Require Import Inv IfaceP IterP HashP CodecP RebaseP IntraP WulP.
Local Open Scope N_scope.

(* ---------- generic facts about wp ---------- *)
Lemma wp_trivial {A} R (m : prog A) : forall s, wp R m (fun _ _ => True) s.
Proof.
  induction m as [A a|A e|A c|A k IH|A i k IH|A i d k IH|A p IHp q IHq k IHk|A t k IH]; cbn [wp]; intros s; auto.
  eapply wp_mono; [|apply IHp]. intros [a|e|c] s1 _; auto.
  eapply wp_mono; [|apply IHq]. intros [b|e|c] s2 _; auto.
Qed.

(* a program without memo writes and without fork-join only allocates, and `try_` catches all its failures *)
Fixpoint noset {A} (m : prog A) : Prop :=
  match m with
  | Ret _ | Fail _ | Crash _ => True
  | Fresh k => forall i, noset (k i)
  | GetMemo _ k => forall d, noset (k d)
  | SetMemo _ _ _ => False
  | Par _ _ _ => False
  | Note _ k => noset k
  end.
Lemma noset_bind {A B} (m : prog A) (f : A -> prog B) : noset m -> (forall a, noset (f a)) -> noset (bind m f).
Proof.
  induction m as [A a|A e|A c|A k IH|A i k IH|A i d k IH|A p IHp q IHq k IHk|A t k IH]; cbn [noset bind]; intros Hm Hf.
  - apply Hf.
  - exact I.
  - exact I.
  - intros i. apply IH; [apply Hm|exact Hf].
  - intros d0. apply IH; [apply Hm|exact Hf].
  - contradiction.
  - contradiction.
  - apply IH; assumption.
Qed.
Lemma noset_wp {A} R (m : prog A) : noset m -> forall s0 s, alloc_only s0 s -> wp R m (fun _ s' => alloc_only s0 s') s.
Proof.
  induction m as [A a|A e|A c|A k IH|A i k IH|A i d k IH|A p IHp q IHq k IHk|A t k IH]; cbn [noset wp]; intros Hm s0 s AO.
  - exact AO.
  - exact AO.
  - exact AO.
  - apply IH; [apply Hm|]. destruct AO as [E L]. split; [exact E|cbn [bump next]; lia].
  - intros d0 _. apply IH; [apply Hm|exact AO].
  - contradiction.
  - contradiction.
  - apply IH; assumption.
Qed.
Lemma wp_try_noset {A} R (m : prog A) : noset m -> forall (Q : outcome (error + A) -> state -> Prop) s,
  wp R m (fun o s' => match o with
                      | Ok a => Q (Ok (inr a)) s'
                      | Err e => Q (Ok (inl e)) s'
                      | Panic c => Q (Panic c) s' end) s ->
  wp R (try_ m) Q s.
Proof.
  induction m as [A a|A e|A c|A k IH|A i k IH|A i d k IH|A p IHp q IHq k IHk|A t k IH]; cbn [noset wp try_]; intros Hm Q s W.
  - exact W.
  - exact W.
  - exact W.
  - apply IH; [apply Hm|exact W].
  - intros d0 Hd. apply IH; [apply Hm|apply W; exact Hd].
  - contradiction.
  - contradiction.
  - apply IH; assumption.
Qed.

(* ---------- generic facts about `idf` and `gok` ---------- *)
Section Gok.
  Context {T : Type}.
  Variable ek : ekind T.
  Variable H : digest -> digest -> digest.
  Notation tree := (tree T).

  Lemma idf_incl_o (G G' : list tree) : idf G -> incl G' G -> idf G'.
  Proof. intros I Hi t1 t2 u v I1 I2. apply I; apply Hi; assumption. Qed.
  Lemma idf_single_o (G : list tree) t : idf G -> In t G -> idf [t].
  Proof. intros I Ht. apply (idf_incl_o G); [exact I|]. intros x [<-|[]]. exact Ht. Qed.
  Lemma idf_pair_o (G : list tree) t1 t2 : idf G -> In t1 G -> In t2 G -> idf [t1; t2].
  Proof. intros I H1 H2. apply (idf_incl_o G); [exact I|]. intros x [<-|[<-|[]]]; assumption. Qed.

  Lemma gok_incl_o st (G G' : list tree) : gok ek H st G -> incl G' G -> gok ek H st G'.
  Proof.
    intros (I & BV & MB) Hi. split; [eapply idf_incl_o; eauto|]. split; [|exact MB].
    intros t Ht. apply BV, Hi, Ht.
  Qed.
End Gok.

Section CollObsP.
  Context {T U : Type}.
  Variable ek : ekind T.
  Variable M : umap_impl T U.
  Variable H : digest -> digest -> digest.
  Variable capN : N.
  Variable uinv : U -> Prop.
  Hypothesis EKW : ek_wf ek.
  Hypothesis UL : umap_lawful ek M uinv.
  Hypothesis CAP : capacity_ok capN.
  Notation tree := (tree T).
  Notation handle := (handle T U).
  Notation hinv := (hinv ek M capN uinv).
  Notation hclean := (hclean ek M capN uinv).
  Notation gok := (gok ek H).

  (* ====================================================================== *)
  (* 4. Root (C02)                                                           *)
  (* ====================================================================== *)
  (* tree_hash_root of a clean handle is the SSZ hash_tree_root of the list it represents; the global
     invariant is kept for the same family of trees (no allocation; memos only go from absent to true) *)
  Theorem coll_root_spec : forall (h : handle) (l : list T) (st : state) (G : list tree),
    hclean h l -> gok st G -> In (htree h) G ->
    wp Rexact (coll_tree_hash_root ek M H h)
       (fun o st' => o = Ok (ssz_root ek H (hlist h) capN l) /\ gok st' G /\
                     next st' = next st /\ changes ek H st st' (htree h) /\
                     (has_memo (htree h) = true -> mget st' (idof (htree h)) = hash_spec ek H (htree h))) st.
  Proof.
    intros h l st G [HI HP] GK Hin. pose proof GK as (IDF & BV & MB).
    eapply wp_mono; [|apply (root_is_ssz_hinv ek H M uinv capN h l st UL CAP HI HP)].
    - intros o st' (Eo & Ch & _ & Hm). split; [exact Eo|]. split; [|split; [apply Ch|split; [exact Ch|exact Hm]]].
      assert (Hn : next st' = next st) by apply Ch.
      split; [exact IDF|]. split.
      + intros t Ht. destruct (BV t Ht) as [B V]. split; [rewrite Hn; exact B|].
        eapply mvalid_changes; [exact Ch| |exact V]. eapply idf_pair_o; eauto.
      + eapply changes_memo_below; [exact Ch| |exact MB]. apply BV, Hin.
    - eapply idf_single_o; eauto.
    - apply BV, Hin.
  Qed.

  (* ====================================================================== *)
  (* 5. Rebase (C07)                                                         *)
  (* ====================================================================== *)
  Section RebaseObs.
    Hypothesis CF : collision_free H.
    Hypothesis TRI : troot_inj ek.

    Lemma hs_inj_cf : forall fd n (t1 t2 : tree), wfc ek fd n t1 -> wfc ek fd n t2 ->
      hash_spec ek H t1 = hash_spec ek H t2 -> shape t1 = shape t2.
    Proof. apply hs_inj_from_canon_inj. apply (shash_canon_inj ek H EKW CF TRI). Qed.

    (* List/Vector::rebase_on: the result represents the same list, nothing the plain-sequence
       specification sees changes, and the global invariant holds for the old family extended by the
       (possibly new) tree of the result.  `base` is the same value afterwards; its memos are untouched (frame). *)
    Theorem coll_rebase_spec : forall (h base : handle) (l lb : list T) (st : state) (G : list tree),
      hinv h l -> hinv base lb -> hlist h = hlist base ->
      gok st G -> In (htree h) G -> In (htree base) G ->
      wp Rexact (coll_rebase_on ek h base)
         (fun o st' => exists h', o = Ok h' /\ hinv h' l /\ abs_of M h' l = abs_of M h l /\
                                  hupd h' = hupd h /\ hdepth h' = hdepth h /\
                                  shape (htree h') = shape (htree h) /\
                                  gok st' (htree h' :: G) /\ frame st st' /\
                                  fresh_or_from st st' [htree h; htree base] (htree h')) st.
    Proof.
      intros h base l lb st G HI HIb Hk GK Hin Hinb. pose proof GK as (IDF & BV & MB).
      destruct (BV _ Hin) as [B1 V1]. destruct (BV _ Hinb) as [B2 V2].
      assert (X : xid (htree h) (htree base)) by (apply idf_xid; eapply idf_pair_o; eauto).
      eapply wp_mono; [|apply (coll_rebase_on_hinv ek H EKW hs_inj_cf M capN uinv h base l lb st CAP HI HIb Hk B1 B2 V1 V2 X)].
      intros o st' [(h' & -> & _ & Eu & Eb & Ed & El & Sh & F & MBk & B' & V' & Fo & Fu) HI'].
      specialize (HI' h' eq_refl). exists h'. split; [reflexivity|]. split; [exact HI'|].
      split; [unfold abs_of, has_pending; rewrite Eu, Eb, El; reflexivity|].
      split; [exact Eu|]. split; [exact Ed|]. split; [exact Sh|]. split; [|split; [exact F|exact Fo]].
      assert (Nx : (next st <= next st')%positive) by apply F.
      split; [|split].
      - apply (idf_install st st'); [intros t0 Ht0; apply BV, Ht0|exact IDF| |exact Fu].
        eapply fof_weaken; [exact Fo|lia|lia|].
        intros t0 [<-|[<-|[]]]; [exists (htree h)|exists (htree base)]; (split; [assumption|apply RebaseP.subt_refl]).
      - intros t [<-|Ht]; [split; assumption|]. destruct (BV t Ht) as [B V].
        split; [eapply below_mono; eauto|eapply mvalid_frame; eauto].
      - apply MBk, MB.
    Qed.
  End RebaseObs.

  (* ====================================================================== *)
  (* 6. Intra (C09)                                                          *)
  (* ====================================================================== *)
  (* the collection kind is never changed (any read relation; no invariant needed) *)
  Lemma apply_updates_hlist R (h : handle) s :
    wp R (apply_updates ek M capN h) (fun o _ => forall (e : option error) (h' : handle), o = Ok (e, h') -> hlist h' = hlist h) s.
  Proof.
    assert (Hsame : forall (e0 : option error) u, forall (e : option error) (h' : handle), Ok (e0, with_upd h u) = Ok (e, h') -> hlist h' = hlist h).
    { intros e0 u e h' E. injection E as _ <-. reflexivity. }
    unfold apply_updates.
    destruct (uis_empty M (hupd h)); [cbn [wp]; intros e h' E; injection E as _ <-; reflexivity|].
    destruct (umax_index M (hupd h)) as [m|]; [|cbn [wp]; apply Hsame].
    destruct (hlist h) eqn:Ek.
    - destruct (capN <=? m); [cbn [wp]; apply Hsame|].
      apply wp_bind. eapply wp_mono; [|apply wp_trivial]. intros [[e1|t1]|e1|c1] s1 _; cbn [lift wp];
        intros e h' E; try discriminate E; injection E as _ <-; reflexivity.
    - destruct (hblen h <=? m); [cbn [wp]; apply Hsame|].
      apply wp_bind. eapply wp_mono; [|apply wp_trivial]. intros [[e1|t1]|e1|c1] s1 _; cbn [lift wp];
        intros e h' E; try discriminate E; injection E as _ <-; cbn [with_tree with_upd hlist]; exact Ek.
  Qed.
  Lemma coll_intra_hlist R (h : handle) s :
    wp R (coll_intra_rebase ek M H capN h) (fun o _ => forall (e : option error) (h' : handle), o = Ok (e, h') -> hlist h' = hlist h) s.
  Proof.
    unfold coll_intra_rebase. apply wp_bind. eapply wp_mono; [|apply apply_updates_hlist].
    intros [[e1 h1]|e1|c1] s1 Hl; cbn [lift]; try (intros e h' E; discriminate E).
    specialize (Hl e1 h1 eq_refl). destruct e1 as [e1|]; [cbn [wp]; intros e h' E; injection E as _ <-; exact Hl|].
    apply wp_bind. eapply wp_mono; [|apply wp_trivial]. intros [d|e2|c2] s2 _; cbn [lift]; try (intros e h' E; discriminate E).
    apply wp_bind. eapply wp_mono; [|apply wp_trivial].
    intros [[e3|[[|t3] k3]]|e3|c3] s3 _; cbn [lift wp]; intros e h' E; try discriminate E; injection E as _ <-;
      cbn [with_tree hlist]; exact Hl.
  Qed.

  Section IntraObs.
    Hypothesis NZ : nonzero_hash H.
    Hypothesis apply_spec : forall (h : handle) l s, hinv h l ->
      wp Rexact (apply_updates ek M capN h)
         (fun o s' => exists h', o = Ok (None, h') /\ hinv h' l /\ has_pending M h' = false /\
                                 alloc_only s s' /\ fresh_or_from s s' [htree h] (htree h')) s.

    (* List/Vector::intra_rebase: never fails; the result is clean, represents the same list, and the global
       invariant holds for the old family extended by the tree of the result; the root of the result is hashed *)
    Theorem coll_intra_spec_gok : forall (h : handle) (l : list T) (st : state) (G : list tree),
      hinv h l -> gok st G -> In (htree h) G ->
      wp Rexact (coll_intra_rebase ek M H capN h)
         (fun o st' => exists h', o = Ok (None, h') /\ hclean h' l /\ hlist h' = hlist h /\
                                  gok st' (htree h' :: G) /\
                                  (forall i a b, htree h' = Node i a b -> mget st' i = hash_spec ek H (htree h'))) st.
    Proof.
      intros h l st G HI (IDF & BV & MB) Hin.
      eapply wp_mono; [|apply wp_conj;
        [apply (coll_intra_spec_memo ek H EKW NZ M capN uinv CAP apply_spec h l st G HI IDF Hin BV MB)|
         apply (coll_intra_hlist Rexact h st)]].
      intros o st' [(h' & G' & -> & HI' & HP' & Inc & Hin' & IDF' & BV' & MB' & Hm) Hl].
      exists h'. split; [reflexivity|]. split; [split; assumption|]. split; [apply (Hl None h' eq_refl)|].
      split; [|exact Hm].
      assert (Inc' : incl (htree h' :: G) G') by (intros x [<-|Hx]; [exact Hin'|apply Inc, Hx]).
      split; [eapply idf_incl_o; eauto|]. split; [|exact MB'].
      intros t Ht. apply BV', Inc', Ht.
    Qed.
  End IntraObs.

  (* ====================================================================== *)
  (* 1. Reads (pure): uniform names for the IfaceP / IterP / WulP results    *)
  (* ====================================================================== *)
  Lemma cap_ld_o : capN <= cap ek (list_depth ek capN).
  Proof. apply (HashP.cap_list_depth ek capN CAP). Qed.

  Theorem obs_get : forall (h : handle) l i, hinv h l -> iface_get ek M h i = nthN l i.
  Proof. intros h l i. apply (iface_get_spec ek M uinv capN (get_rec_canon ek) cap_ld_o). Qed.
  Theorem obs_len : forall (h : handle) l, hinv h l -> iface_len M h = lenN l.
  Proof. apply (iface_len_spec ek M uinv capN). Qed.
  Theorem obs_to_vec : forall (h : handle) l, hinv h l -> to_vec ek M h = Ret l.
  Proof. apply (to_vec_eq ek M uinv capN CAP). Qed.
  Theorem obs_iter_from : forall (h : handle) l i, hinv h l ->
    coll_iter_from ek M h i =
      if lenN l <? i then Fail (OutOfBoundsIterFrom i (lenN l)) else Ret (dropN i l, hints_from (lenN l - i)).
  Proof. intros h l i HI. apply (coll_iter_from_eq ek M uinv capN CAP h l HI). Qed.
  Theorem obs_level_iter_from : forall (h : handle) l n, hinv h l ->
    (lenN l < n -> list_level_iter_from ek M h n = Fail (OutOfBoundsIterFrom n (lenN l))) /\
    (n <= lenN l -> has_pending M h = true -> list_level_iter_from ek M h n = Fail LevelIterPendingUpdates) /\
    (n <= lenN l -> has_pending M h = false ->
       exists items, list_level_iter_from ek M h n = Ret items /\
         items_blocks ek (compute_level n (hdepth h) (pd_of ek)) items (dropN n l) /\
         (forall u, In u (internal_nodes items) -> subt u (htree h))).
  Proof. intros h l n HI. apply (list_level_iter_from_spec ek M uinv capN UL CAP h l HI). Qed.
  (* a clean handle: the backing tree is the canonical tree of the list *)
  Theorem obs_clean_backing : forall (h : handle) l, hclean h l ->
    shape (htree h) = canon ek (list_depth ek capN) l /\ hblen h = lenN l /\ hdepth h = list_depth ek capN.
  Proof.
    intros h l [HI HP]. destruct (IterP.no_pending_backing ek M uinv capN UL h l HI HP) as [Sh Hb].
    destruct HI as (_ & Hd & _). rewrite Hd in Sh. auto.
  Qed.
  Theorem obs_abs_clean : forall (h : handle) l, hclean h l ->
    abs_of M h l = {| a_list := hlist h; a_vals := l; a_pend := false; a_blen := lenN l |}.
  Proof.
    intros h l HC. destruct (obs_clean_backing h l HC) as (_ & Hb & _). destruct HC as [_ HP].
    unfold abs_of. rewrite HP, Hb. reflexivity.
  Qed.

  (* ====================================================================== *)
  (* 3a. serde serialisation                                                  *)
  (* ====================================================================== *)
  Theorem serde_ser_spec : forall (h : handle) l, hinv h l -> serde_ser ek M h = Ret l.
  Proof. exact obs_to_vec. Qed.

  (* ====================================================================== *)
  (* 2a. SSZ encoding (C12)                                                   *)
  (* ====================================================================== *)
  Theorem ssz_encode_spec : forall (h : handle) l, hinv h l -> ssz_encode ek M h = Ret (serialize ek l).
  Proof.
    intros h l HI. unfold ssz_encode. rewrite (obs_to_vec h l HI). cbn [bind]. rewrite (obs_len h l HI).
    destruct (efixed ek) as [s0|] eqn:Es.
    - now rewrite (serialize_fixed ek s0 l Es).
    - unfold bytes_per_offset. now rewrite (serialize_var ek l Es).
  Qed.
  Theorem ssz_bytes_len_spec : forall (valid : T -> Prop) (h : handle) l, ek_codec_on ek valid -> hinv h l ->
    (forall s0, efixed ek = Some s0 -> Forall valid l) ->
    ssz_bytes_len ek M h = Ret (lenN (serialize ek l)).
  Proof.
    intros valid h l ECO HI Hv. unfold ssz_bytes_len. destruct (efixed ek) as [s0|] eqn:Es.
    - rewrite (obs_len h l HI). destruct (enc_fixed_on ek valid ECO s0 l Es) as [_ E].
      rewrite (E (Hv s0 eq_refl)). reflexivity.
    - rewrite (obs_to_vec h l HI). cbn [bind]. rewrite (obs_len h l HI). unfold bytes_per_offset.
      rewrite (ssz_len_var ek l (4 * lenN l)), <- (serialize_var ek l Es). reflexivity.
  Qed.

  (* ====================================================================== *)
  (* state lemmas for the constructors used by the decoders                   *)
  (* ====================================================================== *)
  Lemma mget_memo_eq' (s s' : state) j : memo s' = memo s -> mget s' j = mget s j.
  Proof. intros E. unfold mget. rewrite E. reflexivity. Qed.
  Lemma ao_refl_o s : alloc_only s s.
  Proof. split; [reflexivity|lia]. Qed.
  Lemma gok_alloc_only_o st st' (G : list tree) : gok st G -> alloc_only st st' -> gok st' G.
  Proof.
    intros (I & BV & MB) [Em Ln]. split; [exact I|]. split.
    - intros t Ht. destruct (BV t Ht) as [B V]. split; [eapply below_mono; eauto|].
      intros u Su Hm. rewrite (mget_memo_eq' st st' _ Em). apply V; auto.
    - intros j Hj. rewrite (mget_memo_eq' st st' _ Em). apply MB. lia.
  Qed.

  Lemma uempty_none : umax_index M (uempty M) = None /\ ulen M (uempty M) = 0.
  Proof.
    pose proof (ul_empty_inv ek M uinv UL) as Hi.
    assert (E : ulen M (uempty M) = 0) by (apply (ul_len_0 ek M uinv UL _ Hi); apply (ul_empty_get ek M uinv UL)).
    split; [apply (ul_max_none ek M uinv UL _ Hi); exact E|exact E].
  Qed.

  (* List::empty (what the decoders return for the empty byte string) *)
  Lemma list_empty_clean : forall R st (G : list tree), gok st G ->
    wp R (list_empty ek M capN)
       (fun o st' => exists h', o = Ok h' /\ hclean h' [] /\ hlist h' = true /\ gok st' (htree h' :: G) /\
                                alloc_only st st') st.
  Proof.
    (* CAP is not needed any more (with capacity 0 legal, `0 <= capN` is all that was used); it is
       mentioned so that this lemma and its clients (list_from_ssz_roundtrip, ...) keep their
       premise `capacity_ok capN`, i.e. their exact statements *)
    pose proof CAP as _.
    intros R st G GK. pose proof GK as (IDF & BV & MB). destruct uempty_none as [Emax Elen].
    unfold list_empty, fresh. cbn [bind wp].
    set (d := list_depth ek capN). set (z := next st).
    exists (from_parts M (Zero z d) d 0). split; [reflexivity|].
    assert (AO : alloc_only st (bump st)) by (split; [reflexivity|cbn [bump next]; lia]).
    split; [|split; [reflexivity|split; [|exact AO]]].
    - split.
      + unfold Defs.hinv, habs, from_parts; cbn [htree hdepth hblen hupd hlist].
        split; [|split; [reflexivity|split; [rewrite lenN_nil; lia|split; [lia|split; [discriminate|apply (ul_empty_inv ek M uinv UL)]]]]].
        exists []. split; [cbn [shape]; destruct d; reflexivity|]. split; [reflexivity|]. split.
        * split; [lia|]. split; [intros k v E; rewrite (ul_empty_get ek M uinv UL) in E; discriminate|].
          split; [intros k _ Hk; rewrite lenN_nil in Hk; lia|intros k _ Hk; rewrite lenN_nil in Hk; lia].
        * unfold updated_length. rewrite Emax. reflexivity.
      + unfold has_pending, uis_empty, from_parts; cbn [hupd]. rewrite Elen. reflexivity.
    - cbn [from_parts htree].
      assert (Sz : forall u : tree, subt u (Zero z d) -> u = Zero z d) by (intros u [->|[]]; reflexivity).
      split; [|split].
      + apply (idf_install st (bump st)); [intros t0 Ht0; apply BV, Ht0|exact IDF| |].
        * intros u Su. right. rewrite (Sz u Su). cbn [idof bump next]. subst z. lia.
        * intros u v Su Sv _ _. rewrite (Sz u Su), (Sz v Sv). reflexivity.
      + intros t [<-|Ht].
        * split; [intros i [->|[]]; cbn [idof bump next]; subst z; lia|].
          intros u Su Hm. rewrite (Sz u Su) in Hm. discriminate.
        * apply (gok_alloc_only_o st (bump st) G GK AO), Ht.
      + apply (gok_alloc_only_o st (bump st) G GK AO).
  Qed.

  (* ---------- the builder only allocates (syntactically: no SetMemo) ---------- *)
  Lemma noset_builder_new d lv : noset (builder_new ek d lv).
  Proof. unfold builder_new. destruct (63 <? d + N.of_nat (pd_of ek)); exact I. Qed.
  Lemma noset_merge_n : forall n (top : tree) (stk : list (bool * tree)), noset (merge_n n top stk).
  Proof.
    induction n as [|n IH]; intros top stk; cbn [merge_n]; [exact I|].
    destruct stk as [|[b lft] stk]; [exact I|]. unfold fresh. cbn [bind noset]. intros i. apply IH.
  Qed.
  Lemma noset_merge_up : forall n i x stk e1 e2, noset (merge_up ek n i x stk e1 e2).
  Proof.
    induction n as [|n IH]; intros i x stk e1 e2; cbn [merge_up]; [exact I|].
    destruct (N.testbit x (N.of_nat (i + pd_of ek))); [|exact I].
    destruct stk as [|[b1 r] [|[b2 l] stk]]; try exact I. unfold fresh. cbn [bind noset]. intros j. apply IH.
  Qed.
  Lemma noset_builder_push b v : noset (builder_push ek b v).
  Proof.
    unfold builder_push. destruct (blength b =? bcap b); [exact I|].
    apply noset_bind.
    - destruct (is_packed ek).
      + destruct (blength b mod pf_of ek =? 0); [unfold fresh; cbn [bind noset]; intros i; exact I|].
        destruct (bstack b) as [|[[|] [i v0|i vs|i l r|i z]] stk]; try exact I.
        destruct (lenN vs =? pf_of ek); exact I.
      + unfold fresh; cbn [bind noset]; intros i; exact I.
    - intros [top stk]. apply noset_bind; [apply noset_merge_n|]. intros [top' stk']. exact I.
  Qed.
  Lemma noset_push_all : forall vs b, noset (push_all ek b vs).
  Proof.
    induction vs as [|v vs IH]; intros b; cbn [push_all]; [exact I|].
    apply noset_bind; [apply noset_builder_push|]. intros b'. apply IH.
  Qed.
  Lemma noset_finish_loop : forall fuel b lv nx stk, noset (finish_loop ek fuel b lv nx stk).
  Proof.
    induction fuel as [|f IH]; intros b lv nx stk; cbn [finish_loop];
      (destruct (N.shiftl nx (N.of_nat lv) mod 2 ^ 64 =? bcap b); [exact I|]); [exact I|].
    destruct stk as [|[b1 top] stk]; [exact I|]. unfold fresh. cbn [bind noset]. intros zi ni.
    apply noset_bind; [apply noset_merge_up|]. intros st2.
    match goal with |- noset (if ?c then _ else _) => destruct c end; [exact I|].
    match goal with |- noset (if ?c then _ else _) => destruct c end; [exact I|]. apply IH.
  Qed.
  Lemma noset_builder_finish b : noset (builder_finish ek b).
  Proof.
    unfold builder_finish. destruct (bstack b) as [|e0 stk0] eqn:Es; [unfold fresh; cbn [bind noset]; intros i; exact I|].
    destruct (64 <=? blevel b); [exact I|]. apply noset_bind.
    - destruct (is_packed ek); [|exact I].
      match goal with |- noset (if ?c then _ else _) => destruct c end; [|exact I].
      apply noset_bind; [apply noset_merge_up|]. intros st'. exact I.
    - intros [next1 st1]. apply noset_bind; [apply noset_finish_loop|].
      intros [|[b1 t] [|e1 st2]]; exact I.
  Qed.
  Lemma noset_list_try_from_iter vs : noset (list_try_from_iter ek M capN vs).
  Proof.
    unfold list_try_from_iter. apply noset_bind; [apply noset_builder_new|]. intros b.
    apply noset_bind; [apply noset_push_all|]. intros b'.
    apply noset_bind; [apply noset_builder_finish|]. intros [[t d] len].
    destruct (capN <? len); exact I.
  Qed.
  Lemma list_try_from_iter_hlist R vs s :
    wp R (list_try_from_iter ek M capN vs) (fun o _ => forall h' : handle, o = Ok h' -> hlist h' = true) s.
  Proof.
    unfold list_try_from_iter. apply wp_bind. eapply wp_mono; [|apply wp_trivial].
    intros [b|e|c] s1 _; cbn [lift]; try (intros h' E; discriminate E).
    apply wp_bind. eapply wp_mono; [|apply wp_trivial].
    intros [b'|e|c] s2 _; cbn [lift]; try (intros h' E; discriminate E).
    apply wp_bind. eapply wp_mono; [|apply wp_trivial].
    intros [[[t d] len]|e|c] s3 _; cbn [lift]; try (intros h' E; discriminate E).
    destruct (capN <? len); cbn [wp]; intros h' E; [discriminate E|]. injection E as <-. reflexivity.
  Qed.

  (* ---------- TryFrom<List> for Vector on a clean list: no flush, a pure re-labelling ---------- *)
  Definition as_vector (h : handle) : handle :=
    {| hlist := false; htree := htree h; hblen := capN; hdepth := hdepth h; hupd := hupd h |}.
  Lemma vector_try_from_clean : forall (h : handle) l, hclean h l ->
    vector_try_from ek M capN h =
      if lenN l =? capN then Ret (as_vector h) else Fail (WrongVectorLength (lenN l) capN).
  Proof.
    intros h l HC. destruct (obs_clean_backing h l HC) as (_ & Hb & _). destruct HC as [HI HP].
    unfold vector_try_from. rewrite (obs_len h l HI).
    destruct (N.eqb_spec (lenN l) capN) as [E|E]; [|reflexivity].
    assert (Eb : (hblen h =? capN) = true) by (apply N.eqb_eq; lia). rewrite Eb. reflexivity.
  Qed.
  Lemma as_vector_clean : forall (h : handle) l, hclean h l -> lenN l = capN ->
    hclean (as_vector h) l /\ hlist (as_vector h) = false /\ htree (as_vector h) = htree h.
  Proof.
    intros h l HC E. destruct (obs_clean_backing h l HC) as (_ & Hb & _). destruct HC as [HI HP].
    split; [|split; reflexivity]. split; [|exact HP].
    destruct HI as ((bl & Sh & Lb & Ag & Ul) & Hd & Hl & Hbl & _ & Hu).
    assert (Ec : capN = hblen h) by lia.
    unfold Defs.hinv, habs, as_vector; cbn [htree hdepth hblen hupd hlist].
    split; [exists bl; rewrite Ec; auto|]. split; [exact Hd|]. split; [exact Hl|]. split; [lia|]. auto.
  Qed.

  (* ====================================================================== *)
  (* 2b/3b. decoders (C12, C13)                                               *)
  (* ====================================================================== *)
  Section Codec.
    Variable valid : T -> Prop.
    Hypothesis ECO : ek_codec_on ek valid.
    Variable R : state -> id -> digest -> Prop.
    (* the specification of List::try_from_iter (task `collctor`: list_try_from_iter_spec) *)
    Hypothesis build_spec : forall vs st (G : list tree), gok st G -> lenN vs <= capN ->
      wp R (list_try_from_iter ek M capN vs)
         (fun o st' => exists h', o = Ok h' /\ hclean h' vs /\ gok st' (htree h' :: G)) st.
    Hypothesis build_fail : forall vs st, capN < lenN vs ->
      wp R (list_try_from_iter ek M capN vs) (fun o _ => o = Err BuilderFull) st.

    Lemma build_or_ok e vs st (G : list tree) : gok st G -> lenN vs <= capN ->
      wp R (build_or ek M capN e vs)
         (fun o st' => exists h', o = Ok h' /\ hclean h' vs /\ hlist h' = true /\ gok st' (htree h' :: G) /\
                                  alloc_only st st') st.
    Proof.
      intros GK Hl. unfold build_or. apply wp_bind. apply (wp_try_noset R _ (noset_list_try_from_iter vs)).
      eapply wp_mono; [|apply wp_conj; [apply (build_spec vs st G GK Hl)|apply wp_conj;
        [apply (list_try_from_iter_hlist R vs st)|apply (noset_wp R _ (noset_list_try_from_iter vs) st st (ao_refl_o st))]]].
      intros o st' [(h' & -> & HC & GK') [Hk AO]]. cbn [lift wp]. exists h'. auto 6.
    Qed.
    Lemma build_or_fail e vs st (G : list tree) : gok st G -> capN < lenN vs ->
      wp R (build_or ek M capN e vs) (fun o st' => o = Err e /\ gok st' G /\ alloc_only st st') st.
    Proof.
      intros GK Hl. unfold build_or. apply wp_bind. apply (wp_try_noset R _ (noset_list_try_from_iter vs)).
      eapply wp_mono; [|apply wp_conj; [apply (build_fail vs st Hl)|
        apply (noset_wp R _ (noset_list_try_from_iter vs) st st (ao_refl_o st))]].
      intros o st' [-> AO]. cbn [lift wp].
      assert (GK' : gok st' G) by (eapply gok_alloc_only_o; eauto). auto.
    Qed.

    (* ---------- List: Decode ---------- *)
    Theorem list_from_ssz_roundtrip : forall l st (G : list tree),
      Forall valid l -> lenN l <= capN -> (efixed ek = None -> lenN (serialize ek l) < 2 ^ 32) -> gok st G ->
      wp R (list_from_ssz ek M capN (serialize ek l))
         (fun o st' => exists h', o = Ok h' /\ hclean h' l /\ hlist h' = true /\ gok st' (htree h' :: G) /\
                                  alloc_only st st') st.
    Proof.
      intros l st G Hv Hl H32 GK. rewrite (list_from_ssz_serialize ek M capN valid ECO l Hv Hl H32).
      destruct l as [|v r]; [apply list_empty_clean; exact GK|apply build_or_ok; assumption].
    Qed.

    Theorem list_from_ssz_strict_spec : forall b st (G : list tree), valid_bytes b = true -> gok st G ->
      wp R (list_from_ssz ek M capN b)
         (fun o st' => alloc_only st st' /\
            match o with
            | Ok h' => exists l, hclean h' l /\ hlist h' = true /\ serialize ek l = b /\ Forall valid l /\
                                 lenN l <= capN /\ gok st' (htree h' :: G)
            | Err e => e = EDecode /\ gok st' G
            | Panic _ => False
            end) st.
    Proof.
      intros b st G Hb GK.
      destruct (list_from_ssz_strict ek M capN valid ECO b Hb) as [[-> E]|[E|(vs & Es & Hv & Hl & E)]]; rewrite E.
      - eapply wp_mono; [|apply (list_empty_clean R st G GK)].
        intros o st' (h' & -> & HC & Hk & GK' & AO). split; [exact AO|]. exists []. rewrite serialize_nil.
        repeat (split; [solve [auto]|]). split; [rewrite lenN_nil; lia|exact GK'].
      - cbn [wp]. split; [apply ao_refl_o|auto].
      - eapply wp_mono; [|apply (build_or_ok EDecode vs st G GK Hl)].
        intros o st' (h' & -> & HC & Hk & GK' & AO). split; [exact AO|]. exists vs. auto 8.
    Qed.

    (* ---------- Vector: Decode ---------- *)
    Lemma vector_finish (e : error) (h : handle) l (Q : outcome handle -> state -> Prop) s : hclean h l ->
      (if lenN l =? capN then Q (Ok (as_vector h)) s else Q (Err e) s) ->
      wp R (r <- try_ (vector_try_from ek M capN h) ;; match r with inl _ => Fail e | inr v => Ret v end)%prog Q s.
    Proof.
      intros HC HQ. rewrite (vector_try_from_clean h l HC). destruct (lenN l =? capN); cbn [try_ bind wp]; exact HQ.
    Qed.

    Theorem vector_from_ssz_roundtrip : forall l st (G : list tree),
      Forall valid l -> lenN l = capN -> (efixed ek = None -> lenN (serialize ek l) < 2 ^ 32) -> gok st G ->
      wp R (vector_from_ssz ek M capN (serialize ek l))
         (fun o st' => exists v, o = Ok v /\ hclean v l /\ hlist v = false /\ gok st' (htree v :: G) /\
                                 alloc_only st st') st.
    Proof.
      intros l st G Hv Hl H32 GK. unfold vector_from_ssz. apply wp_bind.
      eapply wp_mono; [|apply (list_from_ssz_roundtrip l st G Hv ltac:(lia) H32 GK)].
      intros o st' (h' & -> & HC & Hk & GK' & AO). cbn [lift].
      apply (vector_finish EDecode h' l _ st' HC). rewrite (proj2 (N.eqb_eq _ _) Hl).
      destruct (as_vector_clean h' l HC Hl) as (HC' & Hk' & Et).
      exists (as_vector h'). rewrite Et. auto 6.
    Qed.

    Theorem vector_from_ssz_strict_spec : forall b st (G : list tree), valid_bytes b = true -> gok st G ->
      wp R (vector_from_ssz ek M capN b)
         (fun o st' => alloc_only st st' /\
            match o with
            | Ok v => exists l, hclean v l /\ hlist v = false /\ serialize ek l = b /\ Forall valid l /\
                                lenN l = capN /\ gok st' (htree v :: G)
            | Err e => e = EDecode /\ gok st' G
            | Panic _ => False
            end) st.
    Proof.
      intros b st G Hb GK. unfold vector_from_ssz. apply wp_bind.
      eapply wp_mono; [|apply (list_from_ssz_strict_spec b st G Hb GK)].
      intros [h'|e|c] st' [AO P]; cbn [lift]; [|auto|contradiction].
      destruct P as (l & HC & Hk & Es & Hv & Hl & GK').
      apply (vector_finish EDecode h' l _ st' HC).
      destruct (N.eqb_spec (lenN l) capN) as [E|E].
      - split; [exact AO|]. destruct (as_vector_clean h' l HC E) as (HC' & Hk' & Et).
        exists l. rewrite Et. auto 8.
      - split; [exact AO|]. split; [reflexivity|]. eapply gok_incl_o; [exact GK'|]. intros x Hx. right. exact Hx.
    Qed.

    (* ---------- serde Deserialize (C13): a clean handle, or ESerde; never a panic ---------- *)
    Theorem list_serde_de_ok : forall vs st (G : list tree), lenN vs <= capN -> gok st G ->
      wp R (list_serde_de ek M capN vs)
         (fun o st' => exists h', o = Ok h' /\ hclean h' vs /\ hlist h' = true /\ gok st' (htree h' :: G) /\
                                  alloc_only st st') st.
    Proof. intros vs st G Hl GK. rewrite list_serde_de_eq. apply build_or_ok; assumption. Qed.
    Theorem list_serde_de_fail : forall vs st (G : list tree), capN < lenN vs -> gok st G ->
      wp R (list_serde_de ek M capN vs) (fun o st' => o = Err ESerde /\ gok st' G /\ alloc_only st st') st.
    Proof. intros vs st G Hl GK. rewrite list_serde_de_eq. apply build_or_fail; assumption. Qed.

    Theorem vector_serde_de_ok : forall vs st (G : list tree), lenN vs = capN -> gok st G ->
      wp R (vector_serde_de ek M capN vs)
         (fun o st' => exists v, o = Ok v /\ hclean v vs /\ hlist v = false /\ gok st' (htree v :: G) /\
                                 alloc_only st st') st.
    Proof.
      intros vs st G Hl GK. unfold vector_serde_de. apply wp_bind.
      eapply wp_mono; [|apply (list_serde_de_ok vs st G ltac:(lia) GK)].
      intros o st' (h' & -> & HC & Hk & GK' & AO). cbn [lift].
      apply (vector_finish ESerde h' vs _ st' HC). rewrite (proj2 (N.eqb_eq _ _) Hl).
      destruct (as_vector_clean h' vs HC Hl) as (HC' & Hk' & Et).
      exists (as_vector h'). rewrite Et. auto 6.
    Qed.
    Theorem vector_serde_de_fail : forall vs st (G : list tree), lenN vs <> capN -> gok st G ->
      wp R (vector_serde_de ek M capN vs) (fun o st' => o = Err ESerde /\ gok st' G /\ alloc_only st st') st.
    Proof.
      intros vs st G Hl GK. unfold vector_serde_de. apply wp_bind.
      destruct (N.lt_ge_cases capN (lenN vs)) as [Hgt|Hle].
      - eapply wp_mono; [|apply (list_serde_de_fail vs st G Hgt GK)]. intros o st' (-> & GK' & AO). cbn [lift]. auto.
      - eapply wp_mono; [|apply (list_serde_de_ok vs st G Hle GK)].
        intros o st' (h' & -> & HC & Hk & GK' & AO). cbn [lift].
        apply (vector_finish ESerde h' vs _ st' HC).
        destruct (N.eqb_spec (lenN vs) capN) as [E|E]; [contradiction|].
        split; [reflexivity|]. split; [|exact AO]. eapply gok_incl_o; [exact GK'|]. intros x Hx. right. exact Hx.
    Qed.
  End Codec.
End CollObsP.

Print Assumptions coll_root_spec.
Print Assumptions coll_rebase_spec.
Print Assumptions coll_intra_hlist.
Print Assumptions coll_intra_spec_gok.
Print Assumptions obs_get.
Print Assumptions obs_len.
Print Assumptions obs_to_vec.
Print Assumptions obs_iter_from.
Print Assumptions obs_level_iter_from.
Print Assumptions obs_clean_backing.
Print Assumptions obs_abs_clean.
Print Assumptions serde_ser_spec.
Print Assumptions ssz_encode_spec.
Print Assumptions ssz_bytes_len_spec.
Print Assumptions list_empty_clean.
Print Assumptions vector_try_from_clean.
Print Assumptions as_vector_clean.
Print Assumptions list_from_ssz_roundtrip.
Print Assumptions list_from_ssz_strict_spec.
Print Assumptions vector_from_ssz_roundtrip.
Print Assumptions vector_from_ssz_strict_spec.
Print Assumptions list_serde_de_ok.
Print Assumptions list_serde_de_fail.
Print Assumptions vector_serde_de_ok.
Print Assumptions vector_serde_de_fail.
