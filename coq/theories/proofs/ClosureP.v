(* ClosureP.v — task `closure` (wave 5): every configuration of the correspondence check is covered
   by the master theorems.
   The correspondence check runs the crate for the element kinds u8 u16 u32 u64 u128 u256 (packing
   factors 32,16,8,4,2,1), h256, pair, var, nl and for the update maps VecMap, BTreeMap, MaxMap<VecMap>.
   Here the hypotheses of the master theorems (ek_wf, troot_inj, ek_codec_on, umap_lawful,
   collision_free) are discharged for EVERY one of these kinds and maps, with the hash Hc:
     1. run_refines_closed / step_refines_closed (generic in a lawful kind and a lawful map);
        run_refines_uint (k <= 5), run_refines_h256_any, run_refines_pair, run_refines_var,
        run_refines_nl_any: for an ARBITRARY lawful update map;
     2. vecmap_lawful_all, btmap_lawful_all, maxmap_vecmap_lawful_all: the three maps are lawful for
        every element type;
     3. kind_ok (the ten kinds), map_ok (the three maps), kind_ok_laws, map_ok_lawful,
        every_configuration_refines (+ every_configuration_step, every_configuration_conj);
     4. maps_unobservable_any (two arbitrary lawful maps), maps_unobservable_all (the matrix),
        maps_unobservable_three (the three pairs spelled out);
     5. silent_ops_invisible_all, hash_invisible_all, rebase_invisible_all, intra_is_flush_all;
     6. nodes_shape, cdivN, snodes_canon_packed_le (the bound 2*ceil(len/pf) + 2*depth + 1),
        hinv_node_bound, reachable_node_bound (generic), reachable_node_bound_all (the matrix),
        reachable_node_bound_capfree (a bound in which capN does not occur).
   Proof file; no model code. *)
From Coq Require Import FMapPositive.
From MH Require Import Inv IfaceP IterP WulP IntraP CollCtorP CollObsP UMapP CodecP HashP BuilderP SysInv RefineBase RefineB
  Refine Instances FinalP InvisibleP NestedP.
Local Open Scope N_scope.

(* ====================================================================== *)
(* 0. the conclusions, named                                                *)
(* ====================================================================== *)
(* the history `os`, run by the sequential interpreter from the initial state, runs to completion,
   follows a run of the plain-sequence specification and ends in a state satisfying the invariant *)
Definition history_refines {T U} (ek : ekind T) (M : umap_impl T U) (uinv : U -> Prop)
    (capN : N) (vec_based : bool) (os : list (@op T)) : Prop :=
  exists rs s' st' a',
    model_run ek M Hc capN vec_based init_sys init_state os = Some (rs, s', st') /\
    spec_run ek Hc capN vec_based (fun _ => True) init_sregs os rs a' /\
    SysInv ek M Hc capN uinv st' s' a'.

(* two update maps answer the history within the same specification, identically wherever the
   specification is functional *)
Definition maps_agree {T U1 U2} (ek : ekind T) (M1 : umap_impl T U1) (M2 : umap_impl T U2)
    (uinv1 : U1 -> Prop) (uinv2 : U2 -> Prop) (capN : N) (vec_based : bool) (os : list (@op T)) : Prop :=
  exists rs1 s1 st1 a1 rs2 s2 st2 a2,
    model_run ek M1 Hc capN vec_based init_sys init_state os = Some (rs1, s1, st1) /\
    model_run ek M2 Hc capN vec_based init_sys init_state os = Some (rs2, s2, st2) /\
    spec_run ek Hc capN vec_based (fun _ => True) init_sregs os rs1 a1 /\
    spec_run ek Hc capN vec_based (fun _ => True) init_sregs os rs2 a2 /\
    SysInv ek M1 Hc capN uinv1 st1 s1 a1 /\ SysInv ek M2 Hc capN uinv2 st2 s2 a2 /\
    (spec_run_det ek Hc capN vec_based (fun _ => True) init_sregs os rs1 a1 -> rs1 = rs2 /\ a1 = a2) /\
    (Forall (fun o => det_op o = true) os -> rs1 = rs2 /\ a1 = a2).

Lemma vals_valid_True {T} (a : @sregs T) : vals_valid (fun _ => True) a.
Proof.
  apply Forall_forall. intros [x|] _; cbn [reg_valid]; [|exact I]. apply Forall_forall. intros v _. exact I.
Qed.

(* ====================================================================== *)
(* 1. generic closed theorems: any lawful kind (all values valid), any lawful map, hash Hc *)
(* ====================================================================== *)
Section AnyKindAnyMap.
  Context {T U : Type}.
  Variable ek : ekind T.
  Variable M : umap_impl T U.
  Variable uinv : U -> Prop.
  Hypothesis EKW : ek_wf ek.
  Hypothesis TRI : troot_inj ek.
  Hypothesis ECO : ek_codec_on ek (fun _ => True).
  Hypothesis UL : umap_lawful ek M uinv.

  Theorem run_refines_closed capN vec_based (os : list (@op T)) :
    capacity_ok capN -> Forall op_plain os -> history_refines ek M uinv capN vec_based os.
  Proof.
    intros CAP Hok.
    destruct (run_refines ek M Hc capN vec_based uinv (fun _ => True) EKW UL CAP Hc_collision_free TRI ECO os
                (op_ok_plain _ os Hok)) as (rs & s' & st' & a' & E & R & I & _).
    exists rs, s', st', a'. auto.
  Qed.

  Theorem step_refines_closed capN vec_based st s a (o : @op T) :
    capacity_ok capN -> op_plain o -> SysInv ek M Hc capN uinv st s a ->
    refines ek M Hc capN vec_based uinv (fun _ => True) s a o st.
  Proof.
    intros CAP [Hco Hw] SI.
    apply (step_refines ek M Hc capN vec_based uinv (fun _ => True) EKW UL CAP Hc_collision_free TRI ECO st s a o Hco Hw);
      [apply vals_valid_True|exact SI].
  Qed.

  Theorem silent_ops_invisible_closed capN vec_based (os1 os2 k : list (@op T)) :
    capacity_ok capN -> norm os1 = norm os2 ->
    Forall op_plain (os1 ++ k) -> Forall op_plain (os2 ++ k) ->
    Forall (fun o => det_op o = true) (os1 ++ k) ->
    same_behaviour ek M Hc capN vec_based uinv os1 os2 k.
  Proof.
    intros CAP En Ok1 Ok2 Hd.
    apply (silent_ops_invisible ek M Hc capN vec_based uinv (fun _ => True) EKW UL CAP Hc_collision_free TRI ECO os1 os2 k En
             (op_ok_plain _ _ Ok1) (op_ok_plain _ _ Ok2) Hd).
  Qed.

  Theorem hash_invisible_closed capN vec_based (os k : list (@op T)) :
    capacity_ok capN -> Forall op_plain (os ++ k) -> Forall (fun o => det_op o = true) (os ++ k) ->
    same_behaviour ek M Hc capN vec_based uinv os (drop_hashes os) k.
  Proof.
    intros CAP Hok Hd.
    apply (hash_invisible ek M Hc capN vec_based uinv (fun _ => True) EKW UL CAP Hc_collision_free TRI ECO os k
             (op_ok_plain _ _ Hok) Hd).
  Qed.

  Theorem rebase_invisible_closed capN vec_based (os k : list (@op T)) :
    capacity_ok capN -> Forall op_plain (os ++ k) -> Forall (fun o => det_op o = true) (os ++ k) ->
    same_behaviour ek M Hc capN vec_based uinv os (drop_rebases os) k.
  Proof.
    intros CAP Hok Hd.
    apply (rebase_invisible ek M Hc capN vec_based uinv (fun _ => True) EKW UL CAP Hc_collision_free TRI ECO os k
             (op_ok_plain _ _ Hok) Hd).
  Qed.

  Theorem intra_is_flush_closed capN vec_based (os k : list (@op T)) :
    capacity_ok capN -> Forall op_plain (os ++ k) -> Forall (fun o => det_op o = true) (os ++ k) ->
    same_behaviour ek M Hc capN vec_based uinv os (flush_intras os) k.
  Proof.
    intros CAP Hok Hd.
    apply (intra_is_flush ek M Hc capN vec_based uinv (fun _ => True) EKW UL CAP Hc_collision_free TRI ECO os k
             (op_ok_plain _ _ Hok) Hd).
  Qed.
End AnyKindAnyMap.

Section AnyKindTwoMaps.
  Context {T U1 U2 : Type}.
  Variable ek : ekind T.
  Variable M1 : umap_impl T U1.
  Variable M2 : umap_impl T U2.
  Variable uinv1 : U1 -> Prop.
  Variable uinv2 : U2 -> Prop.
  Hypothesis EKW : ek_wf ek.
  Hypothesis TRI : troot_inj ek.
  Hypothesis ECO : ek_codec_on ek (fun _ => True).
  Hypothesis UL1 : umap_lawful ek M1 uinv1.
  Hypothesis UL2 : umap_lawful ek M2 uinv2.

  Theorem maps_unobservable_closed capN vec_based (os : list (@op T)) :
    capacity_ok capN -> Forall op_plain os -> maps_agree ek M1 M2 uinv1 uinv2 capN vec_based os.
  Proof.
    intros CAP Hok.
    exact (maps_unobservable ek M1 M2 Hc capN vec_based uinv1 uinv2 (fun _ => True) EKW UL1 UL2 CAP Hc_collision_free TRI ECO
             os (op_ok_plain _ os Hok)).
  Qed.
End AnyKindTwoMaps.

(* ---------- item 1: one closed theorem per kind family, for an arbitrary lawful map ---------- *)
(* all six unsigned kinds at once: k = 0..5 is u8, u16, u32, u64, u128, u256 *)
Theorem run_refines_uint (k : nat) (U : Type) (M : umap_impl (W (wbits (Nat.pow 2 k))) U) (uinv : U -> Prop) :
  umap_lawful (ek_uintW k) M uinv -> (k <= 5)%nat ->
  forall capN vec_based os, capacity_ok capN -> Forall op_plain os ->
  exists rs s' st' a',
    model_run (ek_uintW k) M Hc capN vec_based init_sys init_state os = Some (rs, s', st') /\
    spec_run (ek_uintW k) Hc capN vec_based (fun _ => True) init_sregs os rs a' /\
    SysInv (ek_uintW k) M Hc capN uinv st' s' a'.
Proof.
  intros UL Hk capN vec_based os.
  exact (run_refines_closed (ek_uintW k) M uinv (ek_uintW_wf k Hk) (ek_uintW_troot_inj k) (ek_uintW_codec_on k) UL
           capN vec_based os).
Qed.

Theorem run_refines_h256_any (U : Type) (M : umap_impl (W 256) U) (uinv : U -> Prop) :
  umap_lawful ek_h256W M uinv ->
  forall capN vec_based os, capacity_ok capN -> Forall op_plain os ->
  exists rs s' st' a',
    model_run ek_h256W M Hc capN vec_based init_sys init_state os = Some (rs, s', st') /\
    spec_run ek_h256W Hc capN vec_based (fun _ => True) init_sregs os rs a' /\
    SysInv ek_h256W M Hc capN uinv st' s' a'.
Proof.
  intros UL capN vec_based os.
  exact (run_refines_closed ek_h256W M uinv ek_h256W_wf ek_h256W_troot_inj ek_h256W_codec_on UL capN vec_based os).
Qed.

Theorem run_refines_pair (U : Type) (M : umap_impl (BV P_pair) U) (uinv : U -> Prop) :
  umap_lawful (ek_pairW Hc) M uinv ->
  forall capN vec_based os, capacity_ok capN -> Forall op_plain os ->
  exists rs s' st' a',
    model_run (ek_pairW Hc) M Hc capN vec_based init_sys init_state os = Some (rs, s', st') /\
    spec_run (ek_pairW Hc) Hc capN vec_based (fun _ => True) init_sregs os rs a' /\
    SysInv (ek_pairW Hc) M Hc capN uinv st' s' a'.
Proof.
  intros UL capN vec_based os.
  exact (run_refines_closed (ek_pairW Hc) M uinv (ek_pairW_wf Hc) (ek_pairW_troot_inj Hc Hc_collision_free)
           (ek_pairW_codec_on Hc) UL capN vec_based os).
Qed.

Theorem run_refines_var (U : Type) (M : umap_impl (BV P_var) U) (uinv : U -> Prop) :
  umap_lawful (ek_varW Hc) M uinv ->
  forall capN vec_based os, capacity_ok capN -> Forall op_plain os ->
  exists rs s' st' a',
    model_run (ek_varW Hc) M Hc capN vec_based init_sys init_state os = Some (rs, s', st') /\
    spec_run (ek_varW Hc) Hc capN vec_based (fun _ => True) init_sregs os rs a' /\
    SysInv (ek_varW Hc) M Hc capN uinv st' s' a'.
Proof.
  intros UL capN vec_based os.
  exact (run_refines_closed (ek_varW Hc) M uinv (ek_varW_wf Hc) (ek_varW_troot_inj Hc Hc_collision_free)
           (ek_varW_codec_on Hc) UL capN vec_based os).
Qed.

Theorem run_refines_nl_any (U : Type) (M : umap_impl (BV nl_ok) U) (uinv : U -> Prop) :
  umap_lawful (ek_nlW Hc) M uinv ->
  forall capN vec_based os, capacity_ok capN -> Forall op_plain os ->
  exists rs s' st' a',
    model_run (ek_nlW Hc) M Hc capN vec_based init_sys init_state os = Some (rs, s', st') /\
    spec_run (ek_nlW Hc) Hc capN vec_based (fun _ => True) init_sregs os rs a' /\
    SysInv (ek_nlW Hc) M Hc capN uinv st' s' a'.
Proof.
  intros UL capN vec_based os.
  exact (run_refines_closed (ek_nlW Hc) M uinv (ek_nlW_wf Hc) (ek_nlW_troot_inj Hc Hc_collision_free)
           (ek_nlW_codec_on Hc) UL capN vec_based os).
Qed.

(* ====================================================================== *)
(* 2. the three maps are lawful for every element type                      *)
(* ====================================================================== *)
Theorem vecmap_lawful_all : forall (T : Type) (ek : ekind T), umap_lawful ek (@vecmap_impl T) (fun _ => True).
Proof. intros T ek. apply vecmap_lawful. Qed.

Theorem btmap_lawful_all : forall (T : Type) (ek : ekind T), umap_lawful ek (@btmap_impl T) bt_sorted.
Proof. intros T ek. apply btmap_lawful. Qed.

Theorem maxmap_vecmap_lawful_all : forall (T : Type) (ek : ekind T),
  umap_lawful ek (maxmap_impl (@vecmap_impl T)) (maxmap_inv (@vecmap_impl T) (fun _ => True)).
Proof. intros T ek. apply maxmap_lawful, vecmap_lawful. Qed.

(* ====================================================================== *)
(* 3. the full matrix                                                       *)
(* ====================================================================== *)
(* the ten element kinds of the correspondence check (the lawful, subset-typed versions of the raw-byte
   kinds the driver runs: Instances.ek_uint_agree, ek_h256_agree, sub_agree, NestedP.ek_nlW_agree) *)
Inductive kind_ok : forall T : Type, ekind T -> Prop :=
| ko_uint (k : nat) : (k <= 5)%nat -> kind_ok _ (ek_uintW k)    (* u8 u16 u32 u64 u128 u256 *)
| ko_h256 : kind_ok _ ek_h256W
| ko_pair : kind_ok _ (ek_pairW Hc)
| ko_var : kind_ok _ (ek_varW Hc)
| ko_nl : kind_ok _ (ek_nlW Hc).

(* the three update maps, each with its representation invariant *)
Inductive map_ok {T : Type} : forall U : Type, umap_impl T U -> (U -> Prop) -> Prop :=
| mo_vec : map_ok _ (@vecmap_impl T) (fun _ => True)
| mo_bt : map_ok _ (@btmap_impl T) bt_sorted
| mo_max : map_ok _ (maxmap_impl (@vecmap_impl T)) (maxmap_inv (@vecmap_impl T) (fun _ => True)).

Theorem kind_ok_laws T (ek : ekind T) : kind_ok T ek ->
  ek_wf ek /\ troot_inj ek /\ ek_codec_on ek (fun _ => True).
Proof.
  intros K. destruct K as [k Hk| | | |].
  - split; [apply ek_uintW_wf; exact Hk|]. split; [apply ek_uintW_troot_inj|apply ek_uintW_codec_on].
  - split; [apply ek_h256W_wf|]. split; [apply ek_h256W_troot_inj|apply ek_h256W_codec_on].
  - split; [apply ek_pairW_wf|]. split; [apply ek_pairW_troot_inj, Hc_collision_free|apply ek_pairW_codec_on].
  - split; [apply ek_varW_wf|]. split; [apply ek_varW_troot_inj, Hc_collision_free|apply ek_varW_codec_on].
  - split; [apply ek_nlW_wf|]. split; [apply ek_nlW_troot_inj, Hc_collision_free|apply ek_nlW_codec_on].
Qed.

Theorem map_ok_lawful T (ek : ekind T) U (M : umap_impl T U) uinv : map_ok U M uinv -> umap_lawful ek M uinv.
Proof.
  intros K. destruct K.
  - apply vecmap_lawful_all.
  - apply btmap_lawful_all.
  - apply maxmap_vecmap_lawful_all.
Qed.

(* the packing factors of the ten kinds: 32,16,8,4,2,1 and unpacked *)
Lemma kinds_packing :
  pf_of (ek_uintW 0) = 32 /\ pf_of (ek_uintW 1) = 16 /\ pf_of (ek_uintW 2) = 8 /\ pf_of (ek_uintW 3) = 4 /\
  pf_of (ek_uintW 4) = 2 /\ pf_of (ek_uintW 5) = 1 /\
  is_packed (ek_uintW 0) = true /\ is_packed (ek_uintW 5) = true /\
  is_packed ek_h256W = false /\ is_packed (ek_pairW Hc) = false /\ is_packed (ek_varW Hc) = false /\
  is_packed (ek_nlW Hc) = false.
Proof. repeat split; reflexivity. Qed.

Theorem every_configuration_refines :
  forall (T : Type) (ek : ekind T), kind_ok T ek ->
  forall (U : Type) (M : umap_impl T U) (uinv : U -> Prop), map_ok U M uinv ->
  forall (capN : N) (vec_based : bool) (os : list (@op T)),
  capacity_ok capN -> Forall op_plain os ->
  exists rs s' st' a',
    model_run ek M Hc capN vec_based init_sys init_state os = Some (rs, s', st') /\
    spec_run ek Hc capN vec_based (fun _ => True) init_sregs os rs a' /\
    SysInv ek M Hc capN uinv st' s' a'.
Proof.
  intros T ek K U M uinv KM capN vec_based os.
  destruct (kind_ok_laws T ek K) as (EKW & TRI & ECO).
  exact (run_refines_closed ek M uinv EKW TRI ECO (map_ok_lawful T ek U M uinv KM) capN vec_based os).
Qed.

(* one step, from any state satisfying the invariant (not only reachable ones) *)
Theorem every_configuration_step :
  forall (T : Type) (ek : ekind T), kind_ok T ek ->
  forall (U : Type) (M : umap_impl T U) (uinv : U -> Prop), map_ok U M uinv ->
  forall (capN : N) (vec_based : bool) st s a (o : @op T),
  capacity_ok capN -> op_plain o -> SysInv ek M Hc capN uinv st s a ->
  refines ek M Hc capN vec_based uinv (fun _ => True) s a o st.
Proof.
  intros T ek K U M uinv KM capN vec_based st s a o.
  destruct (kind_ok_laws T ek K) as (EKW & TRI & ECO).
  exact (step_refines_closed ek M uinv EKW TRI ECO (map_ok_lawful T ek U M uinv KM) capN vec_based st s a o).
Qed.

(* the same matrix without the enumerations: the 5 x 3 instantiations (the six unsigned kinds are
   covered by the quantifier k <= 5) *)
Definition all_maps_refine {T} (ek : ekind T) : Prop :=
  forall capN vec_based (os : list (@op T)), capacity_ok capN -> Forall op_plain os ->
    history_refines ek (@vecmap_impl T) (fun _ => True) capN vec_based os /\
    history_refines ek (@btmap_impl T) bt_sorted capN vec_based os /\
    history_refines ek (maxmap_impl (@vecmap_impl T)) (maxmap_inv (@vecmap_impl T) (fun _ => True)) capN vec_based os.

Theorem every_configuration_conj :
  (forall k, (k <= 5)%nat -> all_maps_refine (ek_uintW k)) /\
  all_maps_refine ek_h256W /\ all_maps_refine (ek_pairW Hc) /\ all_maps_refine (ek_varW Hc) /\
  all_maps_refine (ek_nlW Hc).
Proof.
  assert (A : forall T (ek : ekind T), kind_ok T ek -> all_maps_refine ek).
  { intros T ek K capN vec_based os CAP Hok.
    split; [|split]; apply (every_configuration_refines T ek K); auto; constructor. }
  split; [intros k Hk; apply A; constructor; exact Hk|].
  split; [apply A; constructor|]. split; [apply A; constructor|]. split; apply A; constructor.
Qed.

(* ====================================================================== *)
(* 4. C14: the matrix for maps_unobservable                                 *)
(* ====================================================================== *)
(* generic in the kind and in BOTH maps: any two lawful maps *)
Theorem maps_unobservable_any :
  forall (T : Type) (ek : ekind T), kind_ok T ek ->
  forall (U1 U2 : Type) (M1 : umap_impl T U1) (M2 : umap_impl T U2) uinv1 uinv2,
  umap_lawful ek M1 uinv1 -> umap_lawful ek M2 uinv2 ->
  forall (capN : N) (vec_based : bool) (os : list (@op T)),
  capacity_ok capN -> Forall op_plain os ->
  exists rs1 s1 st1 a1 rs2 s2 st2 a2,
    model_run ek M1 Hc capN vec_based init_sys init_state os = Some (rs1, s1, st1) /\
    model_run ek M2 Hc capN vec_based init_sys init_state os = Some (rs2, s2, st2) /\
    spec_run ek Hc capN vec_based (fun _ => True) init_sregs os rs1 a1 /\
    spec_run ek Hc capN vec_based (fun _ => True) init_sregs os rs2 a2 /\
    SysInv ek M1 Hc capN uinv1 st1 s1 a1 /\ SysInv ek M2 Hc capN uinv2 st2 s2 a2 /\
    (spec_run_det ek Hc capN vec_based (fun _ => True) init_sregs os rs1 a1 -> rs1 = rs2 /\ a1 = a2) /\
    (Forall (fun o => det_op o = true) os -> rs1 = rs2 /\ a1 = a2).
Proof.
  intros T ek K U1 U2 M1 M2 uinv1 uinv2 UL1 UL2 capN vec_based os.
  destruct (kind_ok_laws T ek K) as (EKW & TRI & ECO).
  exact (maps_unobservable_closed ek M1 M2 uinv1 uinv2 EKW TRI ECO UL1 UL2 capN vec_based os).
Qed.

(* the matrix: any two of the three maps (all nine ordered pairs) *)
Theorem maps_unobservable_all :
  forall (T : Type) (ek : ekind T), kind_ok T ek ->
  forall (U1 : Type) (M1 : umap_impl T U1) uinv1, map_ok U1 M1 uinv1 ->
  forall (U2 : Type) (M2 : umap_impl T U2) uinv2, map_ok U2 M2 uinv2 ->
  forall (capN : N) (vec_based : bool) (os : list (@op T)),
  capacity_ok capN -> Forall op_plain os ->
  maps_agree ek M1 M2 uinv1 uinv2 capN vec_based os.
Proof.
  intros T ek K U1 M1 uinv1 K1 U2 M2 uinv2 K2 capN vec_based os.
  exact (maps_unobservable_any T ek K U1 U2 M1 M2 uinv1 uinv2 (map_ok_lawful T ek U1 M1 uinv1 K1)
           (map_ok_lawful T ek U2 M2 uinv2 K2) capN vec_based os).
Qed.

(* the three pairs of the task, spelled out; every deterministic history (Refine.det_op: no `==`; SSZ decoding of
   inputs below 4 GiB included) is answered identically *)
Theorem maps_unobservable_three :
  forall (T : Type) (ek : ekind T), kind_ok T ek ->
  forall (capN : N) (vec_based : bool) (os : list (@op T)),
  capacity_ok capN -> Forall op_plain os -> Forall (fun o => det_op o = true) os ->
  exists rsV sV stV aV rsB sB stB aB rsM sM stM aM,
    model_run ek (@vecmap_impl T) Hc capN vec_based init_sys init_state os = Some (rsV, sV, stV) /\
    model_run ek (@btmap_impl T) Hc capN vec_based init_sys init_state os = Some (rsB, sB, stB) /\
    model_run ek (maxmap_impl (@vecmap_impl T)) Hc capN vec_based init_sys init_state os = Some (rsM, sM, stM) /\
    spec_run ek Hc capN vec_based (fun _ => True) init_sregs os rsV aV /\
    SysInv ek (@vecmap_impl T) Hc capN (fun _ => True) stV sV aV /\
    SysInv ek (@btmap_impl T) Hc capN bt_sorted stB sB aB /\
    SysInv ek (maxmap_impl (@vecmap_impl T)) Hc capN (maxmap_inv (@vecmap_impl T) (fun _ => True)) stM sM aM /\
    rsV = rsB /\ aV = aB /\        (* VecMap vs BTreeMap *)
    rsV = rsM /\ aV = aM /\        (* VecMap vs MaxMap<VecMap> *)
    rsM = rsB /\ aM = aB.          (* MaxMap<VecMap> vs BTreeMap *)
Proof.
  intros T ek K capN vec_based os CAP Hok Hd.
  destruct (maps_unobservable_all T ek K _ _ _ mo_vec _ _ _ mo_bt capN vec_based os CAP Hok)
    as (rsV & sV & stV & aV & rsB & sB & stB & aB & EV & EB & RV & _ & IV & IB & _ & DB).
  destruct (maps_unobservable_all T ek K _ _ _ mo_vec _ _ _ mo_max capN vec_based os CAP Hok)
    as (rsV' & sV' & stV' & aV' & rsM & sM & stM & aM & EV' & EM & RV' & _ & IV' & IM & _ & DM).
  rewrite EV in EV'. injection EV' as <- <- <-.
  destruct (DB Hd) as [E1 E2].
  assert (Ea : aV' = aV).
  { destruct (spec_run_det_unique ek Hc capN vec_based (fun _ => True) _ _ _ _
                (spec_run_det_of ek Hc capN vec_based (fun _ => True) _ _ _ _ Hd RV') _ _ RV) as [_ Ea]. exact Ea. }
  subst aV'. destruct (DM Hd) as [E3 E4].
  exists rsV, sV, stV, aV, rsB, sB, stB, aB, rsM, sM, stM, aM.
  repeat (split; [assumption|]). split; [congruence|congruence].
Qed.

(* ====================================================================== *)
(* 5. the matrix for InvisibleP                                             *)
(* ====================================================================== *)
Theorem silent_ops_invisible_all :
  forall (T : Type) (ek : ekind T), kind_ok T ek ->
  forall (U : Type) (M : umap_impl T U) (uinv : U -> Prop), map_ok U M uinv ->
  forall (capN : N) (vec_based : bool) (os1 os2 k : list (@op T)),
  capacity_ok capN -> norm os1 = norm os2 ->
  Forall op_plain (os1 ++ k) -> Forall op_plain (os2 ++ k) ->
  Forall (fun o => det_op o = true) (os1 ++ k) ->
  exists rs1 ks1 s1 st1 a1 rs2 ks2 s2 st2 a2,
    model_run ek M Hc capN vec_based init_sys init_state (os1 ++ k) = Some (rs1 ++ ks1, s1, st1) /\
    model_run ek M Hc capN vec_based init_sys init_state (os2 ++ k) = Some (rs2 ++ ks2, s2, st2) /\
    length rs1 = length os1 /\ length rs2 = length os2 /\
    norm_res os1 rs1 = norm_res os2 rs2 /\
    ks1 = ks2 /\
    a1 = a2 /\
    SysInv ek M Hc capN uinv st1 s1 a1 /\ SysInv ek M Hc capN uinv st2 s2 a2.
Proof.
  intros T ek K U M uinv KM capN vec_based os1 os2 k.
  destruct (kind_ok_laws T ek K) as (EKW & TRI & ECO).
  exact (silent_ops_invisible_closed ek M uinv EKW TRI ECO (map_ok_lawful T ek U M uinv KM) capN vec_based os1 os2 k).
Qed.

(* C03 *)
Theorem hash_invisible_all :
  forall (T : Type) (ek : ekind T), kind_ok T ek ->
  forall (U : Type) (M : umap_impl T U) (uinv : U -> Prop), map_ok U M uinv ->
  forall (capN : N) (vec_based : bool) (os k : list (@op T)),
  capacity_ok capN -> Forall op_plain (os ++ k) -> Forall (fun o => det_op o = true) (os ++ k) ->
  same_behaviour ek M Hc capN vec_based uinv os (drop_hashes os) k.
Proof.
  intros T ek K U M uinv KM capN vec_based os k.
  destruct (kind_ok_laws T ek K) as (EKW & TRI & ECO).
  exact (hash_invisible_closed ek M uinv EKW TRI ECO (map_ok_lawful T ek U M uinv KM) capN vec_based os k).
Qed.

(* C07 *)
Theorem rebase_invisible_all :
  forall (T : Type) (ek : ekind T), kind_ok T ek ->
  forall (U : Type) (M : umap_impl T U) (uinv : U -> Prop), map_ok U M uinv ->
  forall (capN : N) (vec_based : bool) (os k : list (@op T)),
  capacity_ok capN -> Forall op_plain (os ++ k) -> Forall (fun o => det_op o = true) (os ++ k) ->
  same_behaviour ek M Hc capN vec_based uinv os (drop_rebases os) k.
Proof.
  intros T ek K U M uinv KM capN vec_based os k.
  destruct (kind_ok_laws T ek K) as (EKW & TRI & ECO).
  exact (rebase_invisible_closed ek M uinv EKW TRI ECO (map_ok_lawful T ek U M uinv KM) capN vec_based os k).
Qed.

(* C09 *)
Theorem intra_is_flush_all :
  forall (T : Type) (ek : ekind T), kind_ok T ek ->
  forall (U : Type) (M : umap_impl T U) (uinv : U -> Prop), map_ok U M uinv ->
  forall (capN : N) (vec_based : bool) (os k : list (@op T)),
  capacity_ok capN -> Forall op_plain (os ++ k) -> Forall (fun o => det_op o = true) (os ++ k) ->
  same_behaviour ek M Hc capN vec_based uinv os (flush_intras os) k.
Proof.
  intros T ek K U M uinv KM capN vec_based os k.
  destruct (kind_ok_laws T ek K) as (EKW & TRI & ECO).
  exact (intra_is_flush_closed ek M uinv EKW TRI ECO (map_ok_lawful T ek U M uinv KM) capN vec_based os k).
Qed.

(* ====================================================================== *)
(* 6. C10 at run level: the size of every live tree                          *)
(* ====================================================================== *)
(* the number of nodes of a tree is the number of nodes of its shape *)
Lemma nodes_shape {T} (t : tree T) : lenN (nodes t) = snodes (shape t).
Proof.
  induction t as [i v|i vs|i l IHl r IHr|i d]; cbn [nodes shape snodes]; try reflexivity.
  rewrite lenN_cons, lenN_app, IHl, IHr. lia.
Qed.

(* ceil (a / b) *)
Definition cdivN (a b : N) : N := (a + b - 1) / b.

Lemma cdivN_mono a a' b : a <= a' -> cdivN a b <= cdivN a' b.
Proof.
  intros Ha. unfold cdivN. destruct (N.eq_dec b 0) as [->|Hb].
  - destruct (a + 0 - 1), (a' + 0 - 1); cbn; lia.
  - apply N.div_le_mono; lia.
Qed.
Lemma cdivN_add_mul q r b : 0 < b -> cdivN (q * b + r) b = q + cdivN r b.
Proof.
  intros Hb. unfold cdivN. replace (q * b + r + b - 1) with (q * b + (r + b - 1)) by lia.
  apply N.div_add_l. lia.
Qed.
Lemma cdivN_1 a : cdivN a 1 = a.
Proof. unfold cdivN. rewrite N.div_1_r. lia. Qed.
Lemma cdivN_le a b : 0 < b -> cdivN a b <= a.
Proof.
  intros Hb. unfold cdivN. destruct (N.eq_dec a 0) as [->|Ha].
  - rewrite N.div_small by lia. lia.
  - apply N.div_le_upper_bound; [lia|]. nia.
Qed.

Section NodeCount.
  Context {T : Type}.
  Variable ek : ekind T.

  Lemma cap_pf d : cap ek d = pow2 d * pf_of ek.
  Proof. unfold cap, pf_of. apply pow2_add. Qed.

  (* a full subtree of depth dd has exactly 2^(dd+1) - 1 nodes, whatever the packing factor *)
  Lemma snodes_canon_full_eq : forall dd l, lenN l = cap ek dd -> snodes (canon ek dd l) + 1 = 2 * pow2 dd.
  Proof.
    induction dd as [|dd IH]; intros l F.
    - pose proof (full_ne ek _ _ F) as Hne. destruct l as [|v l]; [congruence|]. cbn [canon].
      destruct (is_packed ek); reflexivity.
    - rewrite (canon_S ek) by (eapply (full_ne ek); exact F). cbn [snodes]. rewrite cap_S in F.
      pose proof (cap_pos ek dd) as Hc.
      assert (F1 : lenN (takeN (cap ek dd) l) = cap ek dd) by (rewrite lenN_takeN; lia).
      assert (F2 : lenN (dropN (cap ek dd) l) = cap ek dd) by (rewrite lenN_dropN; lia).
      apply IH in F1. apply IH in F2. rewrite pow2_S. lia.
  Qed.

  (* the node bound of DESIGN (C10): 2 * ceil(len / pf) + 2 * depth + 1 *)
  Theorem snodes_canon_packed_le : forall dd l,
    snodes (canon ek dd l) <= 2 * cdivN (lenN l) (pf_of ek) + 2 * N.of_nat dd + 1.
  Proof.
    induction dd as [|dd IH]; intros l.
    - destruct l as [|v l]; cbn [canon]; [cbn [snodes]; lia|]. destruct (is_packed ek); cbn [snodes]; lia.
    - destruct l as [|v l']; [cbn [canon snodes]; lia|]. remember (v :: l') as l eqn:El.
      rewrite (canon_S ek) by (subst l; discriminate). cbn [snodes].
      destruct (N.le_gt_cases (lenN l) (cap ek dd)) as [Hle|Hgt].
      + rewrite takeN_all, dropN_all by auto. rewrite (canon_nil ek). cbn [snodes]. specialize (IH l). lia.
      + assert (F1 : lenN (takeN (cap ek dd) l) = cap ek dd) by (rewrite lenN_takeN; lia).
        pose proof (snodes_canon_full_eq _ _ F1) as E1. specialize (IH (dropN (cap ek dd) l)).
        assert (Ec : cdivN (lenN l) (pf_of ek) = pow2 dd + cdivN (lenN (dropN (cap ek dd) l)) (pf_of ek)).
        { rewrite <- cdivN_add_mul by apply pow2_pos. f_equal. rewrite <- cap_pf, lenN_dropN. lia. }
        rewrite Ec. remember (cdivN (lenN (dropN (cap ek dd) l)) (pf_of ek)) as c eqn:Hc'. clear Hc'.
        remember (pow2 dd) as p eqn:Hp. clear Hp.
        remember (snodes (canon ek dd (takeN (cap ek dd) l))) as x eqn:Hx. clear Hx.
        remember (snodes (canon ek dd (dropN (cap ek dd) l))) as y eqn:Hy. clear Hy.
        lia.
  Qed.

  Lemma list_depth_le_63 capN : capacity_ok capN -> (list_depth ek capN <= 63)%nat.
  Proof.
    intros C2. unfold capacity_ok in C2. unfold list_depth.
    destruct (int_log_spec capN C2) as [_ Hl]. specialize (Hl 63%nat C2). lia.
  Qed.
End NodeCount.

Section HandleBound.
  Context {T U : Type}.
  Variable ek : ekind T.
  Variable M : umap_impl T U.
  Variable capN : N.
  Variable uinv : U -> Prop.

  (* the handle invariant bounds the size of the backing tree by the backing length (the contents
     without the pending pushes), which is at most the length of the abstract contents *)
  Theorem hinv_node_bound (h : handle T U) (l : list T) : hinv ek M capN uinv h l ->
    lenN (nodes (htree h)) <= 2 * cdivN (hblen h) (pf_of ek) + 2 * N.of_nat (list_depth ek capN) + 1 /\
    lenN (nodes (htree h)) <= 2 * hblen h + 2 * N.of_nat (list_depth ek capN) + 1 /\
    hblen h <= lenN l /\ hblen h <= capN.
  Proof.
    intros ((bl & Hs & Hb & (Hle & _) & _) & Hd & _ & Hc & _).
    rewrite nodes_shape, Hs, Hd, <- Hb.
    split; [apply snodes_canon_packed_le|]. split; [apply snodes_canon_le|]. split; [exact Hle|].
    rewrite Hb. exact Hc.
  Qed.

  (* ... hence by a quantity in which the capacity does not occur *)
  Corollary hinv_node_bound_capfree (h : handle T U) (l : list T) : capacity_ok capN -> hinv ek M capN uinv h l ->
    lenN (nodes (htree h)) <= 2 * cdivN (lenN l) (pf_of ek) + 127.
  Proof.
    intros CAP HI. destruct (hinv_node_bound h l HI) as (B & _ & Hle & _).
    pose proof (list_depth_le_63 ek capN CAP) as Hd.
    pose proof (cdivN_mono _ _ (pf_of ek) Hle) as Hm. lia.
  Qed.
End HandleBound.

Section ReachableBound.
  Context {T U : Type}.
  Variable ek : ekind T.
  Variable M : umap_impl T U.
  Variable uinv : U -> Prop.
  Hypothesis EKW : ek_wf ek.
  Hypothesis TRI : troot_inj ek.
  Hypothesis ECO : ek_codec_on ek (fun _ => True).
  Hypothesis UL : umap_lawful ek M uinv.

  (* every state in which a history of plain operations ends is reachable in the sense of Refine.v *)
  Lemma reachable_plain capN vec_based (os : list (@op T)) rs s st :
    Forall op_plain os -> model_run ek M Hc capN vec_based init_sys init_state os = Some (rs, s, st) ->
    reachable ek M Hc capN vec_based (fun _ => True) s st.
  Proof. intros Hok Em. exists os, rs. split; [apply op_ok_plain; exact Hok|exact Em]. Qed.

  (* in every reachable state, every live handle h (in any register i) represents a list l (what
     to_vec returns, pending writes included) and its backing tree has at most
     2 * ceil(hblen h / pf) + 2 * depth + 1 nodes, where hblen h <= |l| is the length of the backing list
     (the contents without the pending pushes) and depth = list_depth ek capN <= 63 *)
  Theorem reachable_node_bound capN vec_based (s : @sys T U) (st : state) (i : nat) (h : handle T U) :
    capacity_ok capN -> reachable ek M Hc capN vec_based (fun _ => True) s st -> rget s i = Some h ->
    exists l, hinv ek M capN uinv h l /\ to_vec ek M h = Ret l /\ hblen h <= lenN l /\ lenN l <= capN /\
      lenN (nodes (htree h)) <= 2 * cdivN (hblen h) (pf_of ek) + 2 * N.of_nat (list_depth ek capN) + 1 /\
      lenN (nodes (htree h)) <= 2 * hblen h + 2 * N.of_nat (list_depth ek capN) + 1 /\
      lenN (nodes (htree h)) <= 2 * cdivN (lenN l) (pf_of ek) + 127.
  Proof.
    intros CAP Hr E.
    destruct (reachable_bounds ek M Hc capN vec_based uinv (fun _ => True) EKW UL CAP Hc_collision_free TRI ECO s st i h Hr E)
      as (l & HI & Hl & _ & _ & Hv).
    destruct (hinv_node_bound ek M capN uinv h l HI) as (B1 & B2 & Hle & _).
    exists l. split; [exact HI|]. split; [exact Hv|]. split; [exact Hle|]. split; [exact Hl|].
    split; [exact B1|]. split; [exact B2|]. apply (hinv_node_bound_capfree ek M capN uinv h l CAP HI).
  Qed.
End ReachableBound.

(* the matrix *)
Theorem reachable_node_bound_all :
  forall (T : Type) (ek : ekind T), kind_ok T ek ->
  forall (U : Type) (M : umap_impl T U) (uinv : U -> Prop), map_ok U M uinv ->
  forall (capN : N) (vec_based : bool) (os : list (@op T)) rs s st (i : nat) (h : handle T U),
  capacity_ok capN -> Forall op_plain os ->
  model_run ek M Hc capN vec_based init_sys init_state os = Some (rs, s, st) -> rget s i = Some h ->
  exists l, hinv ek M capN uinv h l /\ to_vec ek M h = Ret l /\ hblen h <= lenN l /\ lenN l <= capN /\
    lenN (nodes (htree h)) <= 2 * cdivN (hblen h) (pf_of ek) + 2 * N.of_nat (list_depth ek capN) + 1 /\
    lenN (nodes (htree h)) <= 2 * hblen h + 2 * N.of_nat (list_depth ek capN) + 1 /\
    lenN (nodes (htree h)) <= 2 * cdivN (lenN l) (pf_of ek) + 127.
Proof.
  intros T ek K U M uinv KM capN vec_based os rs s st i h CAP Hok Em E.
  destruct (kind_ok_laws T ek K) as (EKW & TRI & ECO).
  apply (reachable_node_bound ek M uinv EKW TRI ECO (map_ok_lawful T ek U M uinv KM) capN vec_based s st i h CAP); [|exact E].
  apply (reachable_plain ek M capN vec_based os rs s st Hok Em).
Qed.

(* the bound is independent of capN: spelled out for the clean case of an unpacked kind *)
Corollary reachable_node_bound_capfree :
  forall (T : Type) (ek : ekind T), kind_ok T ek ->
  forall (U : Type) (M : umap_impl T U) (uinv : U -> Prop), map_ok U M uinv ->
  forall (capN : N) (vec_based : bool) (os : list (@op T)) rs s st (i : nat) (h : handle T U),
  capacity_ok capN -> Forall op_plain os ->
  model_run ek M Hc capN vec_based init_sys init_state os = Some (rs, s, st) -> rget s i = Some h ->
  exists l, to_vec ek M h = Ret l /\ lenN (nodes (htree h)) <= 2 * cdivN (lenN l) (pf_of ek) + 127 /\
            lenN (nodes (htree h)) <= 2 * lenN l + 127.
Proof.
  intros T ek K U M uinv KM capN vec_based os rs s st i h CAP Hok Em E.
  destruct (reachable_node_bound_all T ek K U M uinv KM capN vec_based os rs s st i h CAP Hok Em E)
    as (l & _ & Hv & _ & _ & _ & _ & B).
  exists l. split; [exact Hv|]. split; [exact B|].
  pose proof (cdivN_le (lenN l) (pf_of ek) (pow2_pos _)). lia.
Qed.

Print Assumptions run_refines_closed.
Print Assumptions step_refines_closed.
Print Assumptions run_refines_uint.
Print Assumptions run_refines_h256_any.
Print Assumptions run_refines_pair.
Print Assumptions run_refines_var.
Print Assumptions run_refines_nl_any.
Print Assumptions vecmap_lawful_all.
Print Assumptions btmap_lawful_all.
Print Assumptions maxmap_vecmap_lawful_all.
Print Assumptions kind_ok_laws.
Print Assumptions map_ok_lawful.
Print Assumptions every_configuration_refines.
Print Assumptions every_configuration_step.
Print Assumptions every_configuration_conj.
Print Assumptions maps_unobservable_any.
Print Assumptions maps_unobservable_all.
Print Assumptions maps_unobservable_three.
Print Assumptions silent_ops_invisible_all.
Print Assumptions hash_invisible_all.
Print Assumptions rebase_invisible_all.
Print Assumptions intra_is_flush_all.
Print Assumptions nodes_shape.
Print Assumptions snodes_canon_full_eq.
Print Assumptions snodes_canon_packed_le.
Print Assumptions hinv_node_bound.
Print Assumptions hinv_node_bound_capfree.
Print Assumptions reachable_node_bound.
Print Assumptions reachable_node_bound_all.
Print Assumptions reachable_node_bound_capfree.
