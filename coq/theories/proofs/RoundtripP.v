(* RoundtripP.v — run-level round-trip and equality-stability theorems about the model.
     ssz_list_roundtrip, ssz_vec_roundtrip (C12) :
        in every state satisfying the system invariant, for every register i holding a list (vector) with
        abstract contents l — whatever built it, pending writes included — and every other register d:
        the history [OSszList d (serialize l); OApply i; OEq i d; OEq d i] run by `model_run` returns
        normally and answers [ROk; ROk; RBool true; RBool true]; afterwards d holds clean_list l
        (clean_vec l) and i holds the flushed original.
        Extra hypothesis (stated explicitly): valid_bytes (serialize l) = true. The codec laws
        `ek_codec_on` do not say that `eenc` produces numbers below 256, so this cannot be derived from
        `vals_valid a`; it is discharged for the closed u64 instance below (ssz_list_roundtrip_u64).
     serde_list_roundtrip, serde_vec_roundtrip (C13) : the same with OSerdeList d l / OSerdeVec d l;
        no extra hypothesis.
     eq_stable (C04) : for registers i, j both clean (or empty), and a history os of operations of the class
        `preserves i j`, the two `OEq i j` of OEq i j :: os ++ [OEq i j] get the same answer.
     closed instance u64 / VecMap / Hc and a vm_compute example with a pending push.
   Proof file; no model code. *)
From Coq Require Import FMapPositive.
From MH Require Import Inv IfaceP IterP CollObsP HashP CodecP SysInv RefineBase RefineA RefineB Refine.
Local Open Scope N_scope.

(* ====================================================================== *)
(* specification level (no model)                                           *)
(* ====================================================================== *)
Section SpecRound.
  Context {T : Type}.
  Variable ek : ekind T.
  Variable H : digest -> digest -> digest.
  Variable capN : N.
  Variable vec_based : bool.
  Variable valid : T -> Prop.
  Notation aval := (@aval T).
  Notation sregs := (@sregs T).
  Notation res := (@res T).
  Notation op := (@op T).
  Notation spec_ok := (spec_ok ek H capN vec_based valid).
  Notation spec_run := (spec_run ek H capN vec_based valid).
  Notation flushed := (Spec.flushed capN).

  Lemma spec_run_cons_inv (a : sregs) o os rs a' : spec_run a (o :: os) rs a' ->
    exists r a1 rs', rs = r :: rs' /\ spec_ok a o r a1 /\ spec_run a1 os rs' a'.
  Proof. intros R. inversion R; subst. eauto 6. Qed.
  Lemma spec_run_nil_inv (a : sregs) rs a' : spec_run a [] rs a' -> rs = [] /\ a' = a.
  Proof. intros R. inversion R; subst. auto. Qed.
  Lemma spec_run_app_split os1 : forall (a : sregs) os2 rs a', spec_run a (os1 ++ os2) rs a' ->
    exists rs1 rs2 a1, rs = rs1 ++ rs2 /\ length rs1 = length os1 /\ spec_run a os1 rs1 a1 /\ spec_run a1 os2 rs2 a'.
  Proof.
    induction os1 as [|o os1 IH]; intros a os2 rs a' R; cbn [app] in R.
    - exists [], rs, a. split; [reflexivity|]. split; [reflexivity|]. split; [constructor|exact R].
    - destruct (spec_run_cons_inv _ _ _ _ _ R) as (r & a1 & rs' & -> & Hs & R').
      destruct (IH _ _ _ _ R') as (rs1 & rs2 & a2 & -> & Hl & R1 & R2).
      exists (r :: rs1), rs2, a2. split; [reflexivity|]. split; [cbn [length]; congruence|].
      split; [econstructor; eassumption|exact R2].
  Qed.

  Lemma length_aset (a : sregs) k xo : length (aset a k xo) = length a.
  Proof. unfold aset. apply length_set_nth. Qed.

  (* the last three operations of the round trips: flush the original, compare both ways *)
  Lemma spec_tail (a : sregs) i d x y rs a' :
    aget a i = Some x -> d <> i -> (d < length a)%nat ->
    a_list y = a_list x -> a_vals y = a_vals x -> a_pend y = false ->
    spec_run (aset a d (Some y)) [OApply i; OEq i d; OEq d i] rs a' ->
    rs = [ROk; RBool true; RBool true] /\ a' = aset (aset a d (Some y)) i (Some (flushed x)).
  Proof.
    intros Ei Hne Hd Hl Hv Hp R.
    destruct (spec_run_cons_inv _ _ _ _ _ R) as (r1 & a1 & rs1 & -> & S1 & R1). clear R.
    destruct (spec_run_cons_inv _ _ _ _ _ R1) as (r2 & a2 & rs2 & -> & S2 & R2). clear R1.
    destruct (spec_run_cons_inv _ _ _ _ _ R2) as (r3 & a3 & rs3 & -> & S3 & R3). clear R2.
    destruct (spec_run_nil_inv _ _ _ R3) as [-> ->]. clear R3.
    pose proof (aget_lt _ _ _ Ei) as Hi.
    remember (aset a d (Some y)) as b eqn:Eb.
    assert (Ebi : aget b i = Some x) by (rewrite Eb, aget_aset_neq by exact Hne; exact Ei).
    assert (Ebd : aget b d = Some y) by (rewrite Eb; apply aget_aset_eq; exact Hd).
    assert (Lb : length b = length a) by (rewrite Eb; apply length_aset).
    cbn [Spec.spec_ok] in S1. unfold with_reg in S1. rewrite Ebi in S1. destruct S1 as [-> ->].
    remember (aset b i (Some (flushed x))) as c eqn:Ec.
    assert (Eci : aget c i = Some (flushed x)) by (rewrite Ec; apply aget_aset_eq; lia).
    assert (Ecd : aget c d = Some y) by (rewrite Ec, aget_aset_neq by congruence; exact Ebd).
    assert (Ekind : Bool.eqb (a_list (flushed x)) (a_list y) = true).
    { cbn [Spec.flushed Spec.mk a_list]. rewrite Hl. apply Bool.eqb_reflx. }
    assert (Ekind' : Bool.eqb (a_list y) (a_list (flushed x)) = true).
    { cbn [Spec.flushed Spec.mk a_list]. rewrite Hl. apply Bool.eqb_reflx. }
    cbn [Spec.spec_ok] in S2. unfold with_reg in S2. rewrite Eci, Ecd, Ekind in S2.
    destruct S2 as (-> & b2 & -> & B2).
    cbn [Spec.spec_ok] in S3. unfold with_reg in S3. rewrite Eci, Ecd, Ekind' in S3.
    destruct S3 as (-> & b3 & -> & B3).
    cbn [Spec.flushed Spec.mk a_pend a_vals] in B2, B3.
    assert (b2 = true) as -> by (apply (B2 eq_refl Hp); congruence).
    assert (b3 = true) as -> by (apply (B3 Hp eq_refl); congruence).
    auto.
  Qed.

  (* ---------- C04: what `==` sees of a register, and the operations that leave it alone ---------- *)
  Definition view (a : sregs) (k : nat) : option (bool * list T * bool) :=
    option_map (fun x : aval => (a_list x, a_vals x, a_pend x)) (aget a k).
  (* register k is empty or holds a clean value *)
  Definition cleanreg (a : sregs) (k : nat) : Prop := forall x, aget a k = Some x -> a_pend x = false.

  (* operations that leave kind, contents and cleanliness of the (clean) registers i and j unchanged:
     the reads, the hashes, rebase_on, the flushes (apply_updates / intra_rebase: on a clean value they change
     nothing that `==` sees; on another register they do not touch i, j), clone into / drop of another register *)
  Definition preserves (i j : nat) (o : op) : bool :=
    match o with
    | OHash _ | OParHash _ _ | OParMix _ _ | ORebaseOn _ _ | OIntra _ | OApply _
    | OGet _ _ | OCowRead _ _ | OLen _ | OIterFrom _ _ | OLevelIter _ _ | OEq _ _ | OSszEnc _ | OSerdeSer _ => true
    | OClone _ k | ODrop k => negb (Nat.eqb k i) && negb (Nat.eqb k j)
    | _ => false
    end.

  Lemma view_aset_neq (a : sregs) k m xo : k <> m -> view (aset a k xo) m = view a m.
  Proof. intros Hne. unfold view. rewrite aget_aset_neq by exact Hne. reflexivity. Qed.
  Lemma view_aset_flushed (a : sregs) k m x : aget a k = Some x -> cleanreg a m ->
    view (aset a k (Some (flushed x))) m = view a m.
  Proof.
    intros Ek Cm. destruct (Nat.eq_dec k m) as [->|Hne]; [|apply view_aset_neq; exact Hne].
    unfold view. rewrite aget_aset_eq by (eapply aget_lt; exact Ek). rewrite Ek.
    cbn [option_map Spec.flushed Spec.mk a_list a_vals a_pend]. rewrite (Cm x Ek). reflexivity.
  Qed.
  Lemma cleanreg_view (a a' : sregs) k : view a' k = view a k -> cleanreg a k -> cleanreg a' k.
  Proof.
    unfold view, cleanreg. intros Vk Ck x Ex. rewrite Ex in Vk. destruct (aget a k) as [y|]; cbn [option_map] in Vk; [|discriminate Vk].
    assert (a_pend x = a_pend y) as -> by congruence. apply Ck. reflexivity.
  Qed.

  Lemma preserves_op_ok i j o : preserves i j o = true -> op_ok ek valid o.
  Proof. intros Hp. destruct o; cbn [preserves] in Hp; try discriminate Hp; repeat split. Qed.

  Lemma preserves_view i j (a : sregs) o r a' : preserves i j o = true -> cleanreg a i -> cleanreg a j ->
    spec_ok a o r a' -> view a' i = view a i /\ view a' j = view a j.
  Proof.
    intros Hp Ci Cj Hs.
    assert (Hflush : forall k x, aget a k = Some x ->
              view (aset a k (Some (flushed x))) i = view a i /\ view (aset a k (Some (flushed x))) j = view a j).
    { intros k x Ek. split; apply view_aset_flushed; assumption. }
    assert (Hneq : forall k xo, negb (Nat.eqb k i) && negb (Nat.eqb k j) = true ->
              view (aset a k xo) i = view a i /\ view (aset a k xo) j = view a j).
    { intros k xo Hk. apply andb_true_iff in Hk. destruct Hk as [Hki Hkj].
      apply negb_true_iff in Hki, Hkj. apply Nat.eqb_neq in Hki, Hkj. split; apply view_aset_neq; assumption. }
    clear Ci Cj.
    destruct o; cbn [preserves] in Hp; try discriminate Hp; cbn [Spec.spec_ok] in Hs; unfold with_list in Hs;
      unfold with_reg, Spec.bad in Hs; spec_inv; subst; auto;
      try (apply Hflush; assumption); try (apply Hneq; assumption).
  Qed.

  Lemma preserves_run i j os : forall (a : sregs) rs a', Forall (fun o => preserves i j o = true) os ->
    cleanreg a i -> cleanreg a j -> spec_run a os rs a' -> view a' i = view a i /\ view a' j = view a j.
  Proof.
    induction os as [|o os IH]; intros a rs a' Hall Ci Cj R.
    - destruct (spec_run_nil_inv _ _ _ R) as [_ ->]. auto.
    - destruct (spec_run_cons_inv _ _ _ _ _ R) as (r & a1 & rs' & -> & Hs & R').
      inversion Hall as [|o' os' Hp Hall']; subst o' os'.
      destruct (preserves_view i j a o r a1 Hp Ci Cj Hs) as [Vi Vj].
      destruct (IH a1 rs' a' Hall' (cleanreg_view _ _ _ Vi Ci) (cleanreg_view _ _ _ Vj Cj) R') as [Wi Wj].
      split; congruence.
  Qed.

  Lemma spec_eq_same (a : sregs) i j r a' : spec_ok a (OEq i j) r a' -> a' = a.
  Proof.
    cbn [Spec.spec_ok]. unfold with_reg, Spec.bad. intros Hs. spec_inv; subst; auto.
  Qed.

  (* the answer of `==` on clean registers is a function of the two views *)
  Lemma eq_same_view i j (a1 a2 : sregs) r1 r2 a1' a2' :
    view a2 i = view a1 i -> view a2 j = view a1 j -> cleanreg a1 i -> cleanreg a1 j ->
    spec_ok a1 (OEq i j) r1 a1' -> spec_ok a2 (OEq i j) r2 a2' -> r1 = r2.
  Proof.
    unfold view, cleanreg. intros Vi Vj Ci Cj. cbn [Spec.spec_ok]. unfold with_reg, Spec.bad.
    destruct (aget a1 i) as [x1|]; destruct (aget a2 i) as [x2|]; cbn [option_map] in Vi; try discriminate Vi.
    - destruct (aget a1 j) as [y1|]; destruct (aget a2 j) as [y2|]; cbn [option_map] in Vj; try discriminate Vj.
      + assert (Lx : a_list x2 = a_list x1) by congruence. assert (Ly : a_list y2 = a_list y1) by congruence.
        assert (Vx : a_vals x2 = a_vals x1) by congruence. assert (Vy : a_vals y2 = a_vals y1) by congruence.
        assert (Px : a_pend x2 = a_pend x1) by congruence. assert (Py : a_pend y2 = a_pend y1) by congruence.
        rewrite Lx, Ly, Vx, Vy, Px, Py. destruct (Bool.eqb (a_list x1) (a_list y1)).
        * intros (_ & b1 & -> & B1) (_ & b2 & -> & B2).
          specialize (B1 (Ci _ eq_refl) (Cj _ eq_refl)). specialize (B2 (Ci _ eq_refl) (Cj _ eq_refl)).
          f_equal. destruct b1, b2; auto; [symmetry|]; tauto.
        * intros [-> _] [-> _]. reflexivity.
      + intros [-> _] [-> _]. reflexivity.
    - intros [-> _] [-> _]. reflexivity.
  Qed.
End SpecRound.

(* ====================================================================== *)
(* the model                                                                *)
(* ====================================================================== *)
Section Roundtrip.
  Context {T U : Type}.
  Variable ek : ekind T.
  Variable M : umap_impl T U.
  Variable H : digest -> digest -> digest.
  Variable capN : N.
  Variable vec_based : bool.
  Variable uinv : U -> Prop.
  Variable valid : T -> Prop.
  Hypothesis EKW : ek_wf ek.
  Hypothesis UL : umap_lawful ek M uinv.
  Hypothesis CAP : capacity_ok capN.
  Hypothesis CF : collision_free H.
  Hypothesis TRI : troot_inj ek.
  Hypothesis ECO : ek_codec_on ek valid.
  Notation handle := (handle T U).
  Notation sys := (@sys T U).
  Notation aval := (@aval T).
  Notation sregs := (@sregs T).
  Notation res := (@res T).
  Notation op := (@op T).
  Notation hinv := (hinv ek M capN uinv).
  Notation SysInv := (SysInv ek M H capN uinv).
  Notation spec_ok := (spec_ok ek H capN vec_based valid).
  Notation spec_run := (spec_run ek H capN vec_based valid).
  Notation model_run := (model_run ek M H capN vec_based).
  Notation step := (step ek M H capN vec_based).
  Notation vals_valid := (vals_valid valid).
  Notation op_ok := (op_ok ek valid).
  Notation flushed := (Spec.flushed capN).

  (* what the invariant says about the contents of an occupied abstract register *)
  Lemma SysInv_aget_bounds st (s : sys) (a : sregs) i x : SysInv st s a -> aget a i = Some x ->
    lenN (a_vals x) <= capN /\ (a_list x = false -> lenN (a_vals x) = capN).
  Proof.
    intros SI Ea. pose proof (regs_rel_get ek M capN uinv s a i (SysInv_rel ek M H capN uinv _ _ _ SI)) as Hr.
    rewrite Ea in Hr. destruct (rget s i) as [h|]; [|contradiction]. destruct Hr as (l & Hi & ->).
    destruct Hi as (_ & _ & Hle & _ & Hv & _). cbn [abs_of a_vals a_list]. split; [exact Hle|].
    intros Hl. destruct (Hv Hl) as [_ E]. exact E.
  Qed.

  (* the round trip through any constructor o whose specification at (a, d) is "ROk and d := y",
     y clean, of the kind of x and with the contents of x *)
  Lemma roundtrip_generic st (s : sys) (a : sregs) i d x o y :
    SysInv st s a -> vals_valid a -> aget a i = Some x -> d <> i -> (d < nregs)%nat ->
    op_ok o ->
    (forall r a1, spec_ok a o r a1 -> r = ROk /\ a1 = aset a d (Some y)) ->
    a_list y = a_list x -> a_vals y = a_vals x -> a_pend y = false ->
    exists s' st',
      model_run s st [o; OApply i; OEq i d; OEq d i] = Some ([ROk; ROk; RBool true; RBool true], s', st') /\
      SysInv st' s' (aset (aset a d (Some y)) i (Some (flushed x))) /\
      vals_valid (aset (aset a d (Some y)) i (Some (flushed x))) /\
      aget (aset (aset a d (Some y)) i (Some (flushed x))) d = Some y /\
      aget (aset (aset a d (Some y)) i (Some (flushed x))) i = Some (flushed x) /\
      bslot s' = bslot s.
  Proof.
    intros SI V Ei Hne Hd Hok Hspec Hl Hv Hp.
    assert (Hoks : Forall op_ok [o; OApply i; OEq i d; OEq d i]).
    { constructor; [exact Hok|]. repeat constructor. }
    destruct (run_refines_from ek M H capN vec_based uinv valid EKW UL CAP CF TRI ECO _ st s a SI V Hoks)
      as (rs & s' & st' & a' & Em & R & SI' & V' & Hb).
    destruct (spec_run_cons_inv _ _ _ _ _ _ _ _ _ _ R) as (r1 & a1 & rs1 & -> & S1 & R1).
    destruct (Hspec _ _ S1) as [-> ->].
    pose proof (SysInv_len ek M H capN uinv _ _ _ SI) as [_ La].
    destruct (spec_tail ek H capN vec_based valid a i d x y rs1 a' Ei Hne ltac:(lia) Hl Hv Hp R1) as [-> ->].
    exists s', st'. split; [exact Em|]. split; [exact SI'|]. split; [exact V'|].
    pose proof (aget_lt _ _ _ Ei) as Hi.
    split; [|split; [|exact Hb]].
    - rewrite aget_aset_neq by congruence. apply aget_aset_eq. lia.
    - apply aget_aset_eq. rewrite length_aset. exact Hi.
  Qed.

  (* ---------------- C12: SSZ ---------------- *)
  Theorem ssz_list_roundtrip st (s : sys) (a : sregs) i d x :
    SysInv st s a -> vals_valid a -> aget a i = Some x -> a_list x = true -> d <> i -> (d < nregs)%nat ->
    valid_bytes (serialize ek (a_vals x)) = true ->
    (efixed ek = None -> lenN (serialize ek (a_vals x)) < 2 ^ 32) ->
    exists s' st',
      model_run s st [OSszList d (serialize ek (a_vals x)); OApply i; OEq i d; OEq d i]
        = Some ([ROk; ROk; RBool true; RBool true], s', st') /\
      SysInv st' s' (aset (aset a d (Some (clean_list (a_vals x)))) i (Some (flushed x))) /\
      vals_valid (aset (aset a d (Some (clean_list (a_vals x)))) i (Some (flushed x))) /\
      aget (aset (aset a d (Some (clean_list (a_vals x)))) i (Some (flushed x))) d = Some (clean_list (a_vals x)) /\
      aget (aset (aset a d (Some (clean_list (a_vals x)))) i (Some (flushed x))) i = Some (flushed x) /\
      bslot s' = bslot s.
  Proof.
    intros SI V Ei Hl Hne Hd Hb H32.
    destruct (SysInv_aget_bounds st s a i x SI Ei) as [Hle _].
    pose proof (vals_valid_aget valid a i x V Ei) as Hvx.
    apply (roundtrip_generic st s a i d x); auto.
    - split; [reflexivity|]. split; [exact Hb|exact Logic.I].
    - intros r a1. cbn [Spec.spec_ok]. destruct (Nat.leb_spec nregs d) as [Hge|_]; [lia|].
      intros [_ C]. apply (C H32 (a_vals x) eq_refl Hvx Hle).
  Qed.

  Theorem ssz_vec_roundtrip st (s : sys) (a : sregs) i d x :
    SysInv st s a -> vals_valid a -> aget a i = Some x -> a_list x = false -> d <> i -> (d < nregs)%nat ->
    valid_bytes (serialize ek (a_vals x)) = true ->
    (efixed ek = None -> lenN (serialize ek (a_vals x)) < 2 ^ 32) ->
    exists s' st',
      model_run s st [OSszVec d (serialize ek (a_vals x)); OApply i; OEq i d; OEq d i]
        = Some ([ROk; ROk; RBool true; RBool true], s', st') /\
      SysInv st' s' (aset (aset a d (Some (clean_vec capN (a_vals x)))) i (Some (flushed x))) /\
      vals_valid (aset (aset a d (Some (clean_vec capN (a_vals x)))) i (Some (flushed x))) /\
      aget (aset (aset a d (Some (clean_vec capN (a_vals x)))) i (Some (flushed x))) d = Some (clean_vec capN (a_vals x)) /\
      aget (aset (aset a d (Some (clean_vec capN (a_vals x)))) i (Some (flushed x))) i = Some (flushed x) /\
      bslot s' = bslot s.
  Proof.
    intros SI V Ei Hl Hne Hd Hb H32.
    destruct (SysInv_aget_bounds st s a i x SI Ei) as [_ Heq]. specialize (Heq Hl).
    pose proof (vals_valid_aget valid a i x V Ei) as Hvx.
    apply (roundtrip_generic st s a i d x); auto.
    - split; [reflexivity|]. split; [exact Hb|exact Logic.I].
    - intros r a1. cbn [Spec.spec_ok]. destruct (Nat.leb_spec nregs d) as [Hge|_]; [lia|].
      intros [_ C]. apply (C H32 (a_vals x) eq_refl Hvx Heq).
  Qed.

  (* ---------------- C13: serde ---------------- *)
  Theorem serde_list_roundtrip st (s : sys) (a : sregs) i d x :
    SysInv st s a -> vals_valid a -> aget a i = Some x -> a_list x = true -> d <> i -> (d < nregs)%nat ->
    exists s' st',
      model_run s st [OSerdeList d (a_vals x); OApply i; OEq i d; OEq d i]
        = Some ([ROk; ROk; RBool true; RBool true], s', st') /\
      SysInv st' s' (aset (aset a d (Some (clean_list (a_vals x)))) i (Some (flushed x))) /\
      vals_valid (aset (aset a d (Some (clean_list (a_vals x)))) i (Some (flushed x))) /\
      aget (aset (aset a d (Some (clean_list (a_vals x)))) i (Some (flushed x))) d = Some (clean_list (a_vals x)) /\
      aget (aset (aset a d (Some (clean_list (a_vals x)))) i (Some (flushed x))) i = Some (flushed x) /\
      bslot s' = bslot s.
  Proof.
    intros SI V Ei Hl Hne Hd.
    destruct (SysInv_aget_bounds st s a i x SI Ei) as [Hle _].
    pose proof (vals_valid_aget valid a i x V Ei) as Hvx.
    apply (roundtrip_generic st s a i d x); auto.
    - split; [reflexivity|]. split; [exact Logic.I|exact Hvx].
    - intros r a1. cbn [Spec.spec_ok]. unfold ctor. destruct (Nat.leb_spec nregs d) as [Hge|_]; [lia|].
      destruct (N.leb_spec (lenN (a_vals x)) capN) as [_|Hgt]; [|lia]. auto.
  Qed.

  Theorem serde_vec_roundtrip st (s : sys) (a : sregs) i d x :
    SysInv st s a -> vals_valid a -> aget a i = Some x -> a_list x = false -> d <> i -> (d < nregs)%nat ->
    exists s' st',
      model_run s st [OSerdeVec d (a_vals x); OApply i; OEq i d; OEq d i]
        = Some ([ROk; ROk; RBool true; RBool true], s', st') /\
      SysInv st' s' (aset (aset a d (Some (clean_vec capN (a_vals x)))) i (Some (flushed x))) /\
      vals_valid (aset (aset a d (Some (clean_vec capN (a_vals x)))) i (Some (flushed x))) /\
      aget (aset (aset a d (Some (clean_vec capN (a_vals x)))) i (Some (flushed x))) d = Some (clean_vec capN (a_vals x)) /\
      aget (aset (aset a d (Some (clean_vec capN (a_vals x)))) i (Some (flushed x))) i = Some (flushed x) /\
      bslot s' = bslot s.
  Proof.
    intros SI V Ei Hl Hne Hd.
    destruct (SysInv_aget_bounds st s a i x SI Ei) as [_ Heq]. specialize (Heq Hl).
    pose proof (vals_valid_aget valid a i x V Ei) as Hvx.
    apply (roundtrip_generic st s a i d x); auto.
    - split; [reflexivity|]. split; [exact Logic.I|exact Hvx].
    - intros r a1. cbn [Spec.spec_ok]. unfold ctor. destruct (Nat.leb_spec nregs d) as [Hge|_]; [lia|].
      destruct (N.eqb_spec (lenN (a_vals x)) capN) as [_|Hn]; [|congruence]. auto.
  Qed.

  (* ---------------- C04: `==` is stable under content-preserving operations ---------------- *)
  Notation view := (@view T).
  Notation cleanreg := (@cleanreg T).

  (* cleanliness read off the model: the register is empty or its handle has no pending updates *)
  Lemma cleanreg_of_model st (s : sys) (a : sregs) k : SysInv st s a ->
    (forall h, rget s k = Some h -> has_pending M h = false) -> cleanreg a k.
  Proof.
    intros SI Hc x Ex. pose proof (regs_rel_get ek M capN uinv s a k (SysInv_rel ek M H capN uinv _ _ _ SI)) as Hr.
    rewrite Ex in Hr. destruct (rget s k) as [h|]; [|contradiction]. destruct Hr as (l & _ & ->).
    cbn [abs_of a_pend]. apply Hc. reflexivity.
  Qed.

  Theorem eq_stable st (s : sys) (a : sregs) i j os :
    SysInv st s a -> vals_valid a -> cleanreg a i -> cleanreg a j ->
    Forall (fun o => preserves i j o = true) os ->
    exists r rs s' st' a',
      model_run s st (OEq i j :: os ++ [OEq i j]) = Some (r :: rs ++ [r], s', st') /\
      length rs = length os /\ spec_run a os rs a' /\
      SysInv st' s' a' /\ vals_valid a' /\ view a' i = view a i /\ view a' j = view a j /\ bslot s' = bslot s.
  Proof.
    intros SI V Ci Cj Hall.
    assert (Hoks : Forall op_ok (OEq i j :: os ++ [OEq i j])).
    { constructor; [repeat split|]. apply Forall_app. split.
      - eapply Forall_impl; [|exact Hall]. intros o Hp. eapply preserves_op_ok; exact Hp.
      - repeat constructor. }
    destruct (run_refines_from ek M H capN vec_based uinv valid EKW UL CAP CF TRI ECO _ st s a SI V Hoks)
      as (rs0 & s' & st' & a' & Em & R & SI' & V' & Hb).
    destruct (spec_run_cons_inv _ _ _ _ _ _ _ _ _ _ R) as (r1 & a1 & rs1 & -> & S1 & R1).
    pose proof (spec_eq_same _ _ _ _ _ _ _ _ _ _ S1) as ->.
    destruct (spec_run_app_split ek H capN vec_based valid _ _ _ _ _ R1) as (rs2 & rs3 & a2 & -> & Hlen & R2 & R3).
    destruct (spec_run_cons_inv _ _ _ _ _ _ _ _ _ _ R3) as (r2 & a3 & rs4 & -> & S2 & R4).
    destruct (spec_run_nil_inv _ _ _ _ _ _ _ _ R4) as [-> ->].
    pose proof (spec_eq_same _ _ _ _ _ _ _ _ _ _ S2) as ->.
    destruct (preserves_run ek H capN vec_based valid i j os a rs2 a2 Hall Ci Cj R2) as [Vi Vj].
    pose proof (eq_same_view ek H capN vec_based valid i j a a2 r1 r2 _ _ Vi Vj Ci Cj S1 S2) as <-.
    exists r1, rs2, s', st', a2. auto 10.
  Qed.
End Roundtrip.

(* ====================================================================================== *)
(* closed instance: u64 over VecMap, hash Hc (all element values well-formed)                *)
(* ====================================================================================== *)
From MH Require Import IntraP UMapP Instances ClosureP BuilderSysP.

(* for the byte kinds the extra hypothesis of the SSZ round trip holds outright *)
Lemma valid_bytes_serialize_uintW k (l : list (W (wbits (Nat.pow 2 k)))) :
  valid_bytes (serialize (ek_uintW k) l) = true.
Proof.
  rewrite (serialize_fixed (ek_uintW k) (N.of_nat (Nat.pow 2 k)) l eq_refl).
  induction l as [|v l IH]; cbn [flat_map]; [reflexivity|].
  rewrite valid_bytes_app, IH, andb_true_r.
  change (eenc (ek_uintW k) v) with (num_le (Nat.pow 2 k) (wval v)). apply valid_num_le.
Qed.

Section U64.
  Variable capN : N.
  Variable vec_based : bool.
  Hypothesis CAP : capacity_ok capN.
  Notation SysInv64 := (SysInv (ek_uintW 3) Mvec Hc capN (fun _ => True)).
  Notation run64 := (model_run (ek_uintW 3) Mvec Hc capN vec_based).

  Theorem ssz_list_roundtrip_u64 st (s : @sys U64 (vecmap U64)) a i d x :
    SysInv64 st s a -> aget a i = Some x -> a_list x = true -> d <> i -> (d < nregs)%nat ->
    exists s' st',
      run64 s st [OSszList d (serialize (ek_uintW 3) (a_vals x)); OApply i; OEq i d; OEq d i]
        = Some ([ROk; ROk; RBool true; RBool true], s', st') /\
      SysInv64 st' s' (aset (aset a d (Some (clean_list (a_vals x)))) i (Some (Spec.flushed capN x))) /\
      aget (aset (aset a d (Some (clean_list (a_vals x)))) i (Some (Spec.flushed capN x))) d = Some (clean_list (a_vals x)).
  Proof.
    intros SI Ei Hl Hne Hd.
    destruct (ssz_list_roundtrip (ek_uintW 3) Mvec Hc capN vec_based (fun _ => True) (fun _ => True)
                ek_u64W_wf (vecmap_lawful (ek_uintW 3)) CAP Hc_collision_free (ek_uintW_troot_inj 3) (ek_uintW_codec_on 3)
                st s a i d x SI (vals_valid_True a) Ei Hl Hne Hd (valid_bytes_serialize_uintW 3 _))
      as (s' & st' & Em & SI' & _ & Ed & _).
    - intros E. discriminate E.
    - exists s', st'. auto.
  Qed.

  Theorem ssz_vec_roundtrip_u64 st (s : @sys U64 (vecmap U64)) a i d x :
    SysInv64 st s a -> aget a i = Some x -> a_list x = false -> d <> i -> (d < nregs)%nat ->
    exists s' st',
      run64 s st [OSszVec d (serialize (ek_uintW 3) (a_vals x)); OApply i; OEq i d; OEq d i]
        = Some ([ROk; ROk; RBool true; RBool true], s', st') /\
      SysInv64 st' s' (aset (aset a d (Some (clean_vec capN (a_vals x)))) i (Some (Spec.flushed capN x))) /\
      aget (aset (aset a d (Some (clean_vec capN (a_vals x)))) i (Some (Spec.flushed capN x))) d = Some (clean_vec capN (a_vals x)).
  Proof.
    intros SI Ei Hl Hne Hd.
    destruct (ssz_vec_roundtrip (ek_uintW 3) Mvec Hc capN vec_based (fun _ => True) (fun _ => True)
                ek_u64W_wf (vecmap_lawful (ek_uintW 3)) CAP Hc_collision_free (ek_uintW_troot_inj 3) (ek_uintW_codec_on 3)
                st s a i d x SI (vals_valid_True a) Ei Hl Hne Hd (valid_bytes_serialize_uintW 3 _))
      as (s' & st' & Em & SI' & _ & Ed & _).
    - intros E. discriminate E.
    - exists s', st'. auto.
  Qed.

  Theorem serde_list_roundtrip_u64 st (s : @sys U64 (vecmap U64)) a i d x :
    SysInv64 st s a -> aget a i = Some x -> a_list x = true -> d <> i -> (d < nregs)%nat ->
    exists s' st',
      run64 s st [OSerdeList d (a_vals x); OApply i; OEq i d; OEq d i]
        = Some ([ROk; ROk; RBool true; RBool true], s', st') /\
      SysInv64 st' s' (aset (aset a d (Some (clean_list (a_vals x)))) i (Some (Spec.flushed capN x))) /\
      aget (aset (aset a d (Some (clean_list (a_vals x)))) i (Some (Spec.flushed capN x))) d = Some (clean_list (a_vals x)).
  Proof.
    intros SI Ei Hl Hne Hd.
    destruct (serde_list_roundtrip (ek_uintW 3) Mvec Hc capN vec_based (fun _ => True) (fun _ => True)
                ek_u64W_wf (vecmap_lawful (ek_uintW 3)) CAP Hc_collision_free (ek_uintW_troot_inj 3) (ek_uintW_codec_on 3)
                st s a i d x SI (vals_valid_True a) Ei Hl Hne Hd)
      as (s' & st' & Em & SI' & _ & Ed & _).
    exists s', st'. auto.
  Qed.

  Theorem eq_stable_u64 st (s : @sys U64 (vecmap U64)) a i j os :
    SysInv64 st s a -> cleanreg a i -> cleanreg a j -> Forall (fun o => preserves i j o = true) os ->
    exists r rs s' st' a',
      run64 s st (OEq i j :: os ++ [OEq i j]) = Some (r :: rs ++ [r], s', st') /\ length rs = length os /\
      SysInv64 st' s' a' /\ view a' i = view a i /\ view a' j = view a j.
  Proof.
    intros SI Ci Cj Hall.
    destruct (eq_stable (ek_uintW 3) Mvec Hc capN vec_based (fun _ => True) (fun _ => True)
                ek_u64W_wf (vecmap_lawful (ek_uintW 3)) CAP Hc_collision_free (ek_uintW_troot_inj 3) (ek_uintW_codec_on 3)
                st s a i j os SI (vals_valid_True a) Ci Cj Hall)
      as (r & rs & s' & st' & a' & Em & Hl & _ & SI' & _ & Vi & Vj & _).
    exists r, rs, s', st', a'. auto 8.
  Qed.
End U64.

(* a concrete round trip evaluated by the kernel: capacity 8; register 0 is built by ONewList + OPush and NOT
   flushed (the push is pending when its contents are decoded into register 1); answers projected to plain N *)
Definition rt_vals : list U64 := [w64 1; w64 2; w64 3].
Definition rt_ops : list (@op U64) :=
  [ONewList 0 [w64 1; w64 2]; OPush 0 (w64 3);
   OSszList 1 (serialize (ek_uintW 3) rt_vals); OApply 0; OEq 0 1; OEq 1 0].
Example rt_bytes_computed :
  serialize (ek_uintW 3) rt_vals = [1;0;0;0;0;0;0;0; 2;0;0;0;0;0;0;0; 3;0;0;0;0;0;0;0].
Proof. vm_compute. reflexivity. Qed.
Example roundtrip_u64_computed :
  option_map (fun x => map (res_map (@wval _)) (fst (fst x)))
    (model_run (ek_uintW 3) Mvec Hc 8 true init_sys init_state rt_ops) =
  Some [ROk; ROk; ROk; ROk; RBool true; RBool true].
Proof. vm_compute. reflexivity. Qed.
(* the same with a pending push AND a pending overwrite, through serde, for a vector-free list at capacity 32 *)
Example roundtrip_serde_u64_computed :
  option_map (fun x => map (res_map (@wval _)) (fst (fst x)))
    (model_run (ek_uintW 3) Mvec Hc 32 true init_sys init_state
       [ONewList 0 [w64 1; w64 2]; OPush 0 (w64 3); OSet 0 0 (w64 7);
        OSerdeList 1 [w64 7; w64 2; w64 3]; OApply 0; OEq 0 1; OEq 1 0]) =
  Some [ROk; ROk; RSome true; ROk; ROk; RBool true; RBool true].
Proof. vm_compute. reflexivity. Qed.

(* the same answers obtained from the theorem: the state after ONewList + OPush satisfies the invariant with an
   abstract register 0 = (list, [1;2;3], pending), and ssz_list_roundtrip_u64 applies to it *)
Example roundtrip_u64_by_theorem :
  exists s' st',
    model_run (ek_uintW 3) Mvec Hc 8 true init_sys init_state rt_ops =
      Some ([ROk; ROk; ROk; ROk; RBool true; RBool true], s', st').
Proof.
  pose (v1 := w64 1). pose (v2 := w64 2). pose (v3 := w64 3).
  change rt_ops with ([ONewList 0 [v1; v2]; OPush 0 v3] ++
                      [OSszList 1 (serialize (ek_uintW 3) [v1; v2; v3]); OApply 0; OEq 0 1; OEq 1 0]).
  clearbody v1 v2 v3.
  assert (Hok : Forall (op_ok (ek_uintW 3) (fun _ => True)) [ONewList 0 [v1; v2]; OPush 0 v3]) by (repeat constructor).
  assert (SI0 : SysInv (ek_uintW 3) Mvec Hc 8 (fun _ => True) init_state init_sys init_sregs) by apply SysInv_init.
  destruct (run_refines_from (ek_uintW 3) Mvec Hc 8 true (fun _ => True) (fun _ => True)
              ek_u64W_wf (vecmap_lawful (ek_uintW 3)) capacity_ok_8 Hc_collision_free (ek_uintW_troot_inj 3)
              (ek_uintW_codec_on 3) _ init_state init_sys init_sregs SI0 (vals_valid_True _) Hok)
    as (rs & s1 & st1 & a1 & Em & R & SI & _ & _).
  destruct (spec_run_cons_inv _ _ _ _ _ _ _ _ _ _ R) as (r1 & b1 & rs1 & -> & S1 & R1).
  destruct (spec_run_cons_inv _ _ _ _ _ _ _ _ _ _ R1) as (r2 & b2 & rs2 & -> & S2 & R2).
  destruct (spec_run_nil_inv _ _ _ _ _ _ _ _ R2) as [-> ->].
  cbn [Spec.spec_ok] in S1. unfold ctor in S1.
  change (nregs <=? 0)%nat with false in S1. change (lenN [v1; v2] <=? 8) with true in S1. cbv iota in S1.
  destruct S1 as [-> ->].
  cbn [Spec.spec_ok] in S2. unfold with_list, with_reg in S2.
  change (aget (aset init_sregs 0 (Some (clean_list [v1; v2]))) 0) with (Some (clean_list [v1; v2])) in S2.
  cbv iota in S2. change (a_list (clean_list [v1; v2])) with true in S2. cbv iota in S2.
  change (Spec.len (clean_list [v1; v2]) =? 8) with false in S2. cbv iota in S2.
  destruct S2 as [-> ->].
  rewrite (model_run_app _ _ _ _ _ _ _ _ _ _ _ _ Em).
  match type of SI with SysInv _ _ _ _ _ _ _ ?a => set (a2 := a) in * end.
  destruct (ssz_list_roundtrip_u64 8 true capacity_ok_8 st1 s1 a2 0%nat 1%nat
              (Spec.mk true ([v1; v2] ++ [v3]) true (a_blen (clean_list [v1; v2]))) SI)
    as (s' & st' & Em' & _); [reflexivity|reflexivity|discriminate|unfold nregs; lia|].
  cbn [a_vals Spec.mk app] in Em'.
  match goal with |- context [match ?m with _ => _ end] =>
    replace m with (Some ([@ROk U64; ROk; RBool true; RBool true], s', st')) by (symmetry; exact Em') end.
  exists s', st'. reflexivity.
Qed.

Print Assumptions ssz_list_roundtrip.
Print Assumptions ssz_vec_roundtrip.
Print Assumptions serde_list_roundtrip.
Print Assumptions serde_vec_roundtrip.
Print Assumptions eq_stable.
Print Assumptions cleanreg_of_model.
Print Assumptions valid_bytes_serialize_uintW.
Print Assumptions ssz_list_roundtrip_u64.
Print Assumptions ssz_vec_roundtrip_u64.
Print Assumptions serde_list_roundtrip_u64.
Print Assumptions eq_stable_u64.
Print Assumptions rt_bytes_computed.
Print Assumptions roundtrip_u64_computed.
Print Assumptions roundtrip_serde_u64_computed.
Print Assumptions roundtrip_u64_by_theorem.
