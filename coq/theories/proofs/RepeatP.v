(* RepeatP.v — proofs about model/Repeat.v (src/repeat.rs, repeat_list with the F1 repair) and the
   int_log / list_depth facts other tasks need. Proof file; no model code. *)
From MH Require Import Defs.
Local Open Scope N_scope.

(* ---------- int_log ---------- *)
Lemma int_log_aux_spec : forall fuel d n,
  (forall j, (j < d)%nat -> pow2 j < n) ->
  (d <= int_log_aux fuel d n <= d + fuel)%nat /\
  (forall j, (j < int_log_aux fuel d n)%nat -> pow2 j < n) /\
  ((int_log_aux fuel d n < d + fuel)%nat -> n <= pow2 (int_log_aux fuel d n)).
Proof.
  induction fuel as [|f IH]; intros d n Hlow; cbn [int_log_aux].
  - split; [lia|]. split; [exact Hlow|]. intros Hlt. lia.
  - destruct (N.leb_spec n (pow2 d)) as [Hle|Hgt].
    + split; [lia|]. split; [exact Hlow|]. intros _. exact Hle.
    + assert (Hlow' : forall j, (j < S d)%nat -> pow2 j < n).
      { intros j Hj. destruct (Nat.eq_dec j d) as [->|Hne]; [exact Hgt|]. apply Hlow. lia. }
      destruct (IH (S d) n Hlow') as (Hrange & Hmin & Hub).
      split; [lia|]. split; [exact Hmin|]. intros Hlt. apply Hub. lia.
Qed.

Lemma int_log_le_64 n : (int_log n <= 64)%nat.
Proof.
  unfold int_log. destruct (int_log_aux_spec 64 0 n) as (Hrange & _); [intros j Hj; lia|]. lia.
Qed.

(* int_log n is minimal *)
Lemma int_log_min n j : (j < int_log n)%nat -> pow2 j < n.
Proof.
  unfold int_log. destruct (int_log_aux_spec 64 0 n) as (_ & Hmin & _); [intros i Hi; lia|]. apply Hmin.
Qed.

Lemma int_log_le n k : n <= pow2 k -> (int_log n <= k)%nat.
Proof.
  intros Hle. destruct (le_lt_dec (int_log n) k) as [Hk|Hk]; [exact Hk|].
  apply int_log_min in Hk. lia.
Qed.

(* `checked_next_power_of_two` does not overflow up to 2^64 *)
Lemma int_log_ge n : n <= pow2 64 -> n <= pow2 (int_log n).
Proof.
  intros Hle. pose proof (int_log_le_64 n) as H64.
  destruct (Nat.eq_dec (int_log n) 64) as [E|NE]; [rewrite E; exact Hle|].
  unfold int_log in *. destruct (int_log_aux_spec 64 0 n) as (_ & _ & Hub); [intros i Hi; lia|].
  apply Hub. lia.
Qed.

Lemma int_log_le_63 n : n <= 2 ^ 63 -> (int_log n <= 63)%nat.
Proof. intros Hle. apply int_log_le. exact Hle. Qed.

Lemma int_log_ge_63 n : n <= 2 ^ 63 -> n <= pow2 (int_log n).
Proof.
  intros Hle. apply int_log_ge. change (pow2 64) with (2 * 2 ^ 63). lia.
Qed.

Section ListDepth.
  Context {T : Type}.
  Variable ek : ekind T.

  (* list_depth + pd = max (int_log capN) pd *)
  Lemma list_depth_pd capN : (list_depth ek capN + pd_of ek = Nat.max (int_log capN) (pd_of ek))%nat.
  Proof. unfold list_depth. lia. Qed.

  (* needs nothing about the element kind, and no lower bound on capN (capacity 0 is legal) *)
  Lemma cap_list_depth_gen capN : capN <= pow2 64 -> capN <= cap ek (list_depth ek capN).
  Proof.
    intros Hle. unfold cap. rewrite list_depth_pd.
    apply N.le_trans with (pow2 (int_log capN)); [apply int_log_ge; exact Hle|].
    apply pow2_mono. lia.
  Qed.

  Theorem cap_list_depth capN : capN <= 2 ^ 63 -> capN <= cap ek (list_depth ek capN).
  Proof.
    intros Hle. apply cap_list_depth_gen. change (pow2 64) with (2 * 2 ^ 63). lia.
  Qed.

  Hypothesis EKW : ek_wf ek.

  Theorem list_depth_le capN : capN <= 2 ^ 63 -> (list_depth ek capN + pd_of ek <= 63)%nat.
  Proof.
    intros Hle. rewrite list_depth_pd. pose proof (int_log_le_63 capN Hle) as Hi.
    pose proof (ek_pd_le ek EKW) as Hp. lia.
  Qed.

  (* without the bound on capN only 64 can be guaranteed (int_log saturates at 64) *)
  Lemma list_depth_le_64 capN : (list_depth ek capN + pd_of ek <= 64)%nat.
  Proof.
    rewrite list_depth_pd. pose proof (int_log_le_64 capN) as Hi.
    pose proof (ek_pd_le ek EKW) as Hp. lia.
  Qed.
End ListDepth.

(* ---------- lists of copies ---------- *)
Section Const.
  Context {A : Type}.
  Variable x : A.

  Lemma const_list_eq : forall l l' : list A,
    (forall y, In y l -> y = x) -> (forall y, In y l' -> y = x) -> lenN l = lenN l' -> l = l'.
  Proof.
    induction l as [|a l IH]; intros [|b l'] Hl Hl' Hlen; auto.
    - rewrite lenN_cons, lenN_nil in Hlen. lia.
    - rewrite lenN_cons, lenN_nil in Hlen. lia.
    - rewrite !lenN_cons in Hlen. f_equal.
      + rewrite (Hl a (or_introl eq_refl)), (Hl' b (or_introl eq_refl)). reflexivity.
      + apply IH.
        * intros y Hy. apply Hl. right. exact Hy.
        * intros y Hy. apply Hl'. right. exact Hy.
        * lia.
  Qed.

  Lemma repeatN_In n y : In y (repeatN x n) -> y = x.
  Proof. destruct n as [|p]; cbn [repeatN]; [intros []|apply repeatN_pos_In]. Qed.

  Lemma takeN_repeatN a m : takeN a (repeatN x m) = repeatN x (N.min a m).
  Proof.
    apply const_list_eq.
    - intros y Hy. apply (repeatN_In m). rewrite <- (takeN_dropN a). apply in_or_app. left. exact Hy.
    - apply repeatN_In.
    - rewrite lenN_takeN, !lenN_repeatN. reflexivity.
  Qed.

  Lemma dropN_repeatN a m : dropN a (repeatN x m) = repeatN x (m - a).
  Proof.
    apply const_list_eq.
    - intros y Hy. apply (repeatN_In m). rewrite <- (takeN_dropN a). apply in_or_app. right. exact Hy.
    - apply repeatN_In.
    - rewrite lenN_dropN, !lenN_repeatN. reflexivity.
  Qed.

  Lemma repeatN_nonempty m : 0 < m -> repeatN x m <> [].
  Proof. intros Hm E. apply (f_equal lenN) in E. rewrite lenN_repeatN, lenN_nil in E. lia. Qed.

  Lemma repeatN_head m : 0 < m -> exists l, repeatN x m = x :: l.
  Proof.
    intros Hm. pose proof (repeatN_nonempty m Hm) as Hne. pose proof (repeatN_In m) as Hin.
    destruct (repeatN x m) as [|y l]; [congruence|]. exists l. f_equal. apply Hin. left. reflexivity.
  Qed.
End Const.

Section RepeatP.
  Context {T : Type}.
  Variable ek : ekind T.
  Notation tree := (tree T).
  Notation cap := (cap ek).
  Notation canon := (canon ek).

  Lemma cap_S k : cap (S k) = 2 * cap k.
  Proof. unfold Tree.cap. cbn [Nat.add]. apply pow2_S. Qed.
  Lemma cap_pos k : 0 < cap k.
  Proof. apply pow2_pos. Qed.
  Lemma cap_0 : cap 0 = pf_of ek.
  Proof. reflexivity. Qed.

  Lemma canon_nil d : canon d [] = SZero d.
  Proof. destruct d; reflexivity. Qed.
  Lemma canon_S_ne d l : l <> [] ->
    canon (S d) l = SNode (canon d (takeN (cap d) l)) (canon d (dropN (cap d) l)).
  Proof. destruct l; [congruence|reflexivity]. Qed.

  Variable x : T.
  Notation rep := (repeatN x).

  Lemma canon_S_rep k m a b : 0 < m -> a = N.min (cap k) m -> b = m - cap k ->
    canon (S k) (rep m) = SNode (canon k (rep a)) (canon k (rep b)).
  Proof.
    intros Hm -> ->. rewrite canon_S_ne by (apply repeatN_nonempty; exact Hm).
    rewrite takeN_repeatN, dropN_repeatN. reflexivity.
  Qed.

  Lemma canon_0_rep m : 0 < m -> canon 0 (rep m) = if is_packed ek then SPacked (rep m) else SLeaf x.
  Proof. intros Hm. destruct (repeatN_head x m Hm) as (l & ->). reflexivity. Qed.

  (* ---------- identities ---------- *)
  Definition ids_in (lo hi : positive) (t : tree) : Prop :=
    forall u, subt u t -> (lo <= idof u)%positive /\ (idof u < hi)%positive.

  Lemma ids_in_mono lo hi hi' t : (hi <= hi')%positive -> ids_in lo hi t -> ids_in lo hi' t.
  Proof. intros Hh Hi u Hu. destruct (Hi u Hu) as (Ha & Hb). split; lia. Qed.
  Lemma ids_in_node lo hi i l r : (lo <= i)%positive -> (i < hi)%positive ->
    ids_in lo hi l -> ids_in lo hi r -> ids_in lo hi (Node i l r).
  Proof.
    intros Ha Hb Hl Hr u Hu. cbn [subt] in Hu. destruct Hu as [->|[Hu|Hu]]; [cbn [idof]; lia|apply Hl; exact Hu|apply Hr; exact Hu].
  Qed.
  Lemma ids_in_zero lo hi i d : (lo <= i)%positive -> (i < hi)%positive -> ids_in lo hi (Zero i d).
  Proof. intros Ha Hb u Hu. cbn [subt] in Hu. destruct Hu as [->|[]]. cbn [idof]. lia. Qed.
  Lemma ids_in_leaf lo hi i v : (lo <= i)%positive -> (i < hi)%positive -> ids_in lo hi (Leaf i v).
  Proof. intros Ha Hb u Hu. cbn [subt] in Hu. destruct Hu as [->|[]]. cbn [idof]. lia. Qed.
  Lemma ids_in_packed lo hi i vs : (lo <= i)%positive -> (i < hi)%positive -> ids_in lo hi (Packed i vs).
  Proof. intros Ha Hb u Hu. cbn [subt] in Hu. destruct Hu as [->|[]]. cbn [idof]. lia. Qed.

  (* ---------- the layer invariant ---------- *)
  (* at level k the n copies split into c full blocks of cap k elements, each represented by the one
     shared tree a, followed by an optional shorter last block of r elements represented by b *)
  Inductive layer_inv (lo hi : positive) (k : nat) (n : N) : layer -> Prop :=
  | LI_full a c : 1 <= c -> n = c * cap k ->
      shape a = canon k (rep (cap k)) -> ids_in lo hi a -> layer_inv lo hi k n [(a, c)]
  | LI_both a c b r : 1 <= c -> 0 < r -> r < cap k -> n = c * cap k + r ->
      shape a = canon k (rep (cap k)) -> shape b = canon k (rep r) ->
      ids_in lo hi a -> ids_in lo hi b -> layer_inv lo hi k n [(a, c); (b, 1)]
  | LI_part b : 0 < n -> n < cap k ->
      shape b = canon k (rep n) -> ids_in lo hi b -> layer_inv lo hi k n [(b, 1)].

  Lemma half_even c : c mod 2 = 0 -> c = 2 * (c / 2).
  Proof.
    intros Hm. pose proof (N.div_mod c 2 ltac:(lia)) as Hd.
    revert Hm Hd. generalize (c mod 2) (c / 2). intros m q Hm Hd. lia.
  Qed.
  Lemma half_odd c : c mod 2 <> 0 -> c = 2 * (c / 2) + 1.
  Proof.
    intros Hm. pose proof (N.div_mod c 2 ltac:(lia)) as Hd.
    pose proof (N.mod_upper_bound c 2 ltac:(lia)) as Hu.
    revert Hm Hd Hu. generalize (c mod 2) (c / 2). intros m q Hm Hd Hu. lia.
  Qed.

  Lemma shape_full_full k a : shape a = canon k (rep (cap k)) ->
    SNode (shape a) (shape a) = canon (S k) (rep (cap (S k))).
  Proof.
    intros Ha. rewrite Ha. symmetry. pose proof (cap_pos k) as Hp. rewrite cap_S.
    apply canon_S_rep; lia.
  Qed.
  Lemma shape_part_zero k b r : 0 < r -> r <= cap k -> shape b = canon k (rep r) ->
    SNode (shape b) (SZero k) = canon (S k) (rep r).
  Proof.
    intros Hr Hle Hb. rewrite Hb. symmetry. rewrite <- (canon_nil k).
    change (@nil T) with (rep 0). apply canon_S_rep; lia.
  Qed.
  Lemma shape_full_part k a b r : 0 < r -> shape a = canon k (rep (cap k)) -> shape b = canon k (rep r) ->
    SNode (shape a) (shape b) = canon (S k) (rep (cap k + r)).
  Proof.
    intros Hr Ha Hb. rewrite Ha, Hb. symmetry. pose proof (cap_pos k) as Hp.
    apply canon_S_rep; lia.
  Qed.

  Lemma repeat_step_inv R lo k n ly s :
    (lo <= next s)%positive -> layer_inv lo (next s) k n ly ->
    wp R (repeat_step k ly) (fun o s' => exists ly', o = Ok ly' /\ layer_inv lo (next s') (S k) n ly' /\
       memo s' = memo s /\ (next s <= next s')%positive /\ N.pos (next s') <= N.pos (next s) + 3) s.
  Proof.
    intros Hlo Hinv. pose proof (cap_pos k) as Hcp. pose proof (cap_S k) as HcS.
    destruct Hinv as [a c Hc Hn Ha Hia|a c b r Hc Hr Hrc Hn Ha Hb Hia Hib|b Hn Hnc Hb Hib]; cbn [repeat_step].
    - (* only full blocks *)
      destruct (N.eqb_spec c 1) as [Ec|Ec].
      + cbn [wp bind mk_zero mk_node fresh next bump memo]. eexists; split; [reflexivity|].
        split; [|split; [reflexivity|split; lia]].
        apply LI_part; [lia|nia| |].
        * cbn [shape]. rewrite Hn, Ec, N.mul_1_l. apply shape_part_zero; [lia|lia|exact Ha].
        * apply ids_in_node; [lia|lia|eapply ids_in_mono; [|exact Hia]; lia|apply ids_in_zero; lia].
      + destruct (N.eqb_spec (c mod 2) 0) as [Em|Em].
        * cbn [wp bind mk_zero mk_node fresh next bump memo]. eexists; split; [reflexivity|].
          split; [|split; [reflexivity|split; lia]].
          pose proof (half_even c Em) as Hh.
          apply LI_full; [lia|nia| |].
          -- cbn [shape]. apply shape_full_full. exact Ha.
          -- apply ids_in_node; [lia|lia|eapply ids_in_mono; [|exact Hia]; lia|eapply ids_in_mono; [|exact Hia]; lia].
        * cbn [wp bind mk_zero mk_node fresh next bump memo]. eexists; split; [reflexivity|].
          split; [|split; [reflexivity|split; lia]].
          pose proof (half_odd c Em) as Hh.
          apply LI_both with (r := cap k); [lia|lia|lia|nia| | | |].
          -- cbn [shape]. apply shape_full_full. exact Ha.
          -- cbn [shape]. apply shape_part_zero; [lia|lia|exact Ha].
          -- apply ids_in_node; [lia|lia|eapply ids_in_mono; [|exact Hia]; lia|eapply ids_in_mono; [|exact Hia]; lia].
          -- apply ids_in_node; [lia|lia|eapply ids_in_mono; [|exact Hia]; lia|apply ids_in_zero; lia].
    - (* full blocks and a last one *)
      cbn [N.eqb Pos.eqb negb].
      destruct (N.eqb_spec c 1) as [Ec|Ec].
      + cbn [wp bind mk_zero mk_node fresh next bump memo]. eexists; split; [reflexivity|].
        split; [|split; [reflexivity|split; lia]].
        apply LI_part; [lia|nia| |].
        * cbn [shape]. rewrite Hn, Ec, N.mul_1_l. apply shape_full_part; [lia|exact Ha|exact Hb].
        * apply ids_in_node; [lia|lia|eapply ids_in_mono; [|exact Hia]; lia|eapply ids_in_mono; [|exact Hib]; lia].
      + destruct (N.eqb_spec (c mod 2) 0) as [Em|Em].
        * cbn [wp bind mk_zero mk_node fresh next bump memo]. eexists; split; [reflexivity|].
          split; [|split; [reflexivity|split; lia]].
          pose proof (half_even c Em) as Hh.
          apply LI_both with (r := r); [lia|lia|lia|nia| | | |].
          -- cbn [shape]. apply shape_full_full. exact Ha.
          -- cbn [shape]. apply shape_part_zero; [lia|lia|exact Hb].
          -- apply ids_in_node; [lia|lia|eapply ids_in_mono; [|exact Hia]; lia|eapply ids_in_mono; [|exact Hia]; lia].
          -- apply ids_in_node; [lia|lia|eapply ids_in_mono; [|exact Hib]; lia|apply ids_in_zero; lia].
        * cbn [wp bind mk_zero mk_node fresh next bump memo]. eexists; split; [reflexivity|].
          split; [|split; [reflexivity|split; lia]].
          pose proof (half_odd c Em) as Hh.
          apply LI_both with (r := cap k + r); [lia|lia|lia|nia| | | |].
          -- cbn [shape]. apply shape_full_full. exact Ha.
          -- cbn [shape]. apply shape_full_part; [lia|exact Ha|exact Hb].
          -- apply ids_in_node; [lia|lia|eapply ids_in_mono; [|exact Hia]; lia|eapply ids_in_mono; [|exact Hia]; lia].
          -- apply ids_in_node; [lia|lia|eapply ids_in_mono; [|exact Hia]; lia|eapply ids_in_mono; [|exact Hib]; lia].
    - (* a single short block *)
      cbn [N.eqb Pos.eqb].
      cbn [wp bind mk_zero mk_node fresh next bump memo]. eexists; split; [reflexivity|].
      split; [|split; [reflexivity|split; lia]].
      apply LI_part; [lia|lia| |].
      * cbn [shape]. apply shape_part_zero; [lia|lia|exact Hb].
      * apply ids_in_node; [lia|lia|eapply ids_in_mono; [|exact Hib]; lia|apply ids_in_zero; lia].
  Qed.

  Lemma repeat_layers_inv R lo n : forall todo k ly s,
    (lo <= next s)%positive -> layer_inv lo (next s) k n ly ->
    wp R (repeat_layers todo k ly) (fun o s' => exists ly', o = Ok ly' /\ layer_inv lo (next s') (todo + k) n ly' /\
       memo s' = memo s /\ (next s <= next s')%positive /\ N.pos (next s') <= N.pos (next s) + 3 * N.of_nat todo) s.
  Proof.
    induction todo as [|t IH]; intros k ly s Hlo Hinv; cbn [repeat_layers].
    - cbn [wp]. exists ly. split; [reflexivity|]. split; [exact Hinv|]. split; [reflexivity|]. split; lia.
    - apply wp_bind. eapply wp_mono; [|apply repeat_step_inv; [exact Hlo|exact Hinv]].
      intros o s1 (ly1 & -> & Hinv1 & Hm1 & Hn1 & Hc1). cbn [lift].
      eapply wp_mono; [|apply IH; [|exact Hinv1]; lia].
      intros o s2 (ly2 & -> & Hinv2 & Hm2 & Hn2 & Hc2). exists ly2. split; [reflexivity|].
      replace (S t + k)%nat with (t + S k)%nat by lia. split; [exact Hinv2|].
      split; [congruence|]. split; lia.
  Qed.

  (* the initial layer, as written in repeat_tree *)
  Definition init_layer (n : N) : prog (@layer T) :=
    let pf := pf_of ek in
    (if is_packed ek then
       let repeat_count := n / pf in
       let lonely_count := n mod pf in
       bind (packed_repeat ek x pf) (fun rl =>
       bind (packed_repeat ek x lonely_count) (fun ll =>
       if (repeat_count =? 0) && (lonely_count =? 0) then Crash PUnreachable
       else if lonely_count =? 0 then Ret [(rl, repeat_count)]
       else if repeat_count =? 0 then Ret [(ll, 1)]
       else Ret [(rl, repeat_count); (ll, 1)]))
     else bind fresh (fun i => Ret [(Leaf i x, n)])).

  Lemma repeat_tree_unfold capN depth n :
    repeat_tree ek capN depth x n =
    if capN <? n then Fail BuilderFull else
    bind (init_layer n) (fun ly0 =>
    bind (repeat_layers depth 0 ly0) (fun ly =>
    match rev ly with
    | [] => Fail BuilderStackEmptyFinalize
    | (root, count) :: rest =>
        if negb (match rest with [] => true | _ => false end) || negb (count =? 1)
        then Fail BuilderStackLeftover else Ret root
    end)).
  Proof. reflexivity. Qed.

  Lemma cap_0_unpacked : is_packed ek = false -> cap 0 = 1.
  Proof. unfold is_packed, Tree.cap, pd_of. destruct (epd ek); [discriminate|reflexivity]. Qed.

  Lemma init_layer_inv R n s : 1 <= n ->
    wp R (init_layer n) (fun o s' => exists ly, o = Ok ly /\ layer_inv (next s) (next s') 0 n ly /\
       memo s' = memo s /\ (next s <= next s')%positive /\ N.pos (next s') <= N.pos (next s) + 2) s.
  Proof.
    intros Hn. unfold init_layer. pose proof (cap_pos 0) as Hcp. rewrite cap_0 in Hcp.
    destruct (is_packed ek) eqn:Hpk; cbv zeta.
    - unfold packed_repeat. cbv zeta.
      pose proof (N.div_mod n (pf_of ek) ltac:(lia)) as Hdm.
      pose proof (N.mod_upper_bound n (pf_of ek) ltac:(lia)) as Hub.
      assert (Hfull : forall i, shape (Packed i (rep (pf_of ek))) = canon 0 (rep (cap 0))).
      { intros i. cbn [shape]. rewrite cap_0, canon_0_rep, Hpk by exact Hcp. reflexivity. }
      assert (Hpart : forall i r, 0 < r -> shape (Packed i (rep r)) = canon 0 (rep r)).
      { intros i r Hr. cbn [shape]. rewrite canon_0_rep, Hpk by exact Hr. reflexivity. }
      revert Hdm Hub. generalize (n / pf_of ek) (n mod pf_of ek). intros q r Hdm Hub.
      destruct (N.ltb_spec (pf_of ek) (pf_of ek)) as [Hbad|_]; [lia|].
      destruct (N.ltb_spec (pf_of ek) r) as [Hbad|_]; [lia|].
      cbn [wp bind fresh next bump memo].
      destruct (N.eqb_spec q 0) as [Eq|Eq]; destruct (N.eqb_spec r 0) as [Er|Er]; cbn [andb wp next bump memo].
      + exfalso. subst q r. lia.
      + eexists; split; [reflexivity|]. split; [|split; [reflexivity|split; lia]].
        apply LI_part; [lia|rewrite cap_0; subst q; lia| |apply ids_in_packed; lia].
        replace n with r by (subst q; lia). apply Hpart. lia.
      + eexists; split; [reflexivity|]. split; [|split; [reflexivity|split; lia]].
        apply LI_full; [lia|rewrite cap_0; subst r; lia|apply Hfull|apply ids_in_packed; lia].
      + eexists; split; [reflexivity|]. split; [|split; [reflexivity|split; lia]].
        apply LI_both with (r := r); [lia|lia|rewrite cap_0; lia|rewrite cap_0; lia|apply Hfull|apply Hpart; lia| |];
          apply ids_in_packed; lia.
    - cbn [wp bind fresh next bump memo]. eexists; split; [reflexivity|].
      split; [|split; [reflexivity|split; lia]].
      pose proof (cap_0_unpacked Hpk) as Hc0.
      apply LI_full; [lia|rewrite Hc0; lia| |apply ids_in_leaf; lia].
      cbn [shape]. rewrite Hc0, canon_0_rep, Hpk by lia. reflexivity.
  Qed.

  (* everything at once: result, allocation discipline, allocation count *)
  Theorem repeat_canon_full capN depth n R s : 1 <= n -> n <= capN -> capN <= cap depth ->
    wp R (repeat_tree ek capN depth x n) (fun o s' => exists root, o = Ok root /\
       shape root = canon depth (rep n) /\ alloc_only s s' /\ fresh_or_from s s' [] root /\
       N.pos (next s') <= N.pos (next s) + 3 * N.of_nat depth + 2) s.
  Proof.
    intros Hn Hcap Hd. rewrite repeat_tree_unfold.
    destruct (N.ltb_spec capN n) as [Hlt|_]; [lia|].
    apply wp_bind. eapply wp_mono; [|apply init_layer_inv; exact Hn].
    intros o s1 (ly0 & -> & Hinv0 & Hm0 & Hn0 & Hc0). cbn [lift].
    apply wp_bind. eapply wp_mono; [|apply repeat_layers_inv; [exact Hn0|exact Hinv0]].
    intros o s2 (ly & -> & Hinv & Hm & Hn2 & Hc2). cbn [lift].
    rewrite Nat.add_0_r in Hinv. pose proof (cap_pos depth) as Hcp.
    assert (Hfin : forall root, shape root = canon depth (rep n) -> ids_in (next s) (next s2) root ->
       exists root0, Ok root = Ok root0 /\ shape root0 = canon depth (rep n) /\ alloc_only s s2 /\
         fresh_or_from s s2 [] root0 /\ N.pos (next s2) <= N.pos (next s) + 3 * N.of_nat depth + 2).
    { intros root Hsh Hids. exists root. split; [reflexivity|]. split; [exact Hsh|].
      split; [split; [congruence|lia]|]. split; [|lia].
      intros u Hu. right. apply Hids. exact Hu. }
    destruct Hinv as [a c Hc Hnc Ha Hia|a c b r Hc Hr Hrc Hnc Ha Hb Hia Hib|b Hn1 Hnc Hb Hib]; cbn [rev app].
    - assert (c = 1) as -> by nia. cbn [N.eqb Pos.eqb negb orb wp].
      apply Hfin; [|exact Hia]. rewrite Ha. f_equal. f_equal. lia.
    - exfalso. nia.
    - cbn [N.eqb Pos.eqb negb orb wp]. apply Hfin; [exact Hb|exact Hib].
  Qed.

  (* ---------- allocation count, for every input and outcome ---------- *)
  Lemma repeat_step_count R k (ly : @layer T) s :
    wp R (repeat_step k ly) (fun _ s' => (next s <= next s')%positive /\ N.pos (next s') <= N.pos (next s) + 3) s.
  Proof.
    destruct ly as [|[a c] [|[b c2] [|e l]]]; cbn [repeat_step wp]; try (split; lia).
    - destruct (c =? 1); [|destruct (c mod 2 =? 0)];
        cbn [wp bind mk_zero mk_node fresh next bump memo]; split; lia.
    - destruct (negb (c2 =? 1)); [cbn [wp]; split; lia|].
      destruct (c =? 1); [|destruct (c mod 2 =? 0)];
        cbn [wp bind mk_zero mk_node fresh next bump memo]; split; lia.
  Qed.

  Lemma repeat_layers_count R : forall todo k (ly : @layer T) s,
    wp R (repeat_layers todo k ly) (fun _ s' => (next s <= next s')%positive /\
       N.pos (next s') <= N.pos (next s) + 3 * N.of_nat todo) s.
  Proof.
    induction todo as [|t IH]; intros k ly s; cbn [repeat_layers].
    - cbn [wp]. split; lia.
    - apply wp_bind. eapply wp_mono; [|apply repeat_step_count].
      intros [ly1|e|c] s1 (Hn1 & Hc1); cbn [lift]; try (split; lia).
      eapply wp_mono; [|apply IH]. intros o s2 (Hn2 & Hc2). split; lia.
  Qed.

  Lemma init_layer_count R n s :
    wp R (init_layer n) (fun _ s' => (next s <= next s')%positive /\ N.pos (next s') <= N.pos (next s) + 2) s.
  Proof.
    unfold init_layer, packed_repeat. cbv zeta.
    destruct (is_packed ek).
    - destruct (pf_of ek <? pf_of ek); [cbn [wp bind]; split; lia|].
      destruct (pf_of ek <? n mod pf_of ek); [cbn [wp bind fresh next bump]; split; lia|].
      destruct ((n / pf_of ek =? 0) && (n mod pf_of ek =? 0));
        [|destruct (n mod pf_of ek =? 0); [|destruct (n / pf_of ek =? 0)]];
        cbn [wp bind fresh next bump]; split; lia.
    - cbn [wp bind fresh next bump]. split; lia.
  Qed.

  Lemma repeat_tree_count capN depth n R s :
    wp R (repeat_tree ek capN depth x n) (fun _ s' => (next s <= next s')%positive /\
       N.pos (next s') <= N.pos (next s) + 3 * N.of_nat depth + 2) s.
  Proof.
    rewrite repeat_tree_unfold. destruct (capN <? n); [cbn [wp]; split; lia|].
    apply wp_bind. eapply wp_mono; [|apply init_layer_count].
    intros [ly0|e|c] s1 (Hn1 & Hc1); cbn [lift]; try (split; lia).
    apply wp_bind. eapply wp_mono; [|apply repeat_layers_count].
    intros [ly|e|c] s2 (Hn2 & Hc2); cbn [lift]; try (split; lia).
    destruct (rev ly) as [|[root count] rest]; [cbn [wp]; split; lia|].
    destruct (negb match rest with [] => true | _ :: _ => false end || negb (count =? 1)); cbn [wp]; split; lia.
  Qed.

  (* ---------- identities name nodes (idf) ---------- *)
  (* conjunction rule for wp (local copy; holds for every program, Par included) *)
  Lemma wp_conj_rp {A} R (m : prog A) : forall (Q1 Q2 : outcome A -> state -> Prop) s,
    wp R m Q1 s -> wp R m Q2 s -> wp R m (fun o s' => Q1 o s' /\ Q2 o s') s.
  Proof.
    induction m as [A a|A e|A c|A k IH|A i k IH|A i d k IH|A p IHp q IHq k IHk|A t k IH];
      cbn [wp]; intros Q1 Q2 s H1 H2; auto; try solve [intros d Hr; apply IH; auto].
    eapply wp_mono; [|apply (IHp _ _ s H1 H2)]. intros [a|e|c] s1 [Ha Hb]; auto.
    eapply wp_mono; [|apply (IHq _ _ s1 Ha Hb)]. intros [b|e|c] s2 [Hc Hd]; auto.
  Qed.

  (* ts is a set of trees with consistent identities, all in [lo, hi) *)
  Definition good (lo hi : positive) (ts : list tree) : Prop :=
    idf ts /\ forall t, In t ts -> ids_in lo hi t.

  Lemma good_nil lo hi : good lo hi [].
  Proof. split; [intros t1 t2 u v []|intros t []]. Qed.
  Lemma good_subset lo hi ts ts' : (forall t, In t ts' -> In t ts) -> good lo hi ts -> good lo hi ts'.
  Proof.
    intros Hsub (Hidf & Hids). split.
    - intros t1 t2 u v Ht1 Ht2. apply Hidf; apply Hsub; assumption.
    - intros t Ht. apply Hids, Hsub, Ht.
  Qed.
  Lemma good_mono lo hi hi' ts : (hi <= hi')%positive -> good lo hi ts -> good lo hi' ts.
  Proof. intros Hh (Hidf & Hids). split; [exact Hidf|]. intros t Ht. eapply ids_in_mono; [exact Hh|]. apply Hids, Ht. Qed.

  (* a new tree whose root identity is the next unused one and whose proper subtrees all occur in ts *)
  Lemma good_add lo t ts : good lo (idof t) ts -> (lo <= idof t)%positive ->
    (forall u, subt u t -> u = t \/ exists t0, In t0 ts /\ subt u t0) ->
    good lo (Pos.succ (idof t)) (t :: ts).
  Proof.
    intros (Hidf & Hids) Hlo Hsub.
    assert (Hcls : forall t1 u, In t1 (t :: ts) -> subt u t1 -> u = t \/ exists t0, In t0 ts /\ subt u t0).
    { intros t1 u [<-|Hin] Hu; [apply Hsub; exact Hu|]. right. exists t1. split; assumption. }
    assert (Hold : forall u, (exists t0, In t0 ts /\ subt u t0) -> (idof u < idof t)%positive).
    { intros u (t0 & Hin & Hu). apply (Hids t0 Hin u Hu). }
    split.
    - intros t1 t2 u v Ht1 Ht2 Hu Hv Heq.
      destruct (Hcls t1 u Ht1 Hu) as [->|Ou]; destruct (Hcls t2 v Ht2 Hv) as [->|Ov].
      + reflexivity.
      + apply Hold in Ov. lia.
      + apply Hold in Ou. lia.
      + destruct Ou as (t0 & Hin0 & Hu0). destruct Ov as (t0' & Hin0' & Hv0).
        apply (Hidf t0 t0' u v); assumption.
    - intros t1 Ht1 u Hu. destruct (Hcls t1 u Ht1 Hu) as [->|Ou].
      + split; lia.
      + destruct Ou as (t0 & Hin0 & Hu0). destruct (Hids t0 Hin0 u Hu0) as (Ha & Hb). split; lia.
  Qed.

  Lemma good_node lo j a b ts : good lo j ts -> In a ts -> In b ts -> (lo <= j)%positive ->
    good lo (Pos.succ j) (Node j a b :: ts).
  Proof.
    intros Hg Ha Hb Hlo. apply (good_add lo (Node j a b) ts); [exact Hg|exact Hlo|].
    intros u Hu. cbn [subt] in Hu. destruct Hu as [->|[Hu|Hu]]; [left; reflexivity|right; exists a; auto|right; exists b; auto].
  Qed.
  Lemma good_zero lo j d ts : good lo j ts -> (lo <= j)%positive -> good lo (Pos.succ j) (Zero j d :: ts).
  Proof.
    intros Hg Hlo. apply (good_add lo (Zero j d) ts); [exact Hg|exact Hlo|].
    intros u Hu. cbn [subt] in Hu. destruct Hu as [->|[]]. left. reflexivity.
  Qed.
  Lemma good_leaf lo j v ts : good lo j ts -> (lo <= j)%positive -> good lo (Pos.succ j) (Leaf j v :: ts).
  Proof.
    intros Hg Hlo. apply (good_add lo (Leaf j v) ts); [exact Hg|exact Hlo|].
    intros u Hu. cbn [subt] in Hu. destruct Hu as [->|[]]. left. reflexivity.
  Qed.
  Lemma good_packed lo j vs ts : good lo j ts -> (lo <= j)%positive -> good lo (Pos.succ j) (Packed j vs :: ts).
  Proof.
    intros Hg Hlo. apply (good_add lo (Packed j vs) ts); [exact Hg|exact Hlo|].
    intros u Hu. cbn [subt] in Hu. destruct Hu as [->|[]]. left. reflexivity.
  Qed.

  Ltac add_zero G j d G' := pose proof (good_zero _ j d _ G ltac:(lia)) as G'.
  Ltac add_node G j a b G' :=
    pose proof (good_node _ j a b _ G ltac:(cbn [In]; tauto) ltac:(cbn [In]; tauto) ltac:(lia)) as G'.
  Ltac finish_good G :=
    split; [lia|]; intros ly' E; injection E as <-; cbn [map fst];
    (eapply good_subset; [|exact G]); intros t; cbn [In]; tauto.

  Definition good_post (lo : positive) : outcome (@layer T) -> state -> Prop :=
    fun o s' => (lo <= next s')%positive /\ forall ly', o = Ok ly' -> good lo (next s') (map fst ly').

  Lemma repeat_step_good R lo k (ly : @layer T) s :
    (lo <= next s)%positive -> good lo (next s) (map fst ly) ->
    wp R (repeat_step k ly) (good_post lo) s.
  Proof.
    intros Hlo G. unfold good_post.
    destruct ly as [|[a c] [|[b c2] [|e l]]]; cbn [repeat_step wp map fst] in *;
      try (split; [lia|]; intros ly' E; discriminate E).
    - destruct (c =? 1); [|destruct (c mod 2 =? 0)];
        cbn [wp bind mk_zero mk_node fresh next bump memo].
      + add_zero G (next s) k G1. add_node G1 (Pos.succ (next s)) a (@Zero T (next s) k) G2.
        finish_good G2.
      + add_node G (next s) a a G1. finish_good G1.
      + add_node G (next s) a a G1. add_zero G1 (Pos.succ (next s)) k G2.
        add_node G2 (Pos.succ (Pos.succ (next s))) a (@Zero T (Pos.succ (next s)) k) G3.
        finish_good G3.
    - destruct (negb (c2 =? 1)); [cbn [wp]; split; [lia|]; intros ly' E; discriminate E|].
      destruct (c =? 1); [|destruct (c mod 2 =? 0)];
        cbn [wp bind mk_zero mk_node fresh next bump memo].
      + add_node G (next s) a b G1. finish_good G1.
      + add_node G (next s) a a G1. add_zero G1 (Pos.succ (next s)) k G2.
        add_node G2 (Pos.succ (Pos.succ (next s))) b (@Zero T (Pos.succ (next s)) k) G3.
        finish_good G3.
      + add_node G (next s) a a G1. add_node G1 (Pos.succ (next s)) a b G2.
        finish_good G2.
  Qed.

  Lemma repeat_layers_good R lo : forall todo k (ly : @layer T) s,
    (lo <= next s)%positive -> good lo (next s) (map fst ly) ->
    wp R (repeat_layers todo k ly) (good_post lo) s.
  Proof.
    induction todo as [|t IH]; intros k ly s Hlo G; cbn [repeat_layers].
    - cbn [wp]. split; [exact Hlo|]. intros ly' E. injection E as <-. exact G.
    - apply wp_bind. eapply wp_mono; [|apply repeat_step_good; [exact Hlo|exact G]].
      intros [ly1|e|c] s1 (Hlo1 & G1); cbn [lift]; try (split; [exact Hlo1|]; intros ly' E; discriminate E).
      apply IH; [exact Hlo1|]. apply G1. reflexivity.
  Qed.

  Lemma init_layer_good R n s : wp R (init_layer n) (good_post (next s)) s.
  Proof.
    unfold init_layer, packed_repeat, good_post. cbv zeta.
    pose proof (good_nil (next s) (next s)) as G.
    destruct (is_packed ek).
    - destruct (pf_of ek <? pf_of ek); [cbn [wp bind]; split; [lia|]; intros ly' E; discriminate E|].
      destruct (pf_of ek <? n mod pf_of ek);
        [cbn [wp bind fresh next bump]; split; [lia|]; intros ly' E; discriminate E|].
      pose proof (good_packed _ (next s) (rep (pf_of ek)) _ G ltac:(lia)) as G1.
      pose proof (good_packed _ (Pos.succ (next s)) (rep (n mod pf_of ek)) _ G1 ltac:(lia)) as G2.
      destruct ((n / pf_of ek =? 0) && (n mod pf_of ek =? 0));
        [|destruct (n mod pf_of ek =? 0); [|destruct (n / pf_of ek =? 0)]];
        cbn [wp bind fresh next bump];
        first [finish_good G2 | split; [lia|]; intros ly' E; discriminate E].
    - cbn [wp bind fresh next bump].
      pose proof (good_leaf _ (next s) x _ G ltac:(lia)) as G1. finish_good G1.
  Qed.

  (* unconditional: whenever repeat_tree returns a root, its identities name nodes *)
  Lemma repeat_tree_idf capN depth n R s :
    wp R (repeat_tree ek capN depth x n) (fun o _ => forall root, o = Ok root -> idf [root]) s.
  Proof.
    rewrite repeat_tree_unfold. destruct (capN <? n); [cbn [wp]; intros root E; discriminate E|].
    apply wp_bind. eapply wp_mono; [|apply init_layer_good].
    intros [ly0|e|c] s1 (Hlo1 & G1); cbn [lift]; try (intros root E; discriminate E).
    apply wp_bind. eapply wp_mono; [|apply repeat_layers_good; [exact Hlo1|apply G1; reflexivity]].
    intros [ly|e|c] s2 (Hlo2 & G2); cbn [lift]; try (intros root E; discriminate E).
    specialize (G2 ly eq_refl).
    destruct (rev ly) as [|[root count] rest] eqn:Erev; [cbn [wp]; intros root E; discriminate E|].
    destruct (negb match rest with [] => true | _ :: _ => false end || negb (count =? 1));
      cbn [wp]; intros root' E; [discriminate E|]. injection E as <-.
    assert (Hin : In root (map fst ly)).
    { apply (in_map fst ly (root, count)). apply in_rev. rewrite Erev. left. reflexivity. }
    apply (good_subset _ _ _ [root]) in G2; [exact (proj1 G2)|].
    intros t [<-|[]]. exact Hin.
  Qed.

  Theorem repeat_canon_idf capN depth n R s : 1 <= n -> n <= capN -> capN <= cap depth ->
    wp R (repeat_tree ek capN depth x n) (fun o s' => exists root, o = Ok root /\
       shape root = canon depth (rep n) /\ alloc_only s s' /\ fresh_or_from s s' [] root /\
       N.pos (next s') <= N.pos (next s) + 3 * N.of_nat depth + 2 /\ idf [root]) s.
  Proof.
    intros Hn Hcap Hd.
    eapply wp_mono; [|apply wp_conj_rp; [apply (repeat_canon_full capN depth n R s Hn Hcap Hd)|apply repeat_tree_idf]].
    intros o s' ((root & -> & Hsh & Ha & Hf & Hc) & Hidf). exists root.
    split; [reflexivity|]. split; [exact Hsh|]. split; [exact Ha|]. split; [exact Hf|]. split; [exact Hc|].
    apply Hidf. reflexivity.
  Qed.
End RepeatP.

(* ---------- exported statements ---------- *)
Section Export.
  Context {T : Type}.
  Variable ek : ekind T.
  (* none of the theorems below needs `ek_wf ek` *)

  (* `(depth + pd_of ek <= 63)%nat` is not needed (the model of repeat.rs has no overflow site); it is
     kept so that the statement is the one announced. `repeat_canon_full` is the version without it,
     with the allocation count added. *)
  Theorem repeat_canon : forall capN depth elem n R s,
    (depth + pd_of ek <= 63)%nat -> 1 <= n -> n <= capN -> capN <= cap ek depth ->
    wp R (repeat_tree ek capN depth elem n) (fun o s' => exists root, o = Ok root /\
       shape root = canon ek depth (repeatN elem n) /\ alloc_only s s' /\ fresh_or_from s s' [] root) s.
  Proof.
    intros capN depth elem n R s _ Hn Hcap Hd.
    eapply wp_mono; [|apply repeat_canon_full; [exact Hn|exact Hcap|exact Hd]].
    intros o s' (root & -> & Hsh & Ha & Hf & _). exists root. auto.
  Qed.

  Theorem repeat_too_long : forall capN depth elem n R s, capN < n ->
    wp R (repeat_tree ek capN depth elem n) (fun o _ => o = Err BuilderFull) s.
  Proof.
    intros capN depth elem n R s Hlt. rewrite repeat_tree_unfold.
    destruct (N.ltb_spec capN n) as [_|Hle]; [|lia]. reflexivity.
  Qed.

  (* C10: the number of identities allocated follows the depth, not n; unconditional (any n, any
     outcome). The first conjunct makes the truncated subtraction meaningful. *)
  Theorem repeat_nodes : forall capN depth elem n R s,
    wp R (repeat_tree ek capN depth elem n) (fun _ s' => (next s <= next s')%positive /\
       N.pos (next s') - N.pos (next s) <= 3 * N.of_nat depth + 3) s.
  Proof.
    intros capN depth elem n R s. eapply wp_mono; [|apply repeat_tree_count].
    intros o s' (Hn & Hc). split; [exact Hn|lia].
  Qed.

  (* at the depth List<T, N> uses: every 1 <= n <= N <= 2^63 succeeds *)
  Corollary repeat_canon_list_depth : forall capN elem n R s,
    capN <= 2 ^ 63 -> 1 <= n -> n <= capN ->
    wp R (repeat_tree ek capN (list_depth ek capN) elem n) (fun o s' => exists root, o = Ok root /\
       shape root = canon ek (list_depth ek capN) (repeatN elem n) /\ alloc_only s s' /\
       fresh_or_from s s' [] root /\
       N.pos (next s') <= N.pos (next s) + 3 * N.of_nat (list_depth ek capN) + 2) s.
  Proof.
    intros capN elem n R s Hc Hn Hle. apply repeat_canon_full; [exact Hn|exact Hle|].
    apply cap_list_depth; lia.
  Qed.
End Export.

Print Assumptions cap_list_depth.
Print Assumptions list_depth_le.
Print Assumptions repeat_canon.
Print Assumptions repeat_canon_full.
Print Assumptions repeat_too_long.
Print Assumptions repeat_nodes.
Print Assumptions repeat_tree_count.
Print Assumptions repeat_canon_list_depth.
Print Assumptions repeat_canon_idf.
Print Assumptions repeat_tree_idf.
