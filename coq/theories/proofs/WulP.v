(* WulP.v — Tree::{get_recursive, with_updated_leaves, with_updated_leaf} against the canonical form.
   Proof file; no model code. *)
From MH Require Import Defs.
Local Open Scope N_scope.

(* ---------- generic helpers ---------- *)
Lemma lor_aligned p k : p mod pow2 (S k) = 0 -> N.lor p (pow2 k) = p + pow2 k.
Proof.
  intros Hm. unfold pow2 in *.
  assert (N.land p (2 ^ N.of_nat k) = 0) as L.
  { apply N.bits_inj_0. intros n. rewrite N.land_spec, N.pow2_bits_eqb.
    destruct (N.eqb_spec (N.of_nat k) n) as [<-|]; [|apply andb_false_r].
    rewrite andb_true_r. rewrite <- (N.mod_pow2_bits_low p (N.of_nat (S k)) (N.of_nat k)) by lia.
    rewrite Hm. apply N.bits_0. }
  rewrite N.add_nocarry_lxor by exact L. symmetry. apply N.lxor_lor. exact L.
Qed.

Section Win.
  Context {A : Type}.
  Definition win (l : list A) (p c : N) : list A := takeN c (dropN p l).
  Lemma nth_win l p c k : nthN (win l p c) k = if k <? c then nthN l (p + k) else None.
  Proof. unfold win. rewrite nthN_takeN, nthN_dropN. reflexivity. Qed.
  Lemma win_ext l l' p c : (forall k, k < c -> nthN l (p + k) = nthN l' (p + k)) -> win l p c = win l' p c.
  Proof. intros Hk. apply listN_ext. intros k. rewrite !nth_win. destruct (N.ltb_spec k c); auto. Qed.
  Lemma win_take l p c : takeN c (win l p (2 * c)) = win l p c.
  Proof.
    apply listN_ext. intros k. rewrite nthN_takeN, !nth_win.
    destruct (N.ltb_spec k c); auto. destruct (N.ltb_spec k (2*c)); auto; lia.
  Qed.
  Lemma win_drop l p c : dropN c (win l p (2 * c)) = win l (p + c) c.
  Proof.
    apply listN_ext. intros k. rewrite nthN_dropN, !nth_win.
    destruct (N.ltb_spec k c), (N.ltb_spec (c + k) (2*c)); try lia; auto. f_equal. lia.
  Qed.
  Lemma win_nil_iff l p c : 0 < c -> (win l p c = [] <-> nthN l p = None).
  Proof.
    intros Hc. split; intros Hw.
    - pose proof (nth_win l p c 0) as E. rewrite Hw, nthN_nil in E.
      destruct (N.ltb_spec 0 c); [|lia]. now rewrite N.add_0_r in E.
    - apply listN_ext. intros k. rewrite nth_win, nthN_nil. destruct (N.ltb_spec k c); auto.
      apply nthN_None. apply nthN_None in Hw. lia.
  Qed.
  Lemma win_all l c : lenN l <= c -> win l 0 c = l.
  Proof. intros Hl. unfold win. rewrite dropN_0. now apply takeN_all. Qed.
  Lemma lenN_win_le l p c : lenN (win l p c) <= c.
  Proof. unfold win. rewrite lenN_takeN. lia. Qed.
  Lemma nthN_prefix (x : list A) i j : i <= j -> nthN x j <> None -> nthN x i <> None.
  Proof. rewrite !nthN_Some. lia. Qed.
End Win.

Section SortedKeys.
  Context {A : Type}.
  Notation klt := (fun a b : N * A => fst a < fst b).
  Lemma sorted_ext : forall a b : list (N * A), StronglySorted klt a -> StronglySorted klt b ->
    (forall x, In x a <-> In x b) -> a = b.
  Proof.
    induction a as [|x a IH]; intros b Sa Sb Hin.
    - destruct b as [|y b]; auto. exfalso. apply (Hin y). left; reflexivity.
    - destruct b as [|y b]. { exfalso. apply (Hin x). left; reflexivity. }
      apply StronglySorted_inv in Sa as (Sa & Fa). apply StronglySorted_inv in Sb as (Sb & Fb).
      rewrite Forall_forall in Fa, Fb.
      assert (x = y) as ->.
      { destruct (proj1 (Hin x) (or_introl eq_refl)) as [E|Hx]; auto.
        destruct (proj2 (Hin y) (or_introl eq_refl)) as [E|Hy]; auto.
        apply Fb in Hx. apply Fa in Hy. cbn in *. lia. }
      f_equal. apply IH; auto. intros z. split; intros Hz.
      + destruct (proj1 (Hin z) (or_intror Hz)) as [E|Hz']; auto. subst z. apply Fa in Hz. cbn in Hz. lia.
      + destruct (proj2 (Hin z) (or_intror Hz)) as [E|Hz']; auto. subst z. apply Fb in Hz. cbn in Hz. lia.
  Qed.
  Lemma sorted_app : forall a b : list (N * A), StronglySorted klt a -> StronglySorted klt b ->
    (forall x y, In x a -> In y b -> fst x < fst y) -> StronglySorted klt (a ++ b).
  Proof.
    induction a as [|x a IH]; intros b Sa Sb Hab; cbn [app]; auto.
    apply StronglySorted_inv in Sa as (Sa & Fa). constructor.
    - apply IH; auto. intros x' y Hx Hy. apply Hab; auto. now right.
    - rewrite Forall_forall in *. intros z Hz. apply in_app_or in Hz as [Hz|Hz]; auto. apply Hab; auto. now left.
  Qed.
End SortedKeys.

Section Wul.
  Context {T U : Type}.
  Variable ek : ekind T.
  Variable M : umap_impl T U.
  Variable uinv : U -> Prop.
  Hypothesis EKW : ek_wf ek.
  Hypothesis UL : umap_lawful ek M uinv.
  Notation tree := (tree T).
  Notation cap := (cap ek).
  Notation canon := (canon ek).
  Notation pd := (pd_of ek).
  Notation pf := (pf_of ek).

  Lemma cap_pos d : 0 < cap d. Proof. apply pow2_pos. Qed.
  Lemma cap_S d : cap (S d) = 2 * cap d. Proof. apply (pow2_S (d + pd)). Qed.
  Lemma cap_0 : cap 0 = pf. Proof. reflexivity. Qed.
  Lemma unpacked_pd : is_packed ek = false -> pd = O.
  Proof. unfold is_packed, pd_of. destruct (epd ek); [discriminate|reflexivity]. Qed.
  Lemma unpacked_cap0 : is_packed ek = false -> cap 0 = 1.
  Proof. intros Hp. unfold Tree.cap. rewrite (unpacked_pd Hp). reflexivity. Qed.

  Lemma canon_nil d : canon d [] = SZero d. Proof. destruct d; reflexivity. Qed.
  Lemma canon_S d l : l <> [] ->
    canon (S d) l = SNode (canon d (takeN (cap d) l)) (canon d (dropN (cap d) l)).
  Proof. destruct l; [congruence|reflexivity]. Qed.
  Lemma canon_0 l : l <> [] ->
    canon 0 l = if is_packed ek then SPacked l else SLeaf (match l with v :: _ => v | [] => edefault ek end).
  Proof. destruct l; [congruence|reflexivity]. Qed.

  (* ================= 1. get_recursive ================= *)
  Theorem get_rec_canon : forall d (l : list T) t i, shape t = canon d l -> lenN l <= cap d ->
    get_rec ek t i d = nthN l (i mod cap d).
  Proof.
    induction d as [|d IH]; intros l t i Hs Hl.
    - destruct l as [|v l].
      + rewrite canon_nil in Hs. destruct t; try discriminate Hs. reflexivity.
      + rewrite canon_0 in Hs by discriminate. destruct (is_packed ek) eqn:Hp.
        * destruct t; try discriminate Hs. cbn [shape] in Hs. injection Hs as ->. reflexivity.
        * destruct t; try discriminate Hs. cbn [shape] in Hs. injection Hs as ->.
          rewrite (unpacked_cap0 Hp), N.mod_1_r. reflexivity.
    - destruct l as [|v l'] eqn:El.
      { rewrite canon_nil in Hs. destruct t; try discriminate Hs. reflexivity. }
      rewrite <- El in *. assert (l <> []) as Hne by (subst; congruence). clear El v l'.
      rewrite canon_S in Hs by assumption.
      destruct t as [| |j tl tr|]; try discriminate Hs. cbn [shape] in Hs. injection Hs as Hsl Hsr.
      change (get_rec ek (Node j tl tr) i (S d))
        with (if N.testbit i (N.of_nat (d + pd)) then get_rec ek tr i d else get_rec ek tl i d).
      change (cap (S d)) with (pow2 (S (d + pd))). rewrite mod_pow2_succ. change (pow2 (d + pd)) with (cap d).
      pose proof (cap_pos d) as Hc. pose proof (N.mod_upper_bound i (cap d) ltac:(lia)) as Hm.
      rewrite cap_S in Hl.
      destruct (N.testbit i (N.of_nat (d + pd))).
      + rewrite (IH _ _ i Hsr) by (rewrite lenN_dropN; lia).
        rewrite nthN_dropN. f_equal. lia.
      + rewrite (IH _ _ i Hsl) by (rewrite lenN_takeN; lia).
        rewrite nthN_takeN. destruct (N.ltb_spec (i mod cap d) (cap d)); [|lia]. f_equal. lia.
  Qed.

  (* ================= 2. with_updated_leaves ================= *)
  (* ---------- the update map ---------- *)
  Section Map.
  Variable u : U.
  Hypothesis UI : uinv u.

  Lemma has_spec s e : has_updates M u s e = true <-> exists k, s <= k < e /\ uget M u k <> None.
  Proof.
    unfold has_updates. split.
    - destruct (urange M u s e) as [|[k v] r] eqn:E; [discriminate|]. intros _.
      assert (In (k, v) (urange M u s e)) as Hin by (rewrite E; left; reflexivity).
      apply (ul_range_in _ _ _ UL u s e k v UI) in Hin. exists k. destruct Hin as (? & ? & Hg). rewrite Hg. split; [lia|discriminate].
    - intros (k & Hk & Hg). destruct (uget M u k) as [v|] eqn:Eg; [|congruence].
      assert (In (k, v) (urange M u s e)) as Hin by (apply (ul_range_in _ _ _ UL u s e k v UI); repeat split; auto; lia).
      destruct (urange M u s e); [destruct Hin|reflexivity].
  Qed.
  Lemma has_false s e : has_updates M u s e = false -> forall k, s <= k < e -> uget M u k = None.
  Proof.
    intros Hf k Hk. destruct (uget M u k) eqn:E; auto. exfalso.
    assert (has_updates M u s e = true) by (apply has_spec; exists k; split; auto; congruence). congruence.
  Qed.
  Lemma has_split s mid e : s <= mid <= e -> has_updates M u s e = true ->
    has_updates M u s mid = true \/ has_updates M u mid e = true.
  Proof.
    intros Hs Ht. apply has_spec in Ht as (k & Hk & Hm). destruct (N.ltb_spec k mid).
    - left. apply has_spec. exists k. split; auto; lia.
    - right. apply has_spec. exists k. split; auto; lia.
  Qed.
  Lemma has_mono s e s' e' : s' <= s -> e <= e' -> has_updates M u s e = true -> has_updates M u s' e' = true.
  Proof. intros Hs He Ht. apply has_spec in Ht as (k & Hk & Hm). apply has_spec. exists k. split; auto; lia. Qed.

  (* ---------- PackedLeaf::insert_mut / update ---------- *)
  Lemma insert_mut_spec (vs : list T) sub v : sub <= lenN vs ->
    exists vs', insert_mut vs sub v = Ret vs' /\ forall j, nthN vs' j = if j =? sub then Some v else nthN vs j.
  Proof.
    intros Hle. unfold insert_mut. destruct (N.eqb_spec sub (lenN vs)) as [E|NE].
    - eexists; split; [reflexivity|]. intros j. destruct (N.eqb_spec j sub) as [->|Nj].
      + rewrite nthN_app_r by lia. rewrite E, N.sub_diag. reflexivity.
      + destruct (N.ltb_spec j (lenN vs)) as [Hj|Hj].
        * now rewrite nthN_app_l.
        * rewrite nthN_app_r by lia. assert (nthN vs j = None) as -> by (apply nthN_None; lia).
          apply nthN_None. change (lenN [v]) with 1. lia.
    - destruct (N.ltb_spec sub (lenN vs)) as [Hl|Hg]; [|lia].
      eexists; split; [reflexivity|]. intros j. rewrite nthN_setN.
      destruct (N.eqb_spec j sub); cbn [andb]; auto. destruct (N.ltb_spec sub (lenN vs)); [reflexivity|lia].
  Qed.
  Lemma insert_mut_oob (vs : list T) sub v : lenN vs < sub ->
    insert_mut vs sub v = Fail (PackedLeafOutOfBounds sub (lenN vs)).
  Proof.
    intros Hl. unfold insert_mut. destruct (N.eqb_spec sub (lenN vs)); [lia|].
    destruct (N.ltb_spec sub (lenN vs)); [lia|reflexivity].
  Qed.

  Lemma insert_all_cons vs k v r :
    insert_all ek vs ((k, v) :: r) = bind (insert_mut vs (k mod pf) v) (fun vs' => insert_all ek vs' r).
  Proof. reflexivity. Qed.

  (* keys strictly increasing inside [lo, hi) *)
  Fixpoint incr (lo hi : N) (kvs : list (N * T)) : Prop :=
    match kvs with [] => True | (k, _) :: r => lo <= k /\ k < hi /\ incr (k + 1) hi r end.
  Fixpoint lookup (kvs : list (N * T)) (j : N) : option T :=
    match kvs with [] => None | (k, v) :: r => if j =? k then Some v else lookup r j end.
  Lemma lookup_below : forall r lo hi j, incr lo hi r -> j < lo -> lookup r j = None.
  Proof.
    induction r as [|[k v] r IH]; intros lo hi j Hin Hj; cbn [lookup]; auto.
    destruct Hin as (Hlo & Hk & Hr). destruct (N.eqb_spec j k); [lia|]. eapply IH; eauto. lia.
  Qed.
  Lemma lookup_In : forall kvs j v, lookup kvs j = Some v -> In (j, v) kvs.
  Proof.
    induction kvs as [|[k w] r IH]; intros j v; cbn [lookup]; [discriminate|].
    destruct (N.eqb_spec j k) as [->|]; [intros [= ->]; left; reflexivity|intros Hl; right; auto].
  Qed.
  Lemma lookup_notIn : forall kvs j v, lookup kvs j = None -> ~ In (j, v) kvs.
  Proof.
    induction kvs as [|[k w] r IH]; intros j v; cbn [lookup]; [intros _ []|].
    destruct (N.eqb_spec j k) as [->|Nj]; [discriminate|]. intros Hl [E|Hin]; [congruence|]. eapply IH; eauto.
  Qed.
  Lemma sorted_incr : forall kvs lo hi, StronglySorted (fun a b : N * T => fst a < fst b) kvs ->
    (forall k v, In (k, v) kvs -> lo <= k /\ k < hi) -> incr lo hi kvs.
  Proof.
    induction kvs as [|[k v] r IH]; intros lo hi Hs Hin; cbn [incr]; auto.
    apply StronglySorted_inv in Hs as (Hs & Hall).
    destruct (Hin k v (or_introl eq_refl)) as (? & ?). repeat split; auto.
    apply IH; auto. intros k' v' Hin'. rewrite Forall_forall in Hall. specialize (Hall _ Hin'). cbn in Hall.
    destruct (Hin k' v' (or_intror Hin')). lia.
  Qed.

  Lemma insert_all_ok R q : forall kvs cur lo w' s, let p := q * pf in
    incr lo (p + pf) kvs -> p <= lo ->
    (forall j v, lookup kvs (p + j) = Some v -> nthN w' j = Some v) ->
    (forall j, lookup kvs (p + j) = None -> nthN w' j = nthN cur j) ->
    wp R (insert_all ek cur kvs) (fun o s' => o = Ok w' /\ s' = s) s.
  Proof.
    induction kvs as [|[k v] r IH]; intros cur lo w' s p Hin Hlo H1 H2.
    - cbn [insert_all wp]. split; auto. f_equal. apply listN_ext. intros j. symmetry. apply H2. reflexivity.
    - destruct Hin as (Hlk & Hk & Hr). rewrite insert_all_cons.
      assert (0 < pf) as Hpf by apply pow2_pos.
      assert (k mod pf = k - p) as Hmod.
      { replace k with ((k - p) + q * pf) by (unfold p in *; lia). rewrite N.mod_add by lia.
        rewrite N.mod_small by lia. unfold p. lia. }
      rewrite Hmod.
      assert (nthN w' (k - p) = Some v) as Hw'k.
      { apply H1. replace (p + (k - p)) with k by lia. cbn [lookup]. now rewrite N.eqb_refl. }
      assert (k - p <= lenN cur) as Hle.
      { destruct (N.le_gt_cases (k - p) (lenN cur)) as [|Hgt]; auto. exfalso.
        assert (nthN w' (lenN cur) = nthN cur (lenN cur)) as E.
        { apply H2. cbn [lookup]. destruct (N.eqb_spec (p + lenN cur) k); [lia|]. eapply lookup_below; eauto. lia. }
        assert (nthN cur (lenN cur) = None) as E0 by (apply nthN_None; lia).
        assert (k - p < lenN w') as Hkw by (apply nthN_Some; congruence).
        assert (lenN cur < lenN w') as Hcw by lia. apply nthN_Some in Hcw. congruence. }
      destruct (insert_mut_spec cur (k - p) v Hle) as (cur1 & -> & Hnth).
      cbn [bind]. apply (IH cur1 (k + 1) w' s); auto.
      + fold p. lia.
      + intros j v' Hj. apply H1. cbn [lookup]. fold p. destruct (N.eqb_spec (p + j) k) as [E|]; auto.
        fold p in Hj. rewrite E in Hj. rewrite (lookup_below r (k + 1) (p + pf) k) in Hj by (auto; lia). discriminate.
      + intros j Hj. fold p in Hj. rewrite Hnth. destruct (N.eqb_spec j (k - p)) as [->|Nj]; auto.
        apply H2. cbn [lookup]. destruct (N.eqb_spec (p + j) k); [lia|auto].
  Qed.

  (* ---------- old and new contents ---------- *)
  (* l' need only be right below the bound B (B = capacity for the main theorem; B = the offending
     key for the gap theorem) *)
  Variables l l' : list T.
  Variable B : N.
  Hypothesis H1 : forall k v, k < B -> uget M u k = Some v -> nthN l' k = Some v.
  Hypothesis H2 : forall k, uget M u k = None -> nthN l' k = nthN l k.

  Lemma unchanged p c : has_updates M u p (p + c) = false -> win l p c = win l' p c.
  Proof. intros Hf. apply win_ext. intros k Hk. symmetry. apply H2. eapply has_false; eauto. lia. Qed.
  Lemma new_nonempty p c : 0 < c -> p + c <= B -> has_updates M u p (p + c) = true -> win l' p c <> [].
  Proof.
    intros Hc HB Ht E. apply win_nil_iff in E; auto. apply has_spec in Ht as (k & Hk & Hm).
    destruct (uget M u k) eqn:Em; [|congruence]. apply H1 in Em; [|lia].
    apply (nthN_prefix l' p k); [lia| congruence | exact E].
  Qed.

  Lemma packed_update_ok R q s : let p := q * pf in p + pf <= B ->
    wp R (packed_update ek M (win l p pf) p u) (fun o s' => o = Ok (win l' p pf) /\ s' = s) s.
  Proof.
    intros p HB. unfold packed_update.
    apply (insert_all_ok R q _ _ p).
    - apply sorted_incr; [apply (ul_range_sorted _ _ _ UL); auto|].
      intros k v Hin. apply (ul_range_in _ _ _ UL u _ _ k v UI) in Hin. fold p. lia.
    - fold p. lia.
    - fold p. intros j v Hl. apply lookup_In in Hl. apply (ul_range_in _ _ _ UL u _ _ _ v UI) in Hl.
      destruct Hl as (_ & Hlt & Hg). rewrite nth_win. destruct (N.ltb_spec j pf); [|lia]. apply H1; [lia|assumption].
    - fold p. intros j Hl. rewrite !nth_win. destruct (N.ltb_spec j pf); auto.
      apply H2. destruct (uget M u (p + j)) as [v|] eqn:Eg; auto. exfalso.
      apply (lookup_notIn _ _ v Hl). apply (ul_range_in _ _ _ UL u _ _ _ v UI). repeat split; auto; lia.
  Qed.

  (* ---------- unfolding equations of the model function ---------- *)
  Notation wul := (with_updated_leaves ek M).
  Definition leaf_case (p : N) : prog tree :=
    bind (lift_opt (uget M u p) (LeafUpdateMissing p)) (fun v => bind fresh (fun i => Ret (Leaf i v))).
  Definition packed_case (vs : list T) (p : N) : prog tree :=
    bind (packed_update ek M vs p u) (fun vs' => bind fresh (fun i => Ret (Packed i vs'))).
  Definition node_case (nd : nat) (tl tr : tree) (p : N) : prog tree :=
    let rp := N.lor p (pow2 (nd + pd)) in
    let e := p + pow2 (S nd + pd) in
    if negb (has_updates M u p rp) && negb (has_updates M u rp e) then Fail (NodeUpdatesMissing p) else
    bind (if has_updates M u p rp then wul nd tl u p else Ret tl) (fun tl' =>
    bind (if has_updates M u rp e then wul nd tr u rp else Ret tr) (fun tr' =>
    bind fresh (fun i => Ret (Node i tl' tr')))).
  Lemma wul_node nd i tl tr p : wul (S nd) (Node i tl tr) u p = node_case nd tl tr p.
  Proof. reflexivity. Qed.
  Lemma wul_zero_S nd i z p : wul (S nd) (Zero i z) u p =
    if negb (Nat.eqb z (S nd)) then Fail UpdateLeavesError
    else bind fresh (fun zi => node_case nd (Zero zi nd) (Zero zi nd) p).
  Proof. reflexivity. Qed.
  Lemma wul_zero_0 i z p : wul 0 (Zero i z) u p =
    if negb (Nat.eqb z 0) then Fail UpdateLeavesError
    else if is_packed ek then packed_case [] p else leaf_case p.
  Proof. reflexivity. Qed.
  Lemma wul_packed_0 i vs p : wul 0 (Packed i vs) u p = packed_case vs p.
  Proof. reflexivity. Qed.
  Lemma wul_leaf_0 i v p : wul 0 (Leaf i v) u p = leaf_case p.
  Proof. reflexivity. Qed.

  (* ---------- what the call does to the tree and to the allocator, as a relation ---------- *)
  Definition leaflike (t' : tree) (n : positive) : Prop :=
    (exists v, t' = Leaf n v) \/ (exists vs, t' = Packed n vs).
  Definition nonnode (t : tree) : Prop := match t with Node _ _ _ => False | _ => True end.
  Definition zsplit (d : nat) (t : tree) (n : positive) (tl tr : tree) (n0 : positive) : Prop :=
    (exists i, t = Node i tl tr /\ n0 = n) \/
    (exists i, t = Zero i (S d) /\ tl = Zero n d /\ tr = Zero n d /\ n0 = Pos.succ n).
  (* updo d p t n t' n': the (optional) update of the depth-d subtree t with window [p, p + cap d),
     started with allocator n, yields t' and allocator n' *)
  Inductive updo : nat -> N -> tree -> positive -> tree -> positive -> Prop :=
  | u_skip d p t n : has_updates M u p (p + cap d) = false -> updo d p t n t n
  | u_leaf p t n t' : has_updates M u p (p + cap 0) = true -> nonnode t -> leaflike t' n ->
      updo 0 p t n t' (Pos.succ n)
  | u_node d p t n tl tr n0 tl' n1 tr' n2 :
      has_updates M u p (p + cap (S d)) = true -> zsplit d t n tl tr n0 ->
      updo d p tl n0 tl' n1 -> updo d (p + cap d) tr n1 tr' n2 ->
      updo (S d) p t n (Node n2 tl' tr') (Pos.succ n2).

  Definition wul_post (d : nat) (p : N) (t : tree) (s : state) : outcome tree -> state -> Prop :=
    fun o s' => exists t', o = Ok t' /\ shape t' = canon d (win l' p (cap d)) /\ memo s' = memo s /\
                           updo d p t (next s) t' (next s').
  Definition wul_spec R (d : nat) : Prop := forall q p t s, p = q * cap d -> p + cap d <= B ->
    shape t = canon d (win l p (cap d)) -> has_updates M u p (p + cap d) = true ->
    wp R (wul d t u p) (wul_post d p t s) s.

  Lemma wul_opt R d : wul_spec R d -> forall q p t s, p = q * cap d -> p + cap d <= B ->
    shape t = canon d (win l p (cap d)) ->
    wp R (if has_updates M u p (p + cap d) then wul d t u p else Ret t) (wul_post d p t s) s.
  Proof.
    intros IH q p t s Hp HB Hs. destruct (has_updates M u p (p + cap d)) eqn:Eh.
    - eapply IH; eauto.
    - cbn [wp]. exists t. repeat split; auto.
      + rewrite Hs. f_equal. now apply unchanged.
      + now apply u_skip.
  Qed.

  Lemma node_case_ok R nd : wul_spec R nd -> forall q p tl tr s, p = q * cap (S nd) -> p + cap (S nd) <= B ->
    shape tl = canon nd (win l p (cap nd)) -> shape tr = canon nd (win l (p + cap nd) (cap nd)) ->
    has_updates M u p (p + cap (S nd)) = true ->
    wp R (node_case nd tl tr p) (fun o s' => exists tl' tr' n1 n2, o = Ok (Node n2 tl' tr') /\
       next s' = Pos.succ n2 /\ memo s' = memo s /\
       updo nd p tl (next s) tl' n1 /\ updo nd (p + cap nd) tr n1 tr' n2 /\
       shape (Node n2 tl' tr') = canon (S nd) (win l' p (cap (S nd)))) s.
  Proof.
    intros IH q p tl tr s Hp HB Hsl Hsr Ht. unfold node_case.
    pose proof (cap_pos nd) as Hc. pose proof (cap_S nd) as HS.
    assert (N.lor p (pow2 (nd + pd)) = p + cap nd) as ->.
    { apply lor_aligned. change (pow2 (S (nd + pd))) with (cap (S nd)). rewrite Hp. apply N.mod_mul.
      pose proof (cap_pos (S nd)). lia. }
    change (pow2 (S nd + pd)) with (cap (S nd)).
    assert (p + cap (S nd) = p + cap nd + cap nd) as HE by lia.
    rewrite HE in Ht |- *.
    destruct (has_split p (p + cap nd) (p + cap nd + cap nd) ltac:(lia) Ht) as [HL|HR].
    all: match goal with |- wp _ (if ?b then _ else _) _ _ => assert (b = false) as ->
           by (rewrite ?HL, ?HR; cbn [negb andb]; auto using andb_false_r) end.
    all: apply wp_bind; eapply wp_mono; [|apply (wul_opt R nd IH (2 * q) p tl s); [lia|lia|exact Hsl]].
    all: intros o s1 (tl' & -> & Hsl' & Hm1 & Hu1); cbn [lift].
    all: apply wp_bind; eapply wp_mono; [|apply (wul_opt R nd IH (2 * q + 1) (p + cap nd) tr s1); [lia|lia|exact Hsr]].
    all: intros o s2 (tr' & -> & Hsr' & Hm2 & Hu2); cbn [lift].
    all: cbn [bind fresh wp]; exists tl', tr', (next s1), (next s2); cbn [next bump memo].
    all: repeat split; auto; try congruence.
    all: cbn [shape]; rewrite canon_S by (apply new_nonempty; [lia|lia|now rewrite HE]).
    all: rewrite HS, win_take, win_drop; congruence.
  Qed.

  Lemma wul_ok R : forall d, wul_spec R d.
  Proof.
    induction d as [|nd IH]; intros q p t s Hp HB Hs Ht.
    - (* leaves *)
      assert (win l' p (cap 0) <> []) as Hne by (apply new_nonempty; auto using cap_pos).
      destruct (is_packed ek) eqn:Epk.
      + (* packed leaf *)
        rewrite cap_0 in *.
        assert (nonnode t) as Hnn.
        { destruct t; cbn; auto.
          destruct (win l p pf); [rewrite canon_nil in Hs|rewrite canon_0, Epk in Hs by discriminate]; discriminate Hs. }
        assert (wul 0 t u p = packed_case (win l p pf) p) as ->.
        { destruct (win l p pf) as [|x xs] eqn:EW.
          - rewrite canon_nil in Hs. destruct t; try discriminate Hs. cbn [shape] in Hs. injection Hs as ->.
            rewrite wul_zero_0, Epk. reflexivity.
          - rewrite canon_0, Epk in Hs by discriminate. destruct t; try discriminate Hs.
            cbn [shape] in Hs. injection Hs as ->. apply wul_packed_0. }
        unfold packed_case. apply wp_bind. subst p. eapply wp_mono; [|apply packed_update_ok; exact HB].
        intros o s1 (-> & ->). cbn [lift bind fresh wp].
        exists (Packed (next s) (win l' (q * pf) pf)). cbn [next bump memo]. change (cap 0) with pf.
        repeat split; auto.
        * cbn [shape]. rewrite canon_0, Epk by assumption. reflexivity.
        * apply u_leaf; auto. right. eexists; reflexivity.
      + (* unpacked leaf *)
        pose proof (unpacked_cap0 Epk) as Hc1.
        assert (nonnode t) as Hnn.
        { destruct t; cbn; auto.
          destruct (win l p (cap 0)); [rewrite canon_nil in Hs|rewrite canon_0, Epk in Hs by discriminate]; discriminate Hs. }
        assert (wul 0 t u p = leaf_case p) as ->.
        { destruct (win l p (cap 0)) as [|x xs] eqn:EW.
          - rewrite canon_nil in Hs. destruct t; try discriminate Hs. cbn [shape] in Hs. injection Hs as ->.
            rewrite wul_zero_0, Epk. reflexivity.
          - rewrite canon_0, Epk in Hs by discriminate. destruct t; try discriminate Hs. apply wul_leaf_0. }
        pose proof Ht as Ht'. apply has_spec in Ht' as (k & Hk & Hm). assert (k = p) by lia. subst k.
        destruct (uget M u p) as [v|] eqn:Em; [|congruence].
        unfold leaf_case. rewrite Em. cbn [lift_opt bind fresh wp].
        exists (Leaf (next s) v). cbn [next bump memo]. repeat split; auto.
        * cbn [shape].
          assert (win l' p (cap 0) = [v]) as ->.
          { rewrite Hc1. apply listN_ext. intros k. rewrite nth_win. destruct (N.ltb_spec k 1).
            - assert (k = 0) by lia. subst k. rewrite N.add_0_r. apply H1; [lia|assumption].
            - cbn [nthN]. destruct (N.eqb_spec k 0); [lia|reflexivity]. }
          rewrite canon_0, Epk by discriminate. reflexivity.
        * apply u_leaf; auto. left. eexists; reflexivity.
    - (* inner nodes *)
      pose proof (cap_pos nd) as Hc. pose proof (cap_S nd) as HS.
      destruct (win l p (cap (S nd))) as [|x xs] eqn:EW.
      + rewrite canon_nil in Hs. destruct t as [| | |i z]; try discriminate Hs. cbn [shape] in Hs. injection Hs as ->.
        rewrite wul_zero_S, Nat.eqb_refl. cbn [negb bind fresh wp].
        eapply wp_mono; [|apply (node_case_ok R nd IH q p (Zero (next s) nd) (Zero (next s) nd) (bump s) Hp HB)]; auto.
        * intros o s' (tl' & tr' & n1 & n2 & -> & Hn & Hm & Hu1 & Hu2 & Hsh). cbn [next bump memo] in *.
          exists (Node n2 tl' tr'). repeat split; auto. rewrite Hn.
          eapply u_node; eauto. right. exists i. auto.
        * cbn [shape]. rewrite <- win_take, <- HS, EW, takeN_nil, canon_nil. reflexivity.
        * cbn [shape]. rewrite <- win_drop, <- HS, EW, dropN_nil, canon_nil. reflexivity.
      + rewrite <- EW in Hs. rewrite canon_S in Hs by (rewrite EW; discriminate).
        rewrite HS, win_take, win_drop in Hs.
        destruct t as [| |i tl tr|]; try discriminate Hs. cbn [shape] in Hs. injection Hs as Hsl Hsr.
        rewrite wul_node.
        eapply wp_mono; [|apply (node_case_ok R nd IH q p tl tr s Hp HB)]; auto.
        intros o s' (tl' & tr' & n1 & n2 & -> & Hn & Hm & Hu1 & Hu2 & Hsh).
        exists (Node n2 tl' tr'). repeat split; auto. rewrite Hn.
        eapply u_node; eauto. left. exists i. auto.
  Qed.

  (* ---------- consequences of the relation: allocation discipline ---------- *)
  Lemma updo_le d p t n t' n' : updo d p t n t' n' -> (n <= n')%positive.
  Proof.
    induction 1 as [d p t n Hh|p t n t' Hh Hnn Hll|d p t n tl tr n0 tl' n1 tr' n2 Hh Hz Hu1 IH1 Hu2 IH2]; try lia.
    destruct Hz as [(i & _ & ->)|(i & _ & _ & _ & ->)]; lia.
  Qed.
  Lemma updo_from d p t n t' n' : updo d p t n t' n' ->
    forall x, subt x t' -> subt x t \/ (n <= idof x /\ idof x < n')%positive.
  Proof.
    induction 1 as [d p t n Hh|p t n t' Hh Hnn Hll|d p t n tl tr n0 tl' n1 tr' n2 Hh Hz Hu1 IH1 Hu2 IH2];
      intros x Hx; auto.
    - right. destruct Hll as [(v & ->)|(vs & ->)]; cbn [subt] in Hx; destruct Hx as [->|[]]; cbn [idof]; lia.
    - apply updo_le in Hu1 as L1. apply updo_le in Hu2 as L2.
      assert (n <= n0)%positive as L0 by (destruct Hz as [(i & _ & ->)|(i & _ & _ & _ & ->)]; lia).
      cbn [subt] in Hx. destruct Hx as [->|[Hx|Hx]].
      + right. cbn [idof]. lia.
      + destruct (IH1 x Hx) as [Hs|Hr]; [|right; lia].
        destruct Hz as [(i & -> & ->)|(i & -> & -> & -> & ->)].
        * left. cbn [subt]. auto.
        * right. cbn [subt] in Hs. destruct Hs as [->|[]]. cbn [idof]. lia.
      + destruct (IH2 x Hx) as [Hs|Hr]; [|right; lia].
        destruct Hz as [(i & -> & ->)|(i & -> & -> & -> & ->)].
        * left. cbn [subt]. auto.
        * right. cbn [subt] in Hs. destruct Hs as [->|[]]. cbn [idof]. lia.
  Qed.

  (* ---------- 4a. cost ---------- *)
  Lemma urange_split s mid e : s <= mid <= e -> urange M u s e = urange M u s mid ++ urange M u mid e.
  Proof.
    intros Hs. apply sorted_ext.
    - now apply (ul_range_sorted _ _ _ UL).
    - apply sorted_app; try now apply (ul_range_sorted _ _ _ UL).
      intros [k v] [k' v'] Hx Hy. apply (ul_range_in _ _ _ UL u _ _ _ _ UI) in Hx, Hy. cbn. lia.
    - intros [k v]. rewrite in_app_iff, !(ul_range_in _ _ _ UL u _ _ _ _ UI). 
      destruct (N.ltb_spec k mid); intuition lia.
  Qed.
  Definition nkeys (p c : N) : N := lenN (urange M u p (p + c)).
  Lemma nkeys_pos p c : has_updates M u p (p + c) = true -> 1 <= nkeys p c.
  Proof.
    unfold has_updates, nkeys. destruct (urange M u p (p + c)); [discriminate|]. intros _. rewrite lenN_cons. lia.
  Qed.
  Lemma nkeys_S p d : nkeys p (cap (S d)) = nkeys p (cap d) + nkeys (p + cap d) (cap d).
  Proof.
    unfold nkeys. pose proof (cap_S d) as HS.
    rewrite (urange_split p (p + cap d) (p + cap (S d))) by lia. rewrite lenN_app.
    replace (p + cap (S d)) with (p + cap d + cap d) by lia. reflexivity.
  Qed.
  Lemma updo_cost d p t n t' n' : updo d p t n t' n' ->
    N.pos n' <= N.pos n + 2 * nkeys p (cap d) * (N.of_nat d + 1).
  Proof.
    induction 1 as [d p t n Hh|p t n t' Hh Hnn Hll|d p t n tl tr n0 tl' n1 tr' n2 Hh Hz Hu1 IH1 Hu2 IH2]; try lia.
    - apply nkeys_pos in Hh. lia.
    - apply nkeys_pos in Hh. rewrite nkeys_S in *.
      assert (N.pos n0 <= N.pos n + 1) as L0 by (destruct Hz as [(i & _ & ->)|(i & _ & _ & _ & ->)]; lia).
      remember (nkeys p (cap d)) as kl eqn:Ekl. remember (nkeys (p + cap d) (cap d)) as kr eqn:Ekr.
      clear Ekl Ekr. replace (N.of_nat (S d)) with (N.of_nat d + 1) by lia.
      remember (N.of_nat d) as dd eqn:Edd. clear Edd. nia.
  Qed.

  (* ---------- 4b. retention ---------- *)
  (* the index window, relative to the window start of the root, of the node reached by a path
     in a tree of depth d *)
  Fixpoint window_lo (d : nat) (path : list bool) : N :=
    match path, d with
    | b :: r, S nd => (if b then cap nd else 0) + window_lo nd r
    | _, _ => 0
    end.
  Definition window_hi (d : nat) (path : list bool) : N := window_lo d path + cap (d - length path).

  Lemma updo_retain d p t n t' n' : updo d p t n t' n' -> forall path x,
    subtree_at t path = Some x ->
    (forall k, p + window_lo d path <= k -> k < p + window_hi d path -> uget M u k = None) ->
    subtree_at t' path = Some x.
  Proof.
    induction 1 as [d p t n Hh|p t n t' Hh Hnn Hll|d p t n tl tr n0 tl' n1 tr' n2 Hh Hz Hu1 IH1 Hu2 IH2];
      intros path x Hsub Hno; auto.
    - exfalso. destruct path as [|b r].
      + apply has_spec in Hh as (k & Hk & Hg). apply Hg, Hno; unfold window_hi; cbn [window_lo length Nat.sub]; lia.
      + destruct t; cbn [subtree_at nonnode] in *; try discriminate; contradiction.
    - destruct path as [|b r].
      + exfalso. apply has_spec in Hh as (k & Hk & Hg).
        apply Hg, Hno; unfold window_hi; cbn [window_lo length]; rewrite ?Nat.sub_0_r; lia.
      + destruct Hz as [(i & -> & ->)|(i & -> & _)]; [|discriminate Hsub].
        cbn [subtree_at] in *. unfold window_hi in *. cbn [window_lo length Nat.sub] in Hno.
        destruct b.
        * apply IH2; [exact Hsub|]. intros k Hk1 Hk2. apply Hno; lia.
        * apply IH1; [exact Hsub|]. intros k Hk1 Hk2. apply Hno; lia.
  Qed.
  End Map.

  Lemma agrees_H2 u (l l' : list T) : agrees M u l l' -> forall k, uget M u k = None -> nthN l' k = nthN l k.
  Proof.
    intros (Hlen & A1 & A2 & A3) k Hk. destruct (N.ltb_spec k (lenN l)) as [Hl|Hl]; [now apply A2|].
    assert (nthN l k = None) as -> by now apply nthN_None. apply nthN_None.
    destruct (N.le_gt_cases (lenN l') k) as [|Hgt]; auto. exfalso. apply (A3 k Hl Hgt). exact Hk.
  Qed.

  (* everything we know about the top-level call, in one statement *)
  Lemma wul_top : forall d (l l' : list T) t u R s, uinv u ->
    shape t = canon d l -> lenN l' <= cap d -> agrees M u l l' -> (exists k, has_key M u k) ->
    has_updates M u 0 (0 + cap d) = true /\
    wp R (with_updated_leaves ek M d t u 0)
       (fun o s' => exists t', o = Ok t' /\ shape t' = canon d l' /\ memo s' = memo s /\
                    updo u d 0 t (next s) t' (next s')) s.
  Proof.
    intros d l l' t u R s UI Hs Hl' Hag (k & Hk).
    pose proof (agrees_H2 u l l' Hag) as H2. destruct Hag as (Hlen & H1 & _ & _).
    assert (has_updates M u 0 (0 + cap d) = true) as Ht.
    { apply has_spec; auto. exists k. split; auto. unfold has_key in Hk.
      destruct (uget M u k) as [v|] eqn:Eg; [|congruence]. apply H1 in Eg.
      assert (k < lenN l') by (apply nthN_Some; congruence). lia. }
    split; auto.
    eapply wp_mono; [|apply (wul_ok u UI l l' (cap d) (fun k v _ => H1 k v) H2 R d 0 0 t s); auto].
    - intros o s' (t' & -> & Hsh & Hm & Hu). exists t'. repeat split; auto.
      rewrite Hsh. now rewrite win_all.
    - lia.
    - rewrite win_all by lia. exact Hs.
  Qed.

  Theorem wul_canon : forall d (l l' : list T) t u R s, uinv u -> (d + pd <= 63)%nat ->
    shape t = canon d l -> lenN l' <= cap d -> agrees M u l l' -> (exists k, has_key M u k) ->
    wp R (with_updated_leaves ek M d t u 0)
       (fun o s' => exists t', o = Ok t' /\ shape t' = canon d l' /\
                    alloc_only s s' /\ fresh_or_from s s' [t] t') s.
  Proof.
    intros d l l' t u R s UI _ Hs Hl' Hag Hk.
    destruct (wul_top d l l' t u R s UI Hs Hl' Hag Hk) as (_ & Hw).
    eapply wp_mono; [|exact Hw].
    intros o s' (t' & -> & Hsh & Hm & Hu). exists t'. repeat split; auto.
    - now apply updo_le in Hu.
    - intros x Hx. destruct (updo_from u _ _ _ _ _ _ Hu x Hx) as [Hsub|Hr]; [left|right; exact Hr].
      exists t. split; [left; reflexivity|exact Hsub].
  Qed.

  (* ================= 3. a key beyond the end with a gap inside a packed leaf is rejected ================= *)
  Lemma mod_window q x : q * pf <= x -> x < q * pf + pf -> x mod pf = x - q * pf.
  Proof.
    intros Hlo Hhi. assert (0 < pf) as Hpf by apply pow2_pos.
    replace x with ((x - q * pf) + q * pf) at 1 by lia. rewrite N.mod_add by lia. apply N.mod_small. lia.
  Qed.
  Lemma lenN_win (l : list T) p c : lenN (win l p c) = N.min c (lenN l - p).
  Proof. unfold win. now rewrite lenN_takeN, lenN_dropN. Qed.

  Section Gap.
  Variable u : U.
  Hypothesis UI : uinv u.
  Hypothesis Epk : is_packed ek = true.
  Variable l : list T.
  Variables (k : N) (v : T).
  Hypothesis Hk : uget M u k = Some v.
  Hypothesis Hlt : lenN l < k.
  Hypothesis Hno : forall j, lenN l <= j -> j < k -> uget M u j = None.
  Hypothesis Hgap : lenN l - (k - k mod pf) < k mod pf.

  (* the backing list with the overwrites (keys below its length) applied *)
  Fixpoint ov (l0 : list T) (i : N) : list T :=
    match l0 with
    | [] => []
    | x :: r => (match uget M u i with Some w => w | None => x end) :: ov r (N.succ i)
    end.
  Lemma nthN_ov : forall l0 i j, nthN (ov l0 i) j =
    match nthN l0 j with
    | Some x => Some (match uget M u (i + j) with Some w => w | None => x end)
    | None => None
    end.
  Proof.
    induction l0 as [|x r IH]; intros i j; cbn [ov nthN]; auto.
    destruct (N.eqb_spec j 0) as [->|Nj]. { now rewrite N.add_0_r. }
    rewrite IH. replace (N.succ i + N.pred j) with (i + j) by lia. reflexivity.
  Qed.
  Lemma gap_H1 : forall j w, j < k -> uget M u j = Some w -> nthN (ov l 0) j = Some w.
  Proof.
    intros j w Hj Hg. rewrite nthN_ov, N.add_0_l, Hg. destruct (nthN l j) eqn:E; auto.
    apply nthN_None in E. rewrite (Hno j) in Hg by lia. discriminate.
  Qed.
  Lemma gap_H2 : forall j, uget M u j = None -> nthN (ov l 0) j = nthN l j.
  Proof. intros j Hg. rewrite nthN_ov, N.add_0_l, Hg. destruct (nthN l j); auto. Qed.

  Lemma insert_all_gap R q : forall kvs cur s, let p := q * pf in
    StronglySorted (fun a b : N * T => fst a < fst b) kvs ->
    (forall k' v', In (k', v') kvs -> p <= k' /\ k' < p + pf) -> In (k, v) kvs ->
    (forall k' v', In (k', v') kvs -> k' < k -> k' - p < lenN cur) -> lenN cur < k - p ->
    wp R (insert_all ek cur kvs) (fun o s' => o = Err (PackedLeafOutOfBounds (k mod pf) (lenN cur))) s.
  Proof.
    induction kvs as [|[k' v'] r IH]; intros cur s p Hs Hr Hin Hov Hlen. { destruct Hin. }
    rewrite insert_all_cons. destruct (Hr k' v' (or_introl eq_refl)) as (Hr1 & Hr2).
    rewrite (mod_window q k') by assumption. fold p.
    apply StronglySorted_inv in Hs as (Hs & Hall). rewrite Forall_forall in Hall.
    destruct (N.eq_dec k' k) as [->|Nk].
    - rewrite insert_mut_oob by lia. cbn [bind wp]. rewrite (mod_window q k) by assumption. reflexivity.
    - destruct Hin as [E|Hin]; [congruence|]. pose proof (Hall _ Hin) as Hkk. cbn in Hkk.
      assert (k' - p < lenN cur) as Hc by (apply (Hov k' v'); [left; reflexivity|lia]).
      unfold insert_mut. destruct (N.eqb_spec (k' - p) (lenN cur)); [lia|].
      destruct (N.ltb_spec (k' - p) (lenN cur)); [|lia].
      cbn [bind]. rewrite <- (lenN_setN cur (k' - p) v'). apply IH; auto.
      + intros k2 v2 Hin2. apply (Hr k2 v2). now right.
      + intros k2 v2 Hin2 Hk2. rewrite lenN_setN. apply (Hov k2 v2); auto. now right.
      + rewrite lenN_setN. exact Hlen.
  Qed.

  Definition gap_err : error := PackedLeafOutOfBounds (k mod pf) (lenN l - (k - k mod pf)).
  Definition gap_spec R (d : nat) : Prop := forall q p t s, p = q * cap d ->
    shape t = canon d (win l p (cap d)) -> p <= k -> k < p + cap d ->
    wp R (with_updated_leaves ek M d t u p) (fun o s' => o = Err gap_err) s.

  Lemma node_gap R nd : gap_spec R nd -> forall q p tl tr s, p = q * cap (S nd) ->
    shape tl = canon nd (win l p (cap nd)) -> shape tr = canon nd (win l (p + cap nd) (cap nd)) ->
    p <= k -> k < p + cap (S nd) ->
    wp R (node_case u nd tl tr p) (fun o s' => o = Err gap_err) s.
  Proof.
    intros IH q p tl tr s Hp Hsl Hsr Hk1 Hk2. unfold node_case.
    pose proof (cap_pos nd) as Hc. pose proof (cap_S nd) as HS.
    assert (N.lor p (pow2 (nd + pd)) = p + cap nd) as ->.
    { apply lor_aligned. change (pow2 (S (nd + pd))) with (cap (S nd)). rewrite Hp. apply N.mod_mul.
      pose proof (cap_pos (S nd)). lia. }
    change (pow2 (S nd + pd)) with (cap (S nd)).
    assert (p + cap (S nd) = p + cap nd + cap nd) as HE by lia. rewrite HE in *.
    destruct (N.ltb_spec k (p + cap nd)) as [Hlo|Hhi].
    - assert (has_updates M u p (p + cap nd) = true) as ->
        by (apply has_spec; auto; exists k; split; [lia|congruence]).
      cbn [negb andb]. apply wp_bind. eapply wp_mono; [|apply (IH (2 * q) p tl s); auto; lia].
      intros o s1 ->. exact eq_refl.
    - assert (has_updates M u (p + cap nd) (p + cap nd + cap nd) = true) as ->
        by (apply has_spec; auto; exists k; split; [lia|congruence]).
      rewrite andb_false_r.
      apply wp_bind. eapply wp_mono;
        [|apply (wul_opt u UI l (ov l 0) k gap_H2 R nd (wul_ok u UI l (ov l 0) k gap_H1 gap_H2 R nd) (2 * q) p tl s);
          [lia|lia|exact Hsl]].
      intros o s1 (tl' & -> & _). cbn [lift].
      apply wp_bind. eapply wp_mono; [|apply (IH (2 * q + 1) (p + cap nd) tr s1); auto; lia].
      intros o s2 ->. exact eq_refl.
  Qed.

  Lemma gap_ok R : forall d, gap_spec R d.
  Proof.
    induction d as [|nd IH]; intros q p t s Hp Hs Hk1 Hk2.
    - rewrite cap_0 in *.
      assert (k mod pf = k - p) as Hmod by (rewrite Hp in *; now apply mod_window).
      assert (with_updated_leaves ek M 0 t u p = packed_case u (win l p pf) p) as ->.
      { destruct (win l p pf) as [|x xs] eqn:EW.
        - rewrite canon_nil in Hs. destruct t; try discriminate Hs. cbn [shape] in Hs. injection Hs as ->.
          rewrite wul_zero_0, Epk. reflexivity.
        - rewrite canon_0, Epk in Hs by discriminate. destruct t; try discriminate Hs.
          cbn [shape] in Hs. injection Hs as ->. apply wul_packed_0. }
      unfold packed_case, packed_update. apply wp_bind.
      assert (lenN (win l p pf) = lenN l - p) as Hlw.
      { rewrite lenN_win. rewrite Hmod in Hgap. remember (k mod pf) as km eqn:Ekm. clear Ekm. lia. }
      subst p. eapply wp_mono; [|apply (insert_all_gap R q)].
      + intros o s1 ->. cbn [lift]. unfold gap_err. rewrite Hlw. f_equal. f_equal.
        remember (k mod pf) as km eqn:Ekm. clear Ekm. lia.
      + apply (ul_range_sorted _ _ _ UL); auto.
      + intros k' v' Hin. apply (ul_range_in _ _ _ UL u _ _ _ _ UI) in Hin. lia.
      + apply (ul_range_in _ _ _ UL u _ _ _ _ UI). auto.
      + intros k' v' Hin Hlt'. apply (ul_range_in _ _ _ UL u _ _ _ _ UI) in Hin. destruct Hin as (Hi1 & Hi2 & Hg).
        rewrite Hlw. assert (k' < lenN l) as Hkl.
        { destruct (N.ltb_spec k' (lenN l)); auto. rewrite (Hno k') in Hg by lia. discriminate. }
        lia.
      + rewrite Hlw. rewrite Hmod in Hgap. remember (k mod pf) as km eqn:Ekm. clear Ekm. lia.
    - pose proof (cap_pos nd) as Hc. pose proof (cap_S nd) as HS.
      destruct (win l p (cap (S nd))) as [|x xs] eqn:EW.
      + rewrite canon_nil in Hs. destruct t as [| | |i z]; try discriminate Hs. cbn [shape] in Hs. injection Hs as ->.
        rewrite wul_zero_S, Nat.eqb_refl. cbn [negb bind fresh wp].
        apply (node_gap R nd IH q p (Zero (next s) nd) (Zero (next s) nd) (bump s) Hp); auto.
        * cbn [shape]. rewrite <- win_take, <- HS, EW, takeN_nil, canon_nil. reflexivity.
        * cbn [shape]. rewrite <- win_drop, <- HS, EW, dropN_nil, canon_nil. reflexivity.
      + rewrite <- EW in Hs. rewrite canon_S in Hs by (rewrite EW; discriminate).
        rewrite HS, win_take, win_drop in Hs.
        destruct t as [| |i tl tr|]; try discriminate Hs. cbn [shape] in Hs. injection Hs as Hsl Hsr.
        rewrite wul_node. apply (node_gap R nd IH q p tl tr s Hp); auto.
  Qed.
  End Gap.

  Theorem wul_gap : forall d (l : list T) t u k v R s, is_packed ek = true -> uinv u ->
    shape t = canon d l -> uget M u k = Some v -> lenN l < k -> k < cap d ->
    (forall j, lenN l <= j -> j < k -> uget M u j = None) ->
    (k mod pf <> 0 \/ k - k mod pf <= lenN l) ->
    wp R (with_updated_leaves ek M d t u 0)
       (fun o s' => o = Err (PackedLeafOutOfBounds (k mod pf) (lenN l - (k - k mod pf)))) s.
  Proof.
    intros d l t u k v R s Epk UI Hs Hk Hlt Hc Hno Hg.
    assert (lenN l - (k - k mod pf) < k mod pf) as Hgap.
    { assert (0 < pf) as Hpf by apply pow2_pos.
      pose proof (N.mod_le k pf ltac:(lia)) as Hle.
      remember (k mod pf) as km eqn:Ekm. clear Ekm. lia. }
    apply (gap_ok u UI Epk l k v Hk Hlt Hno Hgap R d 0 0 t s); try lia.
    rewrite win_all by lia. exact Hs.
  Qed.

  (* ================= 4. cost and retention of the same call ================= *)
  (* no pending key in the index window of the node reached by `path` *)
  Definition window_clean (u : U) (d : nat) (path : list bool) : Prop :=
    forall k, window_lo d path <= k -> k < window_hi d path -> uget M u k = None.
  (* every subtree of t whose window is clean is, with its identity, at the same position of t' *)
  Definition retained (u : U) (d : nat) (t t' : tree) : Prop :=
    forall path x, subtree_at t path = Some x -> window_clean u d path -> subtree_at t' path = Some x.

  (* all facts about the call in one postcondition (2, 4a and 4b together) *)
  Theorem wul_full : forall d (l l' : list T) t u R s, uinv u ->
    shape t = canon d l -> lenN l' <= cap d -> agrees M u l l' -> (exists k, has_key M u k) ->
    wp R (with_updated_leaves ek M d t u 0)
       (fun o s' => exists t', o = Ok t' /\ shape t' = canon d l' /\
                    alloc_only s s' /\ fresh_or_from s s' [t] t' /\
                    N.pos (next s') - N.pos (next s) <= 2 * lenN (urange M u 0 (cap d)) * (N.of_nat d + 1) /\
                    retained u d t t') s.
  Proof.
    intros d l l' t u R s UI Hs Hl' Hag Hk.
    destruct (wul_top d l l' t u R s UI Hs Hl' Hag Hk) as (_ & Hw).
    eapply wp_mono; [|exact Hw].
    intros o s' (t' & -> & Hsh & Hm & Hu). exists t'. split; [reflexivity|]. split; [exact Hsh|].
    split; [|split; [|split]].
    - split; auto. now apply updo_le in Hu.
    - intros x Hx. destruct (updo_from u _ _ _ _ _ _ Hu x Hx) as [Hsub|Hr]; [left|right; exact Hr].
      exists t. split; [left; reflexivity|exact Hsub].
    - apply (updo_cost u UI) in Hu. unfold nkeys in Hu. rewrite N.add_0_l in Hu. lia.
    - intros path x Hsub Hcl. apply (updo_retain u UI _ _ _ _ _ _ Hu path x Hsub).
      intros k Hk1 Hk2. apply Hcl; lia.
  Qed.

  Theorem wul_cost : forall d (l l' : list T) t u R s, uinv u ->
    shape t = canon d l -> lenN l' <= cap d -> agrees M u l l' -> (exists k, has_key M u k) ->
    wp R (with_updated_leaves ek M d t u 0)
       (fun o s' => exists t', o = Ok t' /\
          N.pos (next s') - N.pos (next s) <= 2 * lenN (urange M u 0 (cap d)) * (N.of_nat d + 1)) s.
  Proof.
    intros d l l' t u R s UI Hs Hl' Hag Hk. eapply wp_mono; [|apply (wul_full d l l' t u R s); auto].
    intros o s' (t' & -> & _ & _ & _ & Hc & _). eauto.
  Qed.

  Theorem wul_retain : forall d (l l' : list T) t u R s, uinv u ->
    shape t = canon d l -> lenN l' <= cap d -> agrees M u l l' -> (exists k, has_key M u k) ->
    wp R (with_updated_leaves ek M d t u 0)
       (fun o s' => exists t', o = Ok t' /\
          forall path x, subtree_at t path = Some x ->
            (forall k, window_lo d path <= k -> k < window_hi d path -> uget M u k = None) ->
            subtree_at t' path = Some x) s.
  Proof.
    intros d l l' t u R s UI Hs Hl' Hag Hk. eapply wp_mono; [|apply (wul_full d l l' t u R s); auto].
    intros o s' (t' & -> & _ & _ & _ & _ & Hr). eauto.
  Qed.

  (* ================= 5. with_updated_leaf ================= *)
  Definition upd1 (l : list T) (j : N) (v : T) : list T := if j <? lenN l then setN l j v else l ++ [v].
  Lemma nthN_upd1 l j v k : j <= lenN l -> nthN (upd1 l j v) k = if k =? j then Some v else nthN l k.
  Proof.
    intros Hj. unfold upd1. destruct (N.ltb_spec j (lenN l)) as [Hl|Hl].
    - rewrite nthN_setN. destruct (N.eqb_spec k j); cbn [andb]; auto.
      destruct (N.ltb_spec j (lenN l)); [reflexivity|lia].
    - assert (j = lenN l) as -> by lia. destruct (N.eqb_spec k (lenN l)) as [->|Nk].
      + rewrite nthN_app_r by lia. rewrite N.sub_diag. reflexivity.
      + destruct (N.ltb_spec k (lenN l)) as [Hk|Hk]; [now rewrite nthN_app_l|].
        rewrite nthN_app_r by lia. assert (nthN l k = None) as -> by (apply nthN_None; lia).
        apply nthN_None. change (lenN [v]) with 1. lia.
  Qed.
  Lemma upd1_nonempty l j v : upd1 l j v <> [].
  Proof.
    unfold upd1. destruct (N.ltb_spec j (lenN l)) as [Hl|Hl].
    - intros E. pose proof (lenN_setN l j v) as Hs. rewrite E, lenN_nil in Hs. lia.
    - destruct l; discriminate.
  Qed.
  Lemma insert_mut_upd1 (vs : list T) j v : j <= lenN vs -> insert_mut vs j v = Ret (upd1 vs j v).
  Proof.
    intros Hj. unfold insert_mut, upd1. destruct (N.eqb_spec j (lenN vs)) as [E|NE].
    - destruct (N.ltb_spec j (lenN vs)); [lia|reflexivity].
    - destruct (N.ltb_spec j (lenN vs)); [reflexivity|lia].
  Qed.
  Lemma take_upd1_lo l j v c : j < c -> j <= lenN l -> takeN c (upd1 l j v) = upd1 (takeN c l) j v.
  Proof.
    intros Hc Hj. apply listN_ext. intros k.
    rewrite nthN_takeN, !nthN_upd1, nthN_takeN by (rewrite ?lenN_takeN; lia).
    destruct (N.ltb_spec k c), (N.eqb_spec k j); auto; lia.
  Qed.
  Lemma drop_upd1_lo l j v c : j < c -> j <= lenN l -> dropN c (upd1 l j v) = dropN c l.
  Proof.
    intros Hc Hj. apply listN_ext. intros k. rewrite !nthN_dropN, nthN_upd1 by lia.
    destruct (N.eqb_spec (c + k) j); auto; lia.
  Qed.
  Lemma take_upd1_hi l j v c : c <= j -> j <= lenN l -> takeN c (upd1 l j v) = takeN c l.
  Proof.
    intros Hc Hj. apply listN_ext. intros k. rewrite !nthN_takeN, nthN_upd1 by lia.
    destruct (N.ltb_spec k c), (N.eqb_spec k j); auto; lia.
  Qed.
  Lemma drop_upd1_hi l j v c : j + c <= lenN l -> dropN c (upd1 l (j + c) v) = upd1 (dropN c l) j v.
  Proof.
    intros Hj. apply listN_ext. intros k.
    rewrite nthN_dropN, !nthN_upd1, nthN_dropN by (rewrite ?lenN_dropN; lia).
    destruct (N.eqb_spec (c + k) (j + c)), (N.eqb_spec k j); auto; lia.
  Qed.

  Notation wul1 := (with_updated_leaf ek).
  (* abstract `a mod b` and capacities before calling lia *)
  Local Ltac glia :=
    repeat match goal with
    | |- context [?a mod ?b] => let x := fresh "gm" in let E := fresh in remember (a mod b) as x eqn:E; clear E
    | Hx : context [?a mod ?b] |- _ => let x := fresh "gm" in let E := fresh in remember (a mod b) as x eqn:E; clear E
    end;
    repeat match goal with
    | |- context [Tree.cap ?e ?d] => let x := fresh "gc" in let E := fresh in remember (Tree.cap e d) as x eqn:E; clear E
    | Hx : context [Tree.cap ?e ?d] |- _ => let x := fresh "gc" in let E := fresh in remember (Tree.cap e d) as x eqn:E; clear E
    end; lia.
  Definition node1 (nd : nat) (tl tr : tree) (i : N) (v : T) : prog tree :=
    if N.testbit i (N.of_nat (nd + pd))
    then bind (wul1 nd tr i v) (fun r' => bind fresh (fun n => Ret (Node n tl r')))
    else bind (wul1 nd tl i v) (fun l' => bind fresh (fun n => Ret (Node n l' tr))).
  Lemma wul1_node nd i0 tl tr i v : wul1 (S nd) (Node i0 tl tr) i v = node1 nd tl tr i v.
  Proof. reflexivity. Qed.
  Lemma wul1_zero_S nd i0 z i v : wul1 (S nd) (Zero i0 z) i v =
    if negb (Nat.eqb z (S nd)) then Fail UpdateLeafError
    else bind fresh (fun zi => node1 nd (Zero zi nd) (Zero zi nd) i v).
  Proof. reflexivity. Qed.
  Lemma wul1_zero_0 i0 z i v : wul1 0 (Zero i0 z) i v =
    if negb (Nat.eqb z 0) then Fail UpdateLeafError
    else bind fresh (fun n => if is_packed ek then Ret (Packed n [v]) else Ret (Leaf n v)).
  Proof. reflexivity. Qed.
  Lemma wul1_packed_0 i0 vs i v : wul1 0 (Packed i0 vs) i v =
    bind (insert_mut vs (i mod pf) v) (fun vs' => bind fresh (fun n => Ret (Packed n vs'))).
  Proof. reflexivity. Qed.
  Lemma wul1_leaf_0 i0 x i v : wul1 0 (Leaf i0 x) i v = bind fresh (fun n => Ret (Leaf n v)).
  Proof. reflexivity. Qed.

  Definition from1 (s s' : state) (t t' : tree) : Prop :=
    forall x, subt x t' -> subt x t \/ (next s <= idof x /\ idof x < next s')%positive.
  Definition wul1_post (d : nat) (l : list T) (j : N) (v : T) (t : tree) (s : state) : outcome tree -> state -> Prop :=
    fun o s' => exists t', o = Ok t' /\ shape t' = canon d (upd1 l j v) /\
                           memo s' = memo s /\ (next s <= next s')%positive /\ from1 s s' t t'.
  Definition wul1_spec R (d : nat) : Prop := forall l t i v s,
    shape t = canon d l -> i mod cap d <= lenN l ->
    wp R (wul1 d t i v) (wul1_post d l (i mod cap d) v t s) s.

  Lemma node1_ok R nd : wul1_spec R nd -> forall l tl tr i v s,
    shape tl = canon nd (takeN (cap nd) l) -> shape tr = canon nd (dropN (cap nd) l) ->
    i mod cap (S nd) <= lenN l ->
    wp R (node1 nd tl tr i v) (fun o s' => exists n tl' tr', o = Ok (Node n tl' tr') /\
       shape (Node n tl' tr') = canon (S nd) (upd1 l (i mod cap (S nd)) v) /\
       memo s' = memo s /\ (next s <= n)%positive /\ next s' = Pos.succ n /\
       (forall x, subt x tl' -> subt x tl \/ (next s <= idof x /\ idof x < n)%positive) /\
       (forall x, subt x tr' -> subt x tr \/ (next s <= idof x /\ idof x < n)%positive)) s.
  Proof.
    intros IH l tl tr i v s Hsl Hsr Hj. unfold node1.
    pose proof (cap_pos nd) as Hc. pose proof (N.mod_upper_bound i (cap nd) ltac:(lia)) as Hm.
    change (cap (S nd)) with (pow2 (S (nd + pd))) in *. rewrite mod_pow2_succ in *.
    change (pow2 (nd + pd)) with (cap nd) in *.
    destruct (N.testbit i (N.of_nat (nd + pd))).
    - apply wp_bind. eapply wp_mono; [|apply (IH (dropN (cap nd) l) tr i v s Hsr); rewrite lenN_dropN; glia].
      intros o s1 (tr' & -> & Hs' & Hm1 & Hn1 & Hf1). cbn [lift bind fresh wp].
      exists (next s1), tl, tr'. cbn [next bump memo]. repeat split; auto.
      + cbn [shape]. rewrite canon_S by apply upd1_nonempty.
        rewrite take_upd1_hi, drop_upd1_hi by glia. congruence.
    - apply wp_bind. eapply wp_mono; [|apply (IH (takeN (cap nd) l) tl i v s Hsl); rewrite lenN_takeN; glia].
      intros o s1 (tl' & -> & Hs' & Hm1 & Hn1 & Hf1). cbn [lift bind fresh wp].
      exists (next s1), tl', tr. cbn [next bump memo]. repeat split; auto.
      + cbn [shape]. rewrite canon_S by apply upd1_nonempty. rewrite N.add_0_r in *.
        rewrite take_upd1_lo, drop_upd1_lo by glia. congruence.
  Qed.

  Lemma wul1_ok R : forall d, wul1_spec R d.
  Proof.
    induction d as [|nd IH]; intros l t i v s Hs Hj.
    - destruct l as [|x xs].
      + rewrite canon_nil in Hs. destruct t as [| | |i0 z]; try discriminate Hs. cbn [shape] in Hs. injection Hs as ->.
        rewrite lenN_nil in Hj. assert (i mod cap 0 = 0) as -> by glia.
        rewrite wul1_zero_0. cbn [Nat.eqb negb bind fresh wp].
        assert (upd1 [] 0 v = [v]) as Hu by reflexivity.
        destruct (is_packed ek) eqn:Epk; cbn [wp]; eexists; (split; [reflexivity|]); cbn [next bump memo shape];
          rewrite Hu, canon_0, Epk by discriminate; repeat split; auto; try lia.
        all: intros y Hy; cbn [subt] in Hy; destruct Hy as [->|[]]; right; cbn [idof next bump]; lia.
      + rewrite canon_0 in Hs by discriminate. destruct (is_packed ek) eqn:Epk.
        * destruct t as [|i0 vs| |]; try discriminate Hs. cbn [shape] in Hs. injection Hs as ->.
          rewrite wul1_packed_0. rewrite cap_0 in *. rewrite insert_mut_upd1 by exact Hj.
          cbn [bind fresh wp]. eexists; (split; [reflexivity|]); cbn [next bump memo shape].
          rewrite canon_0, Epk by apply upd1_nonempty. repeat split; auto; try lia.
          intros y Hy; cbn [subt] in Hy; destruct Hy as [->|[]]; right; cbn [idof next bump]; lia.
        * destruct t as [i0 x0| | |]; try discriminate Hs.
          rewrite wul1_leaf_0. rewrite (unpacked_cap0 Epk), N.mod_1_r in *.
          cbn [bind fresh wp]. eexists; (split; [reflexivity|]); cbn [next bump memo shape].
          assert (upd1 (x :: xs) 0 v = v :: xs) as ->.
          { unfold upd1. rewrite lenN_cons. destruct (N.ltb_spec 0 (N.succ (lenN xs))); [reflexivity|lia]. }
          rewrite canon_0, Epk by discriminate. repeat split; auto; try lia.
          intros y Hy; cbn [subt] in Hy; destruct Hy as [->|[]]; right; cbn [idof next bump]; lia.
    - destruct l as [|x xs] eqn:El.
      + rewrite canon_nil in Hs. destruct t as [| | |i0 z]; try discriminate Hs. cbn [shape] in Hs. injection Hs as ->.
        rewrite wul1_zero_S, Nat.eqb_refl. cbn [negb bind fresh wp].
        eapply wp_mono; [|apply (node1_ok R nd IH [] (Zero (next s) nd) (Zero (next s) nd) i v (bump s))]; auto.
        * intros o s' (n & tl' & tr' & -> & Hsh & Hm & Hn & Hn' & Hfl & Hfr). cbn [next bump memo] in *.
          eexists; (split; [reflexivity|]). repeat split; auto; try lia.
          intros y Hy. right. cbn [subt] in Hy. destruct Hy as [->|[Hy|Hy]]; [cbn [idof]; lia| |].
          -- destruct (Hfl y Hy) as [Hz|Hz]; [|lia]. cbn [subt] in Hz. destruct Hz as [->|[]]. cbn [idof]. lia.
          -- destruct (Hfr y Hy) as [Hz|Hz]; [|lia]. cbn [subt] in Hz. destruct Hz as [->|[]]. cbn [idof]. lia.
        * rewrite takeN_nil, canon_nil. reflexivity.
        * rewrite dropN_nil, canon_nil. reflexivity.
      + rewrite <- El in *. assert (l <> []) as Hne by (subst; discriminate). clear El x xs.
        rewrite canon_S in Hs by assumption.
        destruct t as [| |i0 tl tr|]; try discriminate Hs. cbn [shape] in Hs. injection Hs as Hsl Hsr.
        rewrite wul1_node.
        eapply wp_mono; [|apply (node1_ok R nd IH l tl tr i v s)]; auto.
        intros o s' (n & tl' & tr' & -> & Hsh & Hm & Hn & Hn' & Hfl & Hfr).
        eexists; (split; [reflexivity|]). repeat split; auto; try lia.
        intros y Hy. cbn [subt] in Hy. destruct Hy as [->|[Hy|Hy]]; [right; cbn [idof]; lia| |].
        * destruct (Hfl y Hy) as [Hz|Hz]; [left; cbn [subt]; auto|right; lia].
        * destruct (Hfr y Hy) as [Hz|Hz]; [left; cbn [subt]; auto|right; lia].
  Qed.

  Theorem wul1_canon : forall d (l : list T) t i v R s,
    shape t = canon d l -> i <= lenN l -> i < cap d ->
    wp R (with_updated_leaf ek d t i v) (fun o s' => exists t', o = Ok t' /\
       shape t' = canon d (if i <? lenN l then setN l i v else l ++ [v]) /\ alloc_only s s') s.
  Proof.
    intros d l t i v R s Hs Hi Hc.
    eapply wp_mono; [|apply (wul1_ok R d l t i v s Hs)]; rewrite N.mod_small by exact Hc; auto.
    intros o s' (t' & -> & Hsh & Hm & Hn & Hf). exists t'. repeat split; auto.
  Qed.
  (* the same, with the provenance of the nodes of the result *)
  Theorem wul1_canon_from : forall d (l : list T) t i v R s,
    shape t = canon d l -> i <= lenN l -> i < cap d ->
    wp R (with_updated_leaf ek d t i v) (fun o s' => exists t', o = Ok t' /\
       shape t' = canon d (if i <? lenN l then setN l i v else l ++ [v]) /\ alloc_only s s' /\
       fresh_or_from s s' [t] t') s.
  Proof.
    intros d l t i v R s Hs Hi Hc.
    eapply wp_mono; [|apply (wul1_ok R d l t i v s Hs)]; rewrite N.mod_small by exact Hc; auto.
    intros o s' (t' & -> & Hsh & Hm & Hn & Hf). exists t'. repeat split; auto.
    intros x Hx. destruct (Hf x Hx) as [Hz|Hz]; [left|right; exact Hz].
    exists t. split; [left; reflexivity|exact Hz].
  Qed.
End Wul.
Print Assumptions get_rec_canon.
Print Assumptions wul_canon.
Print Assumptions wul_gap.
Print Assumptions wul_full.
Print Assumptions wul_cost.
Print Assumptions wul_retain.
Print Assumptions wul1_canon.
Print Assumptions wul1_canon_from.
