(* Instances.v — non-vacuity of the hypotheses of the property theorems.
   1. `Hc` (Cantor pairing + 1, defined in IntraP.v) is collision free and never zero.
   2. Lawful element kinds over subset types `W bits = { n | n < 2^bits }`:
      `ek_uintW k` (packed basic kinds u8..u256), `ek_h256W` (Hash256), with `ek_wf`, `troot_inj`,
      `ek_codec_on _ (fun _ => True)` (= `ek_codec`), and agreement with the raw-byte kinds of
      model/Elem.v (which the extracted driver runs) on well-formed values.
   3. `capacity_ok` for 8, 2^40, 2^63.
      `ek_pairW`, `ek_varW` (the driver's composite kinds restricted to well-formed byte strings).
   4. Concrete non-trivial states satisfying `hinv`/`gok`/`SysInv`, obtained from the theorems
      (built_state, scenario_spec, built_vector, scenario_rebase_spec and their example_ instances).
   5. Closed corollaries of the property theorems with every hypothesis discharged
      (rebase_h256, root_h256, hash_inj_*, run_refines_u64, step_refines_u64, run_refines_h256,
      maps_unobservable_u64, history_u64): only the capacity bound and conditions on the operation
      list remain.
   Proof file; no model code. *)
From Coq Require Import FMapPositive Eqdep_dec.
From MH Require Import Inv IfaceP IterP WulP IntraP CollCtorP CollObsP UMapP CodecP HashP SysInv RefineBase RefineB Refine.
Local Open Scope N_scope.

(* ====================================================================== *)
(* 1. the hash: Cantor pairing + 1                                          *)
(* ====================================================================== *)
Definition tri (s : N) : N := s * (s + 1) / 2.

Lemma tri_double s : 2 * tri s = s * (s + 1).
Proof.
  unfold tri. destruct (N.Even_or_Odd s) as [[q Eq]|[q Eq]]; subst s.
  - replace (2 * q * (2 * q + 1)) with ((q * (2 * q + 1)) * 2) by lia.
    rewrite N.div_mul by lia. lia.
  - replace ((2 * q + 1) * (2 * q + 1 + 1)) with (((2 * q + 1) * (q + 1)) * 2) by lia.
    rewrite N.div_mul by lia. lia.
Qed.

Lemma tri_succ s : tri (s + 1) = tri s + s + 1.
Proof. pose proof (tri_double s) as E1. pose proof (tri_double (s + 1)) as E2. nia. Qed.

Lemma tri_mono s1 s2 : s1 < s2 -> tri s1 + s1 + 1 <= tri s2.
Proof.
  intros Hlt. pose proof (tri_double s1) as E1. pose proof (tri_double s2) as E2. nia.
Qed.

Lemma Hc_tri a b : Hc a b = tri (a + b) + b + 1.
Proof. reflexivity. Qed.

Lemma Hc_inj a b c d : Hc a b = Hc c d -> a = c /\ b = d.
Proof.
  rewrite !Hc_tri. intros E.
  assert (Es : a + b = c + d).
  { destruct (N.lt_trichotomy (a + b) (c + d)) as [L|[L|L]]; [|exact L|].
    - pose proof (tri_mono _ _ L). lia.
    - pose proof (tri_mono _ _ L). lia. }
  rewrite Es in E. lia.
Qed.

Theorem Hc_collision_free : collision_free Hc.
Proof. split; [exact Hc_inj|exact Hc_nonzero]. Qed.

(* ====================================================================== *)
(* 2. element kinds whose values are all well-formed                        *)
(* ====================================================================== *)
Definition W (bits : N) : Type := { n : N | (n <? 2 ^ bits) = true }.
Definition wval {bits} (v : W bits) : N := proj1_sig v.

Lemma wval_lt {bits} (v : W bits) : wval v < 2 ^ bits.
Proof. destruct v as [n Hn]. cbn [wval proj1_sig]. now apply N.ltb_lt. Qed.

(* proofs of boolean equalities are unique: no axiom *)
Lemma W_ext {bits} (v w : W bits) : wval v = wval w -> v = w.
Proof.
  destruct v as [n Hn], w as [m Hm]. cbn [wval proj1_sig]. intros E. subst m.
  f_equal. apply UIP_dec. apply Bool.bool_dec.
Qed.

(* the partial injection N -> W bits, defined without any proof term inside *)
Definition mkW (bits : N) (n : N) : option (W bits) :=
  match (n <? 2 ^ bits) as c return (n <? 2 ^ bits) = c -> option (W bits) with
  | true => fun e => Some (exist _ n e)
  | false => fun _ => None
  end eq_refl.

Lemma mkW_Some bits n v : mkW bits n = Some v -> wval v = n.
Proof.
  unfold mkW. generalize (eq_refl (n <? 2 ^ bits)).
  generalize (n <? 2 ^ bits) at 2 3. intros [|] e E; [|discriminate].
  injection E as <-. reflexivity.
Qed.
Lemma mkW_lt bits n : n < 2 ^ bits -> exists v, mkW bits n = Some v /\ wval v = n.
Proof.
  intros Hn. apply N.ltb_lt in Hn. unfold mkW. generalize (eq_refl (n <? 2 ^ bits)).
  generalize (n <? 2 ^ bits) at 2 3. intros [|] e; [|congruence].
  eexists. split; reflexivity.
Qed.
Lemma mkW_wval {bits} (v : W bits) : mkW bits (wval v) = Some v.
Proof.
  destruct (mkW_lt bits (wval v) (wval_lt v)) as (w & E & Ew). rewrite E. f_equal. now apply W_ext.
Qed.

Lemma zero_lt_pow bits : (0 <? 2 ^ bits) = true.
Proof. apply N.ltb_lt. apply N.neq_0_lt_0, N.pow_nonzero. lia. Qed.
Definition W0 (bits : N) : W bits := exist _ 0 (zero_lt_pow bits).

(* a value of w bytes, little-endian; `pdo` = Some pd for a packed basic kind *)
Definition wbits (w : nat) : N := 8 * N.of_nat w.
Definition ek_bytesW (w : nat) (pdo : option nat) : ekind (W (wbits w)) :=
  {| eeqb := fun a b => wval a =? wval b;
     epd := pdo; epenc := wval; etroot := wval;
     efixed := Some (N.of_nat w);
     eenc := fun v => num_le w (wval v);
     edec := fun b => if Nat.eqb (length b) w && valid_bytes b then mkW (wbits w) (le_num b) else None;
     edefault := W0 (wbits w) |}.

(* u8, u16, u32, u64, u128, u256 for k = 0..5 *)
Definition ek_uintW (k : nat) : ekind (W (wbits (Nat.pow 2 k))) := ek_bytesW (Nat.pow 2 k) (Some (5 - k)%nat).
(* Hash256 *)
Definition ek_h256W : ekind (W 256) := ek_bytesW 32 None.

Lemma pow_wbits w : 2 ^ wbits w = 256 ^ N.of_nat w.
Proof. unfold wbits. rewrite N.pow_mul_r. reflexivity. Qed.

Lemma wval_lt256 {w} (v : W (wbits w)) : wval v < 256 ^ N.of_nat w.
Proof. rewrite <- pow_wbits. apply wval_lt. Qed.

(* the raw-byte representation of a value (what the driver's kinds work on) *)
Definition repr {w} (v : W (wbits w)) : bytes := num_le w (wval v).

Lemma repr_wf {w} (v : W (wbits w)) : bytes_of_len w (repr v).
Proof. split; [apply length_num_le|apply valid_num_le]. Qed.
Lemma le_num_repr {w} (v : W (wbits w)) : le_num (repr v) = wval v.
Proof. apply le_num_num_le_small, wval_lt256. Qed.
Lemma repr_inj {w} (v u : W (wbits w)) : repr v = repr u -> v = u.
Proof. intros E. apply W_ext. rewrite <- !le_num_repr. now rewrite E. Qed.
(* every well-formed byte string is the representation of a value *)
Lemma repr_surj w b : bytes_of_len w b -> exists v : W (wbits w), repr v = b /\ wval v = le_num b.
Proof.
  intros [Hl Hv]. pose proof (le_num_lt b Hv) as Hlt. unfold lenN in Hlt. rewrite Hl, <- pow_wbits in Hlt.
  destruct (mkW_lt _ _ Hlt) as (v & _ & Ev). exists v. split; [|exact Ev].
  unfold repr. rewrite Ev. now apply num_le_le_num_len.
Qed.

Lemma bytes_eqb_iff : forall a b, bytes_eqb a b = true <-> a = b.
Proof.
  induction a as [|x a IH]; intros [|y b]; cbn [bytes_eqb]; split; intros E; try discriminate; auto.
  - apply andb_true_iff in E. destruct E as [E1 E2]. apply N.eqb_eq in E1. apply IH in E2. congruence.
  - injection E as -> ->. rewrite N.eqb_refl. cbn. now apply IH.
Qed.

Section BytesW.
  Variable w : nat.
  Variable pdo : option nat.
  Let ek := ek_bytesW w pdo.

  Lemma edec_bytesW b :
    edec ek b = if Nat.eqb (length b) w && valid_bytes b then mkW (wbits w) (le_num b) else None.
  Proof. reflexivity. Qed.

  Lemma edec_bytesW_Some b v : edec ek b = Some v -> bytes_of_len w b /\ repr v = b.
  Proof.
    rewrite edec_bytesW. destruct (Nat.eqb (length b) w && valid_bytes b) eqn:Ec; [|discriminate].
    apply andb_true_iff in Ec. destruct Ec as [E1 E2]. apply Nat.eqb_eq in E1.
    intros E. apply mkW_Some in E. split; [split; assumption|].
    unfold repr. rewrite E. now apply num_le_le_num_len.
  Qed.
  Lemma edec_bytesW_repr v : edec ek (repr v) = Some v.
  Proof.
    rewrite edec_bytesW. destruct (repr_wf v) as [E1 E2]. rewrite E1, Nat.eqb_refl, E2. cbn [andb].
    rewrite le_num_repr. apply mkW_wval.
  Qed.
  Lemma edec_bytesW_None b : edec ek b = None -> ~ bytes_of_len w b.
  Proof.
    intros E Hb. destruct (repr_surj w b Hb) as (v & <- & _). rewrite edec_bytesW_repr in E. discriminate.
  Qed.

  Theorem ek_bytesW_codec : (0 < w)%nat -> ek_codec_on ek (fun _ => True).
  Proof.
    intros Hw. constructor.
    - intros v _. apply edec_bytesW_repr.
    - intros b v E. split; [|exact I]. apply (edec_bytesW_Some b v E).
    - intros s v E _. cbn [ek ek_bytesW efixed eenc] in *. injection E as <-. apply lenN_num_le.
    - intros s E. cbn [ek ek_bytesW efixed] in E. injection E as <-. lia.
  Qed.

  Lemma ek_bytesW_eqb a b : eeqb ek a b = true <-> a = b.
  Proof.
    cbn [ek ek_bytesW eeqb]. rewrite N.eqb_eq. split; [apply W_ext|now intros ->].
  Qed.

  Theorem ek_bytesW_wf :
    match pdo with Some pd => (pd <= 5)%nat /\ 256 / pow2 pd = wbits w | None => True end -> ek_wf ek.
  Proof.
    intros Hp. constructor.
    - apply ek_bytesW_eqb.
    - unfold pd_of. cbn [ek ek_bytesW epd]. destruct pdo; [tauto|lia].
    - unfold is_packed, vbits, pf_of, pd_of. cbn [ek ek_bytesW epd epenc]. destruct pdo as [pd|]; [|discriminate].
      intros _ v. destruct Hp as [_ ->]. apply wval_lt.
    - intros _ v u. cbn [ek ek_bytesW epenc]. apply W_ext.
  Qed.

  Theorem ek_bytesW_troot_inj : troot_inj ek.
  Proof. intros _ v u. cbn [ek ek_bytesW etroot]. apply W_ext. Qed.
End BytesW.

(* ---------- the packed basic kinds ---------- *)
Lemma uint_vbits k : (k <= 5)%nat -> 256 / pow2 (5 - k) = wbits (Nat.pow 2 k).
Proof.
  intros Hk. do 6 (destruct k as [|k]; [vm_compute; reflexivity|]). lia.
Qed.

Theorem ek_uintW_wf k : (k <= 5)%nat -> ek_wf (ek_uintW k).
Proof. intros Hk. apply ek_bytesW_wf. split; [lia|now apply uint_vbits]. Qed.
Theorem ek_uintW_troot_inj k : troot_inj (ek_uintW k).
Proof. apply ek_bytesW_troot_inj. Qed.
Theorem ek_uintW_codec_on k : ek_codec_on (ek_uintW k) (fun _ => True).
Proof.
  apply ek_bytesW_codec. assert (Nat.pow 2 k <> 0)%nat by (apply Nat.pow_nonzero; lia). lia.
Qed.
Theorem ek_uintW_codec k : ek_codec (ek_uintW k).
Proof. apply ek_codec_on_True, ek_uintW_codec_on. Qed.

(* ---------- Hash256 ---------- *)
Theorem ek_h256W_wf : ek_wf ek_h256W.
Proof. apply (ek_bytesW_wf 32 None). exact I. Qed.
Theorem ek_h256W_troot_inj : troot_inj ek_h256W.
Proof. apply (ek_bytesW_troot_inj 32 None). Qed.
Theorem ek_h256W_codec_on : ek_codec_on ek_h256W (fun _ => True).
Proof. apply (ek_bytesW_codec 32 None). lia. Qed.
Theorem ek_h256W_codec : ek_codec ek_h256W.
Proof. apply ek_codec_on_True, ek_h256W_codec_on. Qed.

(* ---------- agreement with the raw-byte kinds of model/Elem.v on well-formed values ----------
   `repr` embeds W (8w) into byte strings; its image is exactly `bytes_of_len w` (repr_wf, repr_surj).
   Every component of the driver's kind, applied to representations, is the component of the lawful
   kind (transported along repr).  Stated once for an arbitrary raw kind of the shape shared by
   ek_uint k / ek_h256, then instantiated. *)
Section Agree.
  Variable w : nat.
  Variable pdo : option nat.
  Variable ekb : ekind bytes.
  Let ek := ek_bytesW w pdo.
  Hypothesis B_eqb : eeqb ekb = bytes_eqb.
  Hypothesis B_pd : epd ekb = pdo.
  Hypothesis B_penc : epenc ekb = le_num.
  Hypothesis B_troot : etroot ekb = le_num.
  Hypothesis B_fixed : efixed ekb = Some (N.of_nat w).
  Hypothesis B_enc : eenc ekb = (fun v => v).
  Hypothesis B_dec : edec ekb = (fun b => if Nat.eqb (length b) w && valid_bytes b then Some b else None).
  Hypothesis B_default : edefault ekb = repeat 0 w.

  Record agree_raw : Prop := {
    ag_pd : epd ekb = epd ek;
    ag_fixed : efixed ekb = efixed ek;
    ag_penc : forall v, epenc ekb (repr v) = epenc ek v;
    ag_troot : forall v, etroot ekb (repr v) = etroot ek v;
    ag_enc : forall v, eenc ekb (repr v) = eenc ek v;
    ag_dec : forall b, edec ekb b = option_map repr (edec ek b);
    ag_eqb : forall v u, eeqb ekb (repr v) (repr u) = eeqb ek v u;
    ag_default : edefault ekb = repr (edefault ek)
  }.

  Lemma num_le_0 : forall n, num_le n 0 = repeat 0 n.
  Proof. induction n as [|n IH]; cbn [num_le repeat]; [reflexivity|]. rewrite N.div_0_l, N.mod_0_l by lia. now rewrite IH. Qed.

  Theorem agree_raw_holds : agree_raw.
  Proof.
    constructor.
    - rewrite B_pd. reflexivity.
    - rewrite B_fixed. reflexivity.
    - intros v. rewrite B_penc. apply le_num_repr.
    - intros v. rewrite B_troot. apply le_num_repr.
    - intros v. rewrite B_enc. reflexivity.
    - intros b. rewrite B_dec. destruct (edec ek b) as [v|] eqn:E.
      + destruct (edec_bytesW_Some w pdo b v E) as [[E1 E2] Er]. rewrite E1, Nat.eqb_refl, E2. cbn [andb option_map].
        now rewrite Er.
      + pose proof (edec_bytesW_None w pdo b E) as Hn. cbn [option_map].
        destruct (Nat.eqb (length b) w && valid_bytes b) eqn:Ec; [|reflexivity].
        apply andb_true_iff in Ec. destruct Ec as [E1 E2]. apply Nat.eqb_eq in E1. exfalso. apply Hn. split; assumption.
    - intros v u. rewrite B_eqb. apply Bool.eq_true_iff_eq. rewrite bytes_eqb_iff. split; intros E.
      + apply (ek_bytesW_eqb w pdo). now apply repr_inj.
      + apply (ek_bytesW_eqb w pdo) in E. now subst u.
    - rewrite B_default. unfold repr. cbn [ek ek_bytesW edefault W0 wval proj1_sig]. symmetry. apply num_le_0.
  Qed.
End Agree.

Theorem ek_uint_agree k : agree_raw (Nat.pow 2 k) (Some (5 - k)%nat) (ek_uint k).
Proof. apply agree_raw_holds; reflexivity. Qed.
Theorem ek_h256_agree : agree_raw 32 None ek_h256.
Proof. apply agree_raw_holds; reflexivity. Qed.

(* the statements of the task, spelled out for ek_uint k *)
Corollary ek_uint_agree_penc k (v : W (wbits (Nat.pow 2 k))) :
  epenc (ek_uint k) (num_le (Nat.pow 2 k) (proj1_sig v)) = epenc (ek_uintW k) v.
Proof. apply (ag_penc _ _ _ (ek_uint_agree k)). Qed.
Corollary ek_uint_agree_troot k (v : W (wbits (Nat.pow 2 k))) :
  etroot (ek_uint k) (num_le (Nat.pow 2 k) (proj1_sig v)) = etroot (ek_uintW k) v.
Proof. apply (ag_troot _ _ _ (ek_uint_agree k)). Qed.
Corollary ek_uint_agree_enc k (v : W (wbits (Nat.pow 2 k))) :
  eenc (ek_uint k) (num_le (Nat.pow 2 k) (proj1_sig v)) = eenc (ek_uintW k) v.
Proof. apply (ag_enc _ _ _ (ek_uint_agree k)). Qed.
Corollary ek_uint_agree_dec k b :
  edec (ek_uint k) b = option_map (fun v => num_le (Nat.pow 2 k) (proj1_sig v)) (edec (ek_uintW k) b).
Proof. apply (ag_dec _ _ _ (ek_uint_agree k)). Qed.
Corollary ek_uint_agree_eqb k (v u : W (wbits (Nat.pow 2 k))) :
  eeqb (ek_uint k) (num_le (Nat.pow 2 k) (proj1_sig v)) (num_le (Nat.pow 2 k) (proj1_sig u)) = eeqb (ek_uintW k) v u.
Proof. apply (ag_eqb _ _ _ (ek_uint_agree k)). Qed.

(* the validity predicate under which CodecP proves the codec laws of the raw kinds is exactly the
   image of repr *)
Theorem bytes_of_len_is_repr w b : bytes_of_len w b <-> exists v : W (wbits w), repr v = b.
Proof.
  split.
  - intros Hb. destruct (repr_surj w b Hb) as (v & E & _). now exists v.
  - intros [v <-]. apply repr_wf.
Qed.

(* ---------- the composite kinds of the driver (Pair, VariableList<u8,4>) ----------
   Here the lawful kind is the raw-byte kind itself restricted to the well-formed byte strings
   (a subset type over a boolean predicate), so the agreement with the driver's kind is by definition;
   what has to be proved is that the restriction is lawful. *)
Definition BV (P : bytes -> bool) : Type := { b : bytes | P b = true }.
Definition bval {P} (v : BV P) : bytes := proj1_sig v.
Lemma bval_ok {P} (v : BV P) : P (bval v) = true.
Proof. destruct v as [b Hb]. exact Hb. Qed.
Lemma BV_ext {P} (v u : BV P) : bval v = bval u -> v = u.
Proof.
  destruct v as [a Ha], u as [b Hb]. cbn [bval proj1_sig]. intros E. subst b.
  f_equal. apply UIP_dec. apply Bool.bool_dec.
Qed.
Definition mkBV (P : bytes -> bool) (b : bytes) : option (BV P) :=
  match P b as c return P b = c -> option (BV P) with
  | true => fun e => Some (exist _ b e)
  | false => fun _ => None
  end eq_refl.
Lemma mkBV_Some P b v : mkBV P b = Some v -> bval v = b.
Proof.
  unfold mkBV. generalize (eq_refl (P b)). generalize (P b) at 2 3. intros [|] e E; [|discriminate].
  injection E as <-. reflexivity.
Qed.
Lemma mkBV_bval {P} (v : BV P) : mkBV P (bval v) = Some v.
Proof.
  pose proof (bval_ok v) as Hv. unfold mkBV. generalize (eq_refl (P (bval v))).
  generalize (P (bval v)) at 2 3. intros [|] e; [|congruence]. apply (f_equal (@Some (BV P))). now apply (@BV_ext P).
Qed.
Lemma mkBV_None P b : mkBV P b = None -> P b = false.
Proof.
  intros E. destruct (P b) eqn:Ep; [|reflexivity].
  pose proof (mkBV_bval (exist _ b Ep : BV P)) as E2. cbn [bval proj1_sig] in E2. congruence.
Qed.

Definition ek_sub (ekb : ekind bytes) (P : bytes -> bool) (d : BV P) : ekind (BV P) :=
  {| eeqb := fun a b => eeqb ekb (bval a) (bval b);
     epd := epd ekb;
     epenc := fun a => epenc ekb (bval a);
     etroot := fun a => etroot ekb (bval a);
     efixed := efixed ekb;
     eenc := fun a => eenc ekb (bval a);
     edec := fun b => match edec ekb b with Some v => mkBV P v | None => None end;
     edefault := d |}.

Section Sub.
  Variable ekb : ekind bytes.
  Variable P : bytes -> bool.
  Variable d : BV P.
  Let ek := ek_sub ekb P d.
  Hypothesis B_eqb : eeqb ekb = bytes_eqb.
  Hypothesis B_pd : epd ekb = None.
  Hypothesis B_enc : eenc ekb = (fun v => v).
  Hypothesis B_dec : edec ekb = (fun b => if P b then Some b else None).
  Hypothesis B_fixed : forall s, efixed ekb = Some s -> 0 < s /\ forall b, P b = true -> lenN b = s.

  (* agreement with the raw kind: by definition, except for decoding *)
  Lemma sub_agree_dec b : edec ekb b = option_map bval (edec ek b).
  Proof.
    cbn [ek ek_sub edec]. rewrite B_dec. destruct (P b) eqn:Ep; [|reflexivity].
    destruct (mkBV P b) as [v|] eqn:E; cbn [option_map].
    - now rewrite (mkBV_Some _ _ _ E).
    - apply mkBV_None in E. congruence.
  Qed.
  Lemma sub_agree :
    epd ekb = epd ek /\ efixed ekb = efixed ek /\
    (forall v, epenc ekb (bval v) = epenc ek v) /\ (forall v, etroot ekb (bval v) = etroot ek v) /\
    (forall v, eenc ekb (bval v) = eenc ek v) /\ (forall b, edec ekb b = option_map bval (edec ek b)) /\
    (forall v u, eeqb ekb (bval v) (bval u) = eeqb ek v u).
  Proof. repeat split; try reflexivity. apply sub_agree_dec. Qed.

  Theorem ek_sub_wf : ek_wf ek.
  Proof.
    constructor.
    - intros a b. cbn [ek ek_sub eeqb]. rewrite B_eqb, bytes_eqb_iff. split; [apply BV_ext|now intros ->].
    - unfold pd_of. cbn [ek ek_sub epd]. rewrite B_pd. lia.
    - unfold is_packed. cbn [ek ek_sub epd]. rewrite B_pd. discriminate.
    - unfold is_packed. cbn [ek ek_sub epd]. rewrite B_pd. discriminate.
  Qed.

  Theorem ek_sub_codec_on : ek_codec_on ek (fun _ => True).
  Proof.
    constructor.
    - intros v _. cbn [ek ek_sub edec eenc]. rewrite B_enc, B_dec, (bval_ok v). apply mkBV_bval.
    - intros b v. cbn [ek ek_sub edec eenc]. rewrite B_enc, B_dec. destruct (P b); [|discriminate].
      intros E. apply mkBV_Some in E. auto.
    - intros s v E _. cbn [ek ek_sub efixed eenc] in *. rewrite B_enc. apply (B_fixed s E), bval_ok.
    - intros s E. apply (B_fixed s E).
  Qed.

  Theorem ek_sub_troot_inj :
    (forall a b, P a = true -> P b = true -> etroot ekb a = etroot ekb b -> a = b) -> troot_inj ek.
  Proof. intros Hinj _ v u E. apply BV_ext. apply Hinj; [apply bval_ok|apply bval_ok|exact E]. Qed.
End Sub.

Lemma le_num_inj a b : length a = length b -> valid_bytes a = true -> valid_bytes b = true ->
  le_num a = le_num b -> a = b.
Proof.
  intros Hl Ha Hb E. rewrite <- (num_le_le_num a Ha), <- (num_le_le_num b Hb), Hl, E. reflexivity.
Qed.

Section Composite.
  Variable H : digest -> digest -> digest.
  Hypothesis CF : collision_free H.

  Definition P_pair (b : bytes) : bool := Nat.eqb (length b) 16 && valid_bytes b.
  Definition P_var (b : bytes) : bool := Nat.leb (length b) 4 && valid_bytes b.
  Definition ek_pairW : ekind (BV P_pair) := ek_sub (ek_pair H) P_pair (exist _ (repeat 0 16%nat) eq_refl).
  Definition ek_varW : ekind (BV P_var) := ek_sub (ek_var H) P_var (exist _ [] eq_refl).

  Theorem ek_pairW_wf : ek_wf ek_pairW.
  Proof. apply ek_sub_wf; reflexivity. Qed.
  Theorem ek_pairW_codec_on : ek_codec_on ek_pairW (fun _ => True).
  Proof.
    apply ek_sub_codec_on; try reflexivity.
    intros s E. cbn [ek_pair efixed] in E. injection E as <-. split; [lia|].
    intros b Hb. apply andb_true_iff in Hb. destruct Hb as [Hb _]. apply Nat.eqb_eq in Hb. unfold lenN. now rewrite Hb.
  Qed.
  Theorem ek_pairW_troot_inj : troot_inj ek_pairW.
  Proof.
    apply ek_sub_troot_inj. intros a b Ha Hb. cbn [ek_pair etroot]. intros E.
    apply (proj1 CF) in E. destruct E as [E1 E2].
    apply andb_true_iff in Ha, Hb. destruct Ha as [La Va], Hb as [Lb Vb]. apply Nat.eqb_eq in La, Lb.
    rewrite <- (firstn_skipn 8 a) in Va. rewrite <- (firstn_skipn 8 b) in Vb.
    rewrite valid_bytes_app in Va, Vb. apply andb_true_iff in Va, Vb. destruct Va as [Va1 Va2], Vb as [Vb1 Vb2].
    rewrite <- (firstn_skipn 8 a), <- (firstn_skipn 8 b). f_equal.
    - apply le_num_inj; auto. rewrite !firstn_length. lia.
    - apply le_num_inj; auto. rewrite !skipn_length. lia.
  Qed.

  Theorem ek_varW_wf : ek_wf ek_varW.
  Proof. apply ek_sub_wf; reflexivity. Qed.
  Theorem ek_varW_codec_on : ek_codec_on ek_varW (fun _ => True).
  Proof. apply ek_sub_codec_on; try reflexivity. intros s E. discriminate. Qed.
  Theorem ek_varW_troot_inj : troot_inj ek_varW.
  Proof.
    apply ek_sub_troot_inj. intros a b Ha Hb. cbn [ek_var etroot]. intros E.
    apply (proj1 CF) in E. destruct E as [E1 E2].
    apply andb_true_iff in Ha, Hb. destruct Ha as [_ Va], Hb as [_ Vb].
    apply le_num_inj; auto. lia.
  Qed.
End Composite.

(* ====================================================================== *)
(* 3. capacities                                                            *)
(* ====================================================================== *)
Lemma capacity_ok_8 : capacity_ok 8.
Proof. apply N.leb_le; vm_compute; reflexivity. Qed.
Lemma capacity_ok_2_40 : capacity_ok (2 ^ 40).
Proof. apply N.leb_le; vm_compute; reflexivity. Qed.
Lemma capacity_ok_2_63 : capacity_ok (2 ^ 63).
Proof. apply N.leb_le; vm_compute; reflexivity. Qed.
Lemma capacity_ok_7 : capacity_ok 7.
Proof. apply N.leb_le; vm_compute; reflexivity. Qed.

(* ====================================================================== *)
(* 4. concrete non-trivial states                                           *)
(* ====================================================================== *)
Lemma mget_init j : mget init_state j = 0.
Proof. unfold mget, init_state. cbn [memo]. now rewrite PositiveMap.gempty. Qed.

Lemma gok_init {T} (ek : ekind T) H : gok ek H init_state [].
Proof.
  split; [|split].
  - intros t1 t2 u v [].
  - intros t [].
  - intros j _. apply mget_init.
Qed.

Theorem SysInv_initial {T U} (ek : ekind T) (M : umap_impl T U) H capN uinv :
  SysInv ek M H capN uinv init_state init_sys init_sregs.
Proof.
  split; [reflexivity|]. split.
  - unfold init_sys, init_sregs. cbn [regs]. induction nregs as [|n IH]; cbn [repeat]; constructor; [exact I|exact IH].
  - unfold live_trees, init_sys. cbn [regs].
    replace (flat_map _ (repeat None nregs)) with (@nil (tree T)); [apply gok_init|].
    induction nregs as [|n IH]; cbn [repeat flat_map app]; auto.
Qed.

(* A scenario: List::new(vs), one write through get_mut (pending), apply_updates, tree_hash_root.
   Everything below follows from the property theorems (no evaluation of the model). *)
Section Scenario.
  Context {T U : Type}.
  Variable ek : ekind T.
  Variable M : umap_impl T U.
  Variable H : digest -> digest -> digest.
  Variable capN : N.
  Variable uinv : U -> Prop.
  Hypothesis EKW : ek_wf ek.
  Hypothesis UL : umap_lawful ek M uinv.
  Hypothesis CAP : capacity_ok capN.
  Notation handle := (handle T U).

  Theorem built_state vs : lenN vs <= capN ->
    exists h, fst (run (list_try_from_iter ek M capN vs) init_state) = Ok h /\
      hinv ek M capN uinv h vs /\ has_pending M h = false /\ hlist h = true /\
      gok ek H (snd (run (list_try_from_iter ek M capN vs) init_state)) [htree h].
  Proof.
    intros Hl.
    pose proof (wp_run _ _ _ (list_try_from_iter_spec ek M H capN uinv EKW UL CAP Rexact vs init_state [] (gok_init ek H) Hl)) as W.
    destruct W as (h & E & [HI HP] & HL & _ & _ & GK). exists h. auto.
  Qed.

  Definition scenario (vs : list T) (i : N) (v : T) : prog (handle * handle * digest) :=
    bind (list_try_from_iter ek M capN vs) (fun h =>
    match iface_get_mut ek M h i with
    | None => Fail EBadReg
    | Some (_, h1) =>
        let h2 := write_entry M h1 i v in
        bind (apply_updates ek M capN h2) (fun eh =>
        bind (coll_tree_hash_root ek M H (snd eh)) (fun d => Ret (h2, snd eh, d)))
    end).

  Theorem scenario_spec vs i x v : lenN vs <= capN -> nthN vs i = Some x ->
    exists h2 h3,
      fst (run (scenario vs i v) init_state) = Ok (h2, h3, ssz_root ek H true capN (setN vs i v)) /\
      hinv ek M capN uinv h2 (setN vs i v) /\ has_pending M h2 = true /\
      hclean ek M capN uinv h3 (setN vs i v) /\ hlist h3 = true /\
      gok ek H (snd (run (scenario vs i v) init_state)) [htree h3; htree h2].
  Proof.
    intros Hl Hx.
    assert (W : wp Rexact (scenario vs i v) (fun o st' => exists h2 h3,
      o = Ok (h2, h3, ssz_root ek H true capN (setN vs i v)) /\
      hinv ek M capN uinv h2 (setN vs i v) /\ has_pending M h2 = true /\
      hclean ek M capN uinv h3 (setN vs i v) /\ hlist h3 = true /\
      gok ek H st' [htree h3; htree h2]) init_state).
    { unfold scenario. apply wp_bind.
      eapply wp_mono; [|apply (list_try_from_iter_spec ek M H capN uinv EKW UL CAP Rexact vs init_state [] (gok_init ek H) Hl)].
      intros o st1 (h & -> & [HI HP] & HL & _ & _ & GK). cbn [lift].
      pose proof (get_mut_spec ek M uinv capN UL (get_rec_canon ek) (cap_ld ek capN CAP) h vs i HI) as G.
      rewrite Hx in G. destruct G as (h1 & -> & HI1 & HK1 & SB1).
      destruct (write_entry_spec ek M uinv capN UL (cap_ld ek capN CAP) h1 vs i v HI1 HK1) as [HI2 SB2].
      set (h2 := write_entry M h1 i v) in *.
      assert (Et : htree h2 = htree h) by (destruct SB1 as [E1 _], SB2 as [E2 _]; congruence).
      assert (EL : hlist h2 = true) by (destruct SB1 as (_ & _ & _ & E1), SB2 as (_ & _ & _ & E2); congruence).
      assert (HP2 : has_pending M h2 = true).
      { unfold has_pending, uis_empty, h2, write_entry. cbn [hupd with_upd].
        destruct HI1 as (_ & _ & _ & _ & _ & Hu).
        pose proof (ulen_entry_nz ek M uinv UL (hupd h1) i v Hu) as Hnz.
        destruct (N.eqb_spec (ulen M (uentry_insert M (hupd h1) i v)) 0); [contradiction|reflexivity]. }
      apply wp_bind.
      eapply wp_mono; [|apply (apply_spec ek M H capN uinv EKW UL CAP Rexact h2 (setN vs i v) st1 [htree h] GK HI2)];
        [|rewrite Et; left; reflexivity].
      intros o st2 (h3 & -> & HI3 & HP3 & _ & _ & GK3 & HL3 & _). cbn [lift snd].
      apply wp_bind.
      eapply wp_mono; [|apply (coll_root_spec ek M H capN uinv UL CAP h3 (setN vs i v) st2 _ (conj HI3 HP3) GK3)];
        [|left; reflexivity].
      intros o st3 (-> & GK4 & _). cbn [lift wp].
      exists h2, h3. rewrite HL3, EL. split; [reflexivity|]. split; [exact HI2|]. split; [exact HP2|].
      split; [split; assumption|]. split; [congruence|]. rewrite Et. exact GK4. }
    apply wp_run in W. exact W.
  Qed.
End Scenario.

(* ---------- the instance of the task: List<u64, 7> over MaxMap<VecMap>, five elements ---------- *)
Definition U64 : Type := W (wbits (Nat.pow 2 3)).
Definition mvmap := maxmap (vecmap U64).
Definition Mmv : umap_impl U64 mvmap := maxmap_impl (@vecmap_impl U64).
Definition mv_inv : mvmap -> Prop := maxmap_inv (@vecmap_impl U64) (fun _ => True).

Lemma ek_u64W_wf : ek_wf (ek_uintW 3).
Proof. apply ek_uintW_wf. lia. Qed.
Lemma Mmv_lawful : umap_lawful (ek_uintW 3) Mmv mv_inv.
Proof. apply maxmap_lawful, vecmap_lawful. Qed.

Theorem example_built (v1 v2 v3 v4 v5 : U64) :
  exists h, fst (run (list_try_from_iter (ek_uintW 3) Mmv 7 [v1; v2; v3; v4; v5]) init_state) = Ok h /\
    hinv (ek_uintW 3) Mmv 7 mv_inv h [v1; v2; v3; v4; v5] /\ has_pending Mmv h = false /\ hlist h = true /\
    gok (ek_uintW 3) Hc (snd (run (list_try_from_iter (ek_uintW 3) Mmv 7 [v1; v2; v3; v4; v5]) init_state)) [htree h].
Proof.
  apply (built_state (ek_uintW 3) Mmv Hc 7 mv_inv ek_u64W_wf Mmv_lawful capacity_ok_7).
  vm_compute. discriminate.
Qed.

(* ... then `*l.get_mut(2) = v`: a handle with a pending write that satisfies hinv for the updated
   list; flushing it gives a clean handle whose tree_hash_root is the SSZ root of the updated list *)
Theorem example_written (v1 v2 v3 v4 v5 v : U64) :
  exists h2 h3,
    fst (run (scenario (ek_uintW 3) Mmv Hc 7 [v1; v2; v3; v4; v5] 2 v) init_state)
      = Ok (h2, h3, ssz_root (ek_uintW 3) Hc true 7 [v1; v2; v; v4; v5]) /\
    hinv (ek_uintW 3) Mmv 7 mv_inv h2 [v1; v2; v; v4; v5] /\ has_pending Mmv h2 = true /\
    hclean (ek_uintW 3) Mmv 7 mv_inv h3 [v1; v2; v; v4; v5] /\ hlist h3 = true /\
    gok (ek_uintW 3) Hc (snd (run (scenario (ek_uintW 3) Mmv Hc 7 [v1; v2; v3; v4; v5] 2 v) init_state)) [htree h3; htree h2].
Proof.
  apply (scenario_spec (ek_uintW 3) Mmv Hc 7 mv_inv ek_u64W_wf Mmv_lawful capacity_ok_7 [v1; v2; v3; v4; v5] 2 v3 v).
  - vm_compute. discriminate.
  - reflexivity.
Qed.

(* a Vector (hlist = false: the clause `hblen h = capN /\ lenN l = capN` of hinv is satisfiable) *)
Section VectorState.
  Context {T U : Type}.
  Variable ek : ekind T.
  Variable M : umap_impl T U.
  Variable H : digest -> digest -> digest.
  Variable capN : N.
  Variable uinv : U -> Prop.
  Hypothesis EKW : ek_wf ek.
  Hypothesis UL : umap_lawful ek M uinv.
  Hypothesis CAP : capacity_ok capN.

  Theorem built_vector vs : lenN vs = capN ->
    exists h, fst (run (vector_new ek M capN vs) init_state) = Ok h /\
      hclean ek M capN uinv h vs /\ hlist h = false /\
      gok ek H (snd (run (vector_new ek M capN vs) init_state)) [htree h].
  Proof.
    intros Hl.
    pose proof (wp_run _ _ _ (vector_new_spec ek M H capN uinv EKW UL CAP Rexact vs init_state [] (gok_init ek H) Hl)) as W.
    destruct W as (h & E & HC & HL & _ & _ & GK). exists h. auto.
  Qed.
End VectorState.

Theorem example_vector (a b c d e f g h : U64) :
  exists v, fst (run (vector_new (ek_uintW 3) Mmv 8 [a; b; c; d; e; f; g; h]) init_state) = Ok v /\
    hclean (ek_uintW 3) Mmv 8 mv_inv v [a; b; c; d; e; f; g; h] /\ hlist v = false /\
    gok (ek_uintW 3) Hc (snd (run (vector_new (ek_uintW 3) Mmv 8 [a; b; c; d; e; f; g; h]) init_state)) [htree v].
Proof.
  apply (built_vector (ek_uintW 3) Mmv Hc 8 mv_inv ek_u64W_wf Mmv_lawful capacity_ok_8). reflexivity.
Qed.

(* a second scenario: two lists built one after the other, the second rebased on the first
   (List::rebase_on) — the hypotheses of C07's collection-level theorem hold of reachable states *)
Section Scenario2.
  Context {T U : Type}.
  Variable ek : ekind T.
  Variable M : umap_impl T U.
  Variable H : digest -> digest -> digest.
  Variable capN : N.
  Variable uinv : U -> Prop.
  Hypothesis EKW : ek_wf ek.
  Hypothesis UL : umap_lawful ek M uinv.
  Hypothesis CAP : capacity_ok capN.
  Hypothesis CF : collision_free H.
  Hypothesis TRI : troot_inj ek.
  Notation handle := (handle T U).

  Definition scenario_rebase (vs1 vs2 : list T) : prog (handle * handle * handle) :=
    bind (list_try_from_iter ek M capN vs1) (fun h1 =>
    bind (list_try_from_iter ek M capN vs2) (fun h2 =>
    bind (coll_rebase_on ek h2 h1) (fun h' => Ret (h1, h2, h')))).

  Theorem scenario_rebase_spec vs1 vs2 : lenN vs1 <= capN -> lenN vs2 <= capN ->
    exists h1 h2 h',
      fst (run (scenario_rebase vs1 vs2) init_state) = Ok (h1, h2, h') /\
      hclean ek M capN uinv h1 vs1 /\ hclean ek M capN uinv h2 vs2 /\ hinv ek M capN uinv h' vs2 /\
      shape (htree h') = shape (htree h2) /\
      gok ek H (snd (run (scenario_rebase vs1 vs2) init_state)) [htree h'; htree h2; htree h1].
  Proof.
    intros Hl1 Hl2.
    assert (W : wp Rexact (scenario_rebase vs1 vs2) (fun o st' => exists h1 h2 h',
      o = Ok (h1, h2, h') /\
      hclean ek M capN uinv h1 vs1 /\ hclean ek M capN uinv h2 vs2 /\ hinv ek M capN uinv h' vs2 /\
      shape (htree h') = shape (htree h2) /\ gok ek H st' [htree h'; htree h2; htree h1]) init_state).
    { unfold scenario_rebase. apply wp_bind.
      eapply wp_mono; [|apply (list_try_from_iter_spec ek M H capN uinv EKW UL CAP Rexact vs1 init_state [] (gok_init ek H) Hl1)].
      intros o st1 (h1 & -> & HC1 & HL1 & _ & _ & GK1). cbn [lift].
      apply wp_bind.
      eapply wp_mono; [|apply (list_try_from_iter_spec ek M H capN uinv EKW UL CAP Rexact vs2 st1 _ GK1 Hl2)].
      intros o st2 (h2 & -> & HC2 & HL2 & _ & _ & GK2). cbn [lift].
      apply wp_bind.
      eapply wp_mono; [|apply (coll_rebase_spec ek M H capN uinv EKW CAP CF TRI h2 h1 vs2 vs1 st2 _ (proj1 HC2) (proj1 HC1) (eq_trans HL2 (eq_sym HL1)) GK2)];
        [|left; reflexivity|right; left; reflexivity].
      intros o st3 (h' & -> & HI' & _ & _ & _ & Sh & GK3 & _). cbn [lift wp].
      exists h1, h2, h'. auto 10. }
    apply wp_run in W. exact W.
  Qed.
End Scenario2.

(* ====================================================================== *)
(* 5. closed corollaries: every hypothesis of a property theorem discharged *)
(* ====================================================================== *)
(* List/Vector<Hash256, capN> over BTreeMap, hash Hc *)
Definition H256 : Type := W 256.
Definition Mbt : umap_impl H256 (btmap H256) := @btmap_impl H256.

Lemma Mbt_lawful : umap_lawful ek_h256W Mbt bt_sorted.
Proof. apply btmap_lawful. Qed.

(* C07 (CollObsP.coll_rebase_spec) *)
Theorem rebase_h256 (capN : N) : capacity_ok capN ->
  forall (h base : handle H256 (btmap H256)) (l lb : list H256) (st : state) (G : list (tree H256)),
  hinv ek_h256W Mbt capN bt_sorted h l -> hinv ek_h256W Mbt capN bt_sorted base lb -> hlist h = hlist base ->
  gok ek_h256W Hc st G -> In (htree h) G -> In (htree base) G ->
  wp Rexact (coll_rebase_on ek_h256W h base)
     (fun o st' => exists h', o = Ok h' /\ hinv ek_h256W Mbt capN bt_sorted h' l /\
                              abs_of Mbt h' l = abs_of Mbt h l /\
                              hupd h' = hupd h /\ hdepth h' = hdepth h /\
                              shape (htree h') = shape (htree h) /\
                              gok ek_h256W Hc st' (htree h' :: G) /\ frame st st' /\
                              fresh_or_from st st' [htree h; htree base] (htree h')) st.
Proof.
  intros CAP. exact (coll_rebase_spec ek_h256W Mbt Hc capN bt_sorted ek_h256W_wf CAP Hc_collision_free ek_h256W_troot_inj).
Qed.

(* C02 (CollObsP.coll_root_spec) *)
Theorem root_h256 (capN : N) : capacity_ok capN ->
  forall (h : handle H256 (btmap H256)) (l : list H256) (st : state) (G : list (tree H256)),
  hclean ek_h256W Mbt capN bt_sorted h l -> gok ek_h256W Hc st G -> In (htree h) G ->
  wp Rexact (coll_tree_hash_root ek_h256W Mbt Hc h)
     (fun o st' => o = Ok (ssz_root ek_h256W Hc (hlist h) capN l) /\ gok ek_h256W Hc st' G /\
                   next st' = next st /\ changes ek_h256W Hc st st' (htree h) /\
                   (has_memo (htree h) = true -> mget st' (idof (htree h)) = hash_spec ek_h256W Hc (htree h))) st.
Proof.
  intros CAP. exact (coll_root_spec ek_h256W Mbt Hc capN bt_sorted Mbt_lawful CAP).
Qed.

(* C07's hash injectivity, closed: equal roots of equally long Hash256 lists mean equal lists *)
Theorem hash_inj_h256 (d : nat) (l1 l2 : list H256) :
  lenN l1 = lenN l2 -> lenN l1 <= cap ek_h256W d ->
  shash ek_h256W Hc (canon ek_h256W d l1) = shash ek_h256W Hc (canon ek_h256W d l2) -> l1 = l2.
Proof. apply (shash_canon_inj ek_h256W Hc ek_h256W_wf Hc_collision_free ek_h256W_troot_inj). Qed.
(* ... and of packed u64 lists *)
Theorem hash_inj_u64 (d : nat) (l1 l2 : list U64) :
  lenN l1 = lenN l2 -> lenN l1 <= cap (ek_uintW 3) d ->
  shash (ek_uintW 3) Hc (canon (ek_uintW 3) d l1) = shash (ek_uintW 3) Hc (canon (ek_uintW 3) d l2) -> l1 = l2.
Proof. apply (shash_canon_inj (ek_uintW 3) Hc ek_u64W_wf Hc_collision_free (ek_uintW_troot_inj 3)). Qed.

(* the premises of rebase_h256 are satisfiable, at a large capacity: two lists built, one rebased *)
Theorem example_rebase (a b c d : H256) :
  exists h1 h2 h',
    fst (run (scenario_rebase ek_h256W Mbt (2 ^ 40) [a; b; c] [a; b; d; c]) init_state) = Ok (h1, h2, h') /\
    hclean ek_h256W Mbt (2 ^ 40) bt_sorted h1 [a; b; c] /\ hclean ek_h256W Mbt (2 ^ 40) bt_sorted h2 [a; b; d; c] /\
    hinv ek_h256W Mbt (2 ^ 40) bt_sorted h' [a; b; d; c] /\ shape (htree h') = shape (htree h2) /\
    gok ek_h256W Hc (snd (run (scenario_rebase ek_h256W Mbt (2 ^ 40) [a; b; c] [a; b; d; c]) init_state))
        [htree h'; htree h2; htree h1].
Proof.
  apply (scenario_rebase_spec ek_h256W Mbt Hc (2 ^ 40) bt_sorted ek_h256W_wf Mbt_lawful capacity_ok_2_40
           Hc_collision_free ek_h256W_troot_inj).
  - apply N.leb_le. vm_compute. reflexivity.
  - apply N.leb_le. vm_compute. reflexivity.
Qed.

(* ---------- the master refinement theorem (Refine.v), closed ---------- *)
(* with all element values well-formed (valid = fun _ => True) the side condition `op_valid` is
   trivial; what remains of `op_ok` is: a collection operation (the builder operations are specified by
   C17's theorems) whose SSZ input, if any, consists of bytes *)
Definition op_plain {T} (o : @op T) : Prop := collection_op o = true /\ op_wf o.

Lemma op_valid_True {T} (ek : ekind T) (o : @op T) : op_valid ek (fun _ => True) o.
Proof. destruct o; cbn [op_valid]; auto; apply Forall_forall; intros x _; try exact I. now destruct x. Qed.
Lemma op_ok_plain {T} (ek : ekind T) (os : list (@op T)) :
  Forall op_plain os -> Forall (op_ok ek (fun _ => True)) os.
Proof.
  intros F. eapply Forall_impl; [|exact F]. intros o [Hco Hw]. split; [exact Hco|]. split; [exact Hw|apply op_valid_True].
Qed.

(* List/Vector<u64, capN> over MaxMap<VecMap>, hash Hc: every history of collection operations run by the
   sequential interpreter from the initial state follows a run of the plain-sequence specification,
   never fails to return Ok at top level, and ends in a state satisfying the system invariant *)
Theorem run_refines_u64 (capN : N) (vec_based : bool) (os : list (@op U64)) :
  capacity_ok capN -> Forall op_plain os ->
  exists rs s' st' a',
    model_run (ek_uintW 3) Mmv Hc capN vec_based init_sys init_state os = Some (rs, s', st') /\
    spec_run (ek_uintW 3) Hc capN vec_based (fun _ => True) init_sregs os rs a' /\
    SysInv (ek_uintW 3) Mmv Hc capN mv_inv st' s' a'.
Proof.
  intros CAP Hok.
  destruct (run_refines (ek_uintW 3) Mmv Hc capN vec_based mv_inv (fun _ => True) ek_u64W_wf Mmv_lawful CAP
              Hc_collision_free (ek_uintW_troot_inj 3) (ek_uintW_codec_on 3) os (op_ok_plain _ os Hok))
    as (rs & s' & st' & a' & E & R & I & _).
  exists rs, s', st', a'. auto.
Qed.

Theorem step_refines_u64 (capN : N) (vec_based : bool) st s a (o : @op U64) :
  capacity_ok capN -> op_plain o -> SysInv (ek_uintW 3) Mmv Hc capN mv_inv st s a ->
  refines (ek_uintW 3) Mmv Hc capN vec_based mv_inv (fun _ => True) s a o st.
Proof.
  intros CAP [Hco Hw] SI.
  apply (step_refines (ek_uintW 3) Mmv Hc capN vec_based mv_inv (fun _ => True) ek_u64W_wf Mmv_lawful CAP
           Hc_collision_free (ek_uintW_troot_inj 3) (ek_uintW_codec_on 3) st s a o Hco Hw); [|exact SI].
  apply Forall_forall. intros [x|] _; cbn [reg_valid]; [|exact I]. apply Forall_forall. intros v _. exact I.
Qed.

(* the same for List/Vector<Hash256, capN> over BTreeMap *)
Theorem run_refines_h256 (capN : N) (vec_based : bool) (os : list (@op H256)) :
  capacity_ok capN -> Forall op_plain os ->
  exists rs s' st' a',
    model_run ek_h256W Mbt Hc capN vec_based init_sys init_state os = Some (rs, s', st') /\
    spec_run ek_h256W Hc capN vec_based (fun _ => True) init_sregs os rs a' /\
    SysInv ek_h256W Mbt Hc capN bt_sorted st' s' a'.
Proof.
  intros CAP Hok.
  destruct (run_refines ek_h256W Mbt Hc capN vec_based bt_sorted (fun _ => True) ek_h256W_wf Mbt_lawful CAP
              Hc_collision_free ek_h256W_troot_inj ek_h256W_codec_on os (op_ok_plain _ os Hok))
    as (rs & s' & st' & a' & E & R & I & _).
  exists rs, s', st', a'. auto.
Qed.

(* C14 closed: VecMap and BTreeMap (both under any capacity) answer every history of u64 operations
   within the same specification, and identically wherever the specification is functional *)
Theorem maps_unobservable_u64 (capN : N) (vec_based : bool) (os : list (@op U64)) :
  capacity_ok capN -> Forall op_plain os ->
  exists rs1 s1 st1 a1 rs2 s2 st2 a2,
    model_run (ek_uintW 3) (@vecmap_impl U64) Hc capN vec_based init_sys init_state os = Some (rs1, s1, st1) /\
    model_run (ek_uintW 3) (@btmap_impl U64) Hc capN vec_based init_sys init_state os = Some (rs2, s2, st2) /\
    spec_run (ek_uintW 3) Hc capN vec_based (fun _ => True) init_sregs os rs1 a1 /\
    spec_run (ek_uintW 3) Hc capN vec_based (fun _ => True) init_sregs os rs2 a2 /\
    (Forall (fun o => det_op o = true) os -> rs1 = rs2 /\ a1 = a2).
Proof.
  intros CAP Hok.
  destruct (maps_unobservable (ek_uintW 3) (@vecmap_impl U64) (@btmap_impl U64) Hc capN vec_based (fun _ => True) bt_sorted
              (fun _ => True) ek_u64W_wf (vecmap_lawful _) (btmap_lawful _) CAP Hc_collision_free (ek_uintW_troot_inj 3)
              (ek_uintW_codec_on 3) os (op_ok_plain _ os Hok))
    as (rs1 & s1 & st1 & a1 & rs2 & s2 & st2 & a2 & E1 & E2 & R1 & R2 & _ & _ & _ & D).
  exists rs1, s1, st1, a1, rs2, s2, st2, a2. auto 10.
Qed.

(* a concrete history, by the theorem: new list, write, push, flush, hash, pop_front, to-vector ... *)
Example history_u64 (v1 v2 v3 v : U64) :
  exists rs s' st' a',
    model_run (ek_uintW 3) Mmv Hc 4 false init_sys init_state
      [ONewList 0 [v1; v2; v3]; OSet 0 1 v; OPush 0 v; OApply 0; OHash 0; OClone 0 1; OPopFront 1 2; OToVector 0 2; OIntra 2]
      = Some (rs, s', st') /\
    spec_run (ek_uintW 3) Hc 4 false (fun _ => True) init_sregs
      [ONewList 0 [v1; v2; v3]; OSet 0 1 v; OPush 0 v; OApply 0; OHash 0; OClone 0 1; OPopFront 1 2; OToVector 0 2; OIntra 2]
      rs a' /\
    SysInv (ek_uintW 3) Mmv Hc 4 mv_inv st' s' a'.
Proof.
  apply run_refines_u64.
  - apply N.leb_le; reflexivity.
  - repeat constructor.
Qed.

Print Assumptions Hc_collision_free.
Print Assumptions ek_uintW_wf.
Print Assumptions ek_uintW_codec_on.
Print Assumptions ek_h256W_wf.
Print Assumptions ek_h256W_troot_inj.
Print Assumptions ek_h256W_codec_on.
Print Assumptions ek_uint_agree.
Print Assumptions ek_h256_agree.
Print Assumptions capacity_ok_2_63.
Print Assumptions SysInv_initial.
Print Assumptions built_state.
Print Assumptions scenario_spec.
Print Assumptions example_built.
Print Assumptions example_written.
Print Assumptions scenario_rebase_spec.
Print Assumptions rebase_h256.
Print Assumptions root_h256.
Print Assumptions hash_inj_h256.
Print Assumptions hash_inj_u64.
Print Assumptions example_rebase.
Print Assumptions sub_agree.
Print Assumptions ek_pairW_wf.
Print Assumptions ek_pairW_codec_on.
Print Assumptions ek_pairW_troot_inj.
Print Assumptions ek_varW_wf.
Print Assumptions ek_varW_codec_on.
Print Assumptions ek_varW_troot_inj.
Print Assumptions built_vector.
Print Assumptions example_vector.
Print Assumptions run_refines_u64.
Print Assumptions step_refines_u64.
Print Assumptions run_refines_h256.
Print Assumptions maps_unobservable_u64.
Print Assumptions history_u64.
