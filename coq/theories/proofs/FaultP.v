(* FaultP.v — abandoning a root computation at an arbitrary point is harmless.

   The implementation computes roots with fork-join parallelism and user-supplied element callbacks
   (tree_hash_root / tree_hash_packed_encoding of the element type). If such a callback panics and the
   caller catches the panic, or a hashing thread is simply never resumed, the computation stops at an
   arbitrary point of an arbitrary schedule, with some memos written and others not.
   ConcP.tree_hash_pool_prefix says that at EVERY point of EVERY schedule of a pool of root computations
   all memos of all the trees involved are valid. Combined with HashP.tree_hash_exact this gives the
   statement the fault-injection scenarios of the correspondence check (family `fault`) test on the real
   crate: after the pool is abandoned anywhere, a later root computation on any of the trees (or on any
   tree sharing nodes with them: take it into `ts`) returns the true root, and leaves the memos valid.  *)
From MH Require Import Defs Inv HashP ConcP.
Import ListNotations.
Local Open Scope N_scope.

Section Fault.
  Context {T : Type}.
  Variable ek : ekind T.
  Variable H : digest -> digest -> digest.
  Notation tree := (tree T).

  Theorem abandoned_hashing_is_harmless (ts : list tree) (s0 : state) (P' : pool) (s' : state) (t : tree) :
    idf_memo ts -> (forall u, In u ts -> mvalid ek H s0 u) ->
    (forall u i vs, In u ts -> subt (Packed i vs) u -> lenN vs <= pf_of ek) ->
    psteps (map (tree_hash ek H) ts) s0 P' s' ->       (* any prefix of any schedule: the pool is dropped here *)
    In t ts -> idf [t] ->
    (* memos are valid where the computation stopped ... *)
    (forall u, In u ts -> mvalid ek H s' u) /\
    (* ... and a later, complete root computation is right and keeps them valid *)
    fst (run (tree_hash ek H t) s') = Ok (hash_spec ek H t) /\
    mvalid ek H (snd (run (tree_hash ek H t) s')) t /\
    next (snd (run (tree_hash ek H t) s')) = next s0.
  Proof.
    intros IDF V PK Hps Ht It.
    destruct (tree_hash_pool_mvalid ek H ts s0 P' s' IDF V PK Hps) as (Hn & HV).
    split; [exact HV|].
    assert (PKt : forall vs i, subt (Packed i vs) t -> lenN vs <= pf_of ek).
    { intros vs i Hs. eapply PK; eassumption. }
    pose proof (wp_run _ _ _ (tree_hash_exact ek H t s' It (HV t Ht) PKt)) as W.
    destruct W as (Ho & Hc & Hm & _).
    split; [exact Ho|]. split; [exact Hm|].
    destruct Hc as (Hnx & _). congruence.
  Qed.
End Fault.

Print Assumptions abandoned_hashing_is_harmless.
