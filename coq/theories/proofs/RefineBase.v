(* RefineBase.v — generic lemmas for the per-operation refinement proofs (RefineA.v, RefineB.v):
   the register file (`set_nth`, `rget`/`rset`, `aget`/`aset` against `Forall2 reg_rel`),
   `live_trees` of an updated register file, preservation of `SysInv`, and wp-rules for the
   combinators of model/System.v (`bad`, `with_reg`, `with_list`, `with_vector`, `construct`,
   `inplace`, `inplace_e`) against the corresponding combinators of Spec.v.
   Proof file; no model code.

   The post-condition of `refines` is `rpost s st K` with `K r a' := spec_ok a o r a'`
   (`refines_rpost`, by reflexivity).  All rules are stated for an arbitrary `K`. *)
From Coq Require Import FMapPositive.
From MH Require Import Inv IfaceP IterP IntraP CollCtorP CollObsP SysInv.
Local Open Scope N_scope.

(* ---------- set_nth ---------- *)
Section SetNth.
  Context {A : Type}.
  Lemma length_set_nth (l : list A) : forall i x, length (set_nth l i x) = length l.
  Proof. induction l as [|y l IH]; intros [|i] x; cbn [set_nth length]; auto. Qed.
  Lemma nth_error_set_nth_eq (l : list A) : forall i x, (i < length l)%nat -> nth_error (set_nth l i x) i = Some x.
  Proof.
    induction l as [|y l IH]; intros [|i] x; cbn [set_nth length nth_error]; intros Hi; auto; try lia.
    apply IH. lia.
  Qed.
  Lemma nth_error_set_nth_neq (l : list A) : forall i j x, i <> j -> nth_error (set_nth l i x) j = nth_error l j.
  Proof.
    induction l as [|y l IH]; intros [|i] [|j] x Hne; cbn [set_nth nth_error]; auto; try congruence.
  Qed.
  Lemma set_nth_oob (l : list A) : forall i x, (length l <= i)%nat -> set_nth l i x = l.
  Proof.
    induction l as [|y l IH]; intros [|i] x; cbn [set_nth length]; intros Hi; auto; try lia.
    f_equal. apply IH. lia.
  Qed.
  Lemma Forall2_set_nth {B} (R : A -> B -> Prop) (l : list A) (l' : list B) :
    Forall2 R l l' -> forall i x y, R x y -> Forall2 R (set_nth l i x) (set_nth l' i y).
  Proof.
    induction 1 as [|a b l l' Hab Hl IH]; intros [|i] x y Hxy; cbn [set_nth]; constructor; auto.
  Qed.
  Lemma Forall2_nth_error {B} (R : A -> B -> Prop) (l : list A) (l' : list B) :
    Forall2 R l l' -> forall i,
    match nth_error l i, nth_error l' i with
    | Some x, Some y => R x y
    | None, None => True
    | _, _ => False
    end.
  Proof.
    induction 1 as [|a b l l' Hab Hl IH]; intros [|i]; cbn [nth_error]; auto. apply IH.
  Qed.
  Lemma Forall2_len {B} (R : A -> B -> Prop) (l : list A) (l' : list B) : Forall2 R l l' -> length l = length l'.
  Proof. induction 1; cbn [length]; auto. Qed.
  Lemma set_nth_same (l : list A) : forall i x, nth_error l i = Some x -> set_nth l i x = l.
  Proof.
    induction l as [|y l IH]; intros [|i] x; cbn [set_nth nth_error]; intros E; auto; try congruence.
    f_equal. apply IH. exact E.
  Qed.
End SetNth.

(* allocation-only programs contain neither SetMemo nor Par *)
Lemma allocp_noset {A} (m : prog A) : allocp m -> noset m.
Proof.
  induction m as [A a|A e|A c|A k IH|A i k IH|A i d k IH|A p IHp q IHq k IHk|A t k IH]; cbn [allocp noset]; intros Hm; auto;
    try contradiction.
Qed.

Section RefineBase.
  Context {T U : Type}.
  Variable ek : ekind T.
  Variable M : umap_impl T U.
  Variable H : digest -> digest -> digest.
  Variable capN : N.
  Variable vec_based : bool.
  Variable uinv : U -> Prop.
  Variable valid : T -> Prop.
  Notation tree := (tree T).
  Notation handle := (handle T U).
  Notation sys := (@sys T U).
  Notation aval := (@aval T).
  Notation sregs := (@sregs T).
  Notation res := (@res T).
  Notation op := (@op T).
  Notation hinv := (hinv ek M capN uinv).
  Notation gok := (gok ek H).
  Notation reg_rel := (reg_rel ek M capN uinv).
  Notation SysInv := (SysInv ek M H capN uinv).
  Notation refines := (refines ek M H capN vec_based uinv valid).

  (* ================= the register files ================= *)
  Lemma rget_rset_eq (s : sys) i ho : (i < length (regs s))%nat -> rget (rset s i ho) i = ho.
  Proof.
    intros Hi. unfold rget, rset. cbn [regs]. rewrite nth_error_set_nth_eq by exact Hi. destruct ho; reflexivity.
  Qed.
  Lemma rget_rset_neq (s : sys) i j ho : i <> j -> rget (rset s i ho) j = rget s j.
  Proof. intros Hne. unfold rget, rset. cbn [regs]. rewrite nth_error_set_nth_neq by exact Hne. reflexivity. Qed.
  Lemma aget_aset_eq (a : sregs) i xo : (i < length a)%nat -> aget (aset a i xo) i = xo.
  Proof. intros Hi. unfold aget, aset. rewrite nth_error_set_nth_eq by exact Hi. destruct xo; reflexivity. Qed.
  Lemma aget_aset_neq (a : sregs) i j xo : i <> j -> aget (aset a i xo) j = aget a j.
  Proof. intros Hne. unfold aget, aset. rewrite nth_error_set_nth_neq by exact Hne. reflexivity. Qed.
  Lemma rget_lt (s : sys) i h : rget s i = Some h -> (i < length (regs s))%nat.
  Proof.
    unfold rget. intros E. apply nth_error_Some. destruct (nth_error (regs s) i); [discriminate|discriminate].
  Qed.
  Lemma aget_lt (a : sregs) i x : aget a i = Some x -> (i < length a)%nat.
  Proof.
    unfold aget. intros E. apply nth_error_Some. destruct (nth_error a i); [discriminate|discriminate].
  Qed.
  Lemma rset_same (s : sys) i h : rget s i = Some h -> regs (rset s i (Some h)) = regs s.
  Proof.
    unfold rget. intros E. cbn [rset regs]. apply set_nth_same.
    destruct (nth_error (regs s) i) as [[h0|]|]; congruence.
  Qed.
  Lemma aset_same (a : sregs) i x : aget a i = Some x -> aset a i (Some x) = a.
  Proof.
    unfold aget, aset. intros E. apply set_nth_same. destruct (nth_error a i) as [[x0|]|]; congruence.
  Qed.
  Lemma bslot_rset (s : sys) i ho : bslot (rset s i ho) = bslot s.
  Proof. reflexivity. Qed.
  Lemma length_regs_rset (s : sys) i ho : length (regs (rset s i ho)) = length (regs s).
  Proof. cbn [rset regs]. apply length_set_nth. Qed.

  (* the two register files agree on which registers are occupied, and on what they hold *)
  Lemma regs_rel_get (s : sys) (a : sregs) i : Forall2 reg_rel (regs s) a ->
    match rget s i, aget a i with
    | Some h, Some x => exists l, hinv h l /\ x = abs_of M h l
    | None, None => True
    | _, _ => False
    end.
  Proof.
    intros F. pose proof (Forall2_nth_error _ _ _ F i) as Hn. unfold rget, aget.
    destruct (nth_error (regs s) i) as [[h|]|], (nth_error a i) as [[x|]|]; cbn [reg_rel] in Hn; auto; contradiction.
  Qed.
  Lemma regs_rel_some (s : sys) (a : sregs) i h : Forall2 reg_rel (regs s) a -> rget s i = Some h ->
    exists l, hinv h l /\ aget a i = Some (abs_of M h l).
  Proof.
    intros F E. pose proof (regs_rel_get s a i F) as Hn. rewrite E in Hn.
    destruct (aget a i) as [x|]; [|contradiction]. destruct Hn as (l & Hi & ->). eauto.
  Qed.
  Lemma regs_rel_none (s : sys) (a : sregs) i : Forall2 reg_rel (regs s) a -> rget s i = None -> aget a i = None.
  Proof.
    intros F E. pose proof (regs_rel_get s a i F) as Hn. rewrite E in Hn.
    destruct (aget a i) as [x|]; [contradiction|reflexivity].
  Qed.
  Lemma regs_rel_rset (s : sys) (a : sregs) i ho xo : Forall2 reg_rel (regs s) a -> reg_rel ho xo ->
    Forall2 reg_rel (regs (rset s i ho)) (aset a i xo).
  Proof. intros F Hr. cbn [rset regs]. unfold aset. apply Forall2_set_nth; assumption. Qed.
  Lemma reg_rel_some h l : hinv h l -> reg_rel (Some h) (Some (abs_of M h l)).
  Proof. intros Hi. exists l. auto. Qed.

  (* ================= live trees ================= *)
  Definition otrees (ho : option handle) : list tree := match ho with Some h => [htree h] | None => [] end.
  Lemma live_trees_eq (s : sys) : live_trees s = flat_map otrees (regs s).
  Proof. reflexivity. Qed.
  Lemma In_flat_otrees (rs : list (option handle)) t :
    In t (flat_map otrees rs) <-> exists i h, nth_error rs i = Some (Some h) /\ htree h = t.
  Proof.
    rewrite in_flat_map. split.
    - intros (ho & Hin & Ht). destruct ho as [h|]; [|destruct Ht]. destruct Ht as [<-|[]].
      apply In_nth_error in Hin. destruct Hin as [i Hi]. eauto.
    - intros (i & h & Hi & <-). exists (Some h). split; [eapply nth_error_In; eauto|now left].
  Qed.
  Lemma In_live (s : sys) t : In t (live_trees s) <-> exists i h, rget s i = Some h /\ htree h = t.
  Proof.
    rewrite live_trees_eq, In_flat_otrees. unfold rget. split; intros (i & h & Hi & <-); exists i, h; split; auto.
    - now rewrite Hi.
    - destruct (nth_error (regs s) i) as [[h0|]|]; congruence.
  Qed.
  Lemma rget_live (s : sys) i h : rget s i = Some h -> In (htree h) (live_trees s).
  Proof. intros E. apply In_live. eauto. Qed.
  Lemma flat_otrees_set_nth (rs : list (option handle)) : forall i ho,
    incl (flat_map otrees (set_nth rs i ho)) (otrees ho ++ flat_map otrees rs).
  Proof.
    induction rs as [|y rs IH]; intros [|i] ho; cbn [set_nth flat_map].
    - intros t [].
    - intros t [].
    - intros t Ht. apply in_app_or in Ht. apply in_or_app. destruct Ht as [Ht|Ht]; [now left|right].
      apply in_or_app. now right.
    - intros t Ht. apply in_app_or in Ht. destruct Ht as [Ht|Ht].
      + apply in_or_app. right. apply in_or_app. now left.
      + apply IH in Ht. apply in_app_or in Ht. apply in_or_app. destruct Ht as [Ht|Ht]; [now left|right].
        apply in_or_app. now right.
  Qed.
  (* the live trees after writing a register: the new tree and (some of) the old ones *)
  Lemma live_rset_some (s : sys) i h : incl (live_trees (rset s i (Some h))) (htree h :: live_trees s).
  Proof. rewrite !live_trees_eq. cbn [rset regs]. apply (flat_otrees_set_nth (regs s) i (Some h)). Qed.
  Lemma live_rset_none (s : sys) i : incl (live_trees (rset s i None)) (live_trees s).
  Proof. rewrite !live_trees_eq. cbn [rset regs]. apply (flat_otrees_set_nth (regs s) i None). Qed.
  Lemma live_rset (s : sys) i ho : incl (live_trees (rset s i ho)) (otrees ho ++ live_trees s).
  Proof. rewrite !live_trees_eq. cbn [rset regs]. apply flat_otrees_set_nth. Qed.

  (* ================= gok: forgetting, duplicating ================= *)
  Lemma gok_forget st (G : list tree) t : gok st (t :: G) -> gok st G.
  Proof. intros Gk. eapply gok_incl; [exact Gk|]. intros x Hx. now right. Qed.
  (* clone: the new register shares a tree that is already live *)
  Lemma gok_rset_dup st (s : sys) i h : gok st (live_trees s) -> In (htree h) (live_trees s) ->
    gok st (live_trees (rset s i (Some h))).
  Proof.
    intros Gk Hin. eapply gok_incl; [apply (gok_dup _ _ _ _ (htree h) Gk Hin)|]. apply live_rset_some.
  Qed.
  Lemma gok_rset_new st (s : sys) i h : gok st (htree h :: live_trees s) -> gok st (live_trees (rset s i (Some h))).
  Proof. intros Gk. eapply gok_incl; [exact Gk|]. apply live_rset_some. Qed.
  Lemma gok_rset_none st (s : sys) i : gok st (live_trees s) -> gok st (live_trees (rset s i None)).
  Proof. intros Gk. eapply gok_incl; [exact Gk|]. apply live_rset_none. Qed.
  Lemma gok_init : gok init_state [].
  Proof.
    split; [|split].
    - intros t1 t2 u v [].
    - intros t [].
    - intros j _. unfold mget, init_state. cbn [memo]. now rewrite PositiveMap.gempty.
  Qed.

  (* ================= SysInv ================= *)
  Lemma SysInv_len st s a : SysInv st s a -> length (regs s) = nregs /\ length a = nregs.
  Proof.
    intros (L & F & _). split; [exact L|]. rewrite <- L. symmetry. eapply Forall2_len; eauto.
  Qed.
  Lemma SysInv_gok st s a : SysInv st s a -> gok st (live_trees s).
  Proof. intros (_ & _ & G). exact G. Qed.
  Lemma SysInv_rel st s a : SysInv st s a -> Forall2 reg_rel (regs s) a.
  Proof. intros (_ & F & _). exact F. Qed.
  (* the registers are untouched, the shared state moved on *)
  Lemma SysInv_state st st' s a : SysInv st s a -> gok st' (live_trees s) -> SysInv st' s a.
  Proof. intros (L & F & _) G. split; [exact L|split; [exact F|exact G]]. Qed.
  Lemma SysInv_alloc st st' s a : SysInv st s a -> alloc_only st st' -> SysInv st' s a.
  Proof. intros I AO. eapply SysInv_state; [exact I|]. eapply gok_alloc_only; [apply (SysInv_gok _ _ _ I)|exact AO]. Qed.
  (* a register receives a handle whose tree is accounted for in the new global invariant *)
  Lemma SysInv_rset st st' s a i h l : SysInv st s a -> hinv h l -> gok st' (htree h :: live_trees s) ->
    SysInv st' (rset s i (Some h)) (aset a i (Some (abs_of M h l))).
  Proof.
    intros (L & F & _) Hi G. split; [|split].
    - rewrite length_regs_rset. exact L.
    - apply regs_rel_rset; [exact F|apply reg_rel_some; exact Hi].
    - apply gok_rset_new. exact G.
  Qed.
  (* the same, when the tree is already live (clone, writes into the pending map, re-labelling) *)
  Lemma SysInv_rset_live st s a i h l : SysInv st s a -> hinv h l -> In (htree h) (live_trees s) ->
    SysInv st (rset s i (Some h)) (aset a i (Some (abs_of M h l))).
  Proof.
    intros I Hi Hin. eapply SysInv_rset; [exact I|exact Hi|]. apply gok_dup; [apply (SysInv_gok _ _ _ I)|exact Hin].
  Qed.
  Lemma SysInv_drop st s a i : SysInv st s a -> SysInv st (rset s i None) (aset a i None).
  Proof.
    intros (L & F & G). split; [|split].
    - rewrite length_regs_rset. exact L.
    - apply regs_rel_rset; [exact F|exact I].
    - apply gok_rset_none. exact G.
  Qed.
  Lemma SysInv_init : SysInv init_state init_sys init_sregs.
  Proof.
    split; [reflexivity|split].
    - unfold init_sys, init_sregs. cbn [regs]. induction nregs as [|n IH]; cbn [repeat]; constructor; auto. exact I.
    - unfold init_sys, live_trees. cbn [regs]. replace (flat_map _ (repeat None nregs)) with (@nil tree); [apply gok_init|].
      induction nregs as [|n IH]; cbn [repeat flat_map app]; auto.
  Qed.
  (* what SysInv says about an occupied register *)
  Lemma SysInv_reg st s a i h : SysInv st s a -> rget s i = Some h ->
    exists l, hinv h l /\ aget a i = Some (abs_of M h l) /\ In (htree h) (live_trees s).
  Proof.
    intros I E. destruct (regs_rel_some s a i h (SysInv_rel _ _ _ I) E) as (l & Hi & Ea).
    exists l. split; [exact Hi|split; [exact Ea|eapply rget_live; eauto]].
  Qed.

  (* ================= the shape of the per-operation statement ================= *)
  Definition rpost (s : sys) (K : res -> sregs -> Prop) (out : outcome (res * sys)) (st' : state) : Prop :=
    exists r s', out = Ok (r, s') /\ bslot s' = bslot s /\ exists a', K r a' /\ SysInv st' s' a'.

  Lemma refines_rpost s a o st :
    refines s a o st = wp Rexact (step ek M H capN vec_based s o) (rpost s (fun r a' => spec_ok ek H capN vec_based valid a o r a')) st.
  Proof. reflexivity. Qed.

  Lemma rpost_intro (s : sys) (K : res -> sregs -> Prop) r s' a' st' :
    bslot s' = bslot s -> K r a' -> SysInv st' s' a' -> rpost s K (Ok (r, s')) st'.
  Proof. intros Hb Hk Hi. exists r, s'. split; [reflexivity|split; [exact Hb|]]. exists a'. auto. Qed.
  (* strengthening K *)
  Lemma rpost_mono (s : sys) (K K' : res -> sregs -> Prop) out st' :
    (forall r a', K r a' -> K' r a') -> rpost s K out st' -> rpost s K' out st'.
  Proof. intros HK (r & s' & E & Hb & a' & Hk & Hi). exists r, s'. split; [exact E|split; [exact Hb|]]. exists a'. auto. Qed.
  Lemma wp_rpost_mono R (s : sys) (K K' : res -> sregs -> Prop) (m : prog (res * sys)) st :
    (forall r a', K r a' -> K' r a') -> wp R m (rpost s K) st -> wp R m (rpost s K') st.
  Proof. intros HK. apply wp_mono. intros o s'. apply rpost_mono. exact HK. Qed.

  Lemma wp_ret R (s : sys) (K : res -> sregs -> Prop) r s' a' st :
    bslot s' = bslot s -> K r a' -> SysInv st s' a' -> wp R (Ret (r, s')) (rpost s K) st.
  Proof. intros Hb Hk Hi. cbn [wp]. apply (rpost_intro s K r s' a' st); auto. Qed.
  (* results that leave everything unchanged *)
  Lemma wp_ret_same R (s : sys) (a : sregs) (K : res -> sregs -> Prop) r st :
    SysInv st s a -> K r a -> wp R (Ret (r, s)) (rpost s K) st.
  Proof. intros I Hk. cbn [wp]. apply (rpost_intro s K r s a st); auto. Qed.
  (* EBadReg *)
  Lemma wp_bad R (s : sys) (a : sregs) st : SysInv st s a ->
    wp R (System.bad s) (rpost s (fun r a' => Spec.bad a r a')) st.
  Proof. intros I. unfold System.bad. apply (wp_ret_same R s a); [exact I|]. split; reflexivity. Qed.
  Lemma wp_bad_K R (s : sys) (a : sregs) (K : res -> sregs -> Prop) st : SysInv st s a ->
    (forall r a', Spec.bad a r a' -> K r a') -> wp R (System.bad s) (rpost s K) st.
  Proof. intros I HK. eapply wp_rpost_mono; [|apply (wp_bad R s a st I)]. exact HK. Qed.

  (* ---------- with_reg / with_list / with_vector ---------- *)
  (* k x r a' is the body of the specification's with_reg; f the model's continuation *)
  Lemma wp_with_reg R (s : sys) (a : sregs) i (f : handle -> prog (res * sys)) (k : aval -> res -> sregs -> Prop) st :
    SysInv st s a ->
    (forall h l, rget s i = Some h -> hinv h l -> aget a i = Some (abs_of M h l) -> In (htree h) (live_trees s) ->
       wp R (f h) (rpost s (k (abs_of M h l))) st) ->
    wp R (System.with_reg s i f) (rpost s (fun r a' => Spec.with_reg a i (fun x => k x r a') r a')) st.
  Proof.
    intros I Hf. unfold System.with_reg, Spec.with_reg. destruct (rget s i) as [h|] eqn:E.
    - destruct (SysInv_reg _ _ _ _ _ I E) as (l & Hi & Ea & Hin). rewrite Ea. apply (Hf h l); auto.
    - rewrite (regs_rel_none s a i (SysInv_rel _ _ _ I) E). apply wp_bad. exact I.
  Qed.
  Lemma wp_with_list R (s : sys) (a : sregs) i (f : handle -> prog (res * sys)) (k : aval -> res -> sregs -> Prop) st :
    SysInv st s a ->
    (forall h l, rget s i = Some h -> hinv h l -> aget a i = Some (abs_of M h l) -> In (htree h) (live_trees s) ->
       hlist h = true -> wp R (f h) (rpost s (k (abs_of M h l))) st) ->
    wp R (System.with_list s i f) (rpost s (fun r a' => Spec.with_list a i (fun x => k x r a') r a')) st.
  Proof.
    intros I Hf. unfold System.with_list, Spec.with_list.
    apply (wp_with_reg R s a i _ (fun x r a' => if a_list x then k x r a' else Spec.bad a r a') st I).
    intros h l E Hi Ea Hin. cbn [abs_of a_list]. destruct (hlist h) eqn:El.
    - apply (Hf h l); auto.
    - apply wp_bad. exact I.
  Qed.
  Lemma wp_with_vector R (s : sys) (a : sregs) i (f : handle -> prog (res * sys)) (k : aval -> res -> sregs -> Prop) st :
    SysInv st s a ->
    (forall h l, rget s i = Some h -> hinv h l -> aget a i = Some (abs_of M h l) -> In (htree h) (live_trees s) ->
       hlist h = false -> wp R (f h) (rpost s (k (abs_of M h l))) st) ->
    wp R (System.with_vector s i f)
       (rpost s (fun r a' => Spec.with_reg a i (fun x => if a_list x then Spec.bad a r a' else k x r a') r a')) st.
  Proof.
    intros I Hf. unfold System.with_vector.
    apply (wp_with_reg R s a i _ (fun x r a' => if a_list x then Spec.bad a r a' else k x r a') st I).
    intros h l E Hi Ea Hin. cbn [abs_of a_list]. destruct (hlist h) eqn:El.
    - apply wp_bad. exact I.
    - apply (Hf h l); auto.
  Qed.

  (* ---------- programs that produce a handle: construct / inplace ---------- *)
  (* what the handle-producing program must establish: on success a handle that represents some l and
     whose tree is accounted for together with the live trees; on failure the global invariant *)
  Definition hpost (s : sys) (Kok : aval -> Prop) (Kerr : error -> Prop) (o : outcome handle) (st' : state) : Prop :=
    match o with
    | Ok h => exists l, hinv h l /\ gok st' (htree h :: live_trees s) /\ Kok (abs_of M h l)
    | Err e => gok st' (live_trees s) /\ Kerr e
    | Panic _ => False
    end.

  Lemma wp_try_handle R (s : sys) (a : sregs) i (m : prog handle) (K : res -> sregs -> Prop) st :
    SysInv st s a -> noset m ->
    wp R m (hpost s (fun x => K ROk (aset a i (Some x))) (fun e => K (RErr e) a)) st ->
    wp R (r <- try_ m ;; match r with inl e => Ret (RErr e, s) | inr h => Ret (ROk, rset s i (Some h)) end)%prog
       (rpost s K) st.
  Proof.
    intros I NS W. apply wp_bind. apply wp_try_noset; [exact NS|]. eapply wp_mono; [|exact W].
    intros [h|e|c] st'; cbn [hpost lift wp].
    - intros (l & Hi & G & Hk). apply (rpost_intro s K ROk _ (aset a i (Some (abs_of M h l))) st'); auto.
      eapply SysInv_rset; eauto.
    - intros (G & Hk). apply (rpost_intro s K (RErr e) s a st'); auto. eapply SysInv_state; eauto.
    - intros [].
  Qed.

  (* inplace s i m *)
  Lemma wp_inplace R (s : sys) (a : sregs) i (m : prog handle) (K : res -> sregs -> Prop) st :
    SysInv st s a -> noset m ->
    wp R m (hpost s (fun x => K ROk (aset a i (Some x))) (fun e => K (RErr e) a)) st ->
    wp R (inplace s i m) (rpost s K) st.
  Proof. apply wp_try_handle. Qed.

  (* construct s d m, general continuation *)
  Lemma wp_construct_K R (s : sys) (a : sregs) d (m : prog handle) (K : res -> sregs -> Prop) st :
    SysInv st s a -> noset m ->
    ((nregs <=? d)%nat = true -> forall r a', Spec.bad a r a' -> K r a') ->
    ((nregs <=? d)%nat = false ->
       wp R m (hpost s (fun x => K ROk (aset a d (Some x))) (fun e => K (RErr e) a)) st) ->
    wp R (construct s d m) (rpost s K) st.
  Proof.
    intros I NS Hbad W. unfold construct. destruct (nregs <=? d)%nat eqn:E.
    - apply (wp_bad_K R s a K st I). apply Hbad. reflexivity.
    - apply (wp_try_handle R s a d m K st I NS). apply W. reflexivity.
  Qed.
  (* construct against Spec.ctor *)
  Lemma wp_construct R (s : sys) (a : sregs) d (m : prog handle) (okv : option aval) (e : error) st :
    SysInv st s a -> noset m ->
    wp R m (hpost s (fun x => okv = Some x) (fun e' => okv = None /\ e' = e)) st ->
    wp R (construct s d m) (rpost s (fun r a' => ctor a d okv e r a')) st.
  Proof.
    intros I NS W. apply (wp_construct_K R s a d m _ st I NS).
    - intros E r a' Hb. unfold ctor. rewrite E. exact Hb.
    - intros E. eapply wp_mono; [|exact W]. intros [h|e'|c] st'; cbn [hpost]; auto.
      + intros (l & Hi & G & Hk). exists l. split; [exact Hi|split; [exact G|]]. unfold ctor. rewrite E, Hk. auto.
      + intros (G & Hk & ->). split; [exact G|]. unfold ctor. rewrite E, Hk. auto.
  Qed.

  (* ---------- the abstract value of a clean handle ---------- *)
  Hypothesis UL : umap_lawful ek M uinv.

  Lemma abs_clean_list h l : hclean ek M capN uinv h l -> hlist h = true -> abs_of M h l = clean_list l.
  Proof.
    intros [Hi Hp] Hl. destruct (has_pending_spec ek M uinv capN UL h l Hi Hp) as [_ El].
    unfold abs_of, clean_list, mk. rewrite Hl, Hp, El. reflexivity.
  Qed.
  Lemma abs_clean_vec h l : hclean ek M capN uinv h l -> hlist h = false -> abs_of M h l = clean_vec capN l.
  Proof.
    intros [Hi Hp] Hl. destruct Hi as (_ & _ & _ & _ & Hv & _). destruct (Hv Hl) as [Eb _].
    unfold abs_of, clean_vec, mk. rewrite Hl, Hp, Eb. reflexivity.
  Qed.

  (* the posts of CollCtorP as hpost *)
  Lemma ctor_post_hpost (s : sys) st l (o : outcome handle) st' :
    ctor_post ek M H capN uinv st (live_trees s) l o st' ->
    hpost s (fun x => x = clean_list l) (fun _ => False) o st'.
  Proof.
    intros (h & -> & Hc & Hl & _ & _ & G). cbn [hpost]. exists l. split; [apply Hc|split; [exact G|]].
    apply abs_clean_list; assumption.
  Qed.
  Lemma vctor_post_hpost (s : sys) st l (o : outcome handle) st' :
    vctor_post ek M H capN uinv st (live_trees s) l o st' ->
    hpost s (fun x => x = clean_vec capN l) (fun _ => False) o st'.
  Proof.
    intros (h & -> & Hc & Hl & _ & _ & G). cbn [hpost]. exists l. split; [apply Hc|split; [exact G|]].
    apply abs_clean_vec; assumption.
  Qed.
  Lemma fail_post_hpost (s : sys) st e (o : outcome handle) st' : gok st (live_trees s) ->
    fail_post st e o st' -> hpost s (fun _ => False) (fun e' => e' = e) o st'.
  Proof.
    intros G (-> & AO). cbn [hpost]. split; [|reflexivity]. eapply gok_alloc_only; eauto.
  Qed.
  Lemma hpost_mono (s : sys) (Kok Kok' : aval -> Prop) (Kerr Kerr' : error -> Prop) o st' :
    (forall x, Kok x -> Kok' x) -> (forall e, Kerr e -> Kerr' e) -> hpost s Kok Kerr o st' -> hpost s Kok' Kerr' o st'.
  Proof.
    intros H1 H2. destruct o as [h|e|c]; cbn [hpost]; auto.
    - intros (l & Hi & G & Hk). exists l. auto.
    - intros (G & Hk). auto.
  Qed.

  (* ---------- inplace_e ---------- *)
  Lemma wp_inplace_e R (s : sys) (a : sregs) i (m : prog (option error * handle)) (K : res -> sregs -> Prop) st :
    SysInv st s a ->
    wp R m (fun o st' => match o with
                         | Ok (e, h) => exists l, hinv h l /\ gok st' (htree h :: live_trees s) /\
                              K (match e with Some e => RErr e | None => ROk end) (aset a i (Some (abs_of M h l)))
                         | _ => False
                         end) st ->
    wp R (inplace_e s i m) (rpost s K) st.
  Proof.
    intros I W. unfold inplace_e. apply wp_bind. eapply wp_mono; [|exact W].
    intros [[e h]|e|c] st'; cbn [lift wp]; try contradiction.
    intros (l & Hi & G & Hk). eapply rpost_intro; [reflexivity|exact Hk|]. eapply SysInv_rset; eauto.
  Qed.
End RefineBase.

Print Assumptions Forall2_set_nth.
Print Assumptions regs_rel_get.
Print Assumptions live_rset_some.
Print Assumptions gok_rset_dup.
Print Assumptions SysInv_rset.
Print Assumptions SysInv_rset_live.
Print Assumptions SysInv_drop.
Print Assumptions SysInv_init.
Print Assumptions wp_bad.
Print Assumptions wp_with_reg.
Print Assumptions wp_with_list.
Print Assumptions wp_with_vector.
Print Assumptions wp_inplace.
Print Assumptions wp_construct_K.
Print Assumptions wp_construct.
Print Assumptions wp_inplace_e.
Print Assumptions ctor_post_hpost.
Print Assumptions vctor_post_hpost.
Print Assumptions fail_post_hpost.
