(* InvisibleP.v — run-level invisibility of hashing (C03), rebasing (C07) and self-deduplication (C09).
   Whole histories are compared: two histories that differ only by "silent" operations (root
   computations OHash/OParHash/OParMix and in-place rebases ORebaseOn, inserted or removed anywhere, on
   any handle) and by OIntra i written instead of OApply i answer every common (non-silent) operation
   identically, answer every later operation identically, and end in the same abstract state.
     spec_silent, spec_intra_apply, spec_run_norm, spec_run_app_inv   (specification level)
     norm_op_ok, norm_det                                              (side conditions survive `norm`)
     silent_ops_invisible                                              (the main theorem, about model_run)
     hash_invisible (C03), rebase_invisible (C07), intra_is_flush (C09) (instances)
     invisible_u64                                                      (closed non-vacuity example)
   Side condition of the run-level theorems: `Forall (fun o => det_op o = true)`, i.e. (Refine.det_op) no `==`,
   and SSZ decoding only of inputs below 4 GiB. Histories that decode ARE covered: the specification of
   OSszList/OSszVec is strict and complete, hence a function of the abstract state and the input
   (Refine.spec_det); det_op_decode, hash_invisible_decode (an instance with a decoded handle).
   Proof file; no model code. *)
From Coq Require Import FMapPositive.
From MH Require Import Inv IfaceP IterP IntraP WulP RepeatP CollCtorP CollObsP HashP CodecP SysInv RefineBase RefineA RefineB
  Refine FinalP Instances.
Local Open Scope N_scope.

(* ====================================================================================== *)
(* normal form of a history                                                                 *)
(* ====================================================================================== *)
Section Norm.
  Context {T : Type}.
  Notation op := (@op T).
  Notation res := (@res T).

  (* operations that the specification answers without changing the abstract state *)
  Definition silent (o : op) : bool :=
    match o with OHash _ | OParHash _ _ | OParMix _ _ | ORebaseOn _ _ => true | _ => false end.
  (* normal form of a history: silent operations removed, self-deduplication replaced by a flush *)
  Fixpoint norm (os : list op) : list op :=
    match os with
    | [] => []
    | o :: r => if silent o then norm r else (match o with OIntra i => OApply i | _ => o end) :: norm r
    end.
  (* the answers to the non-silent operations *)
  Fixpoint norm_res (os : list op) (rs : list res) : list res :=
    match os, rs with
    | o :: os', r :: rs' => if silent o then norm_res os' rs' else r :: norm_res os' rs'
    | _, _ => []
    end.

  (* the three special cases *)
  Definition is_hash (o : op) : bool :=
    match o with OHash _ | OParHash _ _ | OParMix _ _ => true | _ => false end.
  Definition is_rebase_on (o : op) : bool :=
    match o with ORebaseOn _ _ => true | _ => false end.
  Definition intra_to_apply (o : op) : op :=
    match o with OIntra i => OApply i | _ => o end.
  (* the history without its root computations *)
  Definition drop_hashes (os : list op) : list op := filter (fun o => negb (is_hash o)) os.
  (* the history without its in-place rebases *)
  Definition drop_rebases (os : list op) : list op := filter (fun o => negb (is_rebase_on o)) os.
  (* the history with a plain flush in place of every self-deduplication *)
  Definition flush_intras (os : list op) : list op := map intra_to_apply os.

  Lemma norm_filter_silent (f : op -> bool) os :
    (forall o, f o = false -> silent o = true) -> norm (filter f os) = norm os.
  Proof.
    intros Hf. induction os as [|o os IH]; cbn [filter norm]; [reflexivity|].
    destruct (f o) eqn:Ef.
    - cbn [norm]. rewrite IH. reflexivity.
    - rewrite (Hf o Ef). exact IH.
  Qed.
  Lemma norm_drop_hashes os : norm (drop_hashes os) = norm os.
  Proof. apply norm_filter_silent. intros o. destruct o; cbn [is_hash negb silent]; congruence. Qed.
  Lemma norm_drop_rebases os : norm (drop_rebases os) = norm os.
  Proof. apply norm_filter_silent. intros o. destruct o; cbn [is_rebase_on negb silent]; congruence. Qed.
  Lemma norm_flush_intras os : norm (flush_intras os) = norm os.
  Proof.
    induction os as [|o os IH]; cbn [flush_intras map norm]; [reflexivity|]. fold (flush_intras os). rewrite IH.
    destruct o; reflexivity.
  Qed.
  Lemma norm_idem os : norm (norm os) = norm os.
  Proof.
    induction os as [|o os IH]; cbn [norm]; [reflexivity|].
    destruct (silent o) eqn:Es; [exact IH|]. destruct o; cbn [silent] in Es; try discriminate Es; cbn [norm silent]; rewrite IH; reflexivity.
  Qed.

  Lemma Forall_filter {A} (P : A -> Prop) (f : A -> bool) l : Forall P l -> Forall P (filter f l).
  Proof.
    induction 1 as [|x l Hx Hl IH]; cbn [filter]; [constructor|]. destruct (f x); [constructor; assumption|exact IH].
  Qed.
  Lemma Forall_filter_app {A} (P : A -> Prop) (f : A -> bool) l k : Forall P (l ++ k) -> Forall P (filter f l ++ k).
  Proof.
    intros F. apply Forall_app in F. destruct F as [Fl Fk]. apply Forall_app. split; [apply Forall_filter; exact Fl|exact Fk].
  Qed.

  (* decoding an input below 4 GiB satisfies the side condition of the theorems below *)
  Lemma det_op_decode d (b : bytes) : lenN b < 2 ^ 32 -> det_op (OSszList d b : op) = true /\ det_op (OSszVec d b : op) = true.
  Proof. intros Hlt. cbn [det_op]. split; apply N.ltb_lt; exact Hlt. Qed.

  (* determinism of the specification survives normalisation *)
  Lemma norm_det os : Forall (fun o : op => det_op o = true) os -> Forall (fun o : op => det_op o = true) (norm os).
  Proof.
    induction 1 as [|o os Ho Hos IH]; cbn [norm]; [constructor|]. destruct (silent o); [exact IH|].
    constructor; [|exact IH]. destruct o; exact Ho.
  Qed.
End Norm.

(* ====================================================================================== *)
(* the theorems                                                                              *)
(* ====================================================================================== *)
Section Invisible.
  Context {T U : Type}.
  Variable ek : ekind T.
  Variable M : umap_impl T U.
  Variable H : digest -> digest -> digest.
  Variable capN : N.
  Variable vec_based : bool.
  Variable uinv : U -> Prop.
  Variable valid : T -> Prop.
  Hypothesis EKW : ek_wf ek.
  Hypothesis UL : umap_lawful ek M uinv.
  Hypothesis CAP : capacity_ok capN.
  Hypothesis CF : collision_free H.
  Hypothesis TRI : troot_inj ek.
  Hypothesis ECO : ek_codec_on ek valid.
  Notation sregs := (@sregs T).
  Notation res := (@res T).
  Notation op := (@op T).
  Notation SysInv := (SysInv ek M H capN uinv).
  Notation spec_ok := (spec_ok ek H capN vec_based valid).
  Notation spec_run := (spec_run ek H capN vec_based valid).
  Notation spec_run_det := (spec_run_det ek H capN vec_based valid).
  Notation model_run := (model_run ek M H capN vec_based).
  Notation op_ok := (op_ok ek valid).

  (* ---------- 1. silent operations leave the abstract state alone (also when they answer an error) ---------- *)
  Lemma spec_silent (a : sregs) (o : op) (r : res) (a' : sregs) : silent o = true -> spec_ok a o r a' -> a' = a.
  Proof.
    intros Hsil Hs. destruct o; cbn [silent] in Hsil; try discriminate Hsil; cbn [Spec.spec_ok] in Hs;
      unfold with_reg, Spec.bad in Hs; spec_inv; subst; reflexivity.
  Qed.

  (* ---------- 2. self-deduplication is specified exactly like a flush ---------- *)
  Lemma spec_intra_apply (a : sregs) i (r : res) (a' : sregs) : spec_ok a (OIntra i) r a' <-> spec_ok a (OApply i) r a'.
  Proof. cbn [Spec.spec_ok]. reflexivity. Qed.

  (* ---------- 3. an abstract run of a history is an abstract run of its normal form ---------- *)
  Lemma spec_run_norm (a : sregs) os rs a' : spec_run a os rs a' -> spec_run a (norm os) (norm_res os rs) a'.
  Proof.
    induction 1 as [a|a o r a1 os rs a2 Hs Hr IH]; cbn [norm norm_res]; [constructor|].
    destruct (silent o) eqn:Es.
    - rewrite (spec_silent a o r a1 Es Hs) in IH. exact IH.
    - econstructor; [|exact IH]. destruct o; exact Hs.
  Qed.

  Lemma spec_run_app_inv os : forall (a : sregs) k rs a', spec_run a (os ++ k) rs a' ->
    exists rs1 rs2 am, rs = rs1 ++ rs2 /\ length rs1 = length os /\ spec_run a os rs1 am /\ spec_run am k rs2 a'.
  Proof.
    induction os as [|o os IH]; intros a k rs a' R; cbn [app] in R.
    - exists [], rs, a. split; [reflexivity|]. split; [reflexivity|]. split; [constructor|exact R].
    - inversion R as [|a0 o0 r a1 os0 rs0 a2 Hs Hr]; subst.
      destruct (IH a1 k rs0 a' Hr) as (rs1 & rs2 & am & -> & L & R1 & R2).
      exists (r :: rs1), rs2, am. split; [reflexivity|]. split; [cbn [length]; congruence|].
      split; [econstructor; eassumption|exact R2].
  Qed.

  (* ---------- 4. the side conditions survive normalisation ---------- *)
  Lemma op_ok_intra_to_apply (o : op) : op_ok o -> op_ok (intra_to_apply o).
  Proof. intros Ho. destruct o; exact Ho. Qed.
  Lemma norm_op_ok os : Forall op_ok os -> Forall op_ok (norm os).
  Proof.
    induction 1 as [|o os Ho Hos IH]; cbn [norm]; [constructor|]. destruct (silent o); [exact IH|].
    constructor; [|exact IH]. apply (op_ok_intra_to_apply o Ho).
  Qed.
  Lemma flush_intras_op_ok os : Forall op_ok os -> Forall op_ok (flush_intras os).
  Proof. induction 1 as [|o os Ho Hos IH]; cbn [flush_intras map]; constructor; [apply op_ok_intra_to_apply; exact Ho|exact IH]. Qed.

  (* ---------- 5. the main theorem ---------- *)
  (* os1 and os2 are two histories with the same normal form, k any common continuation.
     First with the abstract runs that the answers follow (used by the closed example below) ... *)
  Lemma silent_ops_invisible_spec os1 os2 k :
    norm os1 = norm os2 ->
    Forall op_ok (os1 ++ k) -> Forall op_ok (os2 ++ k) ->
    Forall (fun o => det_op o = true) (os1 ++ k) ->
    exists rs1 ks1 s1 st1 a1 rs2 ks2 s2 st2 a2 am,
      model_run init_sys init_state (os1 ++ k) = Some (rs1 ++ ks1, s1, st1) /\
      model_run init_sys init_state (os2 ++ k) = Some (rs2 ++ ks2, s2, st2) /\
      length rs1 = length os1 /\ length rs2 = length os2 /\
      norm_res os1 rs1 = norm_res os2 rs2 /\
      ks1 = ks2 /\
      a1 = a2 /\
      SysInv st1 s1 a1 /\ SysInv st2 s2 a2 /\
      spec_run init_sregs (norm os1) (norm_res os1 rs1) am /\ spec_run am k ks1 a1.
  Proof.
    intros En Ok1 Ok2 Hd.
    destruct (run_refines ek M H capN vec_based uinv valid EKW UL CAP CF TRI ECO _ Ok1) as (r1 & s1 & st1 & a1 & E1 & R1 & I1 & _).
    destruct (run_refines ek M H capN vec_based uinv valid EKW UL CAP CF TRI ECO _ Ok2) as (r2 & s2 & st2 & a2 & E2 & R2 & I2 & _).
    destruct (spec_run_app_inv _ _ _ _ _ R1) as (rs1 & ks1 & am1 & -> & L1 & P1 & K1).
    destruct (spec_run_app_inv _ _ _ _ _ R2) as (rs2 & ks2 & am2 & -> & L2 & P2 & K2).
    apply Forall_app in Hd. destruct Hd as [Hd1 Hdk].
    pose proof (spec_run_norm _ _ _ _ P1) as N1. pose proof (spec_run_norm _ _ _ _ P2) as N2. rewrite <- En in N2.
    destruct (spec_run_det_unique ek H capN vec_based valid _ _ _ _
                (spec_run_det_of ek H capN vec_based valid _ _ _ _ (norm_det _ Hd1) N1) _ _ N2) as [Er Ea].
    subst am2.
    destruct (spec_run_det_unique ek H capN vec_based valid _ _ _ _
                (spec_run_det_of ek H capN vec_based valid _ _ _ _ Hdk K1) _ _ K2) as [Ek Ea].
    exists rs1, ks1, s1, st1, a1, rs2, ks2, s2, st2, a2, am1.
    do 7 (split; [assumption|]). split; [exact I1|]. split; [exact I2|]. split; [exact N1|exact K1].
  Qed.

  (* ... and as announced *)
  Theorem silent_ops_invisible os1 os2 k :
    norm os1 = norm os2 ->
    Forall op_ok (os1 ++ k) -> Forall op_ok (os2 ++ k) ->
    Forall (fun o => det_op o = true) (os1 ++ k) ->
    exists rs1 ks1 s1 st1 a1 rs2 ks2 s2 st2 a2,
      model_run init_sys init_state (os1 ++ k) = Some (rs1 ++ ks1, s1, st1) /\
      model_run init_sys init_state (os2 ++ k) = Some (rs2 ++ ks2, s2, st2) /\
      length rs1 = length os1 /\ length rs2 = length os2 /\
      norm_res os1 rs1 = norm_res os2 rs2 /\      (* every non-silent operation of the prefix is answered identically *)
      ks1 = ks2 /\                                (* every later operation (reads, roots, writes, ...) is answered identically *)
      a1 = a2 /\                                  (* and the abstract contents of all registers agree at the end *)
      SysInv st1 s1 a1 /\ SysInv st2 s2 a2.
  Proof.
    intros En Ok1 Ok2 Hd.
    destruct (silent_ops_invisible_spec os1 os2 k En Ok1 Ok2 Hd)
      as (rs1 & ks1 & s1 & st1 & a1 & rs2 & ks2 & s2 & st2 & a2 & am & E1 & E2 & L1 & L2 & Er & Ek & Ea & I1 & I2 & _).
    exists rs1, ks1, s1, st1, a1, rs2, ks2, s2, st2, a2.
    do 7 (split; [assumption|]). split; [exact I1|exact I2].
  Qed.

  (* the conclusion of the main theorem, for the corollaries: both histories run to completion, with *)
  Definition same_behaviour (os1 os2 k : list op) : Prop :=
    exists rs1 ks1 s1 st1 a1 rs2 ks2 s2 st2 a2,
      model_run init_sys init_state (os1 ++ k) = Some (rs1 ++ ks1, s1, st1) /\
      model_run init_sys init_state (os2 ++ k) = Some (rs2 ++ ks2, s2, st2) /\
      length rs1 = length os1 /\ length rs2 = length os2 /\
      norm_res os1 rs1 = norm_res os2 rs2 /\
      ks1 = ks2 /\
      a1 = a2 /\
      SysInv st1 s1 a1 /\ SysInv st2 s2 a2.

  (* ---------- 6. corollaries ---------- *)
  (* C03: removing (read right to left: adding) root computations anywhere, on any handle, changes no
     other answer — in particular no later root — and no content *)
  Corollary hash_invisible os k :
    Forall op_ok (os ++ k) -> Forall (fun o => det_op o = true) (os ++ k) ->
    same_behaviour os (drop_hashes os) k.
  Proof.
    intros Hok Hd. apply silent_ops_invisible; [symmetry; apply norm_drop_hashes|exact Hok| |exact Hd].
    apply Forall_filter_app. exact Hok.
  Qed.

  (* an instance with a decoded handle: whether or not the root of a freshly decoded list is computed, its
     re-encoding and everything later are answered identically *)
  Corollary hash_invisible_decode d (b : bytes) k : valid_bytes b = true -> lenN b < 2 ^ 32 ->
    Forall op_ok k -> Forall (fun o => det_op o = true) k ->
    same_behaviour [OSszList d b; OHash d; OSszEnc d] [OSszList d b; OSszEnc d] k.
  Proof.
    intros Hb Hlt Hok Hd.
    apply (hash_invisible [OSszList d b; OHash d; OSszEnc d] k).
    - apply Forall_app. split; [|exact Hok].
      repeat constructor; try exact Hb; exact I.
    - apply Forall_app. split; [|exact Hd].
      constructor; [apply (@det_op_decode T d b Hlt)|]. repeat constructor.
  Qed.

  (* C07: all other and all later operations behave as if no rebase had happened *)
  Corollary rebase_invisible os k :
    Forall op_ok (os ++ k) -> Forall (fun o => det_op o = true) (os ++ k) ->
    same_behaviour os (drop_rebases os) k.
  Proof.
    intros Hok Hd. apply silent_ops_invisible; [symmetry; apply norm_drop_rebases|exact Hok| |exact Hd].
    apply Forall_filter_app. exact Hok.
  Qed.

  (* C09: a history with self-deduplications behaves exactly like the history that merely flushes instead *)
  Corollary intra_is_flush os k :
    Forall op_ok (os ++ k) -> Forall (fun o => det_op o = true) (os ++ k) ->
    same_behaviour os (flush_intras os) k.
  Proof.
    intros Hok Hd. apply silent_ops_invisible; [symmetry; apply norm_flush_intras|exact Hok| |exact Hd].
    apply Forall_app in Hok. destruct Hok as [Ho Hk]. apply Forall_app. split; [apply flush_intras_op_ok; exact Ho|exact Hk].
  Qed.
End Invisible.

(* ====================================================================================== *)
(* 7. non-vacuity: a closed instance (packed u64 lists of capacity 7 over MaxMap<VecMap>, hash Hc) *)
(* ====================================================================================== *)
(* inversion of an abstract run of a concrete history, one step at a time *)
Ltac spec_step :=
  match goal with
  | R : spec_run _ _ _ _ _ _ (_ :: _) _ _ |- _ =>
      let Hs := fresh "Hs" in let R' := fresh "R" in
      inversion R as [|? ? ? ? ? ? ? Hs R']; subst; clear R;
      cbn -[ssz_root hints_from] in Hs;
      repeat match type of Hs with _ /\ _ => let E := fresh "E" in destruct Hs as [E Hs]; try subst end; try subst
  | R : spec_run _ _ _ _ _ _ [] _ _ |- _ => inversion R; subst; clear R
  end.

(* all hypotheses of the main theorem hold for this pair of histories; moreover the common answers are
   the expected ones: in particular the root requested after the self-deduplication is the SSZ root of
   the written list (not EPending), and the iteration yields the written list *)
Example invisible_u64 (v1 v2 v3 v : U64) :
  let os1 := [ONewList 0 [v1; v2; v3]; OHash 0; OSet 0 1 v; OApply 0; OHash 0; OClone 0 1; ORebaseOn 1 0; OIntra 1] in
  let os2 := [ONewList 0 [v1; v2; v3]; OSet 0 1 v; OApply 0; OClone 0 1; OApply 1] in
  let k := [OHash 1; OIterFrom 1 0] in
  norm os1 = os2 /\
  exists rs1 ks1 s1 st1 a1 rs2 ks2 s2 st2 a2,
    model_run (ek_uintW 3) Mmv Hc 7 false init_sys init_state (os1 ++ k) = Some (rs1 ++ ks1, s1, st1) /\
    model_run (ek_uintW 3) Mmv Hc 7 false init_sys init_state (os2 ++ k) = Some (rs2 ++ ks2, s2, st2) /\
    length rs1 = length os1 /\ length rs2 = length os2 /\
    norm_res os1 rs1 = norm_res os2 rs2 /\
    ks1 = ks2 /\
    a1 = a2 /\
    SysInv (ek_uintW 3) Mmv Hc 7 mv_inv st1 s1 a1 /\ SysInv (ek_uintW 3) Mmv Hc 7 mv_inv st2 s2 a2 /\
    norm_res os1 rs1 = [ROk; RSome true; ROk; ROk; ROk] /\
    ks1 = [RHash (ssz_root (ek_uintW 3) Hc true 7 [v1; v; v3]); RIter [v1; v; v3] (hints_from 3)].
Proof.
  intros os1 os2 k. split; [reflexivity|].
  destruct (silent_ops_invisible_spec (ek_uintW 3) Mmv Hc 7 false mv_inv (fun _ => True) ek_u64W_wf Mmv_lawful capacity_ok_7
              Hc_collision_free (ek_uintW_troot_inj 3) (ek_uintW_codec_on 3) os1 os2 k)
    as (rs1 & ks1 & s1 & st1 & a1 & rs2 & ks2 & s2 & st2 & a2 & am & E1 & E2 & L1 & L2 & Er & Ek & Ea & I1 & I2 & N1 & K1).
  - reflexivity.
  - apply op_ok_plain. repeat constructor.
  - apply op_ok_plain. repeat constructor.
  - repeat constructor.
  - exists rs1, ks1, s1, st1, a1, rs2, ks2, s2, st2, a2.
    do 7 (split; [assumption|]). split; [exact I1|]. split; [exact I2|].
    assert (A : forall nr am', spec_run (ek_uintW 3) Hc 7 false (fun _ => True) init_sregs (norm os1) nr am' ->
                spec_run (ek_uintW 3) Hc 7 false (fun _ => True) am' k ks1 a1 ->
                nr = [ROk; RSome true; ROk; ROk; ROk] /\
                ks1 = [RHash (ssz_root (ek_uintW 3) Hc true 7 [v1; v; v3]); RIter [v1; v; v3] (hints_from 3)]).
    { clear. intros nr am' N1 K1. revert K1. subst os1 k. cbn [norm silent] in N1.
      repeat spec_step. intros K1. repeat spec_step. split; reflexivity. }
    exact (A _ _ N1 K1).
Qed.

Print Assumptions spec_silent.
Print Assumptions spec_intra_apply.
Print Assumptions spec_run_norm.
Print Assumptions spec_run_app_inv.
Print Assumptions norm_op_ok.
Print Assumptions norm_det.
Print Assumptions silent_ops_invisible_spec.
Print Assumptions silent_ops_invisible.
Print Assumptions hash_invisible.
Print Assumptions det_op_decode.
Print Assumptions hash_invisible_decode.
Print Assumptions rebase_invisible.
Print Assumptions intra_is_flush.
Print Assumptions invisible_u64.
