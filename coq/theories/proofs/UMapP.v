(* UMapP.v — the three UpdateMap implementations of model/UMap.v (VecMap, BTreeMap, MaxMap<M>)
   satisfy the laws `umap_lawful` of Defs.v.  Proofs only; no model code.

   Route: for VecMap and BTreeMap `umax_index` is the true largest key.  That is captured by the
   predicate `is_max (uget M u) (umax_index M u)`, which determines its second argument; the four
   laws about the maximum then follow, once and for all (`lawful_of_is_max`), from the laws of
   `uget`.  MaxMap<M> is different (max_key is raised by `insert` only) and is proved directly from
   the laws of the inner map. *)
From MH Require Import Defs.
Local Open Scope N_scope.

(* ------------------------------------------------------------------------------------------ *)
(* generic part: the largest key of a finite partial function                                   *)
(* ------------------------------------------------------------------------------------------ *)
Section IsMax.
  Context {T : Type}.
  Definition is_max (g : N -> option T) (mo : option N) : Prop :=
    match mo with
    | None => forall k, g k = None
    | Some m => g m <> None /\ forall j, m < j -> g j = None
    end.

  Lemma is_max_fun g a b : is_max g a -> is_max g b -> a = b.
  Proof.
    destruct a as [a|], b as [b|]; cbn [is_max]; intros Ha Hb; auto.
    - destruct Ha as [Ha1 Ha2], Hb as [Hb1 Hb2]. f_equal.
      destruct (N.lt_trichotomy a b) as [L|[E|L]]; auto.
      + now apply Ha2 in L. + now apply Hb2 in L.
    - destruct Ha as [Ha1 _]. now rewrite Hb in Ha1.
    - destruct Hb as [Hb1 _]. now rewrite Ha in Hb1.
  Qed.

  (* is_max only looks at which keys are present *)
  Lemma is_max_ext g g' mo : (forall k, g k = None <-> g' k = None) -> is_max g mo -> is_max g' mo.
  Proof.
    intros He. destruct mo as [m|]; cbn [is_max].
    - intros [Hm1 Hm2]. split. { intros Hc. apply Hm1. now apply He. } intros j Hj. apply He. auto.
    - intros Hn k. apply He. auto.
  Qed.

  (* the maximum after adding the key k *)
  Lemma is_max_add g g' k mo mo' :
    (forall j, g' j = None <-> (j <> k /\ g j = None)) ->
    is_max g mo -> is_max g' mo' ->
    exists m', mo' = Some m' /\ k <= m' /\ (forall m, mo = Some m -> m <= m') /\ (m' = k \/ mo = Some m').
  Proof.
    intros Hg Hmo Hmo'. destruct mo' as [m'|]; cbn [is_max] in Hmo'.
    2:{ exfalso. specialize (Hmo' k). apply Hg in Hmo'. now destruct Hmo'. }
    destruct Hmo' as [Hp Ha]. exists m'. split; [reflexivity|].
    assert (k <= m') as Hk.
    { destruct (N.le_gt_cases k m') as [L|L]; auto. apply Ha in L. apply Hg in L. now destruct L. }
    split; [exact Hk|]. split.
    - intros m ->. cbn [is_max] in Hmo. destruct Hmo as [Hm1 _].
      destruct (N.le_gt_cases m m') as [L|L]; auto. apply Ha in L. apply Hg in L. now destruct L.
    - destruct (N.eq_dec m' k) as [E|E]; [now left|right].
      apply (is_max_fun g); auto. cbn [is_max]. split.
      + intros Hc. apply Hp. apply Hg. auto.
      + intros j Hj. apply Ha in Hj as Hj'. apply Hg in Hj'. tauto.
  Qed.
End IsMax.

Section Generic.
  Context {T U : Type}.
  Variable ek : ekind T.
  Variable M : umap_impl T U.
  Variable uinv : U -> Prop.

  Hypothesis g_empty_inv : uinv (uempty M).
  Hypothesis g_empty_get : forall k, uget M (uempty M) k = None.
  Hypothesis g_insert_inv : forall u k v, uinv u -> uinv (uinsert M u k v).
  Hypothesis g_insert_get : forall u k v j, uinv u -> uget M (uinsert M u k v) j = if j =? k then Some v else uget M u j.
  Hypothesis g_entry_inv : forall u k v, uinv u -> uinv (uentry_insert M u k v).
  Hypothesis g_entry_get : forall u k v j, uinv u -> uget M (uentry_insert M u k v) j = if j =? k then Some v else uget M u j.
  Hypothesis g_range_sorted : forall u s e, uinv u -> StronglySorted (fun a b => fst a < fst b) (urange M u s e).
  Hypothesis g_range_in : forall u s e k v, uinv u -> (In (k, v) (urange M u s e) <-> (s <= k /\ k < e /\ uget M u k = Some v)).
  Hypothesis g_len_0 : forall u, uinv u -> (ulen M u = 0 <-> forall k, uget M u k = None).
  Hypothesis g_is_max : forall u, uinv u -> is_max (uget M u) (umax_index M u).
  Hypothesis g_eqb_empty : forall u1 u2, uinv u1 -> uinv u2 -> ulen M u1 = 0 -> ulen M u2 = 0 -> ueqb M (eeqb ek) u1 u2 = true.

  Lemma add_None (g' g : N -> option T) k v :
    (forall j, g' j = if j =? k then Some v else g j) ->
    forall j, g' j = None <-> (j <> k /\ g j = None).
  Proof.
    intros Hg j. rewrite Hg. destruct (N.eqb_spec j k) as [E|E].
    - split; [discriminate|]. intros [Hc _]. now elim Hc.
    - tauto.
  Qed.

  Theorem lawful_of_is_max : umap_lawful ek M uinv.
  Proof.
    constructor; auto.
    - (* max_none *)
      intros u Hu. rewrite g_len_0 by auto. pose proof (g_is_max u Hu) as Hm.
      destruct (umax_index M u) as [m|]; cbn [is_max] in Hm.
      + split; [discriminate|]. intros Hn. destruct Hm as [Hm _]. now rewrite Hn in Hm.
      + tauto.
    - (* max_insert *)
      intros u k v Hu.
      apply (is_max_add (uget M u) (uget M (uinsert M u k v)) k); auto.
      apply (add_None _ _ k v). intros j. now apply g_insert_get.
    - (* max_entry *)
      intros u k v Hu.
      destruct (is_max_add (uget M u) (uget M (uentry_insert M u k v)) k (umax_index M u)
                  (umax_index M (uentry_insert M u k v))) as (m' & E1 & E2 & E3 & E4); auto.
      { apply (add_None _ _ k v). intros j. now apply g_entry_get. }
      exists m'. split; [exact E1|]. split; [exact E3|].
      destruct E4 as [-> | ->]; lia.
    - (* max_entry_same *)
      intros u k v Hu Hk. apply (is_max_fun (uget M u)); auto.
      apply (is_max_ext (uget M (uentry_insert M u k v))); auto.
      intros j. rewrite g_entry_get by auto. destruct (N.eqb_spec j k) as [-> |E]; [|tauto].
      split; [discriminate|]. intros Hc. now elim Hk.
  Qed.
End Generic.

(* ------------------------------------------------------------------------------------------ *)
(* a few list facts                                                                            *)
(* ------------------------------------------------------------------------------------------ *)
Section Aux.
  Context {A : Type}.
  Lemma nthN_repeatN (x : A) n k : nthN (repeatN x n) k = if k <? n then Some x else None.
  Proof.
    rewrite nthN_nth_error, repeatN_spec. destruct (N.ltb_spec k n) as [L|L].
    - apply nth_error_repeat. lia.
    - apply nth_error_None. rewrite repeat_length. lia.
  Qed.
  Lemma nthN_cons (x : A) l k : nthN (x :: l) k = if k =? 0 then Some x else nthN l (N.pred k).
  Proof. reflexivity. Qed.
  Lemma nthN_cons_succ (x : A) l k : nthN (x :: l) (k + 1) = nthN l k.
  Proof.
    cbn [nthN]. destruct (N.eqb_spec (k + 1) 0) as [E|E]; [lia|]. f_equal. lia.
  Qed.
  Lemma no_In_nil (l : list A) : (forall x, ~ In x l) -> l = [].
  Proof. destruct l as [|x l]; auto. intros Hn. elim (Hn x). now left. Qed.
End Aux.

(* ------------------------------------------------------------------------------------------ *)
(* VecMap                                                                                      *)
(* ------------------------------------------------------------------------------------------ *)
Section VecMap.
  Context {T : Type}.
  Variable ek : ekind T.
  Implicit Types m : vecmap T.

  Lemma vm_get_nil k : vm_get (@nil (option T)) k = None.
  Proof. reflexivity. Qed.
  Lemma vm_get_cons_0 x m : vm_get (x :: m) 0 = x.
  Proof. unfold vm_get. cbn. now destruct x. Qed.
  Lemma vm_get_cons_succ x m k : vm_get (x :: m) (k + 1) = vm_get m k.
  Proof. unfold vm_get. now rewrite nthN_cons_succ. Qed.
  Lemma vm_get_ge m k : lenN m <= k -> vm_get m k = None.
  Proof. intros Hk. unfold vm_get. apply nthN_None in Hk. now rewrite Hk. Qed.

  Lemma vm_get_insert m k v j : vm_get (vm_insert m k v) j = if j =? k then Some v else vm_get m j.
  Proof.
    unfold vm_insert, vm_get. destruct (N.ltb_spec k (lenN m)) as [L|L].
    - rewrite nthN_setN. destruct (N.eqb_spec j k) as [-> |E]; cbn [andb].
      + destruct (N.ltb_spec k (lenN m)); [reflexivity|lia].
      + reflexivity.
    - destruct (N.lt_ge_cases j (lenN m)) as [Lj|Lj].
      { rewrite nthN_app_l by auto. destruct (N.eqb_spec j k); [lia|reflexivity]. }
      rewrite nthN_app_r by auto.
      assert (nthN m j = None) as -> by now apply nthN_None.
      destruct (N.lt_ge_cases j k) as [Ljk|Ljk].
      { rewrite nthN_app_l by (rewrite lenN_repeatN; lia). rewrite nthN_repeatN.
        destruct (N.ltb_spec (j - lenN m) (k - lenN m)); [|lia].
        destruct (N.eqb_spec j k); [lia|reflexivity]. }
      rewrite nthN_app_r by (rewrite lenN_repeatN; lia). rewrite lenN_repeatN.
      destruct (N.eqb_spec j k) as [-> |E].
      + replace (k - lenN m - (k - lenN m)) with 0 by lia. reflexivity.
      + cbn [nthN]. destruct (N.eqb_spec (j - lenN m - (k - lenN m)) 0); [lia|reflexivity].
  Qed.

  Lemma vm_range_aux_in : forall m idx s e k v,
    In (k, v) (vm_range_aux m idx s e) <-> (s <= k /\ k < e /\ idx <= k /\ vm_get m (k - idx) = Some v).
  Proof.
    induction m as [|x m IH]; intros idx s e k v; cbn [vm_range_aux].
    { rewrite vm_get_nil. cbn [In]. split; [tauto|]. intros (_ & _ & _ & Hc). discriminate. }
    destruct (N.leb_spec e idx) as [Le|Le].
    { cbn [In]. split; [tauto|]. intros (_ & Hk & Hi & _). lia. }
    assert (In (k, v) (vm_range_aux m (idx + 1) s e) <->
            (s <= k /\ k < e /\ idx < k /\ vm_get (x :: m) (k - idx) = Some v)) as Hrest.
    { rewrite IH. split.
      - intros (H1 & H2 & H3 & H4). repeat split; auto; [lia|].
        replace (k - idx) with (k - (idx + 1) + 1) by lia. now rewrite vm_get_cons_succ.
      - intros (H1 & H2 & H3 & H4). repeat split; auto; [lia|].
        replace (k - idx) with (k - (idx + 1) + 1) in H4 by lia. now rewrite vm_get_cons_succ in H4. }
    assert (forall P : Prop, (P <-> (s <= k /\ k < e /\ idx < k /\ vm_get (x :: m) (k - idx) = Some v)) ->
            (x = None \/ s > idx) ->
            (P <-> (s <= k /\ k < e /\ idx <= k /\ vm_get (x :: m) (k - idx) = Some v))) as Hskip.
    { intros P HP Hx. rewrite HP. split.
      - intros (H1 & H2 & H3 & H4). repeat split; auto. lia.
      - intros (H1 & H2 & H3 & H4). repeat split; auto.
        destruct (N.eq_dec idx k) as [<-|E]; [|lia]. exfalso.
        rewrite N.sub_diag, vm_get_cons_0 in H4. destruct Hx as [-> |Hx]; [discriminate|lia]. }
    destruct x as [w|].
    - destruct (N.leb_spec s idx) as [Ls|Ls].
      + cbn [In]. rewrite Hrest. split.
        * intros [E|(H1 & H2 & H3 & H4)].
          -- injection E as <- <-. rewrite N.sub_diag, vm_get_cons_0. repeat split; auto; lia.
          -- repeat split; auto. lia.
        * intros (H1 & H2 & H3 & H4). destruct (N.eq_dec idx k) as [<-|E].
          -- left. rewrite N.sub_diag, vm_get_cons_0 in H4. now injection H4 as ->.
          -- right. repeat split; auto. lia.
      + apply Hskip; auto. right. lia.
    - apply Hskip; auto.
  Qed.

  Lemma vm_range_aux_sorted : forall m idx s e,
    StronglySorted (fun a b : N * T => fst a < fst b) (vm_range_aux m idx s e).
  Proof.
    induction m as [|x m IH]; intros idx s e; cbn [vm_range_aux]; [constructor|].
    destruct (e <=? idx); [constructor|].
    destruct x as [w|]; [|apply IH]. destruct (s <=? idx); [|apply IH].
    constructor; [apply IH|]. apply Forall_forall. intros [k v] Hin.
    apply vm_range_aux_in in Hin. cbn [fst]. lia.
  Qed.

  Lemma vm_len_0 : forall m, vm_len m = 0 <-> forall k, vm_get m k = None.
  Proof.
    induction m as [|x m IH]; cbn [vm_len].
    { split; auto. }
    destruct x as [w|].
    - split; [lia|]. intros Hn. specialize (Hn 0). rewrite vm_get_cons_0 in Hn. discriminate.
    - rewrite IH. split.
      + intros Hn k. destruct (N.eq_dec k 0) as [-> |E]; [apply vm_get_cons_0|].
        replace k with (k - 1 + 1) by lia. rewrite vm_get_cons_succ. apply Hn.
      + intros Hn k. rewrite <- (vm_get_cons_succ None). apply Hn.
  Qed.

  Lemma vm_max_aux_spec : forall m idx acc,
    (vm_max_aux m idx acc = acc /\ forall j, vm_get m j = None) \/
    (exists j, vm_max_aux m idx acc = Some (idx + j) /\ vm_get m j <> None /\ forall j', j < j' -> vm_get m j' = None).
  Proof.
    induction m as [|x m IH]; intros idx acc; cbn [vm_max_aux].
    { left. split; auto. }
    destruct (IH (idx + 1) (match x with Some _ => Some idx | None => acc end)) as [[E Hn]|(j & E & Hj & Hn)].
    - destruct x as [w|].
      + right. exists 0. rewrite E, N.add_0_r. split; [reflexivity|]. split.
        * rewrite vm_get_cons_0. discriminate.
        * intros j' Hj'. replace j' with (j' - 1 + 1) by lia. rewrite vm_get_cons_succ. apply Hn.
      + left. split; [exact E|]. intros j. destruct (N.eq_dec j 0) as [-> |Ej]; [apply vm_get_cons_0|].
        replace j with (j - 1 + 1) by lia. rewrite vm_get_cons_succ. apply Hn.
    - right. exists (j + 1). rewrite E. split; [f_equal; lia|]. split.
      + now rewrite vm_get_cons_succ.
      + intros j' Hj'. replace j' with (j' - 1 + 1) by lia. rewrite vm_get_cons_succ. apply Hn. lia.
  Qed.

  Lemma vm_is_max m : is_max (vm_get m) (vm_max_aux m 0 None).
  Proof.
    destruct (vm_max_aux_spec m 0 None) as [[E Hn]|(j & E & Hj & Hn)]; rewrite E; cbn [is_max]; auto.
  Qed.

  Lemma vm_range_empty m s e : vm_len m = 0 -> vm_range m s e = [].
  Proof.
    intros Hl. apply no_In_nil. intros [k v] Hin. unfold vm_range in Hin.
    apply vm_range_aux_in in Hin. destruct Hin as (_ & _ & _ & Hg).
    rewrite (proj1 (vm_len_0 m) Hl) in Hg. discriminate.
  Qed.

  Theorem vecmap_lawful : umap_lawful ek (@vecmap_impl T) (fun _ => True).
  Proof.
    apply lawful_of_is_max; cbn [vecmap_impl uempty uget uinsert uentry_insert urange umax_index ulen ueqb]; auto.
    - intros u k v j _. apply vm_get_insert.
    - intros u k v j _. apply vm_get_insert.
    - intros u s e _. apply vm_range_aux_sorted.
    - intros u s e k v _. unfold vm_range. rewrite vm_range_aux_in, N.sub_0_r.
      split; [tauto|]. intros (H1 & H2 & H3). repeat split; auto. lia.
    - intros u _. apply vm_len_0.
    - intros u _. apply vm_is_max.
    - intros u1 u2 _ _ H1 H2. rewrite H1, H2, !vm_range_empty by auto. reflexivity.
  Qed.
End VecMap.

(* ------------------------------------------------------------------------------------------ *)
(* BTreeMap                                                                                    *)
(* ------------------------------------------------------------------------------------------ *)
Section BTMap.
  Context {T : Type}.
  Variable ek : ekind T.
  Implicit Types m : btmap T.

  Definition bt_sorted (m : btmap T) : Prop := StronglySorted (fun a b => fst a < fst b) m.

  Lemma bt_sorted_inv a m : bt_sorted (a :: m) -> bt_sorted m /\ forall b, In b m -> fst a < fst b.
  Proof.
    intros Hs. apply StronglySorted_inv in Hs. destruct Hs as [Hs Hf]. split; auto.
    apply Forall_forall. exact Hf.
  Qed.

  Lemma bt_get_cons j w m k :
    bt_get ((j, w) :: m) k = if j =? k then Some w else if k <? j then None else bt_get m k.
  Proof. reflexivity. Qed.

  (* on a sorted list bt_get is membership *)
  Lemma bt_get_In : forall m k v, bt_sorted m -> (bt_get m k = Some v <-> In (k, v) m).
  Proof.
    induction m as [|[j w] m IH]; intros k v Hs.
    { cbn. split; [discriminate|tauto]. }
    apply bt_sorted_inv in Hs. destruct Hs as [Hs Hf]. rewrite bt_get_cons. cbn [In].
    destruct (N.eqb_spec j k) as [->|E].
    - split.
      + intros E. injection E as ->. now left.
      + intros [E|Hin]; [now injection E as ->|]. apply Hf in Hin. cbn [fst] in Hin. lia.
    - destruct (N.ltb_spec k j) as [L|L].
      + split; [discriminate|]. intros [E'|Hin]; [injection E' as E' _; contradiction|].
        apply Hf in Hin. cbn [fst] in Hin. lia.
      + rewrite IH by auto. split; [tauto|]. intros [E'|Hin]; [injection E' as E' _; contradiction|auto].
  Qed.

  Lemma bt_get_insert : forall m k v j, bt_get (bt_insert m k v) j = if j =? k then Some v else bt_get m j.
  Proof.
    induction m as [|[i w] m IH]; intros k v j; cbn [bt_insert].
    { rewrite bt_get_cons. cbn [bt_get]. rewrite (N.eqb_sym j k).
      destruct (N.eqb_spec k j); auto. now destruct (j <? k). }
    destruct (N.eqb_spec i k) as [->|Eik].
    { rewrite !bt_get_cons. rewrite (N.eqb_sym j k). now destruct (N.eqb_spec k j). }
    destruct (N.ltb_spec k i) as [L|L].
    - rewrite (bt_get_cons k v). rewrite (N.eqb_sym j k). destruct (N.eqb_spec k j) as [E|E]; auto.
      destruct (N.ltb_spec j k) as [Lj|Lj]; auto. rewrite bt_get_cons.
      destruct (N.eqb_spec i j); [lia|]. destruct (N.ltb_spec j i); [reflexivity|lia].
    - rewrite !bt_get_cons. destruct (N.eqb_spec i j) as [<-|Eij].
      { destruct (N.eqb_spec i k); [contradiction|reflexivity]. }
      destruct (N.ltb_spec j i) as [Lj|Lj].
      { destruct (N.eqb_spec j k); [lia|reflexivity]. }
      apply IH.
  Qed.

  Lemma bt_insert_In : forall m k v x, In x (bt_insert m k v) -> x = (k, v) \/ In x m.
  Proof.
    induction m as [|[i w] m IH]; intros k v x; cbn [bt_insert].
    { cbn [In]. intros [<-|[]]. now left. }
    destruct (i =? k).
    { cbn [In]. intros [<-|Hin]; auto. }
    destruct (k <? i).
    { cbn [In]. intros [<-|[<-|Hin]]; auto. }
    cbn [In]. intros [<-|Hin]; auto. apply IH in Hin. tauto.
  Qed.

  Lemma bt_insert_sorted : forall m k v, bt_sorted m -> bt_sorted (bt_insert m k v).
  Proof.
    induction m as [|[i w] m IH]; intros k v Hs; cbn [bt_insert].
    { constructor; constructor. }
    pose proof (bt_sorted_inv _ _ Hs) as [Hs' Hf].
    destruct (N.eqb_spec i k) as [->|Eik].
    { constructor; auto. apply Forall_forall. intros b Hb. apply (Hf b Hb). }
    destruct (N.ltb_spec k i) as [L|L].
    { constructor; auto. apply Forall_forall. intros b [<-|Hb]; cbn [fst]; auto.
      apply Hf in Hb. cbn [fst] in Hb. lia. }
    constructor; [now apply IH|]. apply Forall_forall. intros b Hb.
    apply bt_insert_In in Hb. destruct Hb as [->|Hb]; cbn [fst]; [lia|]. apply (Hf b Hb).
  Qed.

  Lemma bt_range_In : forall m s e k v, bt_sorted m ->
    (In (k, v) (bt_range m s e) <-> (s <= k /\ k < e /\ In (k, v) m)).
  Proof.
    induction m as [|[j w] m IH]; intros s e k v Hs; cbn [bt_range].
    { cbn [In]. tauto. }
    pose proof (bt_sorted_inv _ _ Hs) as [Hs' Hf].
    assert (forall k v, In (k, v) m -> j < k) as Hf'.
    { intros k' v' Hin. apply Hf in Hin. exact Hin. }
    destruct (N.leb_spec e j) as [Le|Le].
    { cbn [In]. split; [tauto|]. intros (H1 & H2 & [E|Hin]).
      - injection E as -> _. lia. - apply Hf' in Hin. lia. }
    destruct (N.leb_spec s j) as [Ls|Ls]; cbn [In]; rewrite IH by auto.
    - split.
      + intros [E|(H1 & H2 & H3)]; [injection E as <- <-|]; repeat split; auto.
      + intros (H1 & H2 & [E|Hin]); auto.
    - split.
      + intros (H1 & H2 & H3); auto.
      + intros (H1 & H2 & [E|Hin]); auto. injection E as -> _. lia.
  Qed.

  Lemma bt_range_sorted : forall m s e, bt_sorted m -> bt_sorted (bt_range m s e).
  Proof.
    induction m as [|[j w] m IH]; intros s e Hs; cbn [bt_range]; [constructor|].
    pose proof (bt_sorted_inv _ _ Hs) as [Hs' Hf].
    destruct (e <=? j); [constructor|]. destruct (s <=? j); [|now apply IH].
    constructor; [now apply IH|]. apply Forall_forall. intros [k v] Hin.
    apply bt_range_In in Hin; auto. apply Hf. tauto.
  Qed.

  Lemma bt_get_gt a m k : fst a < k -> bt_get (a :: m) k = bt_get m k.
  Proof.
    destruct a as [j w]. cbn [fst]. intros L. rewrite bt_get_cons.
    destruct (N.eqb_spec j k); [lia|]. destruct (N.ltb_spec k j); [lia|reflexivity].
  Qed.
  Lemma bt_get_key_gt a m k : bt_sorted (a :: m) -> bt_get m k <> None -> fst a < k.
  Proof.
    intros Hs Hg. apply bt_sorted_inv in Hs. destruct Hs as [Hs Hf].
    destruct (bt_get m k) as [v|] eqn:E; [|contradiction].
    apply bt_get_In in E; auto. apply Hf in E. exact E.
  Qed.

  Lemma bt_is_max : forall m, bt_sorted m -> is_max (bt_get m) (bt_max m).
  Proof.
    induction m as [|[j w] m IH]; intros Hs.
    { cbn. auto. }
    destruct m as [|b m].
    { cbn [bt_max is_max]. split.
      - rewrite bt_get_cons, N.eqb_refl. discriminate.
      - intros k Hk. rewrite bt_get_gt by exact Hk. reflexivity. }
    change (bt_max ((j, w) :: b :: m)) with (bt_max (b :: m)).
    pose proof (bt_sorted_inv _ _ Hs) as [Hs' Hf]. specialize (IH Hs').
    destruct (bt_max (b :: m)) as [mx|] eqn:E; cbn [is_max] in *.
    - destruct IH as [Hm1 Hm2]. pose proof (bt_get_key_gt _ _ _ Hs Hm1) as Hlt.
      split.
      + now rewrite bt_get_gt.
      + intros k Hk. rewrite bt_get_gt by (cbn [fst] in *; lia). auto.
    - exfalso. destruct b as [i x]. specialize (IH i). rewrite bt_get_cons, N.eqb_refl in IH. discriminate.
  Qed.

  Lemma bt_len_0 m : lenN m = 0 <-> forall k, bt_get m k = None.
  Proof.
    split.
    - intros Hl. apply lenN_0 in Hl. subst m. reflexivity.
    - intros Hn. destruct m as [|[j w] m]; auto. specialize (Hn j).
      rewrite bt_get_cons, N.eqb_refl in Hn. discriminate.
  Qed.

  Theorem btmap_lawful : umap_lawful ek (@btmap_impl T) bt_sorted.
  Proof.
    apply lawful_of_is_max; cbn [btmap_impl uempty uget uinsert uentry_insert urange umax_index ulen ueqb]; auto.
    - constructor.
    - intros u k v Hu. now apply bt_insert_sorted.
    - intros u k v j _. apply bt_get_insert.
    - intros u k v Hu. now apply bt_insert_sorted.
    - intros u k v j _. apply bt_get_insert.
    - intros u s e Hu. now apply bt_range_sorted.
    - intros u s e k v Hu. rewrite bt_range_In, bt_get_In by auto. reflexivity.
    - intros u _. apply bt_len_0.
    - intros u Hu. now apply bt_is_max.
    - intros u1 u2 _ _ H1 H2. apply lenN_0 in H1, H2. subst. reflexivity.
  Qed.
End BTMap.

(* ------------------------------------------------------------------------------------------ *)
(* MaxMap<M>                                                                                   *)
(* ------------------------------------------------------------------------------------------ *)
Section MaxMap.
  Context {T U : Type}.
  Variable ek : ekind T.
  Variable M : umap_impl T U.
  Variable uinv : U -> Prop.
  Hypothesis UL : umap_lawful ek M uinv.

  (* max_key is only meaningful for a non-empty map; for an empty one it is still 0 (MaxMap has no
     removal, so a map that is empty has never been inserted into). Nothing relates max_key to the
     keys of the inner map: insertion through an entry (get_mut_with / Cow) does not raise it. *)
  Definition maxmap_inv (m : maxmap U) : Prop :=
    uinv (fst m) /\ (ulen M (fst m) = 0 -> snd m = 0).

  Lemma ulen_insert_nz u k v : uinv u -> ulen M (uinsert M u k v) <> 0.
  Proof.
    intros Hu Hc. pose proof (ul_insert_inv _ _ _ UL u k v Hu) as Hi.
    pose proof (proj1 (ul_len_0 _ _ _ UL _ Hi) Hc) as Hn. clear Hc. rename Hn into Hc.
    specialize (Hc k). rewrite (ul_insert_get _ _ _ UL) in Hc by auto. rewrite N.eqb_refl in Hc. discriminate.
  Qed.
  Lemma ulen_entry_nz u k v : uinv u -> ulen M (uentry_insert M u k v) <> 0.
  Proof.
    intros Hu Hc. pose proof (ul_entry_inv _ _ _ UL u k v Hu) as Hi.
    pose proof (proj1 (ul_len_0 _ _ _ UL _ Hi) Hc) as Hn. clear Hc. rename Hn into Hc.
    specialize (Hc k). rewrite (ul_entry_get _ _ _ UL) in Hc by auto. rewrite N.eqb_refl in Hc. discriminate.
  Qed.

  Theorem maxmap_lawful : umap_lawful ek (maxmap_impl M) maxmap_inv.
  Proof.
    constructor; unfold maxmap_inv;
      cbn [maxmap_impl uempty uget uinsert uentry_insert urange umax_index ulen ueqb fst snd].
    - split; [apply (ul_empty_inv _ _ _ UL)|auto].
    - apply (ul_empty_get _ _ _ UL).
    - intros u k v [Hu _]. split; [now apply (ul_insert_inv _ _ _ UL)|].
      intros Hc. now apply ulen_insert_nz in Hc.
    - intros u k v j [Hu _]. now apply (ul_insert_get _ _ _ UL).
    - intros u k v [Hu _]. split; [now apply (ul_entry_inv _ _ _ UL)|].
      intros Hc. now apply ulen_entry_nz in Hc.
    - intros u k v j [Hu _]. now apply (ul_entry_get _ _ _ UL).
    - intros u s e [Hu _]. now apply (ul_range_sorted _ _ _ UL).
    - intros u s e k v [Hu _]. now apply (ul_range_in _ _ _ UL).
    - intros u [Hu _]. now apply (ul_len_0 _ _ _ UL).
    - intros u [Hu _]. destruct (N.eqb_spec (ulen M (fst u)) 0) as [E|E].
      + tauto. + split; [discriminate|contradiction].
    - intros u k v [Hu H0]. pose proof (ulen_insert_nz (fst u) k v Hu) as Hnz.
      destruct (N.eqb_spec (ulen M (uinsert M (fst u) k v)) 0) as [E|_]; [contradiction|].
      eexists. split; [reflexivity|].
      destruct (N.eqb_spec (ulen M (fst u)) 0) as [E0|E0].
      + rewrite (H0 E0). destruct (N.ltb_spec 0 k) as [L|L].
        * split; [lia|]. split; [discriminate|]. now left.
        * split; [lia|]. split; [discriminate|]. left. lia.
      + destruct (N.ltb_spec (snd u) k) as [L|L].
        * split; [lia|]. split; [|now left]. intros m E. injection E as <-. lia.
        * split; [lia|]. split; [|now right]. intros m E. injection E as <-. lia.
    - intros u k v [Hu H0]. pose proof (ulen_entry_nz (fst u) k v Hu) as Hnz.
      destruct (N.eqb_spec (ulen M (uentry_insert M (fst u) k v)) 0) as [E|_]; [contradiction|].
      eexists. split; [reflexivity|].
      destruct (N.eqb_spec (ulen M (fst u)) 0) as [E0|E0].
      + rewrite (H0 E0). split; [discriminate|lia].
      + split; [|lia]. intros m E. injection E as <-. lia.
    - intros u k v [Hu H0] Hk. unfold has_key in Hk. cbn [maxmap_impl uget] in Hk.
      pose proof (ulen_entry_nz (fst u) k v Hu) as Hnz.
      destruct (N.eqb_spec (ulen M (uentry_insert M (fst u) k v)) 0) as [E|_]; [contradiction|].
      destruct (N.eqb_spec (ulen M (fst u)) 0) as [E0|E0]; [|reflexivity].
      pose proof (proj1 (ul_len_0 _ _ _ UL _ Hu) E0) as En. now rewrite En in Hk.
    - intros u1 u2 [Hu1 H1] [Hu2 H2] E1 E2.
      rewrite (ul_eqb_empty _ _ _ UL) by auto. rewrite (H1 E1), (H2 E2). reflexivity.
  Qed.
End MaxMap.

Print Assumptions vecmap_lawful.
Print Assumptions btmap_lawful.
Print Assumptions maxmap_lawful.
