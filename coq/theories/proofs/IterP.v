(* IterP.v — the two stack-machine iterators (model/Iter.v) and the interface iterator (model/Coll.v)
   against slicing of the represented list. Proof file; no model code. *)
From MH Require Import Defs.
Local Open Scope N_scope.

(* ---------- arithmetic on binary indices ---------- *)
Fixpoint oddpart (p : positive) : positive := match p with xO p => oddpart p | _ => p end.
Lemma odd_decomp : forall p, Npos p = Npos (oddpart p) * pow2 (tzp p).
Proof.
  induction p as [p IH|p IH|]; cbn [oddpart tzp]; try (rewrite pow2_0; lia).
  rewrite pow2_S. change (Npos (xO p)) with (2 * Npos p). rewrite IH at 1. lia.
Qed.
Lemma oddpart_odd p : exists r, Npos (oddpart p) = 2 * r + 1.
Proof. induction p as [p IH|p IH|]; cbn [oddpart]; auto. - exists (Npos p). reflexivity. - exists 0. reflexivity. Qed.

(* align i D = i with its D low bits cleared *)
Definition al (i : N) (D : nat) : N := i / pow2 D * pow2 D.
Lemma al_le i D : al i D <= i.
Proof. unfold al. pose proof (pow2_pos D). rewrite N.mul_comm. apply N.mul_div_le. lia. Qed.
Lemma al_spec i D : i = al i D + i mod pow2 D.
Proof. unfold al. pose proof (pow2_pos D). rewrite N.mul_comm. apply N.div_mod. lia. Qed.
Lemma al_unique i D q r : i = q * pow2 D + r -> r < pow2 D -> al i D = q * pow2 D.
Proof. intros E Hr. unfold al. f_equal. symmetry. apply N.div_unique with r; auto. lia. Qed.
Lemma al_0 i : al i 0 = i. Proof. unfold al. rewrite pow2_0. now rewrite N.div_1_r, N.mul_1_r. Qed.
Lemma al_aligned i L : i mod pow2 L = 0 -> al i L = i.
Proof. intros Hi. pose proof (al_spec i L). lia. Qed.
Lemma al_small i D : i < pow2 D -> al i D = 0.
Proof. intros Hi. unfold al. rewrite N.div_small by lia. lia. Qed.
Lemma al_child i D : al i D = al i (S D) + (if N.testbit i (N.of_nat D) then pow2 D else 0).
Proof. pose proof (al_spec i D). pose proof (al_spec i (S D)). pose proof (mod_pow2_succ i D). lia. Qed.
Lemma al_mod i D : al i D mod pow2 D = 0.
Proof. unfold al. pose proof (pow2_pos D). apply N.mod_mul. lia. Qed.

(* stepping to the next block at level L does not change the path above the lowest common ancestor *)
Lemma al_next i L D : i mod pow2 L = 0 -> (tz (i + pow2 L) < D)%nat -> al (i + pow2 L) D = al i D.
Proof.
  intros Hi Ht. pose proof (pow2_pos L) as HL. pose proof (pow2_pos D) as HD.
  assert (Hpos: 0 < i + pow2 L) by lia.
  destruct (i + pow2 L) as [|p] eqn:Ei'; [lia|]. cbn [tz] in Ht.
  destruct (oddpart_odd p) as [r Hr]. pose proof (odd_decomp p) as Hd. rewrite Hr in Hd.
  remember (tzp p) as t eqn:Et. clear Et.
  assert (HLt: (L <= t)%nat).
  { destruct (le_lt_dec L t) as [|Hlt]; auto. exfalso.
    assert (E: i mod pow2 L = 0) by exact Hi.
    apply N.mod_divide in E; [|lia]. destruct E as [a Ea].
    assert (Hp: Npos p = (a + 1) * pow2 L) by (rewrite <- Ei', Ea; ring).
    replace L with (t + (L - t))%nat in Hp by lia. rewrite pow2_add in Hp.
    pose proof (pow2_pos t) as Hpt. assert (Hq: (2 * r + 1) = (a + 1) * pow2 (L - t)) by nia.
    replace (L - t)%nat with (S (L - t - 1)) in Hq by lia. rewrite pow2_S in Hq. lia. }
  assert (ED: D = (t + (D - t))%nat) by lia. remember (D - t)%nat as e eqn:Ee. assert (He: (0 < e)%nat) by lia.
  rewrite ED. clear ED Ee HD Ht.
  pose proof (pow2_pos t) as Hct. pose proof (pow2_pos e) as Hce.
  remember (2 * r + 1) as m eqn:Em.
  pose proof (N.div_mod m (pow2 e) ltac:(lia)) as Hm.
  pose proof (N.mod_upper_bound m (pow2 e) ltac:(lia)) as Hub.
  remember (m / pow2 e) as q eqn:Eq. remember (m mod pow2 e) as rr eqn:Err. clear Eq Err.
  assert (Hmr: 1 <= rr).
  { destruct (N.eq_dec rr 0) as [Z|]; [|lia]. exfalso. subst rr.
    replace e with (S (e - 1)) in Hm by lia. rewrite pow2_S in Hm. lia. }
  assert (HcL: pow2 L <= pow2 t) by (apply pow2_mono; lia).
  assert (Ei: Npos p = q * (pow2 t * pow2 e) + rr * pow2 t) by (rewrite Hd, Hm; ring).
  rewrite (al_unique (Npos p) (t + e) q (rr * pow2 t)); [| rewrite pow2_add; exact Ei | rewrite pow2_add; nia].
  rewrite (al_unique i (t + e) q (rr * pow2 t - pow2 L)); [reflexivity | rewrite pow2_add | rewrite pow2_add; nia].
  assert (pow2 L <= rr * pow2 t) by nia. lia.
Qed.

Lemma tz_lt x k : 0 < x -> x < pow2 k -> (tz x < k)%nat.
Proof.
  intros Hx Hk. destruct x as [|p]; [lia|]. cbn [tz]. pose proof (odd_decomp p) as Hd.
  destruct (oddpart_odd p) as [r Hr]. rewrite Hr in Hd.
  destruct (le_lt_dec k (tzp p)) as [L|L]; auto. exfalso.
  assert (pow2 k <= pow2 (tzp p)) by (apply pow2_mono; lia).
  pose proof (pow2_pos (tzp p)). nia.
Qed.
Lemma tz_le x k : 0 < x -> x <= pow2 k -> (tz x <= k)%nat.
Proof.
  intros Hx Hk. destruct x as [|p]; [lia|]. cbn [tz]. pose proof (odd_decomp p) as Hd.
  destruct (oddpart_odd p) as [r Hr]. rewrite Hr in Hd.
  destruct (le_lt_dec (tzp p) k) as [L|L]; auto. exfalso.
  assert (pow2 (S k) <= pow2 (tzp p)) by (apply pow2_mono; lia). rewrite pow2_S in *.
  pose proof (pow2_pos k). nia.
Qed.
Lemma tz_ge_level i L : i mod pow2 L = 0 -> (L <= tz (i + pow2 L))%nat.
Proof.
  intros Hi. pose proof (pow2_pos L) as HL. destruct (i + pow2 L) as [|p] eqn:E; [lia|]. cbn [tz].
  pose proof (odd_decomp p) as Hd. destruct (oddpart_odd p) as [r Hr]. rewrite Hr in Hd.
  destruct (le_lt_dec L (tzp p)) as [Le|Lt]; auto. exfalso.
  apply N.mod_divide in Hi; [|lia]. destruct Hi as [a Ea].
  assert (E2: Npos p = (a + 1) * pow2 L) by (rewrite <- E, Ea; ring).
  replace L with (tzp p + S (L - tzp p - 1))%nat in E2 by lia. rewrite pow2_add, pow2_S in E2.
  pose proof (pow2_pos (tzp p)) as Hpp. remember (pow2 (tzp p)) as c. remember (pow2 (L - tzp p - 1)) as c2.
  assert (Hc: c * (2 * r + 1) = c * (2 * ((a + 1) * c2))) by (transitivity (Npos p); [rewrite Hd; ring | rewrite E2; ring]).
  apply N.mul_cancel_l in Hc; lia.
Qed.
(* n is a multiple of 2^(tz n) *)
Lemma tz_aligned n : n <> 0 -> n mod pow2 (tz n) = 0.
Proof.
  intros Hn. destruct n as [|p]; [congruence|]. cbn [tz]. rewrite (odd_decomp p) at 1.
  pose proof (pow2_pos (tzp p)). apply N.mod_mul. lia.
Qed.
(* if 2^k divides x > 0 then k <= tz x *)
Lemma tz_ge x k : 0 < x -> x mod pow2 k = 0 -> (k <= tz x)%nat.
Proof.
  intros Hx Hm. pose proof (pow2_pos k) as Hk.
  apply N.mod_divide in Hm; [|lia]. destruct Hm as [a Ea].
  assert (Ha: a = (a - 1) + 1) by (destruct a; lia).
  remember (a - 1) as b eqn:Eb. clear Eb. subst a.
  assert (E: x = b * pow2 k + pow2 k) by lia.
  rewrite E. apply tz_ge_level. apply N.mod_mul. lia.
Qed.
(* if 2^k does not divide x then tz x < k *)
Lemma tz_lt_mod x k : x mod pow2 k <> 0 -> (tz x < k)%nat.
Proof.
  intros Hm. destruct (le_lt_dec k (tz x)) as [Hle|]; auto. exfalso. apply Hm.
  destruct x as [|p]; [apply N.mod_0_l; pose proof (pow2_pos k); lia|].
  cbn [tz] in Hle. rewrite (odd_decomp p).
  replace (tzp p) with ((tzp p - k) + k)%nat by lia. rewrite pow2_add, N.mul_assoc.
  apply N.mod_mul. pose proof (pow2_pos k). lia.
Qed.

Section IterP.
  Context {T : Type}.
  Variable ek : ekind T.
  Notation tree := (tree T).
  Notation pd := (pd_of ek).
  Notation pf := (pf_of ek).

  Lemma cap_S d : cap ek (S d) = 2 * cap ek d.
  Proof. unfold cap. cbn [Nat.add]. apply pow2_S. Qed.
  Lemma cap_pos d : 0 < cap ek d.
  Proof. unfold cap. apply pow2_pos. Qed.
  Lemma cap_pow2 d : cap ek d = pow2 (d + pd).
  Proof. reflexivity. Qed.
  Lemma unpacked_pd0 : is_packed ek = false -> pd = 0%nat.
  Proof. unfold is_packed, pd_of. destruct (epd ek); [discriminate|reflexivity]. Qed.
  Lemma pd_pos_packed : (0 < pd)%nat -> is_packed ek = true.
  Proof. unfold is_packed, pd_of. destruct (epd ek); [reflexivity|lia]. Qed.

  (* ---------- windows ---------- *)
  Definition win (l : list T) (p c : N) : list T := takeN c (dropN p l).
  Lemma nthN_win l p c k : nthN (win l p c) k = if k <? c then nthN l (p + k) else None.
  Proof. unfold win. rewrite nthN_takeN, nthN_dropN. reflexivity. Qed.
  Lemma win_take l p c : takeN c (win l p (2 * c)) = win l p c.
  Proof. apply listN_ext. intros k. rewrite nthN_takeN, !nthN_win. destruct (N.ltb_spec k c); auto. destruct (N.ltb_spec k (2*c)); auto; lia. Qed.
  Lemma win_drop l p c : dropN c (win l p (2 * c)) = win l (p + c) c.
  Proof. apply listN_ext. intros k. rewrite nthN_dropN, !nthN_win. destruct (N.ltb_spec k c), (N.ltb_spec (c + k) (2*c)); try lia; auto. f_equal. lia. Qed.
  Lemma win_ne l p c : 0 < c -> p < lenN l -> win l p c <> [].
  Proof.
    intros Hc Hp E. pose proof (nthN_win l p c 0) as X. rewrite E, nthN_nil in X.
    destruct (N.ltb_spec 0 c); [|lia]. rewrite N.add_0_r in X. apply nthN_Some in Hp. congruence.
  Qed.
  Lemma lenN_win l p c : lenN (win l p c) = N.min c (lenN l - p).
  Proof. unfold win. now rewrite lenN_takeN, lenN_dropN. Qed.
  Lemma win_app l p c : win l p c ++ dropN (p + c) l = dropN p l.
  Proof. unfold win. rewrite <- dropN_dropN. apply takeN_dropN. Qed.
  Lemma win_all l c : lenN l <= c -> win l 0 c = l.
  Proof. intros Hc. unfold win. rewrite dropN_0. now apply takeN_all. Qed.

  Lemma dropN_nth (x : list T) i v : nthN x i = Some v -> dropN i x = v :: dropN (i + 1) x.
  Proof.
    intros Hv. apply listN_ext. intros k. rewrite nthN_dropN. cbn [nthN].
    destruct (N.eqb_spec k 0) as [->|Hk]; [now rewrite N.add_0_r|].
    rewrite nthN_dropN. f_equal. lia.
  Qed.

  Lemma canon_S d l : l <> [] ->
    canon ek (S d) l = SNode (canon ek d (takeN (cap ek d) l)) (canon ek d (dropN (cap ek d) l)).
  Proof. destruct l; [congruence|reflexivity]. Qed.
  Lemma canon_0 l : l <> [] ->
    canon ek 0 l = if is_packed ek then SPacked l else match l with v :: _ => SLeaf v | [] => SZero 0 end.
  Proof. destruct l; [congruence|reflexivity]. Qed.

  (* ---------- subtrees ---------- *)
  Lemma subt_refl (t : tree) : subt t t.
  Proof. destruct t; cbn [subt]; auto. Qed.
  Lemma subt_trans : forall (t u v : tree), subt u v -> subt v t -> subt u t.
  Proof.
    induction t as [j v0|j vs|j a IHa b IHb|j z]; intros u v Huv Hvt; cbn [subt] in Hvt.
    - destruct Hvt as [->|[]]. exact Huv.
    - destruct Hvt as [->|[]]. exact Huv.
    - destruct Hvt as [->|[Hv|Hv]]; [exact Huv| |]; cbn [subt]; right; [left|right]; eauto.
    - destruct Hvt as [->|[]]. exact Huv.
  Qed.
  Lemma subt_l j (a b : tree) : subt a (Node j a b).
  Proof. cbn [subt]. right. left. apply subt_refl. Qed.
  Lemma subt_r j (a b : tree) : subt b (Node j a b).
  Proof. cbn [subt]. right. right. apply subt_refl. Qed.

  (* ---------- pop_n ---------- *)
  Lemma pop_n_nil {A} n : pop_n n (@nil A) = [].
  Proof. destruct n; reflexivity. Qed.
  Lemma pop_n_map {A B} (f : A -> B) n : forall st, map f (pop_n n st) = pop_n n (map f st).
  Proof. induction n as [|n IH]; intros st; cbn [pop_n]; auto. destruct st; cbn [map]; auto. Qed.
  Lemma pop_n_Forall {A} (P : A -> Prop) n : forall st, Forall P st -> Forall P (pop_n n st).
  Proof. induction n as [|n IH]; intros st Hst; cbn [pop_n]; auto. destruct st; auto. apply IH. now inversion Hst. Qed.

  (* ---------- the path of index i in the canonical tree of l ---------- *)
  Variable l : list T.
  (* the subtree at tree depth dd (covering 2^(dd+pd) elements) that contains index i *)
  Definition node (dd : nat) (i : N) : stree T := canon ek dd (win l (al i (dd + pd)) (cap ek dd)).
  Fixpoint stk (k dd : nat) (i : N) : list (stree T) :=
    match k with O => [node dd i] | S k' => node dd i :: stk k' (S dd) i end.
  Lemma stk_len k : forall dd i, length (stk k dd i) = S k.
  Proof. induction k; intros; cbn [stk length]; auto. Qed.
  Lemma stk_cons k dd i : exists rest, stk k dd i = node dd i :: rest /\ length rest = k.
  Proof. destruct k; cbn [stk]; eexists; split; eauto. apply stk_len. Qed.

  Lemma node_S dd i : i < lenN l ->
    node (S dd) i = SNode (canon ek dd (win l (al i (S dd + pd)) (cap ek dd)))
                          (canon ek dd (win l (al i (S dd + pd) + cap ek dd) (cap ek dd))).
  Proof.
    intros Hi. unfold node. rewrite canon_S.
    - rewrite cap_S, win_take, win_drop. reflexivity.
    - apply win_ne; [apply cap_pos|]. pose proof (al_le i (S dd + pd)). lia.
  Qed.
  Lemma node_child dd i : node dd i = if N.testbit i (N.of_nat (dd + pd))
       then canon ek dd (win l (al i (S dd + pd) + cap ek dd) (cap ek dd))
       else canon ek dd (win l (al i (S dd + pd)) (cap ek dd)).
  Proof.
    unfold node. rewrite (al_child i (dd + pd)). rewrite cap_pow2. cbn [Nat.add].
    destruct (N.testbit i (N.of_nat (dd + pd))); [reflexivity| now rewrite N.add_0_r].
  Qed.
  Lemma node_ne dd i : i < lenN l -> win l (al i (dd + pd)) (cap ek dd) <> [].
  Proof. intros Hi. apply win_ne; [apply cap_pos|]. pose proof (al_le i (dd + pd)). lia. Qed.

  Lemma pop_n_stk n : forall k dd i, (n <= k)%nat -> pop_n n (stk k dd i) = stk (k - n) (dd + n) i.
  Proof.
    induction n as [|n IH]; intros k dd i Hn; cbn [pop_n].
    - now rewrite Nat.sub_0_r, Nat.add_0_r.
    - destruct k; [lia|]. cbn [stk]. rewrite IH by lia. f_equal; lia.
  Qed.
  Lemma stk_next k : forall dd i L, i mod pow2 L = 0 -> (tz (i + pow2 L) < dd + pd)%nat ->
    stk k dd (i + pow2 L) = stk k dd i.
  Proof.
    induction k as [|k IH]; intros dd i L Hi Ht; cbn [stk]; unfold node.
    - now rewrite al_next.
    - rewrite al_next by auto. f_equal. apply IH; auto. cbn [Nat.add]. lia.
  Qed.

  (* ---------- stack invariant: the stack is the root path of index i cut at depth dd ---------- *)
  Variable t : tree.
  Variable fd : nat.
  Hypothesis Hroot : shape t = canon ek fd l.
  Hypothesis Hcap : lenN l <= cap ek fd.

  Definition stack_ok (st : list tree) (dd : nat) (i : N) : Prop :=
    (dd <= fd)%nat /\ map shape st = stk (fd - dd) dd i /\ Forall (fun u => subt u t) st.

  Lemma stack_ok_top st dd i : stack_ok st dd i ->
    exists u rest, st = u :: rest /\ shape u = node dd i /\ subt u t /\ length rest = (fd - dd)%nat.
  Proof.
    intros (Hdd & Hm & Hf). destruct (stk_cons (fd - dd) dd i) as (r & Er & Hr). rewrite Er in Hm.
    destruct st as [|u rest]; [discriminate|]. cbn [map] in Hm. injection Hm as Hu Hrest.
    exists u, rest. repeat split; auto. - now inversion Hf. - rewrite <- Hr, <- Hrest. now rewrite map_length.
  Qed.

  Lemma stack_ok_root i : i < cap ek fd -> stack_ok [t] fd i.
  Proof.
    intros Hi. split; [lia|]. split; [|constructor; [apply subt_refl|constructor]].
    rewrite Nat.sub_diag. cbn [map stk]. f_equal. rewrite Hroot. unfold node. f_equal.
    rewrite cap_pow2 in *. rewrite al_small by lia. symmetry. apply win_all. rewrite <- cap_pow2. exact Hcap.
  Qed.

  Lemma stack_ok_push j a b rest dd i : i < lenN l -> stack_ok (Node j a b :: rest) (S dd) i ->
    stack_ok ((if N.testbit i (N.of_nat (dd + pd)) then b else a) :: Node j a b :: rest) dd i.
  Proof.
    intros Hi (Hdd & Hm & Hf). split; [lia|]. split.
    - replace (fd - dd)%nat with (S (fd - S dd)) by lia. cbn [stk]. cbn [map] in *. rewrite <- Hm. f_equal.
      destruct (stk_cons (fd - S dd) (S dd) i) as (r & Er & _). rewrite Er in Hm. injection Hm as Hu _.
      rewrite (node_S dd i Hi) in Hu. cbn [shape] in Hu. injection Hu as Ha Hb.
      rewrite (node_child dd i). destruct (N.testbit i (N.of_nat (dd + pd))); auto.
    - constructor; auto. inversion Hf as [|x y Hx Hy]; subst.
      destruct (N.testbit i (N.of_nat (dd + pd))); (eapply subt_trans; [|exact Hx]); [apply subt_r|apply subt_l].
  Qed.

  Lemma stack_ok_pop st dd i n : (dd + n <= fd)%nat -> stack_ok st dd i -> stack_ok (pop_n n st) (dd + n) i.
  Proof.
    intros Hn (Hdd & Hm & Hf). split; [lia|]. split; [|now apply pop_n_Forall].
    rewrite pop_n_map, Hm, pop_n_stk by lia. f_equal. lia.
  Qed.
  Lemma stack_ok_next st dd i L : i mod pow2 L = 0 -> (tz (i + pow2 L) < dd + pd)%nat ->
    stack_ok st dd i -> stack_ok st dd (i + pow2 L).
  Proof. intros Hi Ht (Hdd & Hm & Hf). split; [lia|]. split; auto. rewrite Hm. symmetry. now apply stk_next. Qed.

  (* the stack left by a yield at level L (L = 0: element-wise) is the path stack of the next index *)
  Lemma stack_ok_step st dd i L : i mod pow2 L = 0 -> i + pow2 L < lenN l ->
    (dd + pd <= S (tz (i + pow2 L)))%nat -> stack_ok st dd i ->
    stack_ok (pop_n (S (tz (i + pow2 L)) - (dd + pd)) st) (S (tz (i + pow2 L)) - pd) (i + pow2 L).
  Proof.
    intros Hi Hlt Hdd Hst. pose proof (pow2_pos L) as HL.
    assert (Ht: (tz (i + pow2 L) < fd + pd)%nat) by (apply tz_lt; [lia|rewrite <- cap_pow2; lia]).
    replace (S (tz (i + pow2 L)) - pd)%nat with (dd + (S (tz (i + pow2 L)) - (dd + pd)))%nat by lia.
    apply stack_ok_next; [exact Hi|lia|]. apply stack_ok_pop; [lia|exact Hst].
  Qed.

  (* ---------- LevelIter ---------- *)
  Definition mkl (L : nat) (st : list tree) (i : N) : liter T :=
    {| lstack := st; lindex := i; llevel := L; lfull_depth := fd; llength := lenN l |}.

  Lemma liter_next_unfold fuel it : liter_next ek fuel it =
    if llength it <=? lindex it then SOk None it else
    match lstack it with
    | [] => SOk None it
    | Zero _ _ :: _ => SOk None it
    | (Leaf _ _ as node) :: _ =>
        let idx := lindex it + 1 in
        SOk (Some (LInternal node)) (liter_set it (pop_n (S (tz idx)) (lstack it)) idx)
    | (Packed _ vs as node) :: _ =>
        if (lfull_depth it + pd + 1 <? length (lstack it))%nat then SPanic POverflow else
        let node_depth := (lfull_depth it + pd + 1 - length (lstack it))%nat in
        if Nat.eqb node_depth (llevel it) then liter_jump it node else
        let sub := lindex it mod pf in
        let idx := lindex it + 1 in
        let res := match nthN vs sub with Some v => Some (LPackedLeaf v) | None => None end in
        if sub + 1 =? pf then
          if (tz idx <? pd)%nat then SPanic PIterExpect else
          SOk res (liter_set it (pop_n (S (tz idx - pd)) (lstack it)) idx)
        else SOk res (liter_set it (lstack it) idx)
    | (Node _ a b as node) :: _ =>
        if (lfull_depth it + pd <? length (lstack it))%nat then SPanic POverflow else
        let child_depth := (lfull_depth it + pd - length (lstack it))%nat in
        let node_depth := S child_depth in
        if Nat.eqb node_depth (llevel it) then liter_jump it node else
        match fuel with
        | O => SPanic POutOfFuel
        | S f =>
            let child := if N.testbit (lindex it) (N.of_nat child_depth) then b else a in
            liter_next ek f (liter_set it (child :: lstack it) (lindex it))
        end
    end.
  Proof. destruct fuel; reflexivity. Qed.

  (* descend from depth LL + k to depth LL when no node on the way is at the level *)
  Lemma liter_descend L LL i : i < lenN l -> forall k fuel st,
    (forall x, (LL < x <= LL + k)%nat -> (x + pd)%nat <> L) ->
    stack_ok st (LL + k) i ->
    exists st', stack_ok st' LL i /\ liter_next ek (k + fuel) (mkl L st i) = liter_next ek fuel (mkl L st' i).
  Proof.
    intros Hi. induction k as [|k IH]; intros fuel st Hne Hst.
    - exists st. rewrite Nat.add_0_r in Hst. split; auto.
    - replace (LL + S k)%nat with (S (LL + k)) in Hst by lia.
      destruct (stack_ok_top _ _ _ Hst) as (u & rest & -> & Hsh & Hsub & Hlen).
      rewrite (node_S _ _ Hi) in Hsh. destruct u as [j v|j vs|j a b|j z]; cbn [shape] in Hsh; try discriminate.
      pose proof (stack_ok_push j a b rest (LL + k) i Hi Hst) as Hpush.
      destruct (IH fuel _ ltac:(intros x Hx; apply Hne; lia) Hpush) as (st' & Hst' & Enext).
      exists st'. split; auto. rewrite <- Enext.
      rewrite liter_next_unfold. cbn [mkl lstack lindex llevel lfull_depth llength length Nat.add].
      destruct (N.leb_spec (lenN l) i) as [Hge|_]; [lia|]. rewrite Hlen.
      destruct Hst as (Hdd & _).
      destruct (Nat.ltb_spec (fd + pd) (S (fd - S (LL + k)))) as [Hov|_]; [lia|].
      replace (fd + pd - S (fd - S (LL + k)))%nat with (LL + k + pd)%nat by lia.
      destruct (Nat.eqb_spec (S (LL + k + pd)) L) as [E|_]; [exfalso; apply (Hne (S (LL + k))); lia|].
      reflexivity.
  Qed.

  (* at the level: yield the node and jump *)
  Lemma liter_at_level L LL i st fuel : L = (LL + pd)%nat -> i < lenN l -> stack_ok st LL i ->
    exists u rest, st = u :: rest /\ shape u = node LL i /\ subt u t /\
      liter_next ek fuel (mkl L st i) =
        SOk (Some (LInternal u)) (mkl L (pop_n (S (tz (i + pow2 L)) - L) st) (i + pow2 L)).
  Proof.
    intros EL Hi Hst. destruct (stack_ok_top _ _ _ Hst) as (u & rest & -> & Hsh & Hsub & Hlen).
    exists u, rest. repeat split; auto. destruct Hst as (Hdd & _).
    rewrite liter_next_unfold. cbn [mkl lstack lindex llevel lfull_depth llength length].
    destruct (N.leb_spec (lenN l) i) as [Hge|_]; [lia|]. rewrite Hlen.
    destruct LL as [|LL].
    - unfold node in Hsh. rewrite canon_0 in Hsh by (apply node_ne; exact Hi).
      destruct (is_packed ek) eqn:Ep.
      + destruct u as [j v|j vs|j a b|j z]; cbn [shape] in Hsh; try discriminate.
        destruct (Nat.ltb_spec (fd + pd + 1) (S (fd - 0))) as [Hov|_]; [lia|].
        replace (fd + pd + 1 - S (fd - 0))%nat with L by lia. rewrite Nat.eqb_refl. reflexivity.
      + pose proof (node_ne 0 i Hi) as Hne.
        destruct (win l (al i (0 + pd)) (cap ek 0)) as [|v w]; [congruence|].
        destruct u as [j v'|j vs|j a b|j z]; cbn [shape] in Hsh; try discriminate.
        rewrite (unpacked_pd0 Ep) in EL. subst L. cbn [Nat.add]. rewrite pow2_0.
        unfold liter_set, mkl. cbn [lstack lindex llevel lfull_depth llength].
        now rewrite Nat.sub_0_r.
    - rewrite (node_S _ _ Hi) in Hsh. destruct u as [j v|j vs|j a b|j z]; cbn [shape] in Hsh; try discriminate.
      destruct (Nat.ltb_spec (fd + pd) (S (fd - S LL))) as [Hov|_]; [lia|].
      replace (S (fd + pd - S (fd - S LL)))%nat with L by lia. rewrite Nat.eqb_refl. reflexivity.
  Qed.

  (* element mode (level 0 of a kind with packing depth > 0): yield one value of the packed leaf *)
  Lemma liter_at_leaf i st fuel : (0 < pd)%nat -> i < lenN l -> stack_ok st 0 i ->
    exists v, nthN l i = Some v /\
      liter_next ek fuel (mkl 0 st i) =
        SOk (Some (LPackedLeaf v))
            (mkl 0 (if (tz (i + 1) <? pd)%nat then st else pop_n (S (tz (i + 1)) - pd) st) (i + 1)).
  Proof.
    intros Hpd Hi Hst. destruct (stack_ok_top _ _ _ Hst) as (u & rest & -> & Hsh & Hsub & Hlen).
    destruct Hst as (Hdd & _).
    destruct (nthN l i) as [v|] eqn:Ev; [|apply nthN_None in Ev; lia]. exists v. split; auto.
    rewrite liter_next_unfold. cbn [mkl lstack lindex llevel lfull_depth llength length].
    destruct (N.leb_spec (lenN l) i) as [Hge|_]; [lia|]. rewrite Hlen.
    unfold node in Hsh. rewrite canon_0 in Hsh by (apply node_ne; exact Hi).
    rewrite (pd_pos_packed Hpd) in Hsh.
    destruct u as [j v'|j vs|j a b|j z]; cbn [shape] in Hsh; try discriminate. injection Hsh as Hvs.
    destruct (Nat.ltb_spec (fd + pd + 1) (S (fd - 0))) as [Hov|_]; [lia|].
    destruct (Nat.eqb_spec (fd + pd + 1 - S (fd - 0)) 0) as [E|_]; [lia|].
    cbv zeta. pose proof (pow2_pos pd) as Hpf.
    assert (Esub: nthN vs (i mod pf) = Some v).
    { rewrite Hvs, nthN_win. rewrite cap_pow2. cbn [Nat.add]. unfold pf_of.
      pose proof (N.mod_upper_bound i (pow2 pd) ltac:(lia)) as Hub.
      destruct (N.ltb_spec (i mod pow2 pd) (pow2 pd)); [|lia]. rewrite <- al_spec. exact Ev. }
    rewrite Esub. unfold pf_of in *.
    assert (Emod: (i + 1) mod pow2 pd = (i mod pow2 pd + 1) mod pow2 pd).
    { rewrite N.add_mod_idemp_l by lia. reflexivity. }
    pose proof (N.mod_upper_bound i (pow2 pd) ltac:(lia)) as Hub.
    destruct (N.eqb_spec (i mod pow2 pd + 1) (pow2 pd)) as [E|NE].
    - assert (Hz: (i + 1) mod pow2 pd = 0) by (rewrite Emod, E; apply N.mod_same; lia).
      pose proof (tz_ge (i + 1) pd ltac:(lia) Hz) as Hge.
      destruct (Nat.ltb_spec (tz (i + 1)) pd) as [Hlt|_]; [lia|].
      unfold liter_set, mkl. cbn [lstack lindex llevel lfull_depth llength].
      replace (S (tz (i + 1)) - pd)%nat with (S (tz (i + 1) - pd)) by lia. reflexivity.
    - assert (Hnz: (i + 1) mod pow2 pd <> 0).
      { rewrite Emod. pose proof (N.le_0_l (i mod pow2 pd)) as H0. rewrite N.mod_small; lia. }
      pose proof (tz_lt_mod (i + 1) pd Hnz) as Hlt.
      destruct (Nat.ltb_spec (tz (i + 1)) pd) as [_|Hge]; [|lia]. reflexivity.
  Qed.

  Lemma stack_ok_step1 st dd i : i + 1 < lenN l -> (dd + pd <= S (tz (i + 1)))%nat -> stack_ok st dd i ->
    stack_ok (pop_n (S (tz (i + 1)) - (dd + pd)) st) (S (tz (i + 1)) - pd) (i + 1).
  Proof.
    intros Hlt Hdd Hst. pose proof (stack_ok_step st dd i 0) as X. rewrite pow2_0 in X.
    apply X; auto. apply N.mod_1_r.
  Qed.
  Lemma stack_ok_next1 st dd i : (tz (i + 1) < dd + pd)%nat -> stack_ok st dd i -> stack_ok st dd (i + 1).
  Proof.
    intros Ht Hst. pose proof (stack_ok_next st dd i 0) as X. rewrite pow2_0 in X.
    apply X; auto. apply N.mod_1_r.
  Qed.

  Definition linv (L : nat) (it : liter T) (i : N) : Prop :=
    exists st, it = mkl L st i /\ (i < lenN l -> exists dd, (L <= dd + pd)%nat /\ stack_ok st dd i).

  Lemma liter_next_end L st i fuel : lenN l <= i -> liter_next ek fuel (mkl L st i) = SOk None (mkl L st i).
  Proof.
    intros Hge. rewrite liter_next_unfold. cbn [mkl lstack lindex llevel lfull_depth llength].
    destruct (N.leb_spec (lenN l) i); [reflexivity|lia].
  Qed.

  Lemma aligned_next i L : i mod pow2 L = 0 -> (i + pow2 L) mod pow2 L = 0.
  Proof.
    intros Hi. pose proof (pow2_pos L). rewrite <- N.add_mod_idemp_l, Hi, N.add_0_l by lia. apply N.mod_same. lia.
  Qed.

  Lemma liter_collect_block L LL : L = (LL + pd)%nat ->
    forall n i it, i mod pow2 L = 0 -> linv L it i -> (N.to_nat (lenN l - i) < n)%nat ->
    exists items, liter_collect ek n it = Ok items /\ items_blocks ek L items (dropN i l) /\ (forall u, In u (internal_nodes items) -> subt u t).
  Proof.
    intros EL. induction n as [|n IH]; intros i it Hi (st & -> & Hst) Hn; [lia|].
    cbn [liter_collect]. replace (lfull_depth (mkl L st i)) with fd by reflexivity.
    destruct (N.le_gt_cases (lenN l) i) as [Hge|Hlt].
    - rewrite liter_next_end by exact Hge. exists []. rewrite dropN_all by exact Hge.
      split; [reflexivity|]. split; [constructor|]. intros u [].
    - destruct (Hst Hlt) as (dd & HLdd & Hok). pose proof Hok as (Hddfd & _).
      destruct (liter_descend L LL i Hlt (dd - LL) (S fd - (dd - LL)) st) as (st' & Hok' & Enext).
      { intros x Hx. lia. }
      { replace (LL + (dd - LL))%nat with dd by lia. exact Hok. }
      replace (dd - LL + (S fd - (dd - LL)))%nat with (S fd) in Enext by lia. rewrite Enext.
      destruct (liter_at_level L LL i st' (S fd - (dd - LL)) EL Hlt Hok') as (u & rest & Est' & Hsh & Hsub & Enext').
      rewrite Enext'. pose proof (pow2_pos L) as HpL.
      destruct (IH (i + pow2 L) (mkl L (pop_n (S (tz (i + pow2 L)) - L) st') (i + pow2 L))) as (items & Ecol & Hib & Hsubs).
      + now apply aligned_next.
      + eexists. split; [reflexivity|]. intros Hlt'. exists (S (tz (i + pow2 L)) - pd)%nat.
        pose proof (tz_ge_level i L Hi) as Hge. split; [lia|].
        rewrite EL at 2. apply stack_ok_step; auto. lia.
      + lia.
      + rewrite Ecol. exists (LInternal u :: items). split; [reflexivity|]. split.
        * rewrite <- (win_app l i (pow2 L)). constructor; auto.
          -- apply win_ne; lia.
          -- rewrite Hsh. unfold node. replace (L - pd)%nat with LL by lia.
             rewrite cap_pow2, <- EL, al_aligned by exact Hi. reflexivity.
          -- rewrite lenN_win. destruct (N.le_gt_cases (i + pow2 L) (lenN l)) as [Hle|Hgt].
             ++ left. lia.
             ++ right. split; [apply dropN_all; lia|lia].
        * cbn [internal_nodes flat_map app]. intros u' [<-|Hin]; auto.
  Qed.

  Lemma liter_collect_elem : (0 < pd)%nat ->
    forall n i it, linv 0 it i -> (N.to_nat (lenN l - i) < n)%nat ->
    exists items, liter_collect ek n it = Ok items /\ items_blocks ek 0 items (dropN i l) /\ internal_nodes items = [].
  Proof.
    intros Hpk. induction n as [|n IH]; intros i it (st & -> & Hst) Hn; [lia|].
    cbn [liter_collect]. replace (lfull_depth (mkl 0 st i)) with fd by reflexivity.
    destruct (N.le_gt_cases (lenN l) i) as [Hge|Hlt].
    - rewrite liter_next_end by exact Hge. exists []. rewrite dropN_all by exact Hge.
      split; [reflexivity|]. split; [constructor|reflexivity].
    - destruct (Hst Hlt) as (dd & _ & Hok). pose proof Hok as (Hddfd & _).
      destruct (liter_descend 0 0 i Hlt dd (S fd - dd) st) as (st' & Hok' & Enext).
      { intros x Hx. lia. }
      { exact Hok. }
      replace (dd + (S fd - dd))%nat with (S fd) in Enext by lia. rewrite Enext.
      destruct (liter_at_leaf i st' (S fd - dd) Hpk Hlt Hok') as (v & Ev & Enext').
      rewrite Enext'.
      match goal with |- context [mkl 0 ?s (i + 1)] => 
        destruct (IH (i + 1) (mkl 0 s (i + 1))) as (items & Ecol & Hib & Hnone) end.
      + eexists. split; [reflexivity|]. intros Hlt'.
        destruct (Nat.ltb_spec (tz (i + 1)) pd) as [Hlt2|Hge2].
        * exists 0%nat. split; [lia|]. apply stack_ok_next1; auto.
        * exists (S (tz (i + 1)) - pd)%nat. split; [lia|].
          pose proof (stack_ok_step1 st' 0 i Hlt' ltac:(lia) Hok') as X. exact X.
      + lia.
      + rewrite Ecol. exists (LPackedLeaf v :: items). split; [reflexivity|]. split.
        * rewrite (dropN_nth l i v Ev). constructor; auto. now apply pd_pos_packed.
        * exact Hnone.
  Qed.

  Lemma compute_level_facts n : n <= lenN l ->
    n mod pow2 (compute_level n fd pd) = 0 /\
    (compute_level n fd pd = 0%nat \/ (pd <= compute_level n fd pd)%nat) /\
    (n < lenN l -> (compute_level n fd pd <= fd + pd)%nat).
  Proof.
    intros Hn. unfold compute_level.
    destruct (N.eqb_spec n 0) as [->|Hn0].
    - destruct (Nat.ltb_spec (fd + pd) pd) as [Hlt|Hge].
      + split; [apply N.mod_0_l; pose proof (pow2_pos 0); lia|]. split; [auto|lia].
      + split; [apply N.mod_0_l; pose proof (pow2_pos (fd + pd)); lia|]. split; [right; lia|lia].
    - destruct (Nat.ltb_spec (tz n) pd) as [Hlt|Hge].
      + split; [rewrite pow2_0; apply N.mod_1_r|]. split; [auto|lia].
      + split; [apply tz_aligned; exact Hn0|]. split; [right; exact Hge|].
        intros Hlt. assert (tz n < fd + pd)%nat; [|lia]. apply tz_lt; [lia|]. rewrite <- cap_pow2. lia.
  Qed.

  Theorem liter_collect_spec_l n : n <= lenN l ->
    exists items,
      liter_collect ek (S (S (N.to_nat (lenN l)))) (liter_from_index ek n t fd (lenN l)) = Ok items /\
      items_blocks ek (compute_level n fd pd) items (dropN n l) /\
      (forall u, In u (internal_nodes items) -> subt u t).
  Proof.
    intros Hn. destruct (compute_level_facts n Hn) as (Hal & Hcases & Hle).
    change (liter_from_index ek n t fd (lenN l)) with (mkl (compute_level n fd pd) [t] n).
    remember (compute_level n fd pd) as L eqn:EL. clear EL.
    assert (Hinv: linv L (mkl L [t] n) n).
    { exists [t]. split; [reflexivity|]. intros Hlt. exists fd. split; [auto|]. apply stack_ok_root. lia. }
    destruct L as [|L'].
    - destruct (Nat.eq_dec pd 0) as [Hpd0|Hpd].
      + apply (liter_collect_block 0 0); auto; lia.
      + destruct (liter_collect_elem ltac:(lia) (S (S (N.to_nat (lenN l)))) n _ Hinv ltac:(lia)) as (items & E1 & E2 & E3).
        exists items. split; [exact E1|]. split; [exact E2|]. rewrite E3. intros u [].
    - apply (liter_collect_block (S L') (S L' - pd)); auto; lia.
  Qed.

  (* ---------- Iter ---------- *)
  Definition mki (st : list tree) (i : N) : iter T :=
    {| istack := st; iindex := i; ifull_depth := fd; ilength := lenN l |}.

  Lemma iter_next_unfold fuel it : iter_next ek fuel it =
    if ilength it <=? iindex it then SOk None it else
    match istack it with
    | [] => SOk None it
    | Zero _ _ :: _ => SOk None it
    | Leaf _ v :: _ =>
        let idx := iindex it + 1 in
        SOk (Some v) {| istack := pop_n (S (tz idx)) (istack it); iindex := idx;
                        ifull_depth := ifull_depth it; ilength := ilength it |}
    | Packed _ vs :: _ =>
        let sub := iindex it mod pf in
        let idx := iindex it + 1 in
        if sub + 1 =? pf then
          if (tz idx <? pd)%nat then SPanic PIterExpect else
          SOk (nthN vs sub) {| istack := pop_n (S (tz idx - pd)) (istack it); iindex := idx;
                               ifull_depth := ifull_depth it; ilength := ilength it |}
        else SOk (nthN vs sub) {| istack := istack it; iindex := idx;
                                  ifull_depth := ifull_depth it; ilength := ilength it |}
    | Node _ a b :: _ =>
        match fuel with
        | O => SPanic POutOfFuel
        | S f =>
            if (ifull_depth it <? length (istack it))%nat then SPanic POverflow else
            let depth := (ifull_depth it - length (istack it))%nat in
            let child := if N.testbit (iindex it) (N.of_nat (depth + pd)) then b else a in
            iter_next ek f {| istack := child :: istack it; iindex := iindex it;
                              ifull_depth := ifull_depth it; ilength := ilength it |}
        end
    end.
  Proof. destruct fuel; reflexivity. Qed.

  Lemma iter_descend i : i < lenN l -> forall k fuel st, stack_ok st k i ->
    exists st', stack_ok st' 0 i /\ iter_next ek (k + fuel) (mki st i) = iter_next ek fuel (mki st' i).
  Proof.
    intros Hi. induction k as [|k IH]; intros fuel st Hst.
    - exists st. split; auto.
    - destruct (stack_ok_top _ _ _ Hst) as (u & rest & -> & Hsh & Hsub & Hlen).
      rewrite (node_S _ _ Hi) in Hsh. destruct u as [j v|j vs|j a b|j z]; cbn [shape] in Hsh; try discriminate.
      pose proof (stack_ok_push j a b rest k i Hi Hst) as Hpush.
      destruct (IH fuel _ Hpush) as (st' & Hst' & Enext).
      exists st'. split; auto. rewrite <- Enext.
      rewrite iter_next_unfold. cbn [mki istack iindex ifull_depth ilength length Nat.add].
      destruct (N.leb_spec (lenN l) i) as [Hge|_]; [lia|]. rewrite Hlen.
      destruct Hst as (Hdd & _).
      destruct (Nat.ltb_spec fd (S (fd - S k))) as [Hov|_]; [lia|].
      replace (fd - S (fd - S k))%nat with k by lia. reflexivity.
  Qed.

  Lemma iter_at_leaf i st fuel : i < lenN l -> stack_ok st 0 i ->
    exists v, nthN l i = Some v /\
      iter_next ek fuel (mki st i) =
        SOk (Some v) (mki (if (tz (i + 1) <? pd)%nat then st else pop_n (S (tz (i + 1)) - pd) st) (i + 1)).
  Proof.
    intros Hi Hst. destruct (stack_ok_top _ _ _ Hst) as (u & rest & -> & Hsh & Hsub & Hlen).
    destruct Hst as (Hdd & _).
    destruct (nthN l i) as [v|] eqn:Ev; [|apply nthN_None in Ev; lia]. exists v. split; auto.
    rewrite iter_next_unfold. cbn [mki istack iindex ifull_depth ilength length].
    destruct (N.leb_spec (lenN l) i) as [Hge|_]; [lia|].
    unfold node in Hsh. rewrite canon_0 in Hsh by (apply node_ne; exact Hi).
    destruct (is_packed ek) eqn:Epk.
    - destruct u as [j v'|j vs|j a b|j z]; cbn [shape] in Hsh; try discriminate. injection Hsh as Hvs.
      cbv zeta. pose proof (pow2_pos pd) as Hpf.
      assert (Esub: nthN vs (i mod pf) = Some v).
      { rewrite Hvs, nthN_win. rewrite cap_pow2. cbn [Nat.add]. unfold pf_of.
        pose proof (N.mod_upper_bound i (pow2 pd) ltac:(lia)) as Hub.
        destruct (N.ltb_spec (i mod pow2 pd) (pow2 pd)); [|lia]. rewrite <- al_spec. exact Ev. }
      rewrite Esub. unfold pf_of in *.
      assert (Emod: (i + 1) mod pow2 pd = (i mod pow2 pd + 1) mod pow2 pd).
      { rewrite N.add_mod_idemp_l by lia. reflexivity. }
      pose proof (N.mod_upper_bound i (pow2 pd) ltac:(lia)) as Hub.
      destruct (N.eqb_spec (i mod pow2 pd + 1) (pow2 pd)) as [E|NE].
      + assert (Hz: (i + 1) mod pow2 pd = 0) by (rewrite Emod, E; apply N.mod_same; lia).
        pose proof (tz_ge (i + 1) pd ltac:(lia) Hz) as Hge.
        destruct (Nat.ltb_spec (tz (i + 1)) pd) as [Hlt|_]; [lia|].
        unfold mki. replace (S (tz (i + 1)) - pd)%nat with (S (tz (i + 1) - pd)) by lia. reflexivity.
      + assert (Hnz: (i + 1) mod pow2 pd <> 0).
        { rewrite Emod. pose proof (N.le_0_l (i mod pow2 pd)) as H0. rewrite N.mod_small; lia. }
        pose proof (tz_lt_mod (i + 1) pd Hnz) as Hlt.
        destruct (Nat.ltb_spec (tz (i + 1)) pd) as [_|Hge]; [|lia]. reflexivity.
    - pose proof (node_ne 0 i Hi) as Hne. pose proof (nthN_win l (al i (0 + pd)) (cap ek 0) 0) as Hw.
      destruct (win l (al i (0 + pd)) (cap ek 0)) as [|v0 w]; [congruence|].
      destruct u as [j v'|j vs|j a b|j z]; cbn [shape] in Hsh; try discriminate. injection Hsh as ->.
      pose proof (unpacked_pd0 Epk) as Hpd0. rewrite Hpd0 in *. cbn [nthN Nat.add] in Hw.
      rewrite al_0, N.add_0_r in Hw. pose proof (cap_pos 0) as Hc.
      destruct (N.ltb_spec 0 (cap ek 0)); [|lia]. cbn in Hw. rewrite Ev in Hw. injection Hw as ->.
      cbv zeta. destruct (Nat.ltb_spec (tz (i + 1)) 0) as [Hlt|_]; [lia|].
      unfold mki. now rewrite Nat.sub_0_r.
  Qed.

  Definition iinv (it : iter T) (i : N) : Prop :=
    exists st, it = mki st i /\ (i < lenN l -> exists dd, stack_ok st dd i).

  Lemma iinv_init i : iinv (iter_from_index i t fd (lenN l)) i.
  Proof. exists [t]. split; [reflexivity|]. intros Hi. exists fd. apply stack_ok_root. lia. Qed.

  Lemma iter_end it i fuel : iinv it i -> lenN l <= i -> iter_next ek fuel it = SOk None it.
  Proof.
    intros (st & -> & _) Hge. rewrite iter_next_unfold. cbn [mki istack iindex ifull_depth ilength].
    destruct (N.leb_spec (lenN l) i); [reflexivity|lia].
  Qed.

  (* one step: yields element i and re-establishes the invariant; never SPanic *)
  Lemma iter_step it i : iinv it i -> i < lenN l ->
    exists v it', nthN l i = Some v /\ iter_next ek (S fd) it = SOk (Some v) it' /\ iinv it' (i + 1).
  Proof.
    intros (st & -> & Hst) Hlt. destruct (Hst Hlt) as (dd & Hok). pose proof Hok as (Hddfd & _).
    destruct (iter_descend i Hlt dd (S fd - dd) st Hok) as (st' & Hok' & Enext).
    replace (dd + (S fd - dd))%nat with (S fd) in Enext by lia.
    destruct (iter_at_leaf i st' (S fd - dd) Hlt Hok') as (v & Ev & Enext').
    exists v. eexists. split; [exact Ev|]. split; [rewrite Enext; exact Enext'|].
    eexists. split; [reflexivity|]. intros Hlt'.
    destruct (Nat.ltb_spec (tz (i + 1)) pd) as [Hlt2|Hge2].
    - exists 0%nat. apply stack_ok_next1; auto.
    - exists (S (tz (i + 1)) - pd)%nat.
      pose proof (stack_ok_step1 st' 0 i Hlt' ltac:(lia) Hok') as X. exact X.
  Qed.

  (* the (j+1)-th call of next *)
  Fixpoint iter_nth (fuel : nat) (j : nat) (it : iter T) : step_res T (iter T) :=
    match j with
    | O => iter_next ek fuel it
    | S j' => match iter_next ek fuel it with SOk _ it' => iter_nth fuel j' it' | SPanic c => SPanic c end
    end.

  Lemma iter_nth_inv : forall j i it, iinv it i ->
    exists it', iter_nth (S fd) j it = SOk (nthN l (i + N.of_nat j)) it'.
  Proof.
    induction j as [|j IH]; intros i it Hinv; cbn [iter_nth].
    - rewrite N.add_0_r. destruct (N.le_gt_cases (lenN l) i) as [Hge|Hlt].
      + rewrite (iter_end it i _ Hinv Hge). exists it. f_equal. symmetry. now apply nthN_None.
      + destruct (iter_step it i Hinv Hlt) as (v & it' & Ev & En & _). exists it'. now rewrite En, Ev.
    - destruct (N.le_gt_cases (lenN l) i) as [Hge|Hlt].
      + rewrite (iter_end it i _ Hinv Hge). destruct (IH i it Hinv) as (it' & E). exists it'. rewrite E.
        f_equal. transitivity (@None T); [apply nthN_None|symmetry; apply nthN_None]; lia.
      + destruct (iter_step it i Hinv Hlt) as (v & it' & Ev & En & Hinv'). rewrite En.
        destruct (IH (i + 1) it' Hinv') as (it'' & E). exists it''. rewrite E. f_equal. f_equal. lia.
  Qed.

End IterP.

(* exported form of part 3 *)
Theorem liter_collect_spec {T} (ek : ekind T) (t : tree T) (d : nat) (bl : list T) (blen n : N) :
  shape t = canon ek d bl -> lenN bl = blen -> blen <= cap ek d -> n <= blen ->
  exists items,
    liter_collect ek (S (S (N.to_nat blen))) (liter_from_index ek n t d blen) = Ok items /\
    items_blocks ek (compute_level n d (pd_of ek)) items (dropN n bl) /\
    (forall u, In u (internal_nodes items) -> subt u t).
Proof. intros Hsh <- Hcap Hn. now apply liter_collect_spec_l. Qed.

(* exported form of part 1: the (j+1)-th call of next on the iterator started at i returns element
   i+j of the list, None from the end of the list on, and never panics (for every i, also i > blen) *)
Theorem iter_yields {T} (ek : ekind T) (t : tree T) (d : nat) (bl : list T) (blen i : N) :
  shape t = canon ek d bl -> lenN bl = blen -> blen <= cap ek d ->
  forall j, exists it',
    iter_nth ek (S d) j (iter_from_index i t d blen) = SOk (nthN bl (i + N.of_nat j)) it'.
Proof. intros Hsh <- Hcap j. apply (iter_nth_inv ek bl t d Hcap). apply (iinv_init ek bl t d Hsh Hcap). Qed.

Corollary iter_yields_some {T} (ek : ekind T) (t : tree T) (d : nat) (bl : list T) (blen i : N) :
  shape t = canon ek d bl -> lenN bl = blen -> blen <= cap ek d -> i <= blen ->
  forall j, N.of_nat j < blen - i -> exists v it',
    nthN bl (i + N.of_nat j) = Some v /\
    iter_nth ek (S d) j (iter_from_index i t d blen) = SOk (Some v) it'.
Proof.
  intros Hsh Hlen Hcap Hi j Hj. destruct (iter_yields ek t d bl blen i Hsh Hlen Hcap j) as (it' & E).
  destruct (nthN bl (i + N.of_nat j)) as [v|] eqn:Ev.
  - exists v, it'. auto.
  - apply nthN_None in Ev. lia.
Qed.

(* ---------- int_log ---------- *)
Lemma int_log_aux_ub : forall f d n, n <= pow2 (d + f) -> n <= pow2 (int_log_aux f d n).
Proof.
  induction f as [|f IH]; intros d n Hn; cbn [int_log_aux].
  - now rewrite Nat.add_0_r in Hn.
  - destruct (N.leb_spec n (pow2 d)); [assumption|]. apply IH. now replace (S d + f)%nat with (d + S f)%nat by lia.
Qed.
Lemma int_log_ub n : n <= 2 ^ 63 -> n <= pow2 (int_log n).
Proof.
  intros Hn. unfold int_log. apply int_log_aux_ub. cbn [Nat.add]. unfold pow2.
  eapply N.le_trans; [exact Hn|]. apply N.pow_le_mono_r; [lia|]. change (N.of_nat 64) with 64. lia.
Qed.

(* ---------- the interface iterator ---------- *)
Fixpoint hints_nat (k : nat) : list N :=
  N.of_nat k :: match k with O => [] | S k' => hints_nat k' end.
(* [n; n-1; ...; 0] *)
Definition hints_from (n : N) : list N := hints_nat (N.to_nat n).
Lemma hints_from_0 : hints_from 0 = [0]. Proof. reflexivity. Qed.
Lemma hints_from_pos n : 0 < n -> hints_from n = n :: hints_from (n - 1).
Proof.
  intros Hn. unfold hints_from. replace (N.to_nat n) with (S (N.to_nat (n - 1))) by lia.
  cbn [hints_nat]. f_equal. lia.
Qed.

Section IfaceIter.
  Context {T U : Type}.
  Variable ek : ekind T.
  Variable M : umap_impl T U.
  Variable uinv : U -> Prop.
  Variable capN : N.
  Hypothesis EKW : ek_wf ek.
  Hypothesis UL : umap_lawful ek M uinv.
  Hypothesis CAP : capacity_ok capN.
  Notation handle := (handle T U).
  Notation pd := (pd_of ek).

  Lemma cap_list_depth : capN <= cap ek (list_depth ek capN).
  Proof.
    pose proof CAP as Hc. unfold capacity_ok in Hc. pose proof (int_log_ub capN Hc) as Hub. rewrite cap_pow2. unfold list_depth.
    eapply N.le_trans; [exact Hub|]. apply pow2_mono. lia.
  Qed.

  Variable h : handle.
  Variable l : list T.
  Hypothesis HI : hinv ek M capN uinv h l.

  Lemma iface_len_eq : iface_len M h = lenN l.
  Proof. destruct HI as ((bl & _ & _ & _ & E) & _). exact E. Qed.

  (* the invariant of InterfaceIter at position j *)
  Definition iiinv (bl : list T) (it : @iiter T) (j : N) : Prop :=
    ii_index it = j /\ ii_length it = lenN l /\
    exists i', iinv ek bl (htree h) (hdepth h) (ii_tree it) i' /\ (i' = j \/ (lenN bl <= i' /\ lenN bl <= j)).

  Section WithBacking.
    Variable bl : list T.
    Hypothesis Hsh : shape (htree h) = canon ek (hdepth h) bl.
    Hypothesis Hbl : lenN bl = hblen h.
    Hypothesis Hag : agrees M (hupd h) bl l.

    Lemma bl_cap : lenN bl <= cap ek (hdepth h).
    Proof.
      destruct HI as (_ & Hd & _ & Hb & _). rewrite Hd, Hbl.
      eapply N.le_trans; [exact Hb|apply cap_list_depth].
    Qed.

    Lemma iiinv_init i : iiinv bl (iface_iter_from M h i) i.
    Proof.
      split; [reflexivity|]. split; [apply iface_len_eq|]. exists i. split; [|left; reflexivity].
      cbn [iface_iter_from ii_tree]. rewrite <- Hbl. apply iinv_init; [exact Hsh|apply bl_cap].
    Qed.

    Lemma iiter_step it j : iiinv bl it j -> j < lenN l ->
      exists v it', nthN l j = Some v /\ iiter_next ek M h it = SOk (Some v) it' /\ iiinv bl it' (j + 1).
    Proof.
      intros (Ej & Elen & i' & Hinv & Hi') Hj. destruct Hag as (Hle & Hget & Hnone & Hkey).
      unfold iiter_next. rewrite Ej.
      destruct Hi' as [->|[Hge1 Hge2]].
      - destruct (N.le_gt_cases (lenN bl) j) as [Hge|Hlt].
        + (* past the backing list: the map has the entry, the tree iterator stays at its end *)
          rewrite (iter_end ek bl (htree h) (hdepth h) bl_cap _ j _ Hinv Hge).
          pose proof (Hkey j Hge Hj) as Hk. unfold has_key in Hk.
          destruct (uget M (hupd h) j) as [v|] eqn:Eg; [|congruence].
          exists v. eexists. split; [apply Hget; exact Eg|]. split; [reflexivity|].
          split; [reflexivity|]. split; [exact Elen|]. exists j. split; [exact Hinv|]. right. lia.
        + destruct (iter_step ek bl (htree h) (hdepth h) bl_cap _ j Hinv Hlt) as (v & ti' & Ev & En & Hinv').
          rewrite En. destruct (uget M (hupd h) j) as [w|] eqn:Eg.
          * exists w. eexists. split; [apply Hget; exact Eg|]. split; [reflexivity|].
            split; [reflexivity|]. split; [exact Elen|]. exists (j + 1). split; [exact Hinv'|]. left. reflexivity.
          * exists v. eexists. split; [rewrite (Hnone j Eg Hlt); exact Ev|]. split; [reflexivity|].
            split; [reflexivity|]. split; [exact Elen|]. exists (j + 1). split; [exact Hinv'|]. left. reflexivity.
      - rewrite (iter_end ek bl (htree h) (hdepth h) bl_cap _ i' _ Hinv Hge1).
        pose proof (Hkey j Hge2 Hj) as Hk. unfold has_key in Hk.
        destruct (uget M (hupd h) j) as [v|] eqn:Eg; [|congruence].
        exists v. eexists. split; [apply Hget; exact Eg|]. split; [reflexivity|].
        split; [reflexivity|]. split; [exact Elen|]. exists i'. split; [exact Hinv|]. right. lia.
    Qed.

    Lemma iiter_end it j : iiinv bl it j -> lenN l <= j ->
      exists it', iiter_next ek M h it = SOk None it'.
    Proof.
      intros (Ej & Elen & i' & Hinv & Hi') Hj. destruct Hag as (Hle & Hget & Hnone & Hkey).
      unfold iiter_next. rewrite Ej.
      assert (Hge: lenN bl <= i') by (destruct Hi' as [->|[? ?]]; lia).
      rewrite (iter_end ek bl (htree h) (hdepth h) bl_cap _ i' _ Hinv Hge).
      destruct (uget M (hupd h) j) as [v|] eqn:Eg.
      - apply Hget in Eg. assert (nthN l j <> None) as Hs by congruence. apply nthN_Some in Hs. lia.
      - eexists. reflexivity.
    Qed.

    Lemma iiter_collect_inv : forall n j it, iiinv bl it j -> j <= lenN l -> (N.to_nat (lenN l - j) < n)%nat ->
      iiter_collect ek M n h it = Ok (dropN j l, hints_from (lenN l - j)).
    Proof.
      induction n as [|n IH]; intros j it Hinv Hj Hn; [lia|]. cbn [iiter_collect].
      assert (Hhint: iiter_hint it = lenN l - j).
      { destruct Hinv as (Ej & Elen & _). unfold iiter_hint. now rewrite Ej, Elen. }
      rewrite Hhint. destruct (N.eq_dec j (lenN l)) as [->|Hne].
      - destruct (iiter_end it (lenN l) Hinv ltac:(lia)) as (it' & E). rewrite E.
        rewrite dropN_all by lia. rewrite N.sub_diag. reflexivity.
      - destruct (iiter_step it j Hinv ltac:(lia)) as (v & it' & Ev & E & Hinv'). rewrite E.
        rewrite (IH (j + 1) it' Hinv') by lia.
        rewrite (dropN_nth l j v Ev). rewrite (hints_from_pos (lenN l - j)) by lia.
        replace (lenN l - j - 1) with (lenN l - (j + 1)) by lia. reflexivity.
    Qed.
  End WithBacking.

  Theorem iiter_collect_spec i : i <= lenN l ->
    iiter_collect ek M (collect_fuel M h) h (iface_iter_from M h i) = Ok (dropN i l, hints_from (lenN l - i)).
  Proof.
    intros Hi. pose proof HI as ((bl & Hsh & Hbl & Hag & Hul) & _).
    unfold collect_fuel. rewrite iface_len_eq.
    apply (iiter_collect_inv bl Hbl Hag); auto; [|lia]. now apply iiinv_init.
  Qed.

  Theorem to_vec_eq : to_vec ek M h = Ret l.
  Proof. unfold to_vec. rewrite (iiter_collect_spec 0) by lia. rewrite dropN_0. reflexivity. Qed.

  Theorem to_vec_spec R s : wp R (to_vec ek M h) (fun o s' => o = Ok l /\ s' = s) s.
  Proof. rewrite to_vec_eq. cbn [wp]. auto. Qed.

  Theorem coll_iter_from_eq i :
    coll_iter_from ek M h i =
      if lenN l <? i then Fail (OutOfBoundsIterFrom i (lenN l)) else Ret (dropN i l, hints_from (lenN l - i)).
  Proof.
    unfold coll_iter_from. rewrite iface_len_eq. destruct (N.ltb_spec (lenN l) i) as [Hlt|Hge]; [reflexivity|].
    rewrite (iiter_collect_spec i Hge). reflexivity.
  Qed.

  Theorem coll_iter_from_spec R s i :
    wp R (coll_iter_from ek M h i)
       (fun o s' => s' = s /\
          o = if lenN l <? i then Err (OutOfBoundsIterFrom i (lenN l))
              else Ok (dropN i l, hints_from (lenN l - i))) s.
  Proof. rewrite coll_iter_from_eq. destruct (lenN l <? i); cbn [wp]; auto. Qed.
  (* without pending updates the backing list is the represented list *)
  Lemma no_pending_backing : has_pending M h = false ->
    shape (htree h) = canon ek (hdepth h) l /\ hblen h = lenN l.
  Proof.
    intros Hp. pose proof HI as ((bl & Hsh & Hbl & (Hle & Hget & Hnone & Hkey) & Hul) & _ & _ & _ & _ & Hu).
    unfold has_pending, uis_empty in Hp. apply negb_false_iff, N.eqb_eq in Hp.
    pose proof (proj1 (ul_len_0 _ _ _ UL (hupd h) Hu) Hp) as Hall.
    assert (Hlen: lenN l = lenN bl).
    { destruct (N.eq_dec (lenN l) (lenN bl)) as [|Hne]; [assumption|]. exfalso.
      apply (Hkey (lenN bl)); [lia|lia|apply Hall]. }
    assert (l = bl) as ->.
    { apply listN_ext. intros k. destruct (N.lt_ge_cases k (lenN bl)) as [Hlt|Hge].
      - apply Hnone; auto.
      - transitivity (@None T); [apply nthN_None|symmetry; apply nthN_None]; lia. }
    auto.
  Qed.

  Theorem list_level_iter_from_spec n :
    (lenN l < n -> list_level_iter_from ek M h n = Fail (OutOfBoundsIterFrom n (lenN l))) /\
    (n <= lenN l -> has_pending M h = true -> list_level_iter_from ek M h n = Fail LevelIterPendingUpdates) /\
    (n <= lenN l -> has_pending M h = false ->
       exists items, list_level_iter_from ek M h n = Ret items /\
         items_blocks ek (compute_level n (hdepth h) pd) items (dropN n l) /\
         (forall u, In u (internal_nodes items) -> subt u (htree h))).
  Proof.
    unfold list_level_iter_from. rewrite iface_len_eq. repeat split.
    - intros Hn. destruct (N.ltb_spec (lenN l) n); [reflexivity|lia].
    - intros Hn Hp. destruct (N.ltb_spec (lenN l) n); [lia|]. now rewrite Hp.
    - intros Hn Hp. destruct (N.ltb_spec (lenN l) n); [lia|]. rewrite Hp.
      destruct (no_pending_backing Hp) as (Hsh & Hbl).
      assert (Hc: hblen h <= cap ek (hdepth h)).
      { destruct HI as (_ & Hd & _ & Hb & _). rewrite Hd. eapply N.le_trans; [exact Hb|apply cap_list_depth]. }
      destruct (liter_collect_spec ek (htree h) (hdepth h) l (hblen h) n Hsh (eq_sym Hbl) Hc ltac:(lia))
        as (items & E & Hib & Hsub).
      exists items. rewrite E. auto.
  Qed.
End IfaceIter.

Print Assumptions liter_collect_spec.
Print Assumptions iter_yields.
Print Assumptions iter_yields_some.
Print Assumptions iiter_collect_spec.
Print Assumptions to_vec_spec.
Print Assumptions coll_iter_from_spec.
Print Assumptions list_level_iter_from_spec.
