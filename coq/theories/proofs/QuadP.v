(* QuadP.v — task `quadkind`: the element kind `quad` (struct Quad { a, b, c, d : u64 }) is lawful and every
   master theorem holds for it.
   `ek_quad H` of model/Elem.v is a fixed-size container of exactly 32 bytes: as wide as one chunk and as a
   Hash256, but with four field chunks; its root is the depth-2 Merkle tree of the four fields, not its bytes.
   1. P_quad, ek_quadW H (the raw kind restricted to the byte strings of length 32 with bytes < 256);
      ek_quadW_wf, ek_quadW_codec_on, ek_quad_codec, ek_quadW_agree, ek_quadW_troot_inj (from collision_free H).
   2. the SSZ reading of the root: quad_fields, quad_split, quad_split_concat,
      ek_quad_root_mroot ( = Elem.mroot H 2 of the four field chunks), ek_quad_root_merkleize ( = HashP.merkleize),
      ek_quad_root_container ( = hash_tree_root of a container of four uint64 fields, on a ++ b ++ c ++ d),
      ek_quadW_root_is_container, quad_root_not_bytes (the root is NOT the root of the same bytes as Hash256).
   3. closed master theorems, hash Hc: quad_laws, run_refines_quad, step_refines_quad (arbitrary lawful map);
      quad_every_configuration_refines, quad_every_configuration_step, quad_all_maps_refine,
      quad_maps_unobservable_any, quad_maps_unobservable, quad_maps_unobservable_three,
      quad_silent_ops_invisible, quad_hash_invisible, quad_rebase_invisible, quad_intra_is_flush,
      quad_reachable_node_bound; kind_ok11 (the ten kinds of ClosureP + quad), kind_ok11_laws,
      every_configuration_refines11.
   4. quad_serialize, quad_preimage_iff, quad_preimage_vec_iff (a byte string is a serialization iff its length is a
      multiple of 32 within the capacity), quad_decode_iff, quad_vec_decode_iff (SszDetP, any lawful map),
      quad_builder_session, quad_builder_session_init (BuilderSysP.value_session_root, any map).
   5. examples evaluated by the kernel (List<Quad, 5> with two elements: quad_list_root_computed, quad_list_root_spec,
      quad_list_maps_computed, quad_session_computed) and by the theorems (history_quad, session_quad_by_theorem).
   Proof file; no model code. *)
From Coq Require Import FMapPositive Eqdep_dec.
From MH Require Import Inv IfaceP IterP WulP IntraP CollCtorP CollObsP UMapP CodecP HashP BuilderP SysInv RefineBase RefineA
  RefineB Refine Instances FinalP BuilderSysP InvisibleP NestedP ClosureP SszDetP.
Local Open Scope N_scope.

(* ====================================================================== *)
(* 0. slices of a byte string                                               *)
(* ====================================================================== *)
(* the four 8-byte fields of a 32-byte string (the last one is "the rest") *)
Definition quad_split (v : bytes) : list bytes :=
  [firstn 8 v; firstn 8 (skipn 8 v); firstn 8 (skipn 16 v); skipn 24 v].
(* the four field chunks: a u64 field occupies the low 8 bytes of its chunk, so the chunk, as a little-endian
   number, is the field's value *)
Definition quad_fields (v : bytes) : list digest := map le_num (quad_split v).

Lemma skipn_skipn_add {A} : forall (n m : nat) (l : list A), skipn n (skipn m l) = skipn (m + n) l.
Proof.
  intros n m. induction m as [|m IH]; intros l; [reflexivity|].
  destruct l as [|x l]; [now rewrite !skipn_nil|]. cbn [Nat.add skipn]. apply IH.
Qed.
Lemma skipn_16 {A} (l : list A) : skipn 16 l = skipn 8 (skipn 8 l).
Proof. now rewrite skipn_skipn_add. Qed.
Lemma skipn_24 {A} (l : list A) : skipn 24 l = skipn 8 (skipn 8 (skipn 8 l)).
Proof. now rewrite !skipn_skipn_add. Qed.

Lemma quad_split_concat v : concat (quad_split v) = v.
Proof.
  unfold quad_split. cbn [concat]. rewrite app_nil_r.
  rewrite skipn_16, skipn_24.
  rewrite !firstn_skipn. reflexivity.
Qed.

Lemma quad_split_app (a b c d : bytes) : length a = 8%nat -> length b = 8%nat -> length c = 8%nat ->
  quad_split (a ++ b ++ c ++ d) = [a; b; c; d].
Proof.
  intros La Lb Lc. unfold quad_split.
  assert (S8 : forall x y : bytes, length x = 8%nat -> skipn 8 (x ++ y) = y /\ firstn 8 (x ++ y) = x).
  { intros x y Lx. split.
    - rewrite skipn_app, Lx, Nat.sub_diag, skipn_all2 by lia. reflexivity.
    - rewrite firstn_app, Lx, Nat.sub_diag, firstn_all2 by lia. cbn [firstn]. apply app_nil_r. }
  rewrite skipn_16, skipn_24.
  rewrite (proj1 (S8 a _ La)), (proj2 (S8 a _ La)), (proj1 (S8 b _ Lb)), (proj2 (S8 b _ Lb)),
    (proj1 (S8 c _ Lc)), (proj2 (S8 c _ Lc)). reflexivity.
Qed.

(* ====================================================================== *)
(* 1. the lawful kind                                                       *)
(* ====================================================================== *)
Definition P_quad (b : bytes) : bool := Nat.eqb (length b) 32 && valid_bytes b.

Lemma P_quad_iff b : P_quad b = true <-> bytes_of_len 32 b.
Proof.
  unfold P_quad, bytes_of_len. rewrite andb_true_iff, Nat.eqb_eq. reflexivity.
Qed.

Section Quad.
  Variable H : digest -> digest -> digest.

  Definition ek_quadW : ekind (BV P_quad) := ek_sub (ek_quad H) P_quad (exist _ (repeat 0 32%nat) eq_refl).

  Theorem ek_quadW_wf : ek_wf ek_quadW.
  Proof. apply ek_sub_wf; reflexivity. Qed.

  Theorem ek_quadW_codec_on : ek_codec_on ek_quadW (fun _ => True).
  Proof.
    apply ek_sub_codec_on; try reflexivity.
    intros s E. cbn [ek_quad efixed] in E. injection E as <-. split; [lia|].
    intros b Hb. apply andb_true_iff in Hb. destruct Hb as [Hb _]. apply Nat.eqb_eq in Hb. unfold lenN. now rewrite Hb.
  Qed.

  Theorem ek_quadW_codec : ek_codec ek_quadW.
  Proof. apply ek_codec_on_True, ek_quadW_codec_on. Qed.

  (* the raw kind the driver runs satisfies the codec laws on the well-formed byte strings *)
  Theorem ek_quad_codec : ek_codec_on (ek_quad H) (bytes_of_len 32).
  Proof. apply fixed_bytes_codec; try reflexivity. lia. Qed.

  (* agreement with the raw kind: by definition, except for decoding *)
  Theorem ek_quadW_agree :
    epd (ek_quad H) = epd ek_quadW /\ efixed (ek_quad H) = efixed ek_quadW /\
    (forall v, epenc (ek_quad H) (bval v) = epenc ek_quadW v) /\ (forall v, etroot (ek_quad H) (bval v) = etroot ek_quadW v) /\
    (forall v, eenc (ek_quad H) (bval v) = eenc ek_quadW v) /\ (forall b, edec (ek_quad H) b = option_map bval (edec ek_quadW b)) /\
    (forall v u, eeqb (ek_quad H) (bval v) (bval u) = eeqb ek_quadW v u) /\
    edefault (ek_quad H) = bval (edefault ek_quadW).
  Proof.
    destruct (sub_agree (ek_quad H) P_quad (exist _ (repeat 0 32%nat) eq_refl) eq_refl) as (A1 & A2 & A3 & A4 & A5 & A6 & A7).
    repeat (split; [assumption|]). reflexivity.
  Qed.

  Lemma quad_unpacked : is_packed ek_quadW = false /\ pd_of ek_quadW = 0%nat /\ pf_of ek_quadW = 1 /\
    efixed ek_quadW = Some 32 /\ forall d, cap ek_quadW d = pow2 d.
  Proof.
    repeat split. intros d. unfold cap. change (pd_of ek_quadW) with 0%nat. now rewrite Nat.add_0_r.
  Qed.

  (* ---------- the SSZ reading of the root ---------- *)
  (* the root is Elem.mroot of the four field chunks at depth 2 ... *)
  Theorem ek_quad_root_mroot v : etroot (ek_quad H) v = mroot H 2 (quad_fields v).
  Proof. reflexivity. Qed.

  (* ... that is, merkleize(field chunks, limit 4) of HashP (the specification used for collections) *)
  Theorem ek_quad_root_merkleize v : etroot (ek_quad H) v = merkleize H 2 (quad_fields v).
  Proof. rewrite ek_quad_root_mroot. apply mroot_merkleize. Qed.

  (* hash_tree_root of a container with four uint64 fields a, b, c, d whose serialization is a ++ b ++ c ++ d:
     merkleize([hash_tree_root(a); hash_tree_root(b); hash_tree_root(c); hash_tree_root(d)]), where the root of a
     uint64 is the root of the kind u64 of the correspondence check (ek_uint 3) *)
  Theorem ek_quad_root_container (a b c d : bytes) :
    length a = 8%nat -> length b = 8%nat -> length c = 8%nat ->
    etroot (ek_quad H) (a ++ b ++ c ++ d) = merkleize H 2 (map (etroot (ek_uint 3)) [a; b; c; d]) /\
    etroot (ek_quad H) (a ++ b ++ c ++ d) = H (H (le_num a) (le_num b)) (H (le_num c) (le_num d)) /\
    eenc (ek_quad H) (a ++ b ++ c ++ d) = concat (map (eenc (ek_uint 3)) [a; b; c; d]).
  Proof.
    intros La Lb Lc. split; [|split].
    - rewrite ek_quad_root_merkleize. unfold quad_fields. rewrite quad_split_app by assumption. reflexivity.
    - rewrite ek_quad_root_mroot. unfold quad_fields. rewrite quad_split_app by assumption. reflexivity.
    - cbn [ek_quad ek_uint eenc map concat]. now rewrite app_nil_r.
  Qed.

  (* in terms of the lawful kind: every value is the serialization of four u64 values and its root is the
     container root of these *)
  Theorem ek_quadW_root_is_container (v : BV P_quad) :
    exists a b c d : bytes,
      bval v = a ++ b ++ c ++ d /\
      bytes_of_len 8 a /\ bytes_of_len 8 b /\ bytes_of_len 8 c /\ bytes_of_len 8 d /\
      etroot ek_quadW v = merkleize H 2 (map (etroot (ek_uint 3)) [a; b; c; d]) /\
      etroot ek_quadW v = H (H (le_num a) (le_num b)) (H (le_num c) (le_num d)).
  Proof.
    pose proof (bval_ok v) as Hv. apply andb_true_iff in Hv. destruct Hv as [Lv Vv]. apply Nat.eqb_eq in Lv.
    pose proof (quad_split_concat (bval v)) as Ec. unfold quad_split in Ec. cbn [concat] in Ec. rewrite app_nil_r in Ec.
    exists (firstn 8 (bval v)), (firstn 8 (skipn 8 (bval v))), (firstn 8 (skipn 16 (bval v))), (skipn 24 (bval v)).
    assert (B1 : bytes_of_len 8 (firstn 8 (bval v))).
    { split; [rewrite firstn_length; lia|now apply valid_bytes_firstn]. }
    assert (B2 : bytes_of_len 8 (firstn 8 (skipn 8 (bval v)))).
    { split; [rewrite firstn_length, skipn_length; lia|now apply valid_bytes_firstn, valid_bytes_skipn]. }
    assert (B3 : bytes_of_len 8 (firstn 8 (skipn 16 (bval v)))).
    { split; [rewrite firstn_length, skipn_length; lia|now apply valid_bytes_firstn, valid_bytes_skipn]. }
    assert (B4 : bytes_of_len 8 (skipn 24 (bval v))).
    { split; [rewrite skipn_length; lia|now apply valid_bytes_skipn]. }
    split; [now rewrite Ec|]. repeat (split; [assumption|]).
    change (etroot ek_quadW v) with (etroot (ek_quad H) (bval v)).
    destruct (ek_quad_root_container _ _ (firstn 8 (skipn 16 (bval v))) (skipn 24 (bval v)) (proj1 B1) (proj1 B2) (proj1 B3))
      as (R1 & R2 & _).
    rewrite Ec in R1, R2. split; assumption.
  Qed.

  (* ---------- injectivity of the root ---------- *)
  Lemma ek_quad_root_inj : collision_free H -> forall a b, P_quad a = true -> P_quad b = true ->
    etroot (ek_quad H) a = etroot (ek_quad H) b -> a = b.
  Proof.
    intros CF a b Ha Hb. cbn [ek_quad etroot]. intros E.
    apply (proj1 CF) in E. destruct E as [E1 E2].
    apply (proj1 CF) in E1. apply (proj1 CF) in E2. destruct E1 as [Ea Eb], E2 as [Ec Ed].
    apply andb_true_iff in Ha, Hb. destruct Ha as [La Va], Hb as [Lb Vb]. apply Nat.eqb_eq in La, Lb.
    rewrite <- (quad_split_concat a), <- (quad_split_concat b). unfold quad_split. cbn [concat]. f_equal; [|f_equal; [|f_equal]].
    - apply le_num_inj; auto using valid_bytes_firstn. rewrite !firstn_length. lia.
    - apply le_num_inj; auto using valid_bytes_firstn, valid_bytes_skipn. rewrite !firstn_length, !skipn_length. lia.
    - apply le_num_inj; auto using valid_bytes_firstn, valid_bytes_skipn. rewrite !firstn_length, !skipn_length. lia.
    - f_equal. apply le_num_inj; auto using valid_bytes_skipn. rewrite !skipn_length. lia.
  Qed.

  Theorem ek_quadW_troot_inj : collision_free H -> troot_inj ek_quadW.
  Proof. intros CF. apply ek_sub_troot_inj. intros a b Ha Hb. now apply ek_quad_root_inj. Qed.
End Quad.

(* the kind that distinguishes "32 bytes" from "one chunk": the same 32 bytes have a different root as a Quad
   and as a Hash256 (whose root is the bytes themselves), already for the all-zero value *)
Example quad_root_not_bytes :
  etroot (ek_quad Hc) (repeat 0 32%nat) <> etroot ek_h256 (repeat 0 32%nat) /\
  etroot ek_h256 (repeat 0 32%nat) = 0 /\ etroot (ek_quad Hc) (repeat 0 32%nat) = zh Hc 2.
Proof. split; [vm_compute; discriminate|split; vm_compute; reflexivity]. Qed.

(* ====================================================================== *)
(* 3. the master theorems, closed for quad (hash Hc)                        *)
(* ====================================================================== *)
Definition Quad : Type := BV P_quad.
Definition ekQ : ekind Quad := ek_quadW Hc.

Theorem quad_laws : ek_wf ekQ /\ troot_inj ekQ /\ ek_codec_on ekQ (fun _ => True).
Proof.
  split; [apply ek_quadW_wf|]. split; [apply ek_quadW_troot_inj, Hc_collision_free|apply ek_quadW_codec_on].
Qed.

(* ---------- an arbitrary lawful update map ---------- *)
Theorem run_refines_quad (U : Type) (M : umap_impl (BV P_quad) U) (uinv : U -> Prop) :
  umap_lawful (ek_quadW Hc) M uinv ->
  forall capN vec_based os, capacity_ok capN -> Forall op_plain os ->
  exists rs s' st' a',
    model_run (ek_quadW Hc) M Hc capN vec_based init_sys init_state os = Some (rs, s', st') /\
    spec_run (ek_quadW Hc) Hc capN vec_based (fun _ => True) init_sregs os rs a' /\
    SysInv (ek_quadW Hc) M Hc capN uinv st' s' a'.
Proof.
  intros UL capN vec_based os.
  exact (run_refines_closed (ek_quadW Hc) M uinv (ek_quadW_wf Hc) (ek_quadW_troot_inj Hc Hc_collision_free)
           (ek_quadW_codec_on Hc) UL capN vec_based os).
Qed.

Theorem step_refines_quad (U : Type) (M : umap_impl (BV P_quad) U) (uinv : U -> Prop) :
  umap_lawful (ek_quadW Hc) M uinv ->
  forall capN vec_based st s a (o : @op (BV P_quad)),
  capacity_ok capN -> op_plain o -> SysInv (ek_quadW Hc) M Hc capN uinv st s a ->
  refines (ek_quadW Hc) M Hc capN vec_based uinv (fun _ => True) s a o st.
Proof.
  intros UL capN vec_based st s a o.
  exact (step_refines_closed (ek_quadW Hc) M uinv (ek_quadW_wf Hc) (ek_quadW_troot_inj Hc Hc_collision_free)
           (ek_quadW_codec_on Hc) UL capN vec_based st s a o).
Qed.

(* ---------- the three maps of the correspondence check ---------- *)
Theorem quad_every_configuration_refines :
  forall (U : Type) (M : umap_impl Quad U) (uinv : U -> Prop), map_ok U M uinv ->
  forall (capN : N) (vec_based : bool) (os : list (@op Quad)),
  capacity_ok capN -> Forall op_plain os ->
  history_refines (ek_quadW Hc) M uinv capN vec_based os.
Proof.
  intros U M uinv KM capN vec_based os.
  exact (run_refines_quad U M uinv (map_ok_lawful Quad (ek_quadW Hc) U M uinv KM) capN vec_based os).
Qed.

(* one step, from any state satisfying the invariant (not only reachable ones) *)
Theorem quad_every_configuration_step :
  forall (U : Type) (M : umap_impl Quad U) (uinv : U -> Prop), map_ok U M uinv ->
  forall (capN : N) (vec_based : bool) st s a (o : @op Quad),
  capacity_ok capN -> op_plain o -> SysInv (ek_quadW Hc) M Hc capN uinv st s a ->
  refines (ek_quadW Hc) M Hc capN vec_based uinv (fun _ => True) s a o st.
Proof.
  intros U M uinv KM capN vec_based st s a o.
  exact (step_refines_quad U M uinv (map_ok_lawful Quad (ek_quadW Hc) U M uinv KM) capN vec_based st s a o).
Qed.

(* the three instantiations spelled out (ClosureP.all_maps_refine) *)
Theorem quad_all_maps_refine : all_maps_refine (ek_quadW Hc).
Proof.
  intros capN vec_based os CAP Hok.
  split; [|split]; apply quad_every_configuration_refines; auto; constructor.
Qed.

(* C14: any two lawful maps ... *)
Theorem quad_maps_unobservable_any :
  forall (U1 U2 : Type) (M1 : umap_impl Quad U1) (M2 : umap_impl Quad U2) uinv1 uinv2,
  umap_lawful (ek_quadW Hc) M1 uinv1 -> umap_lawful (ek_quadW Hc) M2 uinv2 ->
  forall (capN : N) (vec_based : bool) (os : list (@op Quad)),
  capacity_ok capN -> Forall op_plain os ->
  maps_agree (ek_quadW Hc) M1 M2 uinv1 uinv2 capN vec_based os.
Proof.
  intros U1 U2 M1 M2 uinv1 uinv2 UL1 UL2 capN vec_based os.
  destruct quad_laws as (EKW & TRI & ECO).
  exact (maps_unobservable_closed (ek_quadW Hc) M1 M2 uinv1 uinv2 EKW TRI ECO UL1 UL2 capN vec_based os).
Qed.

(* ... in particular any two of the three maps (all nine ordered pairs) *)
Theorem quad_maps_unobservable :
  forall (U1 : Type) (M1 : umap_impl Quad U1) uinv1, map_ok U1 M1 uinv1 ->
  forall (U2 : Type) (M2 : umap_impl Quad U2) uinv2, map_ok U2 M2 uinv2 ->
  forall (capN : N) (vec_based : bool) (os : list (@op Quad)),
  capacity_ok capN -> Forall op_plain os ->
  maps_agree (ek_quadW Hc) M1 M2 uinv1 uinv2 capN vec_based os.
Proof.
  intros U1 M1 uinv1 K1 U2 M2 uinv2 K2 capN vec_based os.
  exact (quad_maps_unobservable_any U1 U2 M1 M2 uinv1 uinv2 (map_ok_lawful Quad _ U1 M1 uinv1 K1)
           (map_ok_lawful Quad _ U2 M2 uinv2 K2) capN vec_based os).
Qed.

(* the three pairs spelled out: every deterministic history is answered identically by VecMap, BTreeMap and
   MaxMap<VecMap> *)
Theorem quad_maps_unobservable_three :
  forall (capN : N) (vec_based : bool) (os : list (@op Quad)),
  capacity_ok capN -> Forall op_plain os -> Forall (fun o => det_op o = true) os ->
  exists rsV sV stV aV rsB sB stB aB rsM sM stM aM,
    model_run (ek_quadW Hc) (@vecmap_impl Quad) Hc capN vec_based init_sys init_state os = Some (rsV, sV, stV) /\
    model_run (ek_quadW Hc) (@btmap_impl Quad) Hc capN vec_based init_sys init_state os = Some (rsB, sB, stB) /\
    model_run (ek_quadW Hc) (maxmap_impl (@vecmap_impl Quad)) Hc capN vec_based init_sys init_state os = Some (rsM, sM, stM) /\
    spec_run (ek_quadW Hc) Hc capN vec_based (fun _ => True) init_sregs os rsV aV /\
    SysInv (ek_quadW Hc) (@vecmap_impl Quad) Hc capN (fun _ => True) stV sV aV /\
    SysInv (ek_quadW Hc) (@btmap_impl Quad) Hc capN bt_sorted stB sB aB /\
    SysInv (ek_quadW Hc) (maxmap_impl (@vecmap_impl Quad)) Hc capN (maxmap_inv (@vecmap_impl Quad) (fun _ => True)) stM sM aM /\
    rsV = rsB /\ aV = aB /\ rsV = rsM /\ aV = aM /\ rsM = rsB /\ aM = aB.
Proof.
  intros capN vec_based os CAP Hok Hd.
  destruct (quad_maps_unobservable _ _ _ mo_vec _ _ _ mo_bt capN vec_based os CAP Hok)
    as (rsV & sV & stV & aV & rsB & sB & stB & aB & EV & EB & RV & _ & IV & IB & _ & DB).
  destruct (quad_maps_unobservable _ _ _ mo_vec _ _ _ mo_max capN vec_based os CAP Hok)
    as (rsV' & sV' & stV' & aV' & rsM & sM & stM & aM & EV' & EM & RV' & _ & IV' & IM & _ & DM).
  rewrite EV in EV'. injection EV' as <- <- <-.
  destruct (DB Hd) as [E1 E2].
  assert (Ea : aV' = aV).
  { destruct (spec_run_det_unique (ek_quadW Hc) Hc capN vec_based (fun _ => True) _ _ _ _
                (spec_run_det_of (ek_quadW Hc) Hc capN vec_based (fun _ => True) _ _ _ _ Hd RV') _ _ RV) as [_ Ea]. exact Ea. }
  subst aV'. destruct (DM Hd) as [E3 E4].
  exists rsV, sV, stV, aV, rsB, sB, stB, aB, rsM, sM, stM, aM.
  repeat (split; [assumption|]). split; [congruence|congruence].
Qed.

(* InvisibleP: silent operations, C03, C07, C09 *)
Theorem quad_silent_ops_invisible :
  forall (U : Type) (M : umap_impl Quad U) (uinv : U -> Prop), map_ok U M uinv ->
  forall (capN : N) (vec_based : bool) (os1 os2 k : list (@op Quad)),
  capacity_ok capN -> norm os1 = norm os2 ->
  Forall op_plain (os1 ++ k) -> Forall op_plain (os2 ++ k) ->
  Forall (fun o => det_op o = true) (os1 ++ k) ->
  same_behaviour (ek_quadW Hc) M Hc capN vec_based uinv os1 os2 k.
Proof.
  intros U M uinv KM capN vec_based os1 os2 k.
  destruct quad_laws as (EKW & TRI & ECO).
  exact (silent_ops_invisible_closed (ek_quadW Hc) M uinv EKW TRI ECO (map_ok_lawful Quad _ U M uinv KM) capN vec_based os1 os2 k).
Qed.

Theorem quad_hash_invisible :
  forall (U : Type) (M : umap_impl Quad U) (uinv : U -> Prop), map_ok U M uinv ->
  forall (capN : N) (vec_based : bool) (os k : list (@op Quad)),
  capacity_ok capN -> Forall op_plain (os ++ k) -> Forall (fun o => det_op o = true) (os ++ k) ->
  same_behaviour (ek_quadW Hc) M Hc capN vec_based uinv os (drop_hashes os) k.
Proof.
  intros U M uinv KM capN vec_based os k.
  destruct quad_laws as (EKW & TRI & ECO).
  exact (hash_invisible_closed (ek_quadW Hc) M uinv EKW TRI ECO (map_ok_lawful Quad _ U M uinv KM) capN vec_based os k).
Qed.

Theorem quad_rebase_invisible :
  forall (U : Type) (M : umap_impl Quad U) (uinv : U -> Prop), map_ok U M uinv ->
  forall (capN : N) (vec_based : bool) (os k : list (@op Quad)),
  capacity_ok capN -> Forall op_plain (os ++ k) -> Forall (fun o => det_op o = true) (os ++ k) ->
  same_behaviour (ek_quadW Hc) M Hc capN vec_based uinv os (drop_rebases os) k.
Proof.
  intros U M uinv KM capN vec_based os k.
  destruct quad_laws as (EKW & TRI & ECO).
  exact (rebase_invisible_closed (ek_quadW Hc) M uinv EKW TRI ECO (map_ok_lawful Quad _ U M uinv KM) capN vec_based os k).
Qed.

Theorem quad_intra_is_flush :
  forall (U : Type) (M : umap_impl Quad U) (uinv : U -> Prop), map_ok U M uinv ->
  forall (capN : N) (vec_based : bool) (os k : list (@op Quad)),
  capacity_ok capN -> Forall op_plain (os ++ k) -> Forall (fun o => det_op o = true) (os ++ k) ->
  same_behaviour (ek_quadW Hc) M Hc capN vec_based uinv os (flush_intras os) k.
Proof.
  intros U M uinv KM capN vec_based os k.
  destruct quad_laws as (EKW & TRI & ECO).
  exact (intra_is_flush_closed (ek_quadW Hc) M uinv EKW TRI ECO (map_ok_lawful Quad _ U M uinv KM) capN vec_based os k).
Qed.

(* C10 at run level: the size of every live tree (quad is unpacked: pf = 1, so ceil(n / pf) = n) *)
Theorem quad_reachable_node_bound :
  forall (U : Type) (M : umap_impl Quad U) (uinv : U -> Prop), map_ok U M uinv ->
  forall (capN : N) (vec_based : bool) (os : list (@op Quad)) rs s st (i : nat) (h : handle Quad U),
  capacity_ok capN -> Forall op_plain os ->
  model_run (ek_quadW Hc) M Hc capN vec_based init_sys init_state os = Some (rs, s, st) -> rget s i = Some h ->
  exists l, hinv (ek_quadW Hc) M capN uinv h l /\ to_vec (ek_quadW Hc) M h = Ret l /\ hblen h <= lenN l /\ lenN l <= capN /\
    lenN (nodes (htree h)) <= 2 * hblen h + 2 * N.of_nat (list_depth (ek_quadW Hc) capN) + 1 /\
    lenN (nodes (htree h)) <= 2 * lenN l + 127.
Proof.
  intros U M uinv KM capN vec_based os rs s st i h CAP Hok Em E.
  destruct quad_laws as (EKW & TRI & ECO).
  destruct (reachable_node_bound (ek_quadW Hc) M uinv EKW TRI ECO (map_ok_lawful Quad _ U M uinv KM) capN vec_based s st i h CAP
              (reachable_plain (ek_quadW Hc) M capN vec_based os rs s st Hok Em) E)
    as (l & HI & Hv & Hle & Hl & _ & B2 & B3).
  exists l. repeat (split; [assumption|]).
  change (pf_of (ek_quadW Hc)) with 1 in B3. now rewrite cdivN_1 in B3.
Qed.

(* ---------- the matrix of ClosureP with the eleventh kind ---------- *)
Inductive kind_ok11 : forall T : Type, ekind T -> Prop :=
| ko_ten T (ek : ekind T) : kind_ok T ek -> kind_ok11 T ek
| ko_quad : kind_ok11 _ (ek_quadW Hc).

Theorem kind_ok11_laws T (ek : ekind T) : kind_ok11 T ek ->
  ek_wf ek /\ troot_inj ek /\ ek_codec_on ek (fun _ => True).
Proof. intros K. destruct K as [T ek K|]; [now apply kind_ok_laws|exact quad_laws]. Qed.

Theorem every_configuration_refines11 :
  forall (T : Type) (ek : ekind T), kind_ok11 T ek ->
  forall (U : Type) (M : umap_impl T U) (uinv : U -> Prop), map_ok U M uinv ->
  forall (capN : N) (vec_based : bool) (os : list (@op T)),
  capacity_ok capN -> Forall op_plain os ->
  history_refines ek M uinv capN vec_based os.
Proof.
  intros T ek K U M uinv KM capN vec_based os.
  destruct (kind_ok11_laws T ek K) as (EKW & TRI & ECO).
  exact (run_refines_closed ek M uinv EKW TRI ECO (map_ok_lawful T ek U M uinv KM) capN vec_based os).
Qed.

(* ====================================================================== *)
(* 4. SSZ decoding (SszDetP) and builder sessions (BuilderSysP) for quad    *)
(* ====================================================================== *)
(* the serialization of a sequence of quads: the concatenation of their 32-byte strings *)
Lemma quad_serialize H (l : list Quad) : serialize (ek_quadW H) l = concat (map bval l).
Proof. reflexivity. Qed.

Lemma quad_chunks_chunks H (l : list Quad) : HashP.chunks (ek_quadW H) l = map (etroot (ek_quadW H)) l.
Proof. reflexivity. Qed.

Lemma quad_concat_length (l : list Quad) : length (concat (map bval l)) = (32 * length l)%nat.
Proof.
  induction l as [|v l IH]; [reflexivity|]. cbn [map concat length]. rewrite app_length, IH.
  pose proof (bval_ok v) as Hv. apply andb_true_iff in Hv. destruct Hv as [Lv _]. apply Nat.eqb_eq in Lv. lia.
Qed.

Lemma quad_concat_exists : forall (n : nat) (b : bytes), length b = (32 * n)%nat -> valid_bytes b = true ->
  exists l : list Quad, concat (map bval l) = b /\ length l = n.
Proof.
  induction n as [|n IH]; intros b Lb Vb.
  - exists []. split; [|reflexivity]. destruct b; [reflexivity|discriminate Lb].
  - destruct (IH (skipn 32 b)) as (l & El & Ln); [rewrite skipn_length; lia|now apply valid_bytes_skipn|].
    assert (Pq : P_quad (firstn 32 b) = true).
    { apply P_quad_iff. split; [rewrite firstn_length; lia|now apply valid_bytes_firstn]. }
    exists (exist _ (firstn 32 b) Pq :: l). split; [|cbn [length]; now rewrite Ln].
    cbn [map concat bval proj1_sig]. rewrite El. apply firstn_skipn.
Qed.

(* a byte string is the serialization of a sequence of at most capN quads iff its length is a multiple of 32
   and at most 32 * capN *)
Lemma quad_preimage_iff (capN : N) (b : bytes) : valid_bytes b = true ->
  (exists l : list Quad, concat (map bval l) = b /\ lenN l <= capN) <-> lenN b mod 32 = 0 /\ lenN b / 32 <= capN.
Proof.
  intros Vb. split.
  - intros (l & <- & Hl). unfold lenN in *. rewrite quad_concat_length, Nat2N.inj_mul. change (N.of_nat 32) with 32.
    rewrite N.mul_comm, N.mod_mul, N.div_mul by lia. split; [reflexivity|exact Hl].
  - intros [Hm Hd]. pose proof (N.div_mod (lenN b) 32 ltac:(lia)) as Eb. rewrite Hm, N.add_0_r in Eb.
    destruct (quad_concat_exists (N.to_nat (lenN b / 32)) b) as (l & El & Ln); [unfold lenN in *; lia|exact Vb|].
    exists l. split; [exact El|]. unfold lenN at 1. rewrite Ln. lia.
Qed.
Lemma quad_preimage_vec_iff (capN : N) (b : bytes) : valid_bytes b = true ->
  (exists l : list Quad, concat (map bval l) = b /\ lenN l = capN) <-> lenN b = 32 * capN.
Proof.
  intros Vb. split.
  - intros (l & <- & Hl). unfold lenN in *. rewrite quad_concat_length. lia.
  - intros Eb. destruct (quad_concat_exists (N.to_nat capN) b) as (l & El & Ln); [unfold lenN in *; lia|exact Vb|].
    exists l. split; [exact El|]. unfold lenN. rewrite Ln. lia.
Qed.

(* C12 for quad: from_ssz_bytes of a List<Quad, capN> succeeds iff the input is the concatenation of at most capN
   well-formed quads; then the register holds a clean handle with exactly these contents; otherwise the answer is
   EDecode and nothing changes.  Any lawful update map, hash Hc. *)
Theorem quad_decode_iff (U : Type) (M : umap_impl Quad U) (uinv : U -> Prop) :
  umap_lawful (ek_quadW Hc) M uinv ->
  forall (capN : N) (vec_based : bool) st (s : @sys Quad U) (a : @sregs Quad) (d : nat) (b : bytes),
  capacity_ok capN -> (d < nregs)%nat -> valid_bytes b = true -> SysInv (ek_quadW Hc) M Hc capN uinv st s a ->
  exists r s' st' a',
    run (step (ek_quadW Hc) M Hc capN vec_based s (OSszList d b)) st = (Ok (r, s'), st') /\
    SysInv (ek_quadW Hc) M Hc capN uinv st' s' a' /\
    (r = ROk <-> exists l : list Quad, concat (map bval l) = b /\ lenN l <= capN) /\
    (r = ROk <-> lenN b mod 32 = 0 /\ lenN b / 32 <= capN) /\
    (r = ROk \/ r = RErr EDecode /\ a' = a) /\
    (forall l : list Quad, concat (map bval l) = b -> lenN l <= capN ->
       r = ROk /\ a' = aset a d (Some (clean_list l)) /\
       exists h, rget s' d = Some h /\ hlist h = true /\ has_pending M h = false /\
                 hinv (ek_quadW Hc) M capN uinv h l /\ iface_len M h = lenN l /\ to_vec (ek_quadW Hc) M h = Ret l).
Proof.
  intros UL capN vec_based st s a d b CAP Hd Vb SI.
  destruct (ssz_list_decode_iff (ek_quadW Hc) M Hc capN vec_based uinv (fun _ => True) (ek_quadW_wf Hc) UL CAP
              (ek_quadW_codec_on Hc) st s a d b Hd Vb SI) as (r & s' & st' & a' & E & SI' & Hiff & Hor & Hex).
  { intros Ef. discriminate Ef. }
  assert (Hiff' : r = ROk <-> exists l : list Quad, concat (map bval l) = b /\ lenN l <= capN).
  { rewrite Hiff. split.
    - intros (l & Es & _ & Hl). exists l. split; [exact Es|exact Hl].
    - intros (l & Es & Hl). exists l. split; [exact Es|]. split; [|exact Hl]. apply Forall_forall. intros x _. exact I. }
  exists r, s', st', a'. split; [exact E|]. split; [exact SI'|]. split; [exact Hiff'|].
  split; [rewrite Hiff'; now apply quad_preimage_iff|]. split; [exact Hor|].
  intros l Es Hl. apply (Hex l Es); [|exact Hl]. apply Forall_forall. intros x _. exact I.
Qed.

Theorem quad_vec_decode_iff (U : Type) (M : umap_impl Quad U) (uinv : U -> Prop) :
  umap_lawful (ek_quadW Hc) M uinv ->
  forall (capN : N) (vec_based : bool) st (s : @sys Quad U) (a : @sregs Quad) (d : nat) (b : bytes),
  capacity_ok capN -> (d < nregs)%nat -> valid_bytes b = true -> SysInv (ek_quadW Hc) M Hc capN uinv st s a ->
  exists r s' st' a',
    run (step (ek_quadW Hc) M Hc capN vec_based s (OSszVec d b)) st = (Ok (r, s'), st') /\
    SysInv (ek_quadW Hc) M Hc capN uinv st' s' a' /\
    (r = ROk <-> exists l : list Quad, concat (map bval l) = b /\ lenN l = capN) /\
    (r = ROk <-> lenN b = 32 * capN) /\
    (r = ROk \/ r = RErr EDecode /\ a' = a) /\
    (forall l : list Quad, concat (map bval l) = b -> lenN l = capN ->
       r = ROk /\ a' = aset a d (Some (clean_vec capN l)) /\
       exists h, rget s' d = Some h /\ hlist h = false /\ has_pending M h = false /\
                 hinv (ek_quadW Hc) M capN uinv h l /\ iface_len M h = lenN l /\ to_vec (ek_quadW Hc) M h = Ret l).
Proof.
  intros UL capN vec_based st s a d b CAP Hd Vb SI.
  destruct (ssz_vec_decode_iff (ek_quadW Hc) M Hc capN vec_based uinv (fun _ => True) (ek_quadW_wf Hc) UL CAP
              (ek_quadW_codec_on Hc) st s a d b Hd Vb SI) as (r & s' & st' & a' & E & SI' & Hiff & Hor & Hex).
  { intros Ef. discriminate Ef. }
  assert (Hiff' : r = ROk <-> exists l : list Quad, concat (map bval l) = b /\ lenN l = capN).
  { rewrite Hiff. split.
    - intros (l & Es & _ & Hl). exists l. split; [exact Es|exact Hl].
    - intros (l & Es & Hl). exists l. split; [exact Es|]. split; [|exact Hl]. apply Forall_forall. intros x _. exact I. }
  exists r, s', st', a'. split; [exact E|]. split; [exact SI'|]. split; [exact Hiff'|].
  split; [rewrite Hiff'; now apply quad_preimage_vec_iff|]. split; [exact Hor|].
  intros l Es Hl. apply (Hex l Es); [|exact Hl]. apply Forall_forall. intros x _. exact I.
Qed.

(* C17 at system level for quad: a builder session  OBNew d 0 ; OBPush v1 ; ... ; OBPush vn ; OBFinish  from any
   state satisfying the invariant (any update map) answers the canonical tree of depth d and the SSZ
   merkleization of the element roots (quad is unpacked: the capacity of depth d is 2^d values, one chunk per
   value, each chunk the container root H (H a b) (H c d) of ek_quadW_root_is_container) *)
Theorem quad_builder_session (U : Type) (M : umap_impl Quad U) (uinv : U -> Prop)
    (capN : N) (vec_based : bool) st (s : @sys Quad U) (a : @sregs Quad) (d : nat) (vs : list Quad) :
  SysInv (ek_quadW Hc) M Hc capN uinv st s a -> (d <= 63)%nat -> lenN vs <= pow2 d ->
  exists t s' st',
    model_run (ek_quadW Hc) M Hc capN vec_based s st (value_session d vs) =
      Some (ROk :: map (fun _ => ROk) vs ++
            [RFinish d (lenN vs) t (merkleize Hc d (map (etroot (ek_quadW Hc)) vs)) true], s', st') /\
    shape t = canon (ek_quadW Hc) d vs /\ regs s' = regs s /\ bslot s' = None /\
    SysInv (ek_quadW Hc) M Hc capN uinv st' s' a.
Proof.
  intros SI Hd Hl.
  apply (value_session_root (ek_quadW Hc) M Hc capN vec_based uinv (ek_quadW_wf Hc) st s a d vs SI).
  - change (pd_of (ek_quadW Hc)) with 0%nat. lia.
  - rewrite (proj2 (proj2 (proj2 (proj2 (quad_unpacked Hc))))). exact Hl.
Qed.

(* ... in particular from the initial state *)
Corollary quad_builder_session_init (U : Type) (M : umap_impl Quad U) (uinv : U -> Prop)
    (capN : N) (vec_based : bool) (d : nat) (vs : list Quad) :
  (d <= 63)%nat -> lenN vs <= pow2 d ->
  exists t s' st',
    model_run (ek_quadW Hc) M Hc capN vec_based init_sys init_state (value_session d vs) =
      Some (ROk :: map (fun _ => ROk) vs ++
            [RFinish d (lenN vs) t (merkleize Hc d (map (etroot (ek_quadW Hc)) vs)) true], s', st') /\
    shape t = canon (ek_quadW Hc) d vs /\ regs s' = regs init_sys /\ bslot s' = None /\
    SysInv (ek_quadW Hc) M Hc capN uinv st' s' init_sregs.
Proof. apply quad_builder_session. apply SysInv_init. Qed.

(* ====================================================================== *)
(* 5. non-vacuity: a List<Quad, 5> with two elements, evaluated by the kernel *)
(* ====================================================================== *)
(* Quad { a, b, c, d } as 32 bytes *)
Definition quad_bytes (a b c d : N) : bytes := num_le 8 a ++ num_le 8 b ++ num_le 8 c ++ num_le 8 d.
Definition mkQ (b : bytes) : Quad := match mkBV P_quad b with Some v => v | None => edefault (ek_quadW Hc) end.
Definition q1 : Quad := mkQ (quad_bytes 1 2 3 4).
Definition q2 : Quad := mkQ (quad_bytes 5 6 7 (2 ^ 64 - 1)).

(* the SSZ definition, written out with Hc:
   hash_tree_root(Quad{a,b,c,d}) = merkleize([a; b; c; d]) = H (H a b) (H c d);
   hash_tree_root(List[Quad, 5] [x; y]) = mix_in_length(merkleize([htr x; htr y], limit = 5 -> 8 leaves), 2)
     = H (H (H (H (htr x) (htr y)) Z1) Z2) 2   with the zero subtrees Z1 = H 0 0, Z2 = H Z1 Z1 *)
Definition htr_quad (a b c d : N) : digest := Hc (Hc a b) (Hc c d).
Definition Z1 : digest := Hc 0 0.
Definition Z2 : digest := Hc Z1 Z1.
Definition root_q12 : digest := Hc (Hc (Hc (Hc (htr_quad 1 2 3 4) (htr_quad 5 6 7 (2 ^ 64 - 1))) Z1) Z2) 2.

(* the answers are projected to plain byte strings before they are compared (`res_map bval`), so that no goal type
   mentions the subset type *)
Example quad_list_root_computed :
  option_map (fun x => map (res_map (@bval _)) (fst (fst x)))
    (model_run (ek_quadW Hc) (@vecmap_impl Quad) Hc 5 false init_sys init_state
       [ONewList 0 [q1; q2]; OHash 0; OGet 0 1; OLen 0]) =
  Some [ROk; RHash root_q12; RVal (Some (quad_bytes 5 6 7 (2 ^ 64 - 1))); RNum 2].
Proof. vm_compute. reflexivity. Qed.

(* the same value from HashP's specification of the root of a collection, and the element roots *)
Example quad_list_root_spec :
  ssz_root (ek_quadW Hc) Hc true 5 [q1; q2] = root_q12 /\
  etroot (ek_quadW Hc) q1 = htr_quad 1 2 3 4 /\ etroot (ek_quadW Hc) q2 = htr_quad 5 6 7 (2 ^ 64 - 1) /\
  bval q1 = quad_bytes 1 2 3 4 /\ quad_fields (bval q2) = [5; 6; 7; 2 ^ 64 - 1].
Proof. vm_compute. repeat split; reflexivity. Qed.

(* the same root through BTreeMap and MaxMap<VecMap>, after a write, a push and a flush; the same 64 bytes
   decoded from SSZ; a string of 33 bytes does not decode *)
Example quad_list_maps_computed :
  let os := [OSszList 0 (quad_bytes 9 9 9 9 ++ quad_bytes 5 6 7 (2 ^ 64 - 1)); OSet 0 0 q1; OApply 0; OHash 0;
             OSszList 1 (0 :: quad_bytes 1 2 3 4); OSszEnc 0] in
  let expected := Some [ROk; RSome true; ROk; RHash root_q12; RErr EDecode;
                        RBytes (quad_bytes 1 2 3 4 ++ quad_bytes 5 6 7 (2 ^ 64 - 1)) 64] in
  option_map (fun x => map (res_map (@bval _)) (fst (fst x)))
    (model_run (ek_quadW Hc) (@btmap_impl Quad) Hc 5 false init_sys init_state os) = expected /\
  option_map (fun x => map (res_map (@bval _)) (fst (fst x)))
    (model_run (ek_quadW Hc) (maxmap_impl (@vecmap_impl Quad)) Hc 5 false init_sys init_state os) = expected.
Proof. vm_compute. split; reflexivity. Qed.

(* a builder session of depth 3 over the two quads: the root is the merkleization (without the length) *)
Example quad_session_computed :
  option_map (fun x => map (res_map (@bval _)) (fst (fst x)))
    (model_run (ek_quadW Hc) (@vecmap_impl Quad) Hc 5 false init_sys init_state (value_session 3 [q1; q2])) =
  Some [ROk; ROk; ROk;
        RFinish 3 2 (Node 7%positive (Node 5%positive (Node 3%positive (Leaf 1%positive (quad_bytes 1 2 3 4))
                                                                     (Leaf 2%positive (quad_bytes 5 6 7 (2 ^ 64 - 1))))
                                                     (Zero 4%positive 1)) (Zero 6%positive 2))
                (Hc (Hc (Hc (htr_quad 1 2 3 4) (htr_quad 5 6 7 (2 ^ 64 - 1))) Z1) Z2) true].
Proof. vm_compute. reflexivity. Qed.

(* by the theorems: a history over arbitrary quads *)
Example history_quad (v1 v2 v3 v : Quad) :
  history_refines (ek_quadW Hc) (maxmap_impl (@vecmap_impl Quad)) (maxmap_inv (@vecmap_impl Quad) (fun _ => True)) 5 false
    [ONewList 0 [v1; v2; v3]; OSet 0 1 v; OPush 0 v; OApply 0; OHash 0; OClone 0 1; OPopFront 1 2; OToVector 0 2; OIntra 2;
     OSszEnc 0; OSszList 3 (bval v ++ bval v1)].
Proof.
  apply quad_every_configuration_refines; [constructor| |].
  - apply N.leb_le; reflexivity.
  - repeat constructor. cbn [op_wf]. rewrite valid_bytes_app.
    pose proof (bval_ok v) as Hv. pose proof (bval_ok v1) as Hv1. apply andb_true_iff in Hv, Hv1.
    destruct Hv as [_ ->], Hv1 as [_ ->]. reflexivity.
Qed.

Example session_quad_by_theorem :
  exists t s' st',
    model_run (ek_quadW Hc) (@btmap_impl Quad) Hc 5 false init_sys init_state (value_session 3 [q1; q2]) =
      Some (ROk :: map (fun _ => ROk) [q1; q2] ++
            [RFinish 3 (lenN [q1; q2]) t (merkleize Hc 3 (map (etroot (ek_quadW Hc)) [q1; q2])) true], s', st') /\
    shape t = canon (ek_quadW Hc) 3 [q1; q2] /\ regs s' = regs init_sys /\ bslot s' = None /\
    SysInv (ek_quadW Hc) (@btmap_impl Quad) Hc 5 bt_sorted st' s' init_sregs.
Proof.
  apply quad_builder_session_init; [lia|]. apply N.leb_le. vm_compute. reflexivity.
Qed.

Print Assumptions ek_quadW_wf.
Print Assumptions ek_quadW_codec_on.
Print Assumptions ek_quadW_codec.
Print Assumptions ek_quad_codec.
Print Assumptions ek_quadW_agree.
Print Assumptions ek_quad_root_mroot.
Print Assumptions ek_quad_root_merkleize.
Print Assumptions ek_quad_root_container.
Print Assumptions ek_quadW_root_is_container.
Print Assumptions ek_quad_root_inj.
Print Assumptions ek_quadW_troot_inj.
Print Assumptions quad_root_not_bytes.
Print Assumptions quad_laws.
Print Assumptions run_refines_quad.
Print Assumptions step_refines_quad.
Print Assumptions quad_every_configuration_refines.
Print Assumptions quad_every_configuration_step.
Print Assumptions quad_all_maps_refine.
Print Assumptions quad_maps_unobservable_any.
Print Assumptions quad_maps_unobservable.
Print Assumptions quad_maps_unobservable_three.
Print Assumptions quad_silent_ops_invisible.
Print Assumptions quad_hash_invisible.
Print Assumptions quad_rebase_invisible.
Print Assumptions quad_intra_is_flush.
Print Assumptions quad_reachable_node_bound.
Print Assumptions kind_ok11_laws.
Print Assumptions every_configuration_refines11.
Print Assumptions quad_preimage_iff.
Print Assumptions quad_preimage_vec_iff.
Print Assumptions quad_decode_iff.
Print Assumptions quad_vec_decode_iff.
Print Assumptions quad_builder_session.
Print Assumptions quad_builder_session_init.
Print Assumptions quad_list_root_computed.
Print Assumptions quad_list_root_spec.
Print Assumptions quad_list_maps_computed.
Print Assumptions quad_session_computed.
Print Assumptions history_quad.
Print Assumptions session_quad_by_theorem.
