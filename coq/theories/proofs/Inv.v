(* Inv.v — the global invariant on the shared state (identities and memos) used by the
   collection-level and system-level theorems, and the abstraction of a handle. Definitions only. *)
From MH Require Export Defs.
Local Open Scope N_scope.

Section Inv.
  Context {T U : Type}.
  Variable ek : ekind T.
  Variable M : umap_impl T U.
  Variable H : digest -> digest -> digest.
  Variable capN : N.
  Variable uinv : U -> Prop.
  Notation tree := (tree T).
  Notation handle := (handle T U).

  (* G = the trees reachable from live handles (and the builder stack):
     I3 identities name nodes, all allocated; I4 every memo is absent or true; nothing is recorded
     for identities not yet allocated *)
  Definition gok (st : state) (G : list tree) : Prop :=
    idf G /\ (forall t, In t G -> below (next st) t /\ mvalid ek H st t) /\ memo_below st.

  (* what the plain-sequence specification sees of a handle *)
  Record aval := { a_list : bool; a_vals : list T; a_pend : bool; a_blen : N }.
  Definition abs_of (h : handle) (l : list T) : aval :=
    {| a_list := hlist h; a_vals := l; a_pend := has_pending M h; a_blen := hblen h |}.

  (* a handle is clean (no pending writes) and represents l *)
  Definition hclean (h : handle) (l : list T) : Prop :=
    hinv ek M capN uinv h l /\ has_pending M h = false.
End Inv.
