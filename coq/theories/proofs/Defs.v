(* Defs.v — definitions shared by all proof files: hypotheses on the element kind, the hash and the
   update map (never axioms: they are premises of theorems, discharged for concrete instances in
   Instances.v), memo validity, identity discipline, the overlay ("agrees") relation, and the
   per-handle invariant that connects a model handle with the plain list it represents. *)
From Coq Require Export Sorting.Sorted.
From MH Require Export System ListN.
Local Open Scope N_scope.

(* ---------- hypotheses on the hash function (SHA-256 idealised) ---------- *)
Definition collision_free (H : digest -> digest -> digest) : Prop :=
  (forall a b c d, H a b = H c d -> a = c /\ b = d) /\ (forall a b, H a b <> 0).
Definition nonzero_hash (H : digest -> digest -> digest) : Prop := forall a b, H a b <> 0.

Section Defs.
  Context {T U : Type}.
  Variable ek : ekind T.
  Variable M : umap_impl T U.
  Variable H : digest -> digest -> digest.
  Variable capN : N.
  Notation tree := (tree T).
  Notation handle := (handle T U).

  (* ---------- element kind laws ---------- *)
  Record ek_wf : Prop := {
    ek_eqb_spec : forall a b, eeqb ek a b = true <-> a = b;
    ek_pd_le : (pd_of ek <= 5)%nat;
    ek_penc_lt : is_packed ek = true -> forall v, epenc ek v < 2 ^ vbits ek;
    ek_penc_inj : is_packed ek = true -> forall v w, epenc ek v = epenc ek w -> v = w
  }.
  (* SSZ codec laws of the element type *)
  Record ek_codec : Prop := {
    ek_dec_enc : forall v, edec ek (eenc ek v) = Some v;
    ek_enc_dec : forall b v, edec ek b = Some v -> eenc ek v = b;
    ek_fixed_len : forall s v, efixed ek = Some s -> lenN (eenc ek v) = s /\ 0 < s
  }.
  (* tree_hash_root of unpacked kinds is injective and never the all-zero chunk... the second part is
     NOT assumed: a leaf hash may be zero (Hash256::ZERO), exactly as in the Rust. *)
  Definition troot_inj : Prop := is_packed ek = false -> forall v w, etroot ek v = etroot ek w -> v = w.

  (* no lower bound: List<T, U0> / Vector<T, U0> are legal types (their only value is the empty collection) *)
  Definition capacity_ok : Prop := capN <= 2 ^ 63.

  (* ---------- update-map laws ---------- *)
  Definition has_key (u : U) (k : N) : Prop := uget M u k <> None.
  Record umap_lawful (uinv : U -> Prop) : Prop := {
    ul_empty_inv : uinv (uempty M);
    ul_empty_get : forall k, uget M (uempty M) k = None;
    ul_insert_inv : forall u k v, uinv u -> uinv (uinsert M u k v);
    ul_insert_get : forall u k v j, uinv u -> uget M (uinsert M u k v) j = if j =? k then Some v else uget M u j;
    ul_entry_inv : forall u k v, uinv u -> uinv (uentry_insert M u k v);
    ul_entry_get : forall u k v j, uinv u -> uget M (uentry_insert M u k v) j = if j =? k then Some v else uget M u j;
    ul_range_sorted : forall u s e, uinv u -> StronglySorted (fun a b => fst a < fst b) (urange M u s e);
    ul_range_in : forall u s e k v, uinv u -> (In (k, v) (urange M u s e) <-> (s <= k /\ k < e /\ uget M u k = Some v));
    ul_len_0 : forall u, uinv u -> (ulen M u = 0 <-> forall k, uget M u k = None);
    ul_max_none : forall u, uinv u -> (umax_index M u = None <-> ulen M u = 0);
    (* insert: the new maximum dominates k and the old maximum, and is one of the two *)
    ul_max_insert : forall u k v, uinv u -> exists m', umax_index M (uinsert M u k v) = Some m' /\ k <= m' /\
                      (forall m, umax_index M u = Some m -> m <= m') /\ (m' = k \/ umax_index M u = Some m');
    (* insertion through an entry (get_mut_with / Cow): may or may not raise the maximum *)
    ul_max_entry : forall u k v, uinv u -> exists m', umax_index M (uentry_insert M u k v) = Some m' /\
                      (forall m, umax_index M u = Some m -> m <= m') /\
                      m' <= N.max k (match umax_index M u with Some m => m | None => 0 end);
    ul_max_entry_same : forall u k v, uinv u -> has_key u k -> umax_index M (uentry_insert M u k v) = umax_index M u;
    ul_eqb_empty : forall u1 u2, uinv u1 -> uinv u2 -> ulen M u1 = 0 -> ulen M u2 = 0 -> ueqb M (eeqb ek) u1 u2 = true
  }.

  (* ---------- overlay ---------- *)
  (* l' is the list obtained from the backing list l by the pending map u (admissibility = existence) *)
  Definition agrees (u : U) (l l' : list T) : Prop :=
    lenN l <= lenN l' /\
    (forall k v, uget M u k = Some v -> nthN l' k = Some v) /\
    (forall k, uget M u k = None -> k < lenN l -> nthN l' k = nthN l k) /\
    (forall k, lenN l <= k -> k < lenN l' -> has_key u k).

  (* ---------- identities and memos ---------- *)
  Fixpoint In_id (i : id) (t : tree) : Prop :=
    i = idof t \/ match t with Node _ l r => In_id i l \/ In_id i r | _ => False end.
  Definition below (n : positive) (t : tree) : Prop := forall i, In_id i t -> (i < n)%positive.
  Definition has_memo (t : tree) : bool := match t with Zero _ _ => false | _ => true end.
  (* every memoised hash in t is absent (0) or the true hash of the subtree it labels *)
  Definition mvalid (s : state) (t : tree) : Prop :=
    forall u, subt u t -> has_memo u = true -> mget s (idof u) = 0 \/ mget s (idof u) = hash_spec ek H u.
  (* allocation only grows; memos of existing ids are untouched *)
  Definition frame (s s' : state) : Prop :=
    (next s <= next s')%positive /\ forall j, (j < next s)%positive -> mget s' j = mget s j.
  (* identities name nodes: within the given trees, equal id means identical subtree *)
  Definition idf (ts : list tree) : Prop :=
    forall t1 t2 u v, In t1 ts -> In t2 ts -> subt u t1 -> subt v t2 -> idof u = idof v -> u = v.
  (* no memo is recorded for an id not yet allocated *)
  Definition memo_below (s : state) : Prop := forall j, (next s <= j)%positive -> mget s j = 0.
  (* demonic memo reads: zero or the truth *)
  Definition Rdem (truth : id -> digest) (s : state) (i : id) (d : digest) : Prop := d = 0 \/ d = truth i.


  (* ---------- allocation discipline of the tree-building functions ---------- *)
  (* the program only allocated: the memo table is literally unchanged *)
  Definition alloc_only (s s' : state) : Prop := memo s' = memo s /\ (next s <= next s')%positive.
  (* every node of t is either a node of one of the source trees (retained, same identity) or was
     allocated between s and s' *)
  Definition fresh_or_from (s s' : state) (srcs : list tree) (t : tree) : Prop :=
    forall u, subt u t ->
      (exists t0, In t0 srcs /\ subt u t0) \/ ((next s <= idof u)%positive /\ (idof u < next s')%positive).

  (* ---------- what a level iterator yields ---------- *)
  (* items are the consecutive level-L blocks of the list `rest`: every Internal item is a tree whose
     shape is the canonical tree (of depth L - pd) of its block, all blocks but the last are full
     (2^L elements); at level 0 of a packed kind the items are the single elements. *)
  Inductive items_blocks (L : nat) : list (level_node T) -> list T -> Prop :=
  | ib_nil : items_blocks L [] []
  | ib_internal u blk items rest :
      blk <> [] -> shape u = canon ek (L - pd_of ek) blk ->
      (lenN blk = pow2 L \/ (rest = [] /\ lenN blk <= pow2 L)) ->
      items_blocks L items rest -> items_blocks L (LInternal u :: items) (blk ++ rest)
  | ib_packed v items rest :
      L = O -> is_packed ek = true ->
      items_blocks L items rest -> items_blocks L (LPackedLeaf v :: items) (v :: rest).
  Definition internal_nodes (items : list (level_node T)) : list tree :=
    flat_map (fun x => match x with LInternal u => [u] | LPackedLeaf _ => [] end) items.

  (* ---------- per-handle invariant ---------- *)
  (* h represents the plain list l (pending writes included) *)
  Definition habs (h : handle) (l : list T) : Prop :=
    exists bl, shape (htree h) = canon ek (hdepth h) bl /\ lenN bl = hblen h /\
               agrees (hupd h) bl l /\ updated_length M (hblen h) (hupd h) = lenN l.
  Definition hinv (uinv : U -> Prop) (h : handle) (l : list T) : Prop :=
    habs h l /\ hdepth h = list_depth ek capN /\ lenN l <= capN /\ hblen h <= capN /\
    (hlist h = false -> hblen h = capN /\ lenN l = capN) /\ uinv (hupd h).
End Defs.
