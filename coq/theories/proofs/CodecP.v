(* CodecP.v — SSZ codec of List/Vector at the level of element lists (task `codec`).
   Proof file; no model code.

   Specification: `serialize ek vs` written from the SSZ spec text (fixed-size elements: concatenation;
   variable-size elements: table of 4-byte little-endian offsets, offset i = 4*len + total length of the
   parts before i, followed by the parts).  `ser_var_eq` connects it with the model's `var_offsets`.

   Element laws: `ek_codec ek` of Defs.v is unprovable for the concrete kinds (`ek_codec_uint_fails`:
   a byte list of the wrong length does not decode), so the laws are relativised to a validity
   predicate: `ek_codec_on ek valid`; `ek_codec ek <-> ek_codec_on ek (fun _ => True)`.
   Every theorem exists in two versions: `X_on` (under `ek_codec_on ek valid`, for lists of valid
   elements) and `X` (under `ek_codec ek`, as in the task description).

   Exported:
   4. le_num_num_le, num_le_le_num (num_le_le_num_len), le_num_u32
   5. ssz_len_var
   1. enc_fixed(_on)            2. dec_enc_fixed(_on), dec_strict_fixed(_on), num_items_fixed
   3. dec_enc_var(_on), dec_strict_var(_on), dec_strict_var_on_table (hypothesis only on the offset
      table), serialize_inj_fixed/var; `dec_strict_var_needs_bytes`: why bytes < 256 is assumed.
   6. ek_uint_codec, ek_h256_codec, ek_pair_codec, ek_var_codec
   Model level (Section Model): list_from_ssz_serialize, list_from_ssz_strict, ssz_encode_wp,
      ssz_bytes_len_fixed(_eq), ssz_bytes_len_var_wp, list_serde_de_eq. *)
From MH Require Import Defs.
Local Open Scope N_scope.

(* ====================================================================== *)
(* little-endian numbers                                                   *)
(* ====================================================================== *)
Lemma length_num_le k : forall n, length (num_le k n) = k.
Proof. induction k as [|k IH]; intros n; cbn [num_le length]; auto. Qed.
Lemma lenN_num_le k n : lenN (num_le k n) = N.of_nat k.
Proof. unfold lenN. now rewrite length_num_le. Qed.

Lemma le_num_num_le k : forall n, le_num (num_le k n) = n mod 256 ^ N.of_nat k.
Proof.
  induction k as [|k IH]; intros n; cbn [num_le le_num].
  - cbn. now rewrite N.mod_1_r.
  - rewrite IH. replace (N.of_nat (S k)) with (N.succ (N.of_nat k)) by lia.
    rewrite N.pow_succ_r'.
    assert (256 ^ N.of_nat k <> 0) as Hp by (apply N.pow_nonzero; lia).
    remember (256 ^ N.of_nat k) as p eqn:Ep; clear Ep.
    rewrite N.mod_mul_r by lia. reflexivity.
Qed.

Lemma valid_bytes_app a b : valid_bytes (a ++ b) = valid_bytes a && valid_bytes b.
Proof. unfold valid_bytes. apply forallb_app. Qed.
Lemma valid_bytes_cons x b : valid_bytes (x :: b) = (x <? 256) && valid_bytes b.
Proof. reflexivity. Qed.
Lemma valid_bytes_Forall b : valid_bytes b = true <-> Forall (fun x => x < 256) b.
Proof.
  unfold valid_bytes. rewrite forallb_forall, Forall_forall.
  split; intros Hb x Hx; specialize (Hb x Hx); [now apply N.ltb_lt|now apply N.ltb_lt].
Qed.

Lemma num_le_le_num b : valid_bytes b = true -> num_le (length b) (le_num b) = b.
Proof.
  induction b as [|x b IH]; intros Hv; cbn [length num_le le_num]; auto.
  rewrite valid_bytes_cons in Hv. apply andb_true_iff in Hv. destruct Hv as [Hx Hb].
  apply N.ltb_lt in Hx. remember (le_num b) as r eqn:Er.
  assert ((x + 256 * r) mod 256 = x) as ->.
  { rewrite N.mul_comm, N.mod_add by lia. apply N.mod_small; lia. }
  assert ((x + 256 * r) / 256 = r) as ->.
  { rewrite N.mul_comm, N.div_add by lia. rewrite N.div_small by lia. lia. }
  subst r. now rewrite IH.
Qed.
Lemma num_le_le_num_len k b : length b = k -> valid_bytes b = true -> num_le k (le_num b) = b.
Proof. intros <-. apply num_le_le_num. Qed.
Lemma valid_num_le k : forall n, valid_bytes (num_le k n) = true.
Proof.
  induction k as [|k IH]; intros n; cbn [num_le]; auto.
  rewrite valid_bytes_cons, IH, andb_true_r. apply N.ltb_lt. apply N.mod_upper_bound. lia.
Qed.
Lemma le_num_lt b : valid_bytes b = true -> le_num b < 256 ^ lenN b.
Proof.
  induction b as [|x b IH]; intros Hv; cbn [le_num]. { cbn. lia. }
  rewrite valid_bytes_cons in Hv. apply andb_true_iff in Hv. destruct Hv as [Hx Hb].
  apply N.ltb_lt in Hx. specialize (IH Hb). rewrite lenN_cons, N.pow_succ_r'.
  remember (256 ^ lenN b) as p eqn:Ep; clear Ep. remember (le_num b) as r eqn:Er; clear Er. nia.
Qed.
(* a number below 256^k is exactly represented *)
Lemma le_num_num_le_small k n : n < 256 ^ N.of_nat k -> le_num (num_le k n) = n.
Proof. intros Hn. rewrite le_num_num_le. now apply N.mod_small. Qed.
Lemma le_num_u32 n : n < 2 ^ 32 -> le_num (num_le 4 n) = n.
Proof. intros Hn. apply le_num_num_le_small. exact Hn. Qed.

(* ====================================================================== *)
(* more list lemmas                                                        *)
(* ====================================================================== *)
Lemma takeN_add {A} (l : list A) : forall a b, takeN (a + b) l = takeN a l ++ takeN b (dropN a l).
Proof.
  induction l as [|x l IH]; intros a b; cbn [takeN dropN]; auto.
  destruct (N.eqb_spec a 0) as [->|Ea].
  - rewrite N.add_0_l. reflexivity.
  - destruct (N.eqb_spec (a + b) 0) as [E0|E0]; [lia|].
    cbn [app]. f_equal. replace (N.pred (a + b)) with (N.pred a + b) by lia. apply IH.
Qed.
Lemma valid_bytes_takeN n b : valid_bytes b = true -> valid_bytes (takeN n b) = true.
Proof.
  intros Hv. rewrite <- (takeN_dropN n b), valid_bytes_app in Hv.
  apply andb_true_iff in Hv. tauto.
Qed.
Lemma valid_bytes_dropN n b : valid_bytes b = true -> valid_bytes (dropN n b) = true.
Proof.
  intros Hv. rewrite <- (takeN_dropN n b), valid_bytes_app in Hv.
  apply andb_true_iff in Hv. tauto.
Qed.
(* a window inside a valid prefix is valid *)
Lemma valid_bytes_window c a k b :
  valid_bytes (takeN c b) = true -> a + k <= c -> valid_bytes (takeN k (dropN a b)) = true.
Proof.
  intros Hv Hc. replace c with (a + (k + (c - a - k))) in Hv by lia.
  rewrite takeN_add, takeN_add, !valid_bytes_app in Hv.
  apply andb_true_iff in Hv. destruct Hv as [_ Hv]. apply andb_true_iff in Hv. tauto.
Qed.

(* ====================================================================== *)
(* specification and theorems                                              *)
(* ====================================================================== *)
Section Codec.
  Context {T : Type}.
  Variable ek : ekind T.

  (* ---------- SSZ `serialize` for a list/vector of elements (from the SSZ spec text) ----------
     fixed-size elements: the concatenation of the element encodings;
     variable-size elements: fixed part = one 4-byte little-endian offset per element, where
       offset i = sum (fixed_lengths ++ variable_lengths[:i]) = 4 * len + total length of the parts
       before i; followed by the variable parts in order. *)
  Definition sumlen (parts : list bytes) : N := fold_right (fun p a => lenN p + a) 0 parts.
  Definition u32_le (n : N) : bytes := num_le 4 n.
  Definition ser_fixed (vs : list T) : bytes := concat (map (eenc ek) vs).
  Definition ser_var (vs : list T) : bytes :=
    let parts := map (eenc ek) vs in
    let n := length vs in
    concat (map (fun i => u32_le (4 * N.of_nat n + sumlen (firstn i parts))) (seq 0 n))
    ++ concat parts.
  Definition serialize (vs : list T) : bytes :=
    match efixed ek with Some _ => ser_fixed vs | None => ser_var vs end.

  (* ---------- codec laws relative to a validity predicate on element values ----------
     (ek_codec of Defs.v is the case valid = fun _ => True; the concrete kinds only satisfy the
     relativised laws: a byte list that is not a well-formed value does not decode) *)
  Record ek_codec_on (valid : T -> Prop) : Prop := {
    eco_dec_enc : forall v, valid v -> edec ek (eenc ek v) = Some v;
    eco_enc_dec : forall b v, edec ek b = Some v -> eenc ek v = b /\ valid v;
    eco_fixed_len : forall s v, efixed ek = Some s -> valid v -> lenN (eenc ek v) = s;
    eco_fixed_pos : forall s, efixed ek = Some s -> 0 < s
  }.
  Lemma ek_codec_on_True : ek_codec ek <-> ek_codec_on (fun _ => True).
  Proof.
    split; intros C.
    - constructor.
      + intros v _. apply (ek_dec_enc _ C).
      + intros b v Hd. split; auto. apply (ek_enc_dec _ C _ _ Hd).
      + intros s v Hs _. apply (ek_fixed_len _ C s v Hs).
      + intros s Hs. apply (ek_fixed_len _ C s (edefault ek) Hs).
    - constructor.
      + intros v. apply (eco_dec_enc _ C); auto.
      + intros b v Hd. apply (eco_enc_dec _ C _ _ Hd).
      + intros s v Hs. split; [apply (eco_fixed_len _ C s v Hs); auto|apply (eco_fixed_pos _ C s Hs)].
  Qed.

  (* ---------- general facts ---------- *)
  Lemma flat_map_concat vs : flat_map (eenc ek) vs = concat (map (eenc ek) vs).
  Proof. apply flat_map_concat_map. Qed.

  Lemma sumlen_concat parts : sumlen parts = lenN (concat parts).
  Proof.
    induction parts as [|p r IH]; cbn [sumlen fold_right concat]; auto.
    fold (sumlen r). now rewrite lenN_app, IH.
  Qed.

  Lemma var_offsets_len vs : forall off, lenN (var_offsets ek vs off) = 4 * lenN vs.
  Proof.
    induction vs as [|v r IH]; intros off; cbn [var_offsets]. { reflexivity. }
    rewrite lenN_app, lenN_num_le, IH, lenN_cons. lia.
  Qed.

  (* the model's offset table is the table of the specification *)
  Lemma var_offsets_spec vs : forall off,
    var_offsets ek vs off =
    concat (map (fun i => u32_le (off + sumlen (firstn i (map (eenc ek) vs)))) (seq 0 (length vs))).
  Proof.
    induction vs as [|v r IH]; intros off; cbn [var_offsets length seq map concat]. { reflexivity. }
    cbn [firstn sumlen fold_right]. rewrite N.add_0_r. unfold u32_le at 1. f_equal.
    rewrite IH, <- seq_shift, map_map. f_equal. apply map_ext. intros i.
    cbn [firstn sumlen fold_right]. fold (sumlen (firstn i (map (eenc ek) r))).
    now rewrite N.add_assoc.
  Qed.

  Lemma ser_var_eq vs :
    ser_var vs = var_offsets ek vs (4 * lenN vs) ++ flat_map (eenc ek) vs.
  Proof. unfold ser_var. now rewrite var_offsets_spec, flat_map_concat. Qed.

  Lemma serialize_fixed s vs : efixed ek = Some s -> serialize vs = flat_map (eenc ek) vs.
  Proof. intros Hs. unfold serialize. rewrite Hs. unfold ser_fixed. now rewrite flat_map_concat. Qed.
  Lemma serialize_var vs : efixed ek = None ->
    serialize vs = var_offsets ek vs (4 * lenN vs) ++ flat_map (eenc ek) vs.
  Proof. intros Hs. unfold serialize. rewrite Hs. apply ser_var_eq. Qed.
  Lemma serialize_nil : serialize [] = [].
  Proof. unfold serialize. destruct (efixed ek); reflexivity. Qed.

  Lemma fold_left_len vs : forall a,
    fold_left (fun acc v => acc + lenN (eenc ek v)) vs a = a + lenN (flat_map (eenc ek) vs).
  Proof.
    induction vs as [|v r IH]; intros a; cbn [fold_left flat_map]. { rewrite lenN_nil. lia. }
    rewrite IH, lenN_app. lia.
  Qed.

  (* 5. ssz_bytes_len at list level (variable-size branch) *)
  Theorem ssz_len_var vs o :
    fold_left (fun acc v => acc + lenN (eenc ek v)) vs 0 + 4 * lenN vs
    = lenN (var_offsets ek vs o ++ flat_map (eenc ek) vs).
  Proof. rewrite fold_left_len, lenN_app, var_offsets_len. lia. Qed.

  Section On.
    Variable valid : T -> Prop.
    Hypothesis ECO : ek_codec_on valid.

    Lemma flat_len_fixed s vs : efixed ek = Some s -> Forall valid vs ->
      lenN (flat_map (eenc ek) vs) = s * lenN vs.
    Proof.
      intros Hs Hv. induction Hv as [|v r Hvv Hr IH]; cbn [flat_map]. { unfold lenN; cbn [length]; lia. }
      rewrite lenN_app, IH, lenN_cons, (eco_fixed_len _ ECO s v Hs Hvv). lia.
    Qed.

    (* 1 *)
    Theorem enc_fixed_on s vs : efixed ek = Some s ->
      flat_map (eenc ek) vs = serialize vs /\ (Forall valid vs -> lenN (serialize vs) = s * lenN vs).
    Proof.
      intros Hs. rewrite (serialize_fixed s vs Hs). split; auto. apply flat_len_fixed; auto.
    Qed.

    (* 2 *)
    Lemma decode_chunks_enc s : efixed ek = Some s -> forall vs fuel, Forall valid vs ->
      (length (flat_map (eenc ek) vs) < fuel)%nat ->
      decode_chunks ek fuel s (flat_map (eenc ek) vs) = Some vs.
    Proof.
      intros Hs vs fuel Hv. revert fuel. induction Hv as [|v r Hvv Hr IH]; intros fuel Hf.
      - cbn [flat_map]. destruct fuel; reflexivity.
      - cbn [flat_map] in *.
        pose proof (eco_fixed_len _ ECO s v Hs Hvv) as Hl. pose proof (eco_fixed_pos _ ECO s Hs) as Hp.
        rewrite app_length in Hf.
        destruct fuel as [|f]; [lia|]. cbn [decode_chunks].
        destruct (eenc ek v ++ flat_map (eenc ek) r) as [|x b'] eqn:Eb.
        { apply (f_equal (@lenN _)) in Eb. rewrite lenN_app, lenN_nil in Eb. lia. }
        rewrite <- Eb.
        assert (takeN s (eenc ek v ++ flat_map (eenc ek) r) = eenc ek v) as ->
          by (rewrite <- Hl; apply takeN_app_exact).
        assert (dropN s (eenc ek v ++ flat_map (eenc ek) r) = flat_map (eenc ek) r) as ->
          by (rewrite <- Hl; apply dropN_app_exact).
        rewrite (eco_dec_enc _ ECO v Hvv), IH; auto. unfold lenN in Hl. lia.
    Qed.
    Theorem dec_enc_fixed_on s vs : efixed ek = Some s -> Forall valid vs ->
      decode_chunks ek (S (length (serialize vs))) s (serialize vs) = Some vs.
    Proof.
      intros Hs Hv. rewrite (serialize_fixed s vs Hs). apply decode_chunks_enc; auto.
    Qed.

    (* strictness needs no fuel hypothesis: a successful run did not run out of fuel *)
    Lemma decode_chunks_strict s : forall fuel b vs, decode_chunks ek fuel s b = Some vs ->
      flat_map (eenc ek) vs = b /\ Forall valid vs.
    Proof.
      induction fuel as [|f IH]; intros b vs Hd.
      - destruct b; cbn [decode_chunks] in Hd; [|discriminate]. injection Hd as <-. split; [reflexivity|constructor].
      - destruct b as [|x b'] eqn:Eb. { cbn [decode_chunks] in Hd. injection Hd as <-. split; [reflexivity|constructor]. }
        rewrite <- Eb in *. assert (decode_chunks ek (S f) s b =
          match edec ek (takeN s b) with None => None | Some v =>
            match decode_chunks ek f s (dropN s b) with None => None | Some r => Some (v :: r) end end) as Hu
          by (rewrite Eb; reflexivity).
        rewrite Hu in Hd. clear Hu.
        destruct (edec ek (takeN s b)) as [v|] eqn:Ev; [|discriminate].
        destruct (decode_chunks ek f s (dropN s b)) as [r|] eqn:Er; [|discriminate].
        injection Hd as <-. destruct (IH _ _ Er) as [IH1 IH2].
        destruct (eco_enc_dec _ ECO _ _ Ev) as [Ee Evv].
        split; [|constructor; auto]. cbn [flat_map]. rewrite Ee, IH1. apply takeN_dropN.
    Qed.
    Theorem dec_strict_fixed_on s fuel b vs : efixed ek = Some s ->
      decode_chunks ek fuel s b = Some vs ->
      serialize vs = b /\ Forall valid vs /\ lenN b = s * lenN vs.
    Proof.
      intros Hs Hd. destruct (decode_chunks_strict s fuel b vs Hd) as [H1 H2].
      rewrite (serialize_fixed s vs Hs). repeat split; auto. rewrite <- H1. apply flat_len_fixed; auto.
    Qed.
    (* the item count that list_from_ssz checks against the capacity *)
    Lemma num_items_fixed s vs : efixed ek = Some s -> Forall valid vs ->
      lenN (serialize vs) / s = lenN vs.
    Proof.
      intros Hs Hv. destruct (enc_fixed_on s vs Hs) as [_ Hl]. rewrite (Hl Hv).
      pose proof (eco_fixed_pos _ ECO s Hs). rewrite N.mul_comm. apply N.div_mul. lia.
    Qed.

    (* ---------- 3. variable-size elements ---------- *)
    Definition dvl_body (b : bytes) (max_len : N) : option (list T) :=
      match read_offset b with
      | None => None
      | Some first =>
          if lenN b <? first then None else
          if negb (first mod 4 =? 0) || (first <? 4) then None else
          let num_items := first / 4 in
          if max_len <? num_items then None else
          var_items ek (N.to_nat num_items) 1 b first first
      end.
    Lemma decode_var_list_ne b max_len : b <> [] -> decode_var_list ek b max_len = dvl_body b max_len.
    Proof. destruct b; [congruence|reflexivity]. Qed.

    Lemma read_offset_app n rest : n < 2 ^ 32 -> read_offset (num_le 4 n ++ rest) = Some n.
    Proof.
      intros Hn. unfold read_offset. rewrite lenN_app, lenN_num_le.
      destruct (N.ltb_spec (N.of_nat 4 + lenN rest) 4) as [Hl|Hl]; [lia|].
      replace 4 with (lenN (num_le 4 n)) at 1 by apply lenN_num_le.
      rewrite takeN_app_exact. now rewrite le_num_u32.
    Qed.
    Lemma read_offset_inv b n : read_offset b = Some n -> 4 <= lenN b /\ n = le_num (takeN 4 b).
    Proof.
      unfold read_offset. destruct (N.ltb_spec (lenN b) 4) as [Hl|Hl]; [discriminate|].
      intros E; injection E as <-. auto.
    Qed.


    Lemma var_items_SS n i b off first :
      var_items ek (S (S n)) i b off first =
      match read_offset (dropN (i * 4) b) with
      | None => None
      | Some nxt =>
          if (nxt <? first) || (lenN b <? nxt) || (nxt <? off) then None else
          match edec ek (takeN (nxt - off) (dropN off b)) with
          | None => None
          | Some v => match var_items ek (S n) (i + 1) b nxt first with
                      | None => None | Some r => Some (v :: r) end
          end
      end.
    Proof. reflexivity. Qed.

    (* the decoding loop on an encoding: `rest` are the items still to be decoded after `v`;
       the offset table entry for the first of `rest` is at byte position 4*i *)
    Lemma var_items_enc : forall rest v p1 p2 q1 off i first b,
      Forall valid (v :: rest) ->
      b = p1 ++ var_offsets ek rest (off + lenN (eenc ek v)) ++ p2 ->
      b = q1 ++ eenc ek v ++ flat_map (eenc ek) rest ->
      lenN p1 = i * 4 -> lenN q1 = off -> first <= off -> lenN b < 2 ^ 32 ->
      var_items ek (S (length rest)) i b off first = Some (v :: rest).
    Proof.
      induction rest as [|v' r IH]; intros v p1 p2 q1 off i first b Hv Hp Hq Hp1 Hq1 Hfo Hlb.
      - cbn [length var_items].
        assert (dropN off b = eenc ek v) as ->.
        { rewrite Hq, <- Hq1, dropN_app_exact. cbn [flat_map]. apply app_nil_r. }
        pose proof (Forall_inv Hv) as Hvv. now rewrite (eco_dec_enc _ ECO v Hvv).
      - cbn [length]. rewrite var_items_SS.
        pose proof (Forall_inv Hv) as Hvv. pose proof (Forall_inv_tail Hv) as Hvr.
        remember (off + lenN (eenc ek v)) as off' eqn:Eo.
        assert (lenN b = off + lenN (eenc ek v) + lenN (eenc ek v') + lenN (flat_map (eenc ek) r)) as Hlen.
        { rewrite Hq at 1. cbn [flat_map]. rewrite !lenN_app. lia. }
        assert (dropN (i * 4) b = num_le 4 off' ++ var_offsets ek r (off' + lenN (eenc ek v')) ++ p2) as ->.
        { rewrite Hp at 1. rewrite <- Hp1, dropN_app_exact. cbn [var_offsets]. now rewrite <- app_assoc. }
        rewrite read_offset_app by lia.
        destruct (N.ltb_spec off' first) as [L1|L1]; [lia|].
        destruct (N.ltb_spec (lenN b) off') as [L2|L2]; [lia|].
        destruct (N.ltb_spec off' off) as [L3|L3]; [lia|]. cbn [orb].
        assert (dropN off b = eenc ek v ++ eenc ek v' ++ flat_map (eenc ek) r) as Hd.
        { rewrite Hq at 1. rewrite <- Hq1, dropN_app_exact. reflexivity. }
        rewrite Hd. replace (off' - off) with (lenN (eenc ek v)) by lia. rewrite takeN_app_exact.
        rewrite (eco_dec_enc _ ECO v Hvv).
        rewrite (IH v' (p1 ++ num_le 4 off') p2 (q1 ++ eenc ek v) off' (i + 1) first b); auto.
        + rewrite Hp at 1. cbn [var_offsets]. now rewrite <- !app_assoc.
        + rewrite Hq at 1. cbn [flat_map]. now rewrite <- !app_assoc.
        + rewrite lenN_app, lenN_num_le. lia.
        + rewrite lenN_app. lia.
    Qed.

    Theorem dec_enc_var_on vs max_len : efixed ek = None -> Forall valid vs ->
      lenN (serialize vs) < 2 ^ 32 -> lenN vs <= max_len ->
      decode_var_list ek (serialize vs) max_len = Some vs.
    Proof.
      intros Hs Hv. rewrite (serialize_var vs Hs). intros Hlt Hmax.
      destruct vs as [|v rest]. { reflexivity. }
      remember (lenN (v :: rest)) as n eqn:En.
      remember (var_offsets ek (v :: rest) (4 * n) ++ flat_map (eenc ek) (v :: rest)) as b eqn:Eb.
      assert (1 <= n) as Hn1 by (subst n; rewrite lenN_cons; lia).
      assert (lenN b = 4 * n + lenN (flat_map (eenc ek) (v :: rest))) as Hlen
        by (subst b; rewrite lenN_app, var_offsets_len; lia).
      assert (b <> []) as Hne. { intros ->. rewrite lenN_nil in Hlen. lia. }
      rewrite (decode_var_list_ne b max_len Hne). unfold dvl_body.
      assert (read_offset b = Some (4 * n)) as ->.
      { subst b. cbn [var_offsets]. rewrite <- !app_assoc. apply read_offset_app. lia. }
      destruct (N.ltb_spec (lenN b) (4 * n)) as [L1|L1]; [lia|].
      assert ((4 * n) mod 4 = 0) as -> by (rewrite N.mul_comm; apply N.mod_mul; lia).
      assert ((4 * n) / 4 = n) as -> by (rewrite N.mul_comm; apply N.div_mul; lia).
      destruct (N.ltb_spec (4 * n) 4) as [L2|L2]; [lia|].
      destruct (N.ltb_spec max_len n) as [L3|L3]; [lia|]. cbn [N.eqb negb orb].
      assert (N.to_nat n = S (length rest)) as -> by (subst n; unfold lenN; cbn [length]; lia).
      apply (var_items_enc rest v (num_le 4 (4 * n)) (flat_map (eenc ek) (v :: rest))
               (var_offsets ek (v :: rest) (4 * n))); auto;
        try (rewrite var_offsets_len); try lia.
    Qed.

    (* strictness of the loop: the decoded items re-encode to the payload bytes from `off` on, and the
       table entries it read are those of the encoding (for table bytes < 256) *)
    Lemma var_items_strict : forall n i b off first vs,
      var_items ek (S n) i b off first = Some vs ->
      off <= lenN b ->
      (forall j, i <= j -> j < i + N.of_nat n -> valid_bytes (takeN 4 (dropN (j * 4) b)) = true) ->
      exists v rest, vs = v :: rest /\ length rest = n /\ Forall valid vs /\
        flat_map (eenc ek) vs = dropN off b /\
        takeN (4 * N.of_nat n) (dropN (i * 4) b) = var_offsets ek rest (off + lenN (eenc ek v)).
    Proof.
      induction n as [|n IH]; intros i b off first vs Hd Hoff Hvt.
      - cbn [var_items] in Hd. destruct (edec ek (dropN off b)) as [v|] eqn:Ev; [|discriminate].
        injection Hd as <-. destruct (eco_enc_dec _ ECO _ _ Ev) as [Ee Evv].
        exists v, []. repeat split; auto.
        + cbn [flat_map]. now rewrite app_nil_r.
        + cbn [N.of_nat]. now rewrite N.mul_0_r, takeN_0.
      - rewrite var_items_SS in Hd.
        destruct (read_offset (dropN (i * 4) b)) as [nxt|] eqn:Er; [|discriminate].
        destruct (N.ltb_spec nxt first) as [L1|L1]; [discriminate|].
        destruct (N.ltb_spec (lenN b) nxt) as [L2|L2]; [discriminate|].
        destruct (N.ltb_spec nxt off) as [L3|L3]; [discriminate|]. cbn [orb] in Hd.
        destruct (edec ek (takeN (nxt - off) (dropN off b))) as [v|] eqn:Ev; [|discriminate].
        destruct (var_items ek (S n) (i + 1) b nxt first) as [r|] eqn:Evr; [|discriminate].
        injection Hd as <-.
        destruct (eco_enc_dec _ ECO _ _ Ev) as [Ee Evv].
        destruct (IH (i + 1) b nxt first r Evr L2) as (v' & rest' & -> & Hlr & Hvr & Hfm & Htb).
        { intros j Hj1 Hj2. apply Hvt; lia. }
        assert (lenN (eenc ek v) = nxt - off) as Hlv.
        { rewrite Ee, lenN_takeN, lenN_dropN. lia. }
        destruct (read_offset_inv _ _ Er) as [Hl4 Hnx].
        assert (num_le 4 nxt = takeN 4 (dropN (i * 4) b)) as Hnum.
        { rewrite Hnx.
          assert (length (takeN 4 (dropN (i * 4) b)) = 4%nat) as Hl.
          { pose proof (lenN_takeN 4 (dropN (i * 4) b)) as Hx. unfold lenN in Hx, Hl4 |- *. lia. }
          rewrite <- Hl at 1. apply num_le_le_num. apply Hvt; lia. }
        exists v, (v' :: rest'). repeat split; auto.
        + cbn [length]. now rewrite Hlr.
        + cbn [flat_map] in Hfm |- *. rewrite Hfm, Ee.
          replace nxt with (off + (nxt - off)) at 2 by lia. rewrite <- dropN_dropN. apply takeN_dropN.
        + cbn [var_offsets]. replace (off + lenN (eenc ek v)) with nxt by lia.
          replace (4 * N.of_nat (S n)) with (4 + 4 * N.of_nat n) by lia.
          rewrite takeN_add, dropN_dropN, Hnum.
          replace (i * 4 + 4) with ((i + 1) * 4) by lia. now rewrite Htb.
    Qed.

    (* Strictness holds when the bytes of the offset table are bytes (< 256). In the model `bytes` are
       lists of arbitrary N, and `le_num` of a non-byte is not inverted by `num_le` (model artefact; see
       the Example after this section) — hence the hypothesis, which only concerns the table. *)
    Theorem dec_strict_var_on_table b max_len vs : efixed ek = None ->
      valid_bytes (takeN (le_num (takeN 4 b)) b) = true ->
      decode_var_list ek b max_len = Some vs ->
      serialize vs = b /\ lenN vs <= max_len /\ Forall valid vs.
    Proof.
      intros Hs Hvt Hd. rewrite (serialize_var vs Hs).
      destruct b as [|x b'] eqn:Eb.
      { cbn [decode_var_list] in Hd. injection Hd as <-. repeat split; [rewrite lenN_nil; lia|constructor]. }
      rewrite <- Eb in *. assert (b <> []) as Hne by (rewrite Eb; discriminate). clear Eb x b'.
      rewrite (decode_var_list_ne b max_len Hne) in Hd. unfold dvl_body in Hd.
      destruct (read_offset b) as [first|] eqn:Er; [|discriminate].
      destruct (read_offset_inv _ _ Er) as [Hl4 Hfirst]. rewrite <- Hfirst in Hvt.
      destruct (N.ltb_spec (lenN b) first) as [L1|L1]; [discriminate|].
      destruct (N.eqb_spec (first mod 4) 0) as [Hm|Hm]; [|discriminate].
      destruct (N.ltb_spec first 4) as [L2|L2]; [discriminate|]. cbn [negb orb] in Hd.
      destruct (N.ltb_spec max_len (first / 4)) as [L3|L3]; [discriminate|].
      remember (first / 4) as n eqn:En.
      assert (first = 4 * n) as Hf4. { subst n. apply N.div_exact; [lia|exact Hm]. }
      destruct (N.to_nat n) as [|m] eqn:Em; [lia|].
      assert (n = 1 + N.of_nat m) as Hnm by lia.
      destruct (var_items_strict m 1 b first first vs Hd L1) as (v & rest & -> & Hlr & Hvv & Hfm & Htb).
      { intros j Hj1 Hj2. apply (valid_bytes_window first); auto. lia. }
      assert (lenN (v :: rest) = n) as Hlen. { rewrite Hnm. unfold lenN. cbn [length]. lia. }
      repeat split; auto; [|lia].
      rewrite Hlen, <- Hf4. cbn [var_offsets]. rewrite <- Htb, Hfm.
      assert (num_le 4 first = takeN 4 b) as ->.
      { rewrite Hfirst.
        assert (length (takeN 4 b) = 4%nat) as Hl.
        { pose proof (lenN_takeN 4 b) as Hx. unfold lenN in Hx, Hl4 |- *. lia. }
        rewrite <- Hl at 1. apply num_le_le_num.
        rewrite <- (dropN_0 b) at 1. apply (valid_bytes_window first); auto; lia. }
      rewrite N.mul_1_l, <- takeN_add.
      replace (4 + 4 * N.of_nat m) with first by lia. apply takeN_dropN.
    Qed.
    Theorem dec_strict_var_on b max_len vs : efixed ek = None -> valid_bytes b = true ->
      decode_var_list ek b max_len = Some vs ->
      serialize vs = b /\ lenN vs <= max_len /\ Forall valid vs.
    Proof.
      intros Hs Hv. apply dec_strict_var_on_table; auto. now apply valid_bytes_takeN.
    Qed.

    (* consequences: the encoding is injective on valid element lists *)
    Corollary serialize_inj_fixed s vs1 vs2 : efixed ek = Some s -> Forall valid vs1 -> Forall valid vs2 ->
      serialize vs1 = serialize vs2 -> vs1 = vs2.
    Proof.
      intros Hs H1 H2 E. pose proof (dec_enc_fixed_on s vs1 Hs H1) as D1.
      pose proof (dec_enc_fixed_on s vs2 Hs H2) as D2. rewrite E in D1. congruence.
    Qed.
    Corollary serialize_inj_var vs1 vs2 : efixed ek = None -> Forall valid vs1 -> Forall valid vs2 ->
      lenN (serialize vs1) < 2 ^ 32 -> serialize vs1 = serialize vs2 -> vs1 = vs2.
    Proof.
      intros Hs H1 H2 Hlt E.
      pose proof (dec_enc_var_on vs1 (N.max (lenN vs1) (lenN vs2)) Hs H1 Hlt ltac:(lia)) as D1.
      rewrite E in Hlt.
      pose proof (dec_enc_var_on vs2 (N.max (lenN vs1) (lenN vs2)) Hs H2 Hlt ltac:(lia)) as D2.
      rewrite E in D1. congruence.
    Qed.
  End On.

  Lemma lenN_serialize_var vs : efixed ek = None ->
    lenN (serialize vs) = 4 * lenN vs + lenN (flat_map (eenc ek) vs).
  Proof. intros Hs. rewrite (serialize_var vs Hs), lenN_app, var_offsets_len. reflexivity. Qed.

  (* ---------- the same under the unrelativised laws `ek_codec` of Defs.v ---------- *)
  Section Plain.
    Hypothesis EC : ek_codec ek.
    Let ECO : ek_codec_on (fun _ => True) := proj1 ek_codec_on_True EC.
    Lemma Forall_True (vs : list T) : Forall (fun _ => True) vs.
    Proof. induction vs; constructor; auto. Qed.

    Theorem enc_fixed s vs : efixed ek = Some s ->
      flat_map (eenc ek) vs = serialize vs /\ lenN (serialize vs) = s * lenN vs.
    Proof.
      intros Hs. destruct (enc_fixed_on _ ECO s vs Hs) as [E1 E2]. split; auto. apply E2, Forall_True.
    Qed.
    Theorem dec_enc_fixed s vs : efixed ek = Some s ->
      decode_chunks ek (S (length (serialize vs))) s (serialize vs) = Some vs.
    Proof. intros Hs. apply (dec_enc_fixed_on _ ECO); auto. apply Forall_True. Qed.
    Theorem dec_strict_fixed s fuel b vs : efixed ek = Some s ->
      decode_chunks ek fuel s b = Some vs -> serialize vs = b.
    Proof. intros Hs Hd. apply (dec_strict_fixed_on _ ECO s fuel b vs Hs Hd). Qed.
    Theorem dec_enc_var vs max_len : efixed ek = None ->
      4 * lenN vs + lenN (flat_map (eenc ek) vs) < 2 ^ 32 -> lenN vs <= max_len ->
      decode_var_list ek (serialize vs) max_len = Some vs.
    Proof.
      intros Hs Hlt Hm. apply (dec_enc_var_on _ ECO); auto. { apply Forall_True. }
      now rewrite lenN_serialize_var.
    Qed.
    Theorem dec_strict_var b max_len vs : efixed ek = None -> valid_bytes b = true ->
      decode_var_list ek b max_len = Some vs -> serialize vs = b /\ lenN vs <= max_len.
    Proof.
      intros Hs Hv Hd. destruct (dec_strict_var_on _ ECO b max_len vs Hs Hv Hd) as (E1 & E2 & _). auto.
    Qed.
  End Plain.
End Codec.


(* ====================================================================== *)
(* the model's collection-level codec functions, reduced to the list level *)
(* ====================================================================== *)
Section Model.
  Context {T U : Type}.
  Variable ek : ekind T.
  Variable M : umap_impl T U.
  Variable capN : N.
  Variable valid : T -> Prop.
  Hypothesis ECO : ek_codec_on ek valid.

  (* what list_from_ssz / list_serde_de do with a successfully decoded element list *)
  Definition build_or (e : error) (vs : list T) : prog (handle T U) :=
    (r <- try_ (list_try_from_iter ek M capN vs) ;;
     match r with inl _ => Fail e | inr h => Ret h end)%prog.

  Lemma list_serde_de_eq vs : list_serde_de ek M capN vs = build_or ESerde vs.
  Proof. reflexivity. Qed.


  Definition lfs_body (b : bytes) : prog (handle T U) :=
    match efixed ek with
    | Some s =>
        if s =? 0 then Fail EDecode else
        if capN <? lenN b / s then Fail EDecode else
        match decode_chunks ek (S (length b)) s b with
        | None => Fail EDecode | Some vs => build_or EDecode vs end
    | None =>
        match decode_var_list ek b capN with
        | None => Fail EDecode | Some vs => build_or EDecode vs end
    end.
  Lemma list_from_ssz_ne b : b <> [] -> list_from_ssz ek M capN b = lfs_body b.
  Proof. destruct b; [congruence|reflexivity]. Qed.

  Lemma serialize_ne vs : Forall valid vs -> vs <> [] -> serialize ek vs <> [].
  Proof.
    intros Hv Hne E. destruct vs as [|v r]; [congruence|]. apply (f_equal (@lenN _)) in E.
    rewrite lenN_nil in E. destruct (efixed ek) as [s|] eqn:Es.
    - destruct (enc_fixed_on ek valid ECO s (v :: r) Es) as [_ Hl]. rewrite (Hl Hv), lenN_cons in E.
      pose proof (eco_fixed_pos _ _ ECO s Es). nia.
    - rewrite (lenN_serialize_var ek (v :: r) Es), lenN_cons in E. lia.
  Qed.

  (* decoding an encoding: exactly the checked build of the original elements *)
  Theorem list_from_ssz_serialize vs : Forall valid vs -> lenN vs <= capN ->
    (efixed ek = None -> lenN (serialize ek vs) < 2 ^ 32) ->
    list_from_ssz ek M capN (serialize ek vs) =
    match vs with [] => list_empty ek M capN | _ => build_or EDecode vs end.
  Proof.
    intros Hv Hcap H32. destruct vs as [|v r] eqn:Evs. { now rewrite serialize_nil. }
    rewrite <- Evs in *. assert (vs <> []) as Hne by (rewrite Evs; discriminate). clear Evs v r.
    rewrite (list_from_ssz_ne _ (serialize_ne vs Hv Hne)). unfold lfs_body.
    destruct (efixed ek) as [s|] eqn:Es.
    - pose proof (eco_fixed_pos _ _ ECO s Es) as Hp.
      destruct (N.eqb_spec s 0) as [E0|E0]; [lia|].
      rewrite (num_items_fixed ek valid ECO s vs Es Hv).
      destruct (N.ltb_spec capN (lenN vs)) as [L|L]; [lia|].
      rewrite (dec_enc_fixed_on ek valid ECO s vs Es Hv). reflexivity.
    - rewrite (dec_enc_var_on ek valid ECO vs capN Es Hv (H32 eq_refl) Hcap). reflexivity.
  Qed.

  (* strictness: whatever list_from_ssz does not reject is the canonical encoding of the element list
     it then builds, and that list is within the capacity *)
  Theorem list_from_ssz_strict b : valid_bytes b = true ->
    (b = [] /\ list_from_ssz ek M capN b = list_empty ek M capN) \/
    list_from_ssz ek M capN b = Fail EDecode \/
    exists vs, serialize ek vs = b /\ Forall valid vs /\ lenN vs <= capN /\
               list_from_ssz ek M capN b = build_or EDecode vs.
  Proof.
    intros Hvb. destruct b as [|x b'] eqn:Eb. { left. split; reflexivity. }
    right. rewrite <- Eb in *. assert (b <> []) as Hne by (rewrite Eb; discriminate). clear Eb x b'.
    rewrite (list_from_ssz_ne b Hne). unfold lfs_body.
    destruct (efixed ek) as [s|] eqn:Es.
    - destruct (N.eqb_spec s 0) as [E0|E0]; [left; reflexivity|].
      destruct (N.ltb_spec capN (lenN b / s)) as [L|L]; [left; reflexivity|].
      destruct (decode_chunks ek (S (length b)) s b) as [vs|] eqn:Ed; [|left; reflexivity].
      right. exists vs.
      destruct (dec_strict_fixed_on ek valid ECO s _ b vs Es Ed) as (E1 & E2 & E3).
      repeat split; auto. rewrite E3, N.mul_comm, N.div_mul in L by lia. exact L.
    - destruct (decode_var_list ek b capN) as [vs|] eqn:Ed; [|left; reflexivity].
      right. exists vs.
      destruct (dec_strict_var_on ek valid ECO b capN vs Es Hvb Ed) as (E1 & E2 & E3).
      repeat split; auto.
  Qed.

  (* ssz_encode / ssz_bytes_len, given what to_vec yields (its specification is another task's) *)
  Lemma ssz_encode_wp R h Q s :
    wp R (to_vec ek M h) (fun o s' => match o with
          | Ok vs => lenN vs = iface_len M h /\ Q (Ok (serialize ek vs)) s'
          | Err e => Q (Err e) s' | Panic c => Q (Panic c) s' end) s ->
    wp R (ssz_encode ek M h) Q s.
  Proof.
    intros Hw. unfold ssz_encode. apply wp_bind. eapply wp_mono; [|exact Hw].
    intros [vs|e|c] s'; cbn [lift]; auto. intros [Hl HQ].
    destruct (efixed ek) as [s0|] eqn:Es; cbn [wp].
    - now rewrite <- (serialize_fixed ek s0 vs Es).
    - unfold bytes_per_offset. now rewrite <- Hl, <- (serialize_var ek vs Es).
  Qed.
  Lemma ssz_bytes_len_fixed s0 h : efixed ek = Some s0 ->
    ssz_bytes_len ek M h = Ret (s0 * iface_len M h).
  Proof. intros Es. unfold ssz_bytes_len. now rewrite Es. Qed.
  Lemma ssz_bytes_len_fixed_eq s0 h vs : efixed ek = Some s0 -> Forall valid vs ->
    lenN vs = iface_len M h -> s0 * iface_len M h = lenN (serialize ek vs).
  Proof.
    intros Es Hv Hl. destruct (enc_fixed_on ek valid ECO s0 vs Es) as [_ E]. now rewrite (E Hv), Hl.
  Qed.
  Lemma ssz_bytes_len_var_wp R h Q s : efixed ek = None ->
    wp R (to_vec ek M h) (fun o s' => match o with
          | Ok vs => lenN vs = iface_len M h /\ Q (Ok (lenN (serialize ek vs))) s'
          | Err e => Q (Err e) s' | Panic c => Q (Panic c) s' end) s ->
    wp R (ssz_bytes_len ek M h) Q s.
  Proof.
    intros Es Hw. unfold ssz_bytes_len. rewrite Es. apply wp_bind. eapply wp_mono; [|exact Hw].
    intros [vs|e|c] s'; cbn [lift]; auto. intros [Hl HQ]. cbn [wp]. unfold bytes_per_offset.
    rewrite <- Hl, (ssz_len_var ek vs (4 * lenN vs)), <- (serialize_var ek vs Es). exact HQ.
  Qed.
End Model.

(* ====================================================================== *)
(* the byte-validity hypothesis of dec_strict_var is needed (model artefact) *)
(* ====================================================================== *)
(* An element kind "raw byte string" (every byte list is a value): it satisfies ek_codec, and a byte
   list containing the non-byte 264 in its offset table decodes, yet does not re-encode to itself.
   In the Rust code bytes are u8, so this does not correspond to any execution of ethereum_ssz. *)
Definition ek_raw : ekind bytes :=
  {| eeqb := bytes_eqb; epd := None; epenc := le_num; etroot := le_num; efixed := None;
     eenc := fun v => v; edec := fun b => Some b; edefault := [] |}.
Lemma ek_raw_codec : ek_codec ek_raw.
Proof.
  constructor; cbn [ek_raw eenc edec efixed]; auto.
  - intros b v E. now injection E as <-.
  - intros s v E. discriminate.
Qed.
Example dec_strict_var_needs_bytes :
  let b := [8; 0; 0; 0; 264; 0; 0; 0] ++ repeat 1 256 in
  decode_var_list ek_raw b 10 = Some [repeat 1 256; []] /\
  serialize ek_raw [repeat 1 256; []] = [8; 0; 0; 0; 8; 1; 0; 0] ++ repeat 1 256.
Proof. vm_compute. split; reflexivity. Qed.

(* ====================================================================== *)
(* 6. instances                                                             *)
(* ====================================================================== *)
Definition bytes_of_len (w : nat) (v : bytes) : Prop := length v = w /\ valid_bytes v = true.
Definition bytes_upto (w : nat) (v : bytes) : Prop := (length v <= w)%nat /\ valid_bytes v = true.

(* ek_codec itself fails for the concrete kinds: a value of the wrong length does not decode *)
Example ek_codec_uint_fails : ~ ek_codec (ek_uint 0).
Proof. intros C. pose proof (ek_dec_enc _ C []) as E. vm_compute in E. discriminate. Qed.

Lemma fixed_bytes_codec (ek : ekind bytes) (w : nat) :
  (0 < w)%nat -> efixed ek = Some (N.of_nat w) -> eenc ek = (fun v => v) ->
  edec ek = (fun b => if Nat.eqb (length b) w && valid_bytes b then Some b else None) ->
  ek_codec_on ek (bytes_of_len w).
Proof.
  intros Hw Hf He Hd. constructor; rewrite ?He, ?Hd, ?Hf.
  - intros v [Hl Hv]. rewrite Hl, Nat.eqb_refl, Hv. reflexivity.
  - intros b v E. destruct (Nat.eqb (length b) w && valid_bytes b) eqn:Ec; [|discriminate].
    injection E as <-. apply andb_true_iff in Ec. destruct Ec as [E1 E2]. apply Nat.eqb_eq in E1.
    split; [reflexivity|split; auto].
  - intros s v E [Hl Hv]. injection E as <-. unfold lenN. now rewrite Hl.
  - intros s E. injection E as <-. lia.
Qed.

Theorem ek_uint_codec k : ek_codec_on (ek_uint k) (bytes_of_len (Nat.pow 2 k)).
Proof.
  apply fixed_bytes_codec; try reflexivity.
  assert (Nat.pow 2 k <> 0)%nat by (apply Nat.pow_nonzero; lia). lia.
Qed.
Theorem ek_h256_codec : ek_codec_on ek_h256 (bytes_of_len 32).
Proof. apply fixed_bytes_codec; try reflexivity. lia. Qed.
Theorem ek_pair_codec H : ek_codec_on (ek_pair H) (bytes_of_len 16).
Proof. apply fixed_bytes_codec; try reflexivity. lia. Qed.
Theorem ek_var_codec H : ek_codec_on (ek_var H) (bytes_upto 4).
Proof.
  constructor; cbn [ek_var eenc edec efixed].
  - intros v [Hl Hv]. apply Nat.leb_le in Hl. now rewrite Hl, Hv.
  - intros b v E. destruct (Nat.leb (length b) 4 && valid_bytes b) eqn:Ec; [|discriminate].
    injection E as <-. apply andb_true_iff in Ec. destruct Ec as [E1 E2]. apply Nat.leb_le in E1.
    split; [reflexivity|split; auto].
  - intros s v E. discriminate.
  - intros s E. discriminate.
Qed.

Print Assumptions le_num_num_le.
Print Assumptions num_le_le_num.
Print Assumptions ssz_len_var.
Print Assumptions enc_fixed_on.
Print Assumptions dec_enc_fixed_on.
Print Assumptions dec_strict_fixed_on.
Print Assumptions dec_enc_var_on.
Print Assumptions dec_strict_var_on_table.
Print Assumptions dec_strict_var_on.
Print Assumptions enc_fixed.
Print Assumptions dec_enc_fixed.
Print Assumptions dec_strict_fixed.
Print Assumptions dec_enc_var.
Print Assumptions dec_strict_var.
Print Assumptions serialize_inj_fixed.
Print Assumptions serialize_inj_var.
Print Assumptions ek_codec_on_True.
Print Assumptions dec_strict_var_needs_bytes.
Print Assumptions ek_uint_codec.
Print Assumptions ek_h256_codec.
Print Assumptions ek_pair_codec.
Print Assumptions ek_var_codec.
Print Assumptions list_from_ssz_serialize.
Print Assumptions list_from_ssz_strict.
Print Assumptions ssz_encode_wp.
Print Assumptions ssz_bytes_len_var_wp.
Print Assumptions ssz_bytes_len_fixed_eq.
