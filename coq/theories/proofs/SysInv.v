(* SysInv.v — the system-level invariant relating the model's register file to the abstract
   register file of Spec.v, and the statement shape of the per-operation refinement lemmas. *)
From MH Require Export Spec.
Local Open Scope N_scope.

Section SysInv.
  Context {T U : Type}.
  Variable ek : ekind T.
  Variable M : umap_impl T U.
  Variable H : digest -> digest -> digest.
  Variable capN : N.
  Variable vec_based : bool.
  Variable uinv : U -> Prop.
  Variable valid : T -> Prop.
  Notation tree := (tree T).
  Notation handle := (handle T U).
  Notation sys := (@sys T U).

  Definition live_trees (s : sys) : list tree :=
    flat_map (fun ho => match ho with Some h => [htree h] | None => [] end) (regs s).

  Definition reg_rel (ho : option handle) (ao : option (@aval T)) : Prop :=
    match ho, ao with
    | None, None => True
    | Some h, Some x => exists l, hinv ek M capN uinv h l /\ x = abs_of M h l
    | _, _ => False
    end.

  (* I1/I2 for every live handle (hinv), I3/I4 for the shared state (gok), and the abstraction *)
  Definition SysInv (st : state) (s : sys) (a : sregs) : Prop :=
    length (regs s) = nregs /\ Forall2 reg_rel (regs s) a /\ gok ek H st (live_trees s).

  (* one operation refines the specification and preserves the invariant; never Err/Panic at top level *)
  Definition refines (s : sys) (a : sregs) (o : op (T := T)) (st : state) : Prop :=
    wp Rexact (step ek M H capN vec_based s o)
       (fun out st' => exists r s', out = Ok (r, s') /\ bslot s' = bslot s /\
          exists a', spec_ok ek H capN vec_based valid a o r a' /\ SysInv st' s' a') st.
End SysInv.
