(* SszStaticP.v — the static half of `Encode` (C12): is_ssz_fixed_len() / ssz_fixed_len() of the collection
   TYPE agree with the canonical serialization: a type is declared fixed-size exactly when every value of it
   serializes to the same number of bytes, and that number is the declared ssz_fixed_len(). *)
From MH Require Import Defs Inv CodecP CollObsP.
Import ListNotations.
Local Open Scope N_scope.

Section SszStatic.
  Context {T : Type}.
  Variable ek : ekind T.
  Variable valid : T -> Prop.
  Hypothesis ECO : ek_codec_on ek valid.

  (* a collection type declared fixed-size: all its (valid) values have encodings of the declared length *)
  Theorem ssz_fixed_len_spec (capN : N) (l : list T) :
    coll_is_ssz_fixed ek false = true -> lenN l = capN -> Forall valid l ->
    lenN (serialize ek l) = coll_ssz_fixed_len ek false capN.
  Proof.
    unfold coll_is_ssz_fixed, coll_ssz_fixed_len. cbn [coll_is_ssz_fixed].
    destruct (efixed ek) as [s|] eqn:Es; [|discriminate]. intros _ Hl Hv.
    destruct (enc_fixed_on ek valid ECO s l Es) as [_ E]. rewrite (E Hv), Hl. reflexivity.
  Qed.

  (* lists are never declared fixed-size, and a vector of variable-size elements is not either; both are then
     laid out behind one 4-byte offset by an enclosing container *)
  Theorem ssz_list_is_variable (capN : N) :
    coll_is_ssz_fixed ek true = false /\ coll_ssz_fixed_len ek true capN = 4.
  Proof. split; reflexivity. Qed.

  Theorem ssz_vector_fixed_iff :
    coll_is_ssz_fixed ek false = true <-> exists s, efixed ek = Some s.
  Proof.
    unfold coll_is_ssz_fixed. destruct (efixed ek) as [s|]; split; intros Hx; try discriminate; eauto.
    destruct Hx as [s Hs]. discriminate.
  Qed.

  Theorem ssz_not_fixed_len (is_list : bool) (capN : N) :
    coll_is_ssz_fixed ek is_list = false -> coll_ssz_fixed_len ek is_list capN = 4.
  Proof. unfold coll_ssz_fixed_len. intros ->. reflexivity. Qed.

  (* a declared-variable vector type really has encodings of different lengths unless N = 0 or the element
     encodings all happen to have one length: the declaration cannot be strengthened in general; witness
     for the `var` kind below (Instances) *)
End SszStatic.

Print Assumptions ssz_fixed_len_spec.
Print Assumptions ssz_list_is_variable.
Print Assumptions ssz_vector_fixed_iff.
Print Assumptions ssz_not_fixed_len.
