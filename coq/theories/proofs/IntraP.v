(* IntraP.v — Tree::intra_rebase (as repaired by F2 and F6) and List/Vector::intra_rebase.
   Proof file; the definitions proved about are the model's (Rebase.v, Coll.v).
   Exported:
     intra_total            any read relation: never Err/Panic, replacement has the shape of orig, key discipline
     ir_tree_hash_exact     P12 over the model tree_hash (exact reads), with `ir_changes`, `ir_mvalid_changes` (own proof, no hypothesis; HashP has its own)
     intra_shape            exact reads: + identities (idf), below, memo validity, `hchanges` (the frame), known table
     intra_shape_top / intra_shape_canon   the call with the empty table
     mvalid_hchanges, hchanges_frame, memo_below_hchanges   consequences of `hchanges` for other trees
     coll_intra_spec        List/Vector::intra_rebase, any read relation (assumes apply_spec)
     coll_intra_spec_memo   the same with exact reads and a family of consistently named valid trees (assumes apply_spec)
     wul_idf, apply_updates_idf   identity discipline (idf) of with_updated_leaves / apply_updates
     intra_rebase_pinned, intra_pinned_refuted, intra_pinned_not_shape_preserving, intra_fixed_on_witness *)
From Coq Require Import FMapPositive.
From MH Require Export Defs.
Local Open Scope N_scope.

(* ---------- generic facts about wp ---------- *)
Lemma wp_conj {A} R (m : prog A) : forall (Q1 Q2 : outcome A -> state -> Prop) s,
  wp R m Q1 s -> wp R m Q2 s -> wp R m (fun o s' => Q1 o s' /\ Q2 o s') s.
Proof.
  induction m as [A a|A e|A c|A k IH|A i k IH|A i d k IH|A p IHp q IHq k IHk|A t k IH]; cbn [wp]; intros Q1 Q2 s W1 W2;
    try solve [auto | apply IH; auto | intros d0 Hd; apply IH; auto].
  - eapply wp_mono; [|apply (IHp _ _ _ W1 W2)]. intros [a|e|c] s1 [V1 V2]; auto.
    eapply wp_mono; [|apply (IHq _ _ _ V1 V2)]. intros [b|e|c] s2 [U1 U2]; auto.
Qed.

(* a program that cannot fail is not affected by try_ *)
Lemma wp_try_ok {A} R (m : prog A) : forall (P : A -> state -> Prop) s,
  wp R m (fun o s' => exists a, o = Ok a /\ P a s') s ->
  wp R (try_ m) (fun o s' => exists a, o = Ok (inr a) /\ P a s') s.
Proof.
  induction m as [A a|A e|A c|A k IH|A i k IH|A i d k IH|A p IHp q IHq k IHk|A t k IH]; cbn [wp try_]; intros P s W.
  - destruct W as (a0 & E & HP). injection E as <-. eauto.
  - destruct W as (a0 & E & _). discriminate.
  - destruct W as (a0 & E & _). discriminate.
  - apply IH. exact W.
  - intros d Hd. apply IH. apply W. exact Hd.
  - apply IH. exact W.
  - eapply wp_mono; [|exact W]. intros [a|e|c] s1; try (intros (a0 & E & _); discriminate).
    intros V. eapply wp_mono; [|exact V]. intros [b|e|c] s2; try (intros (a0 & E & _); discriminate).
    apply IHk.
  - apply IH. exact W.
Qed.

Section IntraP.
  Context {T : Type}.
  Variable ek : ekind T.
  Variable H : digest -> digest -> digest.
  Hypothesis EKW : ek_wf ek.
  Hypothesis NZ : nonzero_hash H.
  Notation tree := (tree T).
  Notation stree := (stree T).

  (* ---------- structural equality ---------- *)
  Lemma list_eqb_eq : forall a b : list T, list_eqb ek a b = true -> a = b.
  Proof.
    induction a as [|x a IH]; intros [|y b] E; cbn [list_eqb] in E; try discriminate; auto.
    apply andb_prop in E as [E1 E2]. apply (ek_eqb_spec ek EKW) in E1. apply IH in E2. congruence.
  Qed.
  Lemma stree_eqb_eq : forall a b : stree, stree_eqb ek a b = true -> a = b.
  Proof.
    induction a as [v|vs|l IHl r IHr|z]; intros [w|ws|l' r'|z'] E; cbn [stree_eqb] in E; try discriminate.
    - apply (ek_eqb_spec ek EKW) in E. congruence.
    - apply list_eqb_eq in E. congruence.
    - apply andb_prop in E as [E1 E2]. apply IHl in E1. apply IHr in E2. congruence.
    - apply Nat.eqb_eq in E. congruence.
  Qed.
  Lemma tree_eqb_shape (a b : tree) : tree_eqb ek a b = true -> shape a = shape b.
  Proof. apply stree_eqb_eq. Qed.

  (* ---------- well-formedness of the argument tree ---------- *)
  (* every internal node sits at a positive depth *)
  Fixpoint snode_depth_ok (d : nat) (t : stree) : Prop :=
    match t with
    | SNode l r => match d with O => False | S d' => snode_depth_ok d' l /\ snode_depth_ok d' r end
    | _ => True
    end.
  (* a packed leaf holds at most `pf` values (otherwise PackedLeaf::tree_hash panics) *)
  Fixpoint spacked_ok (t : stree) : Prop :=
    match t with
    | SPacked vs => lenN vs <= pf_of ek
    | SNode l r => spacked_ok l /\ spacked_ok r
    | _ => True
    end.
  Definition node_depth_ok (d : nat) (t : tree) : Prop := snode_depth_ok d (shape t).
  Definition packed_ok (t : tree) : Prop := spacked_ok (shape t).

  Lemma canon_node_depth_ok : forall d (l : list T), snode_depth_ok d (canon ek d l).
  Proof.
    induction d as [|d IH]; intros [|v l]; cbn [canon snode_depth_ok]; auto.
    destruct (is_packed ek); cbn; auto.
  Qed.
  Lemma cap_S d : cap ek (S d) = 2 * cap ek d.
  Proof. unfold cap. cbn [Nat.add]. apply pow2_S. Qed.
  Lemma canon_packed_ok : forall d (l : list T), lenN l <= cap ek d -> spacked_ok (canon ek d l).
  Proof.
    induction d as [|d IH]; intros l Hl.
    - destruct l as [|v l]; cbn [canon spacked_ok]; auto.
      destruct (is_packed ek); cbn [spacked_ok]; auto; try exact Hl.
    - destruct l as [|v l]; [cbn; auto|]. cbn [canon spacked_ok].
      rewrite cap_S in Hl. remember (v :: l) as l0. clear Heql0.
      split; apply IH.
      + rewrite lenN_takeN. lia.
      + rewrite lenN_dropN. lia.
  Qed.

  (* ---------- the `known` table ---------- *)
  Definition ieff (a : iaction T) (t : tree) : tree := match a with INoop => t | IReplace t' => t' end.
  (* the call only adds keys whose depth component is at most n *)
  Definition keys_le (n : nat) (k k' : known T) : Prop :=
    forall d h, (n < d)%nat -> known_get k' d h = known_get k d h.
  Lemma keys_le_refl n k : keys_le n k k.
  Proof. intros d h _. reflexivity. Qed.
  Lemma keys_le_trans n m k1 k2 k3 : (n <= m)%nat -> keys_le n k1 k2 -> keys_le n k2 k3 -> keys_le m k1 k3.
  Proof. intros L A B d h Hd. rewrite B, A by lia. reflexivity. Qed.
  Lemma keys_le_cons n k k' h t : keys_le n k k' -> keys_le (S n) k (((S n, h), t) :: k').
  Proof.
    intros A d h' Hd. cbn [known_get].
    destruct (Nat.eqb_spec d (S n)) as [E|E]; [lia|]. cbn [andb]. apply A. lia.
  Qed.
  Lemma known_get_In : forall (k : known T) d h t, known_get k d h = Some t -> exists key, In (key, t) k.
  Proof.
    induction k as [|[[d' h'] t'] k IH]; intros d h t E; cbn [known_get] in E; [discriminate|].
    destruct (Nat.eqb d d' && (h =? h')).
    - injection E as ->. eexists. left. reflexivity.
    - apply IH in E as [key Hin]. exists key. right. exact Hin.
  Qed.

  (* the Replace/Noop decision of a node from those of its children *)
  Definition act_prog (h : digest) (l r : tree) (la ra : iaction T) : prog (iaction T) :=
    match la, ra with
    | INoop, INoop => Ret INoop
    | INoop, IReplace nr => bind fresh (fun j => bind (set_memo j h) (fun _ => Ret (IReplace (Node j l nr))))
    | IReplace nl, INoop => bind fresh (fun j => bind (set_memo j h) (fun _ => Ret (IReplace (Node j nl r))))
    | IReplace nl, IReplace nr => bind fresh (fun j => bind (set_memo j h) (fun _ => Ret (IReplace (Node j nl nr))))
    end.
  Lemma wp_act R h l r la ra (Q : outcome (iaction T) -> state -> Prop) s :
    (la = INoop -> ra = INoop -> Q (Ok INoop) s) ->
    (la <> INoop \/ ra <> INoop ->
       Q (Ok (IReplace (Node (next s) (ieff la l) (ieff ra r)))) (mset (bump s) (next s) h)) ->
    wp R (act_prog h l r la ra) Q s.
  Proof.
    intros Q1 Q2. destruct la as [|nl], ra as [|nr]; cbn [act_prog bind fresh set_memo wp ieff] in *; auto;
      apply Q2; (left; discriminate) || (right; discriminate).
  Qed.

  (* ---------- tree_hash, any read relation: never fails, a node hash is never 0 ---------- *)
  Lemma tree_hash_any R : forall t s, packed_ok t ->
    wp R (tree_hash ek H t)
       (fun o s' => exists h, o = Ok h /\ next s' = next s /\ (forall i l r, t = Node i l r -> h <> 0)) s.
  Proof.
    unfold packed_ok.
    induction t as [i v|i vs|i l IHl r IHr|i z]; intros s P; cbn [tree_hash wp shape spacked_ok] in *.
    - intros e _. destruct (e =? 0); cbn [negb wp]; eexists; (split; [reflexivity|]); split; auto; discriminate.
    - intros e _. destruct (e =? 0); cbn [negb wp]; [|eexists; (split; [reflexivity|]); split; auto; discriminate].
      destruct (N.ltb_spec (pf_of ek) (lenN vs)) as [L|L]; [lia|].
      cbn [wp]. eexists; (split; [reflexivity|]); split; auto; discriminate.
    - destruct P as [Pl Pr]. intros e _. destruct (N.eqb_spec e 0) as [Z|NZe]; cbn [negb wp].
      + eapply wp_mono; [|apply (IHl s Pl)]. intros [a|e1|c1] s1 (h1 & E1 & N1 & _); try discriminate.
        eapply wp_mono; [|apply (IHr s1 Pr)]. intros [b|e2|c2] s2 (h2 & E2 & N2 & _); try discriminate.
        cbn [wp]. eexists; (split; [reflexivity|]); split; [cbn; congruence|]. intros _ _ _ _. apply NZ.
      + eexists; (split; [reflexivity|]); split; auto.
    - eexists; (split; [reflexivity|]); split; auto; discriminate.
  Qed.

  (* ---------- Theorem A: intra_rebase is total and shape-preserving, for every read relation ---------- *)
  Theorem intra_total R : forall t k d s, node_depth_ok d t -> packed_ok t ->
    wp R (intra_rebase ek H t k d)
       (fun o s' => exists a k', o = Ok (a, k') /\ shape (ieff a t) = shape t /\ keys_le d k k' /\
                                 (next s <= next s')%positive) s.
  Proof.
    unfold node_depth_ok, packed_ok.
    induction t as [i v|i vs|i l IHl r IHr|i z]; intros k d s W P; cbn [intra_rebase wp];
      try (exists INoop, k; repeat split; auto using keys_le_refl; lia).
    cbn [shape snode_depth_ok spacked_ok] in W, P.
    destruct d as [|nd]; [destruct W|]. destruct W as [Wl Wr]. destruct P as [Pl Pr].
    cbn [wp]. intros h0 _. apply wp_bind.
    (* the hash of the node: read or computed on demand, never zero *)
    assert (Hh : wp R (if h0 =? 0 then tree_hash ek H (Node i l r) else Ret h0)
                   (fun o s1 => exists h, o = Ok h /\ h <> 0 /\ next s1 = next s) s).
    { destruct (N.eqb_spec h0 0) as [Z|NZ0].
      - eapply wp_mono; [|apply tree_hash_any; unfold packed_ok; cbn [shape spacked_ok]; auto].
        intros o s1 (h & E & N1 & Hnz). exists h. repeat split; eauto.
      - cbn [wp]. eauto. }
    eapply wp_mono; [|exact Hh]. clear Hh. intros o s1 (h & -> & Hnz & N1). cbn [lift].
    destruct (N.eqb_spec h 0) as [Z|_]; [contradiction|].
    fold (act_prog h l r).
    destruct (known_get k (S nd) h) as [ks|] eqn:EK.
    - destruct (tree_eqb ek ks (Node i l r)) eqn:EQ.
      + cbn [wp]. exists (IReplace ks), k. repeat split; auto using keys_le_refl; [|lia].
        cbn [ieff]. apply tree_eqb_shape. exact EQ.
      + apply wp_bind. eapply wp_mono; [|apply (IHl k nd s1 Wl Pl)].
        intros o1 s2 (la & k1 & -> & Sl & Kl & N2). cbn [lift].
        apply wp_bind. eapply wp_mono; [|apply (IHr k1 nd s2 Wr Pr)].
        intros o2 s3 (ra & k2 & -> & Sr & Kr & N3). cbn [lift].
        apply wp_bind. apply wp_act; cbn [lift wp].
        * intros -> ->. exists INoop, k2. repeat split; auto; [|lia].
          eapply keys_le_trans; [|exact Kl|exact Kr]. lia.
        * intros _. eexists _, k2. split; [reflexivity|]. cbn [ieff shape]. rewrite Sl, Sr.
          repeat split; auto; [|cbn; lia]. eapply keys_le_trans; [|exact Kl|exact Kr]. lia.
    - apply wp_bind. eapply wp_mono; [|apply (IHl k nd s1 Wl Pl)].
      intros o1 s2 (la & k1 & -> & Sl & Kl & N2). cbn [lift].
      apply wp_bind. eapply wp_mono; [|apply (IHr k1 nd s2 Wr Pr)].
      intros o2 s3 (ra & k2 & -> & Sr & Kr & N3). cbn [lift].
      assert (EK2 : known_get k2 (S nd) h = None) by (rewrite Kr, Kl by lia; exact EK).
      apply wp_bind. apply wp_act; cbn [lift wp]; rewrite EK2; cbn [wp].
      * intros -> ->. eexists INoop, _. split; [reflexivity|]. repeat split; auto; [|lia].
        apply keys_le_cons. eapply keys_le_trans; [|exact Kl|exact Kr]. lia.
      * intros _. eexists _, _. split; [reflexivity|]. cbn [ieff shape]. rewrite Sl, Sr.
        repeat split; auto; [|cbn; lia]. apply keys_le_cons. eapply keys_le_trans; [|exact Kl|exact Kr]. lia.
  Qed.

  (* ====================================================================================== *)
  (* Part B: exact reads; identities, memo validity, frame                                    *)
  (* ====================================================================================== *)
  Notation hs := (hash_spec ek H).
  Notation mv := (mvalid ek H).

  Lemma mget_mset s i d j : mget (mset s i d) j = if Pos.eqb j i then d else mget s j.
  Proof.
    unfold mget, mset; cbn. destruct (Pos.eqb_spec j i) as [->|Hne].
    - rewrite PositiveMap.gss. reflexivity.
    - rewrite PositiveMap.gso by auto. reflexivity.
  Qed.
  Lemma hs_node i l r : hs (Node i l r) = H (hs l) (hs r).
  Proof. reflexivity. Qed.
  Lemma hs_shape (a b : tree) : shape a = shape b -> hs a = hs b.
  Proof. unfold hash_spec. congruence. Qed.

  Lemma subt_refl (t : tree) : subt t t.
  Proof. destruct t; cbn; auto. Qed.
  Lemma subt_trans (u v t : tree) : subt u v -> subt v t -> subt u t.
  Proof.
    revert u v. induction t as [i w|i ws|i l IHl r IHr|i d]; intros u v Huv [->|Hv]; auto; cbn in Hv |- *; try contradiction.
    right. destruct Hv as [Hv|Hv]; [left; eapply IHl|right; eapply IHr]; eauto.
  Qed.
  Lemma subt_l i (l r : tree) : subt l (Node i l r).
  Proof. cbn. right. left. apply subt_refl. Qed.
  Lemma subt_r i (l r : tree) : subt r (Node i l r).
  Proof. cbn. right. right. apply subt_refl. Qed.
  Lemma In_id_subt j (u t : tree) : subt u t -> In_id j u -> In_id j t.
  Proof.
    induction t as [i w|i ws|i l IHl r IHr|i d]; intros [->|Hu] Hj; auto; cbn in Hu |- *; try contradiction.
    right. destruct Hu as [Hu|Hu]; [left; apply IHl|right; apply IHr]; auto.
  Qed.
  Lemma below_subt n (t u : tree) : below n t -> subt u t -> below n u.
  Proof. intros B S j Hj. apply B. eapply In_id_subt; eauto. Qed.
  Lemma below_idof n (t : tree) : below n t -> (idof t < n)%positive.
  Proof. intros B. apply B. destruct t; cbn; auto. Qed.
  Lemma mvalid_subt s (t u : tree) : mv s t -> subt u t -> mv s u.
  Proof. intros V S v Hv. apply V. eapply subt_trans; eauto. Qed.

  (* ---------- an ambient family of trees ---------- *)
  Definition subt_in (u : tree) (G : list tree) : Prop := exists t0, In t0 G /\ subt u t0.
  Definition all_below (n : positive) (G : list tree) : Prop := forall t, In t G -> below n t.
  Definition all_mvalid (s : state) (G : list tree) : Prop := forall t, In t G -> mv s t.

  Lemma subt_in_here t G : In t G -> subt_in t G.
  Proof. intros I. exists t. split; [exact I|apply subt_refl]. Qed.
  Lemma subt_in_subt u v G : subt u v -> subt_in v G -> subt_in u G.
  Proof. intros S (t0 & I & S0). exists t0. split; [exact I|eapply subt_trans; eauto]. Qed.
  Lemma subt_in_incl u G G' : incl G G' -> subt_in u G -> subt_in u G'.
  Proof. intros I (t0 & I0 & S0). exists t0. split; auto. Qed.
  Lemma idf_elim G u v : idf G -> subt_in u G -> subt_in v G -> idof u = idof v -> u = v.
  Proof. intros IDF (t1 & I1 & S1) (t2 & I2 & S2) E. exact (IDF t1 t2 u v I1 I2 S1 S2 E). Qed.
  Lemma idf_sub G ts : idf G -> (forall t, In t ts -> subt_in t G) -> idf ts.
  Proof.
    intros IDF Hts t1 t2 u v I1 I2 Su Sv E.
    eapply (idf_elim G); eauto; eapply subt_in_subt; eauto.
  Qed.
  Lemma below_in n G u : all_below n G -> subt_in u G -> below n u.
  Proof. intros B (t0 & I0 & S0). eapply below_subt; eauto. Qed.
  Lemma mvalid_in s G u : all_mvalid s G -> subt_in u G -> mv s u.
  Proof. intros V (t0 & I0 & S0). eapply mvalid_subt; eauto. Qed.

  (* ---------- what tree_hash does to the memo table ---------- *)
  (* P12: memos change only to true hashes of memo-carrying subtrees of t; no allocation *)
  Definition ir_changes (s s' : state) (t : tree) : Prop :=
    next s' = next s /\
    forall j, mget s' j = mget s j \/
              exists u, subt u t /\ has_memo u = true /\ idof u = j /\ mget s' j = hs u.

  Lemma ir_mvalid_changes s s' t t2 :
    ir_changes s s' t -> mv s t2 ->
    (forall u v, subt u t -> subt v t2 -> idof u = idof v -> u = v) -> mv s' t2.
  Proof.
    intros [_ C] V IDF v Hv Hm. destruct (C (idof v)) as [E|(u & Hu & Hmu & Eid & Ev)].
    - rewrite E. auto.
    - right. rewrite Ev. f_equal. eapply IDF; eauto.
  Qed.

  Theorem ir_tree_hash_exact : forall t s, idf [t] -> mv s t -> packed_ok t ->
    wp Rexact (tree_hash ek H t)
       (fun o s' => o = Ok (hs t) /\ ir_changes s s' t /\
                    (has_memo t = true -> hs t <> 0 -> mget s' (idof t) = hs t) /\ mv s' t) s.
  Proof.
    unfold packed_ok.
    induction t as [i v|i vs|i l IHl r IHr|i d]; intros s IDF V P; cbn [tree_hash wp shape spacked_ok] in *.
    - intros e He; unfold Rexact in He; subst e. pose proof (V _ (or_introl eq_refl) eq_refl) as Hv. cbn [idof] in Hv.
      destruct (N.eqb_spec (mget s i) 0) as [Z|NZ0]; cbn [negb wp].
      + assert (Ch: ir_changes s (mset s i (etroot ek v)) (Leaf i v)).
        { split; [reflexivity|]. intros j. rewrite mget_mset. destruct (Pos.eqb_spec j i) as [->|]; auto.
          right. exists (Leaf i v). cbn. auto. }
        split; [reflexivity|]. split; [exact Ch|]. split.
        * intros _ _. cbn [idof]. rewrite mget_mset, Pos.eqb_refl. reflexivity.
        * eapply ir_mvalid_changes; [exact Ch|exact V|]. intros u w [->|[]] [->|[]] _. reflexivity.
      + destruct Hv as [Hv|Hv]; [congruence|].
        split; [f_equal; exact Hv|]. split; [split; [reflexivity|auto]|]. split; [|exact V].
        intros _ _. exact Hv.
    - intros e He; unfold Rexact in He; subst e. pose proof (V _ (or_introl eq_refl) eq_refl) as Hv. cbn [idof] in Hv.
      destruct (N.eqb_spec (mget s i) 0) as [Z|NZ0]; cbn [negb wp].
      + destruct (N.ltb_spec (pf_of ek) (lenN vs)) as [L|L]; [lia|]. cbn [wp].
        assert (Ch: ir_changes s (mset s i (chunk_of ek vs)) (Packed i vs)).
        { split; [reflexivity|]. intros j. rewrite mget_mset. destruct (Pos.eqb_spec j i) as [->|]; auto.
          right. exists (Packed i vs). cbn. auto. }
        split; [reflexivity|]. split; [exact Ch|]. split.
        * intros _ _. cbn [idof]. rewrite mget_mset, Pos.eqb_refl. reflexivity.
        * eapply ir_mvalid_changes; [exact Ch|exact V|]. intros u w [->|[]] [->|[]] _. reflexivity.
      + destruct Hv as [Hv|Hv]; [congruence|].
        split; [f_equal; exact Hv|]. split; [split; [reflexivity|auto]|]. split; [|exact V].
        intros _ _. exact Hv.
    - intros e He; unfold Rexact in He; subst e. pose proof (V _ (or_introl eq_refl) eq_refl) as Hv. cbn [idof] in Hv.
      destruct P as [Pl Pr].
      assert (IDFl: idf [l]).
      { apply (idf_sub [Node i l r]); [exact IDF|]. intros t0 [<-|[]]. eapply subt_in_subt; [apply subt_l|apply subt_in_here; left; reflexivity]. }
      assert (IDFr: idf [r]).
      { apply (idf_sub [Node i l r]); [exact IDF|]. intros t0 [<-|[]]. eapply subt_in_subt; [apply subt_r|apply subt_in_here; left; reflexivity]. }
      assert (Vl: mv s l) by (eapply mvalid_subt; [exact V|apply subt_l]).
      assert (Vr: mv s r) by (eapply mvalid_subt; [exact V|apply subt_r]).
      assert (IDFe : forall t1 t2, subt t1 (Node i l r) -> subt t2 (Node i l r) -> forall u w, subt u t1 -> subt w t2 -> idof u = idof w -> u = w).
      { intros t1 t2 S1 S2 u w Su Sw. apply (IDF (Node i l r) (Node i l r)); try (left; reflexivity); eapply subt_trans; eauto. }
      destruct (N.eqb_spec (mget s i) 0) as [Z|NZ0]; cbn [negb wp].
      + eapply wp_mono; [|apply (IHl s IDFl Vl Pl)].
        intros [a|e1|c1] s1 (Ea & Ch1 & M1 & V1); try discriminate. injection Ea as ->.
        assert (Vr1: mv s1 r).
        { eapply ir_mvalid_changes; [exact Ch1|exact Vr|]. apply IDFe; [apply subt_l|apply subt_r]. }
        eapply wp_mono; [|apply (IHr s1 IDFr Vr1 Pr)].
        intros [b|e2|c2] s2 (Eb & Ch2 & M2 & V2); try discriminate. injection Eb as ->.
        cbn [wp]. fold (hs l) (hs r).
        remember (mset s2 i (H (hs l) (hs r))) as s3 eqn:Es3.
        assert (Ch: ir_changes s s3 (Node i l r)).
        { destruct Ch1 as [N1 C1], Ch2 as [N2 C2]. split; [subst s3; cbn; congruence|]. intros j. subst s3. rewrite mget_mset.
          destruct (Pos.eqb_spec j i) as [->|NE].
          - right. exists (Node i l r). cbn. auto.
          - destruct (C2 j) as [E2|(u & Hu & Hm & Ej & Ev)].
            + rewrite E2. destruct (C1 j) as [E1|(u & Hu & Hm & Ej & Ev)]; auto.
              right. exists u. cbn. repeat split; auto.
            + right. exists u. cbn. repeat split; auto. }
        split; [reflexivity|]. split; [exact Ch|]. split.
        * intros _ _. subst s3. cbn [idof]. rewrite mget_mset, Pos.eqb_refl. reflexivity.
        * eapply ir_mvalid_changes; [exact Ch|exact V|]. apply IDFe; apply subt_refl.
      + destruct Hv as [Hv|Hv]; [congruence|].
        split; [f_equal; exact Hv|]. split; [split; [reflexivity|auto]|]. split; [|exact V].
        intros _ _. exact Hv.
    - split; [reflexivity|]. split; [split; [reflexivity|auto]|]. split; [|exact V]. intros F; discriminate.
  Qed.

  (* ---------- what intra_rebase does to the state ---------- *)
  (* allocation grows; a memo of an already allocated identity changes only to the true hash of a
     memo-carrying subtree of t that bears this identity (on-demand hashing, F6) *)
  Definition hchanges (s s' : state) (t : tree) : Prop :=
    (next s <= next s')%positive /\
    (forall j, (j < next s)%positive ->
      mget s' j = mget s j \/
      exists u, subt u t /\ has_memo u = true /\ idof u = j /\ mget s' j = hs u) /\
    (forall j, (next s' <= j)%positive -> mget s' j = mget s j).

  Lemma changes_hchanges s s' t : below (next s) t -> ir_changes s s' t -> hchanges s s' t.
  Proof.
    intros B [N1 C]. split; [lia|]. split; [intros j _; apply C|].
    intros j Hj. destruct (C j) as [E|(u & Hu & _ & Ej & _)]; [exact E|].
    pose proof (below_idof _ _ (below_subt _ _ _ B Hu)) as Hlt. lia.
  Qed.
  Lemma hchanges_refl s t : hchanges s s t.
  Proof. split; [lia|]. split; [intros j _; left; reflexivity|intros j _; reflexivity]. Qed.
  Lemma hchanges_subt s s' u t : hchanges s s' u -> subt u t -> hchanges s s' t.
  Proof.
    intros (N1 & C & D) S. split; [exact N1|]. split; [|exact D].
    intros j Hj. destruct (C j Hj) as [E|(v & Hv & Hm & Ej & Ev)]; auto.
    right. exists v. repeat split; auto. eapply subt_trans; eauto.
  Qed.
  Lemma hchanges_trans s s1 s2 t : hchanges s s1 t -> hchanges s1 s2 t -> hchanges s s2 t.
  Proof.
    intros (N1 & C1 & D1) (N2 & C2 & D2). split; [lia|]. split.
    - intros j Hj. destruct (C2 j ltac:(lia)) as [E2|(v & Hv & Hm & Ej & Ev)].
      + rewrite E2. apply C1. exact Hj.
      + right. exists v. repeat split; auto.
    - intros j Hj. rewrite D2 by exact Hj. apply D1. lia.
  Qed.
  Lemma hchanges_fresh s h t : hchanges s (mset (bump s) (next s) h) t.
  Proof.
    split; [cbn; lia|]. split.
    - intros j Hj. left. rewrite mget_mset. destruct (Pos.eqb_spec j (next s)) as [E|_]; [lia|]. reflexivity.
    - intros j Hj. cbn [next mset bump] in Hj. rewrite mget_mset.
      destruct (Pos.eqb_spec j (next s)) as [E|_]; [lia|]. reflexivity.
  Qed.
  Lemma memo_below_hchanges s s' t : hchanges s s' t -> memo_below s -> memo_below s'.
  Proof. intros (N1 & _ & D) MB j Hj. rewrite D by exact Hj. apply MB. lia. Qed.
  (* when every memo-carrying node of t already holds its hash, nothing below next s changes *)
  Definition hashed (s : state) (t : tree) : Prop :=
    forall u, subt u t -> has_memo u = true -> mget s (idof u) = hs u.
  Lemma hchanges_frame s s' t : hchanges s s' t -> hashed s t -> frame s s'.
  Proof.
    intros (N1 & C & _) Hh. split; [exact N1|]. intros j Hj.
    destruct (C j Hj) as [E|(u & Hu & Hm & Ej & Ev)]; [exact E|].
    rewrite Ev. subst j. symmetry. apply Hh; auto.
  Qed.

  (* the frame property: any tree named consistently with t keeps valid memos *)
  Theorem mvalid_hchanges s s' t t2 :
    hchanges s s' t -> idf [t; t2] -> below (next s) t2 -> mv s t2 -> mv s' t2.
  Proof.
    intros (_ & C & _) IDF B V v Hv Hm.
    assert (Hlt : (idof v < next s)%positive) by (apply below_idof; eapply below_subt; eauto).
    destruct (C (idof v) Hlt) as [E|(u & Hu & Hmu & Eid & Ev)].
    - rewrite E. auto.
    - right. rewrite Ev. f_equal.
      apply (IDF t t2 u v); [left; reflexivity|right; left; reflexivity|exact Hu|exact Hv|exact Eid].
  Qed.
  (* a memo that already holds the true hash keeps it *)
  Lemma mget_hchanges s s' t v :
    hchanges s s' t -> idf [t; v] -> (idof v < next s)%positive ->
    mget s (idof v) = hs v -> mget s' (idof v) = hs v.
  Proof.
    intros (_ & C & _) IDF Hlt E0. destruct (C (idof v) Hlt) as [E|(u & Hu & Hmu & Eid & Ev)].
    - congruence.
    - rewrite Ev. f_equal. apply (IDF t v u v); [left; reflexivity|right; left; reflexivity|exact Hu|apply subt_refl|exact Eid].
  Qed.

  (* invariant of the `known` table: its trees belong to the ambient family, are Nodes' replacements
     whose key hash is their true hash and is memoised at their root *)
  Definition kinv (s : state) (G : list tree) (k : known T) : Prop :=
    forall d h ks, In ((d, h), ks) k -> subt_in ks G /\ hs ks = h /\ mget s (idof ks) = h.

  Lemma idf_pair G t v : idf G -> subt_in t G -> subt_in v G -> idf [t; v].
  Proof. intros IDF A B. apply (idf_sub G); [exact IDF|]. intros t0 [<-|[<-|[]]]; auto. Qed.
  Lemma all_mvalid_hchanges s s' t G :
    hchanges s s' t -> idf G -> subt_in t G -> all_below (next s) G -> all_mvalid s G -> all_mvalid s' G.
  Proof.
    intros C IDF Ht B V t2 I2. eapply mvalid_hchanges; [exact C| |apply B; exact I2|apply V; exact I2].
    eapply idf_pair; eauto using subt_in_here.
  Qed.
  Lemma kinv_hchanges s s' t G k :
    hchanges s s' t -> idf G -> subt_in t G -> all_below (next s) G -> kinv s G k -> kinv s' G k.
  Proof.
    intros C IDF Ht B K d h ks I. destruct (K d h ks I) as (Hin & Eh & Em). split; [exact Hin|]. split; [exact Eh|].
    rewrite <- Eh. eapply mget_hchanges; [exact C| | |congruence].
    - eapply idf_pair; eauto.
    - apply below_idof. eapply below_in; eauto.
  Qed.
  Lemma kinv_incl s G G' k : incl G G' -> kinv s G k -> kinv s G' k.
  Proof. intros I K d h ks Hin. destruct (K d h ks Hin) as (A & B & C). split; [eapply subt_in_incl; eauto|auto]. Qed.
  Lemma all_below_mono n n' G : (n <= n')%positive -> all_below n G -> all_below n' G.
  Proof. intros L B t I j Hj. specialize (B t I j Hj). lia. Qed.
  Lemma known_get_In_key : forall (k : known T) d h t, known_get k d h = Some t -> In ((d, h), t) k.
  Proof.
    induction k as [|[[d' h'] t'] k IH]; intros d h t E; cbn [known_get] in E; [discriminate|].
    destruct (Nat.eqb_spec d d') as [Ed|Ed]; cbn [andb] in E.
    - destruct (N.eqb_spec h h') as [Eh|Eh].
      + injection E as ->. left. congruence.
      + right. apply IH. exact E.
    - right. apply IH. exact E.
  Qed.

  (* allocation of the replacement node *)
  Lemma fresh_node G s h nl nr k :
    idf G -> all_below (next s) G -> all_mvalid s G -> kinv s G k -> subt_in nl G -> subt_in nr G ->
    h = H (hs nl) (hs nr) ->
    idf (Node (next s) nl nr :: G) /\
    all_below (next (mset (bump s) (next s) h)) (Node (next s) nl nr :: G) /\
    all_mvalid (mset (bump s) (next s) h) (Node (next s) nl nr :: G) /\
    kinv (mset (bump s) (next s) h) (Node (next s) nl nr :: G) k /\
    mget (mset (bump s) (next s) h) (next s) = h.
  Proof.
    intros IDF B V K Hl Hr Eh.
    remember (Node (next s) nl nr) as nn eqn:Enn.
    remember (mset (bump s) (next s) h) as s' eqn:Es'.
    assert (Hsub : forall t0 u, In t0 (nn :: G) -> subt u t0 -> u = nn \/ subt_in u G).
    { intros t0 u [<-|I0] Su.
      - subst nn. destruct Su as [->|[Su|Su]]; auto; right; eapply subt_in_subt; eauto.
      - right. exists t0. auto. }
    assert (Hid : forall u, subt_in u G -> (idof u < next s)%positive).
    { intros u Hu. apply below_idof. eapply below_in; eauto. }
    assert (Hsame : forall j, (j < next s)%positive -> mget s' j = mget s j).
    { intros j Hj. subst s'. rewrite mget_mset. destruct (Pos.eqb_spec j (next s)); [lia|reflexivity]. }
    assert (Hnew : mget s' (next s) = h).
    { subst s'. rewrite mget_mset, Pos.eqb_refl. reflexivity. }
    assert (Vs' : forall u, subt_in u G -> mv s' u).
    { intros u Hu v Hv Hm. rewrite Hsame by (apply Hid; eapply subt_in_subt; eauto).
      eapply mvalid_in; eauto. }
    split; [|split; [|split; [|split]]].
    - intros t1 t2 u v I1 I2 Su Sv E.
      destruct (Hsub t1 u I1 Su) as [->|Hu], (Hsub t2 v I2 Sv) as [->|Hv]; auto.
      + apply Hid in Hv. subst nn. cbn [idof] in E. lia.
      + apply Hid in Hu. subst nn. cbn [idof] in E. lia.
      + eapply idf_elim; eauto.
    - intros t0 [<-|I0] j Hj; subst s'; cbn [next mset bump].
      + subst nn. destruct Hj as [->|[Hj|Hj]]; cbn [idof]; [lia| |].
        * apply (below_in _ _ _ B Hl) in Hj. lia.
        * apply (below_in _ _ _ B Hr) in Hj. lia.
      + apply (B t0 I0) in Hj. lia.
    - intros t0 [<-|I0]; [|apply Vs'; apply subt_in_here; exact I0].
      intros u Su Hm. assert (In nn (nn :: G)) as I0 by (left; reflexivity).
      destruct (Hsub nn u I0 Su) as [->|Hu].
      + right. subst nn. cbn [idof]. rewrite Hnew, hs_node. exact Eh.
      + apply (Vs' u Hu u (subt_refl u) Hm).
    - intros d h0 ks I. destruct (K d h0 ks I) as (A & B0 & C). split; [|split; auto].
      + eapply subt_in_incl; [|exact A]. intros x Hx. right. exact Hx.
      + rewrite Hsame; auto.
    - exact Hnew.
  Qed.

  (* ---------- the inductive invariant of intra_rebase ---------- *)
  Definition ipost (G : list tree) (t : tree) (k : known T) (d : nat) (s : state)
             (o : outcome (iaction T * known T)) (s' : state) : Prop :=
    exists a k' G', o = Ok (a, k') /\ shape (ieff a t) = shape t /\ keys_le d k k' /\ hchanges s s' t /\
      incl G G' /\ idf G' /\ all_below (next s') G' /\ all_mvalid s' G' /\ subt_in (ieff a t) G' /\
      kinv s' G' k' /\
      (forall i l r, t = Node i l r -> mget s' (idof (ieff a t)) = hs t).

  Lemma ipost_intro G t k d s a k' G' s' :
    shape (ieff a t) = shape t -> keys_le d k k' -> hchanges s s' t -> incl G G' -> idf G' ->
    all_below (next s') G' -> all_mvalid s' G' -> subt_in (ieff a t) G' -> kinv s' G' k' ->
    (forall i l r, t = Node i l r -> mget s' (idof (ieff a t)) = hs t) ->
    ipost G t k d s (Ok (a, k')) s'.
  Proof. intros. exists a, k', G'. tauto. Qed.

  Lemma ipost_noop G t k d s :
    (forall i l r, t <> Node i l r) ->
    idf G -> all_below (next s) G -> all_mvalid s G -> subt_in t G -> kinv s G k ->
    ipost G t k d s (Ok (INoop, k)) s.
  Proof.
    intros Hn IDF B V Hin K. exists INoop, k, G. cbn [ieff].
    split; [reflexivity|]. split; [reflexivity|]. split; [apply keys_le_refl|]. split; [apply hchanges_refl|].
    split; [apply incl_refl|]. split; [exact IDF|]. split; [exact B|]. split; [exact V|]. split; [exact Hin|].
    split; [exact K|]. intros i l r E. destruct (Hn i l r E).
  Qed.

  Lemma intra_inv : forall t k d s G,
    node_depth_ok d t -> packed_ok t ->
    idf G -> all_below (next s) G -> all_mvalid s G -> subt_in t G -> kinv s G k ->
    wp Rexact (intra_rebase ek H t k d) (ipost G t k d s) s.
  Proof.
    unfold node_depth_ok, packed_ok.
    induction t as [i v|i vs|i l IHl r IHr|i z]; intros k d s G W P IDF B V Hin K; cbn [intra_rebase wp];
      try (apply ipost_noop; auto; discriminate).
    cbn [shape snode_depth_ok spacked_ok] in W, P.
    destruct d as [|nd]; [destruct W|]. destruct W as [Wl Wr]. destruct P as [Pl Pr].
    cbn [wp]. intros h0 Eh0. unfold Rexact in Eh0. subst h0. apply wp_bind.
    remember (Node i l r) as orig eqn:Eorig.
    assert (IDFo : idf [orig]) by (apply (idf_sub G); [exact IDF|]; intros t0 [<-|[]]; exact Hin).
    assert (Vo : mv s orig) by (eapply mvalid_in; eauto).
    assert (Hnz : hs orig <> 0) by (subst orig; rewrite hs_node; apply NZ).
    assert (Hl : subt_in l G) by (eapply subt_in_subt; [|exact Hin]; subst orig; apply subt_l).
    assert (Hr : subt_in r G) by (eapply subt_in_subt; [|exact Hin]; subst orig; apply subt_r).
    assert (Hh : wp Rexact (if mget s i =? 0 then tree_hash ek H orig else Ret (mget s i))
                   (fun o s1 => o = Ok (hs orig) /\ next s1 = next s /\ hchanges s s1 orig /\ mget s1 i = hs orig) s).
    { destruct (N.eqb_spec (mget s i) 0) as [Z|NZ0].
      - eapply wp_mono; [|apply ir_tree_hash_exact; auto].
        + intros o s1 (-> & Ch & Mm & _). split; [reflexivity|]. split; [apply Ch|]. split; [apply changes_hchanges; [eapply below_in; eauto|exact Ch]|].
          subst orig. apply Mm; auto.
        + unfold packed_ok. subst orig. cbn [shape spacked_ok]. auto.
      - cbn [wp]. destruct (Vo orig (subt_refl _)) as [E|E]; [subst orig; reflexivity| |].
        + subst orig. cbn [idof] in E. contradiction.
        + subst orig. cbn [idof] in E. rewrite E. repeat split; auto using hchanges_refl. lia. }
    eapply wp_mono; [|exact Hh]. clear Hh. intros o s1 (-> & N1 & C1 & M1). cbn [lift].
    destruct (N.eqb_spec (hs orig) 0) as [Z|_]; [contradiction|].
    remember (hs orig) as h eqn:Eh.
    assert (B1 : all_below (next s1) G) by (rewrite N1; exact B).
    assert (V1 : all_mvalid s1 G) by (eapply all_mvalid_hchanges; eauto).
    assert (K1 : kinv s1 G k) by (eapply kinv_hchanges; eauto).
    fold (act_prog h l r).
    destruct (match known_get k (S nd) h with
              | Some ks => if tree_eqb ek ks orig then Some ks else None
              | None => None end) as [ks|] eqn:EH.
    - (* structurally identical subtree seen before: replace *)
      destruct (known_get k (S nd) h) as [ks'|] eqn:EK; [|discriminate].
      destruct (tree_eqb ek ks' orig) eqn:EQ; [|discriminate]. injection EH as ->.
      apply known_get_In_key in EK. destruct (K1 _ _ _ EK) as (Hks & Ehs & Em).
      cbn [wp]. apply (ipost_intro G orig k (S nd) s (IReplace ks) k G s1); cbn [ieff]; auto using keys_le_refl, incl_refl.
      + apply tree_eqb_shape; exact EQ.
      + intros _ _ _ _. congruence.
    - clear EH.
      apply wp_bind. eapply wp_mono; [|apply (IHl k nd s1 G Wl Pl IDF B1 V1 Hl K1)].
      intros o1 s2 (la & k1 & G1 & -> & Sl & Kl & C2 & I1 & IDF1 & B2 & V2 & Hla & K2 & _). cbn [lift].
      assert (Hr1 : subt_in r G1) by (eapply subt_in_incl; eauto).
      apply wp_bind. eapply wp_mono; [|apply (IHr k1 nd s2 G1 Wr Pr IDF1 B2 V2 Hr1 K2)].
      intros o2 s3 (ra & k2 & G2 & -> & Sr & Kr & C3 & I2 & IDF2 & B3 & V3 & Hra & K3 & _). cbn [lift].
      assert (Kk : keys_le nd k k2) by (eapply keys_le_trans; [|exact Kl|exact Kr]; lia).
      assert (I02 : incl G G2) by (eapply incl_tran; eauto).
      assert (Ho2 : subt_in orig G2) by (eapply subt_in_incl; eauto).
      assert (C13 : hchanges s s3 orig).
      { eapply hchanges_trans; [exact C1|]. eapply hchanges_trans.
        - eapply hchanges_subt; [exact C2|]. subst orig. apply subt_l.
        - eapply hchanges_subt; [exact C3|]. subst orig. apply subt_r. }
      assert (M3 : mget s3 i = h).
      { assert (mget s2 (idof orig) = hs orig) as M2.
        { eapply mget_hchanges; [exact C2| | |].
          - apply (idf_pair G); [exact IDF|exact Hl|exact Hin].
          - apply below_idof. apply (below_in _ G); [exact B1|exact Hin].
          - subst orig. cbn [idof]. congruence. }
        assert (mget s3 (idof orig) = hs orig) as M3.
        { eapply mget_hchanges; [exact C3| | |exact M2].
          - eapply idf_pair; [exact IDF1|exact Hr1|eapply subt_in_incl; eauto].
          - apply below_idof. eapply below_in; [exact B2|eapply subt_in_incl; eauto]. }
        subst orig. cbn [idof] in M3. congruence. }
      (* the action of this node, and the state after it *)
      assert (Hact : wp Rexact (act_prog h l r la ra)
                (fun o s4 => exists act G3, o = Ok act /\ shape (ieff act orig) = shape orig /\ hchanges s s4 orig /\
                   incl G G3 /\ idf G3 /\ all_below (next s4) G3 /\ all_mvalid s4 G3 /\
                   subt_in (ieff act orig) G3 /\ kinv s4 G3 k2 /\ mget s4 (idof (ieff act orig)) = h) s3).
      { apply wp_act.
        - intros -> ->. exists INoop, G2. cbn [ieff].
          split; [reflexivity|]. split; [reflexivity|]. split; [exact C13|]. split; [exact I02|]. split; [exact IDF2|].
          split; [exact B3|]. split; [exact V3|]. split; [exact Ho2|]. split; [exact K3|].
          subst orig. exact M3.
        - intros _.
          assert (Hla2 : subt_in (ieff la l) G2) by (apply (subt_in_incl _ G1 G2 I2 Hla)).
          assert (Ehh : h = H (hs (ieff la l)) (hs (ieff ra r))).
          { rewrite Eh. subst orig. rewrite hs_node. f_equal; apply hs_shape; congruence. }
          destruct (fresh_node G2 s3 h (ieff la l) (ieff ra r) k2 IDF2 B3 V3 K3 Hla2 Hra Ehh) as (F1 & F2 & F3 & F4 & F5).
          exists (IReplace (Node (next s3) (ieff la l) (ieff ra r))), (Node (next s3) (ieff la l) (ieff ra r) :: G2).
          split; [reflexivity|]. cbn [ieff].
          split; [subst orig; cbn [shape]; congruence|].
          split; [eapply hchanges_trans; [exact C13|apply hchanges_fresh]|].
          split; [intros x Hx; right; apply I02; exact Hx|].
          split; [exact F1|]. split; [exact F2|]. split; [exact F3|].
          split; [apply subt_in_here; left; reflexivity|]. split; [exact F4|]. cbn [idof]. exact F5. }
      apply wp_bind. eapply wp_mono; [|exact Hact]. clear Hact.
      intros o4 s4 (act & G3 & -> & Sa & C4 & I3 & IDF3 & B4 & V4 & Ha & K4 & M4). cbn [lift].
      destruct (known_get k (S nd) h) as [ks0|] eqn:EK.
      + (* same key, different structure: keep the first-seen entry *)
        cbn [wp]. apply (ipost_intro G orig k (S nd) s act k2 G3 s4); auto.
        * eapply keys_le_trans; [|exact Kk|apply keys_le_refl]. lia.
        * intros _ _ _ _. congruence.
      + assert (EK2 : known_get k2 (S nd) h = None) by (rewrite Kk by lia; exact EK).
        rewrite EK2. cbn [wp].
        apply (ipost_intro G orig k (S nd) s act _ G3 s4); auto.
        * apply keys_le_cons; exact Kk.
        * intros d0 h1 ks1 [E|I]; [|exact (K4 _ _ _ I)]. injection E as <- <- <-.
          fold (ieff act orig). split; [exact Ha|]. split; [|exact M4].
          rewrite Eh. apply hs_shape. exact Sa.
        * intros _ _ _ _. congruence.
  Qed.

  (* ---------- Theorem B: exported form, ambient family = the tree and the known subtrees ---------- *)
  (* every known subtree was entered under its true hash, which is memoised at its root *)
  Definition known_ok (s : state) (k : known T) : Prop :=
    forall d h ks, In ((d, h), ks) k -> hs ks = h /\ mget s (idof ks) = h.

  Theorem intra_shape : forall t d s k,
    idf (t :: map snd k) ->
    (forall u, In u (t :: map snd k) -> below (next s) u /\ mv s u) ->
    known_ok s k ->
    node_depth_ok d t -> packed_ok t ->
    wp Rexact (intra_rebase ek H t k d)
      (fun o s' => exists a k', o = Ok (a, k') /\
         shape (ieff a t) = shape t /\
         hchanges s s' t /\ keys_le d k k' /\
         idf (ieff a t :: t :: map snd k') /\
         (forall u, In u (ieff a t :: t :: map snd k') -> below (next s') u /\ mv s' u) /\
         known_ok s' k' /\
         (forall i l r, t = Node i l r -> mget s' (idof (ieff a t)) = hs t)) s.
  Proof.
    intros t d s k IDF BV KO W P.
    eapply wp_mono; [|apply (intra_inv t k d s (t :: map snd k) W P IDF)].
    - intros o s' (a & k' & G' & -> & Sa & Kk & C & I & IDF' & B' & V' & Ha & K' & M).
      exists a, k'. split; [reflexivity|]. split; [exact Sa|]. split; [exact C|]. split; [exact Kk|].
      assert (Hall : forall u, In u (ieff a t :: t :: map snd k') -> subt_in u G').
      { intros u [<-|[<-|Hu]]; [exact Ha|apply subt_in_here; apply I; left; reflexivity|].
        apply in_map_iff in Hu as ([[d0 h0] ks] & <- & Hin). cbn [snd]. apply (K' _ _ _ Hin). }
      split; [apply (idf_sub G'); auto|]. split; [|split; [|exact M]].
      + intros u Hu. split; [eapply below_in; eauto|eapply mvalid_in; eauto].
      + intros d0 h0 ks Hin. destruct (K' _ _ _ Hin) as (_ & A & B0). auto.
    - intros u Hu. apply BV. exact Hu.
    - intros u Hu. apply BV. exact Hu.
    - apply subt_in_here. left. reflexivity.
    - intros d0 h0 ks Hin. destruct (KO _ _ _ Hin) as (A & B0). split; [|auto].
      apply subt_in_here. right. apply in_map_iff. exists ((d0, h0), ks). auto.
  Qed.

  (* the call made by List/Vector::intra_rebase: empty table *)
  Corollary intra_shape_top : forall t d s,
    idf [t] -> below (next s) t -> mv s t -> node_depth_ok d t -> packed_ok t ->
    wp Rexact (intra_rebase ek H t [] d)
      (fun o s' => exists a k', o = Ok (a, k') /\ shape (ieff a t) = shape t /\ hchanges s s' t /\
         idf [ieff a t; t] /\ below (next s') (ieff a t) /\ mv s' (ieff a t) /\ mv s' t /\
         (forall i l r, t = Node i l r -> mget s' (idof (ieff a t)) = hs t)) s.
  Proof.
    intros t d s IDF B V W P.
    eapply wp_mono; [|apply (intra_shape t d s [] IDF)]; auto.
    - intros o s' (a & k' & -> & Sa & C & _ & IDF' & BV & _ & M).
      exists a, k'. split; [reflexivity|]. split; [exact Sa|]. split; [exact C|].
      split; [|split; [apply BV; left; reflexivity|split; [apply BV; left; reflexivity|split; [apply BV; right; left; reflexivity|exact M]]]].
      intros t1 t2 u v I1 I2. apply IDF'.
      + destruct I1 as [<-|[<-|[]]]; cbn; auto.
      + destruct I2 as [<-|[<-|[]]]; cbn; auto.
    - intros u [<-|[]]. auto.
    - intros d0 h0 ks [].
  Qed.

  (* the same for a tree in canonical form (invariant I1 of a handle) *)
  Corollary intra_shape_canon : forall t d l s,
    shape t = canon ek d l -> lenN l <= cap ek d ->
    idf [t] -> below (next s) t -> mv s t ->
    wp Rexact (intra_rebase ek H t [] d)
      (fun o s' => exists a k', o = Ok (a, k') /\ shape (ieff a t) = canon ek d l /\ hchanges s s' t /\
         idf [ieff a t; t] /\ below (next s') (ieff a t) /\ mv s' (ieff a t) /\ mv s' t) s.
  Proof.
    intros t d l s Sh Hl IDF B V.
    eapply wp_mono; [|apply (intra_shape_top t d s IDF B V)].
    - intros o s' (a & k' & -> & Sa & C & I2 & B' & V' & Vt & _).
      exists a, k'. rewrite <- Sh. auto 10.
    - unfold node_depth_ok. rewrite Sh. apply canon_node_depth_ok.
    - unfold packed_ok. rewrite Sh. apply canon_packed_ok. exact Hl.
  Qed.

  (* ====================================================================================== *)
  (* Part D: List/Vector::intra_rebase                                                        *)
  (* ====================================================================================== *)
  Lemma int_log_aux_ge : forall f d n, n <= pow2 (d + f) -> n <= pow2 (int_log_aux f d n).
  Proof.
    induction f as [|f IH]; intros d n Hn; cbn [int_log_aux].
    - rewrite Nat.add_0_r in Hn. exact Hn.
    - destruct (N.leb_spec n (pow2 d)) as [L|L]; [exact L|].
      apply IH. replace (S d + f)%nat with (d + S f)%nat by lia. exact Hn.
  Qed.
  Lemma int_log_ge n : n <= 2 ^ 63 -> n <= pow2 (int_log n).
  Proof.
    intros Hn. unfold int_log. apply int_log_aux_ge. cbn [Nat.add].
    assert (E : 2 ^ 63 <= pow2 64) by (vm_compute; discriminate).
    remember (2 ^ 63) as a. remember (pow2 64) as b. clear Heqa Heqb. lia.
  Qed.
  Lemma cap_list_depth capN : capN <= 2 ^ 63 -> capN <= cap ek (list_depth ek capN).
  Proof.
    intros Hc. unfold cap, list_depth. apply int_log_ge in Hc.
    assert (L : pow2 (int_log capN) <= pow2 (int_log capN - pd_of ek + pd_of ek)) by (apply pow2_mono; lia).
    remember (pow2 (int_log capN)) as a. remember (pow2 (int_log capN - pd_of ek + pd_of ek)) as b.
    clear Heqa Heqb. lia.
  Qed.

  Section CollIntra.
    Context {U : Type}.
    Variable M : umap_impl T U.
    Variable capN : N.
    Variable uinv : U -> Prop.
    Variable R : state -> id -> digest -> Prop.
    Hypothesis CAP : capacity_ok capN.
    (* specification of apply_updates (task `wul`) *)
    Hypothesis apply_spec : forall h l s, hinv ek M capN uinv h l ->
      wp R (apply_updates ek M capN h)
         (fun o s' => exists h', o = Ok (None, h') /\ hinv ek M capN uinv h' l /\ has_pending M h' = false /\
                                 alloc_only s s' /\ fresh_or_from s s' [htree h] (htree h')) s.

    Lemma hinv_tree_ok h l : hinv ek M capN uinv h l ->
      node_depth_ok (hdepth h) (htree h) /\ packed_ok (htree h).
    Proof.
      intros ((bl & Sh & Lb & _) & Hd & _ & Hb & _). unfold node_depth_ok, packed_ok. rewrite Sh. split.
      - apply canon_node_depth_ok.
      - apply canon_packed_ok. rewrite Hd, Lb. pose proof CAP as C2. unfold capacity_ok in C2.
        pose proof (cap_list_depth capN C2) as C3. lia.
    Qed.
    Lemma hinv_with_tree h l t' : hinv ek M capN uinv h l -> shape t' = shape (htree h) ->
      hinv ek M capN uinv (with_tree h t') l.
    Proof.
      intros ((bl & Sh & Lb & Ag & Ul) & Rest) E. split; [|exact Rest].
      exists bl. cbn [with_tree htree hdepth hblen hupd]. rewrite E. auto.
    Qed.

    Theorem coll_intra_spec : forall h l s, hinv ek M capN uinv h l ->
      wp R (coll_intra_rebase ek M H capN h)
         (fun o s' => exists h', o = Ok (None, h') /\ hinv ek M capN uinv h' l /\ has_pending M h' = false /\
                                 (next s <= next s')%positive) s.
    Proof.
      intros h l s HI. unfold coll_intra_rebase. apply wp_bind.
      eapply wp_mono; [|apply (apply_spec h l s HI)].
      intros o s1 (h1 & -> & HI1 & HP1 & [_ N1] & _). cbn [lift].
      destruct (hinv_tree_ok h1 l HI1) as [W P].
      apply wp_bind. unfold coll_tree_hash_root. apply wp_bind.
      eapply wp_mono; [|apply (tree_hash_any R (htree h1) s1 P)].
      intros o2 s2 (root & -> & N2 & _). cbn [lift].
      assert (Hroot : forall (m : prog digest), (exists d, m = Ret d) ->
                wp R m (lift R (fun _ : digest =>
                   bind (try_ (intra_rebase ek H (htree h1) [] (hdepth h1)))
                     (fun r => match r with
                               | inl e => Ret (Some e, h1)
                               | inr (IReplace t, _) => Ret (None, with_tree h1 t)
                               | inr (INoop, _) => Ret (None, h1) end))
                   (fun o s' => exists h', o = Ok (None, h') /\ hinv ek M capN uinv h' l /\ has_pending M h' = false /\
                                 (next s <= next s')%positive)) s2).
      { intros m (d & ->). cbn [wp lift]. apply wp_bind.
        eapply wp_mono; [|apply wp_try_ok with (P := fun ak s3 => shape (ieff (fst ak) (htree h1)) = shape (htree h1) /\ (next s2 <= next s3)%positive)].
        - intros o3 s3 ([a k'] & -> & Sa & N3). cbn [lift fst] in *.
          destruct a as [|t']; cbn [wp ieff] in *.
          + exists h1. split; [reflexivity|]. split; [exact HI1|]. split; [exact HP1|lia].
          + exists (with_tree h1 t'). split; [reflexivity|]. split; [apply hinv_with_tree; auto|].
            split; [exact HP1|lia].
        - eapply wp_mono; [|apply (intra_total R (htree h1) [] (hdepth h1) s2 W P)].
          intros o3 s3 (a & k' & -> & Sa & _ & N3). exists (a, k'). auto. }
      destruct (hlist h1); apply Hroot; eauto.
    Qed.
  End CollIntra.

  (* ---------- the same with exact reads: identities and memo validity of a whole family ---------- *)
  Lemma In_id_exists j (t : tree) : In_id j t -> exists u, subt u t /\ idof u = j.
  Proof.
    induction t as [i w|i ws|i l IHl r IHr|i d]; cbn [In_id]; intros [->|Hj]; try contradiction;
      try (eexists; split; [apply subt_refl|reflexivity]).
    destruct Hj as [Hj|Hj]; [apply IHl in Hj|apply IHr in Hj]; destruct Hj as (u & Su & Eu); exists u; split; auto; cbn; auto.
  Qed.
  Lemma mget_memo_eq s s' j : memo s' = memo s -> mget s' j = mget s j.
  Proof. intros E. unfold mget. rewrite E. reflexivity. Qed.
  Lemma below_fresh_or_from s s' srcs (t : tree) :
    fresh_or_from s s' srcs t -> (forall t0, In t0 srcs -> below (next s) t0) -> (next s <= next s')%positive ->
    below (next s') t.
  Proof.
    intros FF B N1 j Hj. apply In_id_exists in Hj as (u & Su & <-).
    destruct (FF u Su) as [(t0 & I0 & S0)|[_ Hlt]]; [|exact Hlt].
    pose proof (below_idof _ _ (below_subt _ _ _ (B t0 I0) S0)). lia.
  Qed.
  Lemma mvalid_fresh_or_from s s' srcs (t : tree) :
    alloc_only s s' -> fresh_or_from s s' srcs t -> (forall t0, In t0 srcs -> mv s t0) -> memo_below s -> mv s' t.
  Proof.
    intros [Em _] FF V MB u Su Hm. rewrite (mget_memo_eq s s' _ Em).
    destruct (FF u Su) as [(t0 & I0 & S0)|[Hge _]].
    - apply (V t0 I0 u S0 Hm).
    - left. apply MB. exact Hge.
  Qed.
  Lemma idf_cons_sub G x : idf G -> subt_in x G -> idf (x :: G).
  Proof. intros IDF Hx. apply (idf_sub G); [exact IDF|]. intros t [<-|I]; [exact Hx|apply subt_in_here; exact I]. Qed.

  (* ---------- identity discipline of with_updated_leaves / apply_updates (any read relation, any map) ---------- *)
  Lemma wp_try {A} R (m : prog A) : forall (Q : outcome (error + A) -> state -> Prop) s,
    wp R m (fun o s' => match o with
                        | Ok a => Q (Ok (inr a)) s'
                        | Err e => Q (Ok (inl e)) s' /\ Q (Err e) s'
                        | Panic c => Q (Panic c) s' end) s ->
    wp R (try_ m) Q s.
  Proof.
    induction m as [A a|A e|A c|A k IH|A i k IH|A i d k IH|A p IHp q IHq k IHk|A t k IH]; cbn [wp try_]; intros Q s W.
    - exact W.
    - apply W.
    - exact W.
    - apply IH. exact W.
    - intros d Hd. apply IH. apply W. exact Hd.
    - apply IH. exact W.
    - eapply wp_mono; [|exact W]. intros [a|e|c] s1; [|intros [_ X]; exact X|auto].
      intros V. eapply wp_mono; [|exact V]. intros [b|e|c] s2; [|intros [_ X]; exact X|auto].
      apply IHk.
    - apply IH. exact W.
  Qed.

  Definition wpost (G : list tree) (s : state) (o : outcome tree) (s' : state) : Prop :=
    match o with
    | Ok t' => (next s <= next s')%positive /\
               exists G', incl G G' /\ idf G' /\ all_below (next s') G' /\ subt_in t' G'
    | _ => True
    end.
  Lemma wpost_weaken G G1 s s1 o s' :
    wpost G1 s1 o s' -> incl G G1 -> (next s <= next s1)%positive -> wpost G s o s'.
  Proof.
    destruct o as [t'| |]; cbn [wpost]; auto. intros (N1 & G' & I' & Rest) I N0. split; [lia|].
    exists G'. split; [eapply incl_tran; eauto|exact Rest].
  Qed.
  Lemma wpost_same G s t : idf G -> all_below (next s) G -> subt_in t G -> wpost G s (Ok t) s.
  Proof. intros IDF B Ht. split; [lia|]. exists G. auto using incl_refl. Qed.
  Lemma fresh_tree_idf G s nn :
    idf G -> all_below (next s) G -> idof nn = next s ->
    (forall u, subt u nn -> u = nn \/ subt_in u G) -> wpost G s (Ok nn) (bump s).
  Proof.
    intros IDF B En Hsub0. split; [cbn; lia|]. exists (nn :: G).
    assert (Hsub : forall t0 u, In t0 (nn :: G) -> subt u t0 -> u = nn \/ subt_in u G).
    { intros t0 u [<-|I0] Su; [apply Hsub0; exact Su|]. right. exists t0. auto. }
    assert (Hid : forall u, subt_in u G -> (idof u < next s)%positive).
    { intros u Hu. apply below_idof. eapply below_in; eauto. }
    split; [intros x Hx; right; exact Hx|]. split; [|split].
    - intros t1 t2 u v I1 I2 Su Sv E.
      destruct (Hsub t1 u I1 Su) as [->|Hu], (Hsub t2 v I2 Sv) as [->|Hv]; auto.
      + apply Hid in Hv. lia.
      + apply Hid in Hu. lia.
      + eapply idf_elim; eauto.
    - intros t0 I0 j Hj. cbn [next bump]. apply In_id_exists in Hj as (u & Su & <-).
      destruct (Hsub t0 u I0 Su) as [->|Hu]; [lia|]. apply Hid in Hu. lia.
    - apply subt_in_here. left. reflexivity.
  Qed.

  Section WulIdf.
    Context {U : Type}.
    Variable M : umap_impl T U.
    Variable R : state -> id -> digest -> Prop.

    Lemma insert_all_pure : forall kvs vs (Q : outcome (list T) -> state -> Prop) s,
      (forall o, Q o s) -> wp R (insert_all ek vs kvs) Q s.
    Proof.
      induction kvs as [|[k v] kvs IH]; intros vs Q s HQ; cbn [insert_all]; [apply HQ|].
      apply wp_bind. unfold insert_mut.
      destruct (k mod pf_of ek =? lenN vs); [cbn [wp lift]; apply IH; exact HQ|].
      destruct (k mod pf_of ek <? lenN vs); cbn [wp lift]; [apply IH; exact HQ|apply HQ].
    Qed.

    Definition node_case_prog (nd : nat) (bl br : bool) (l r : tree) (u : U) (p1 p2 : N) : prog tree :=
      bind (if bl then with_updated_leaves ek M nd l u p1 else Ret l) (fun l' =>
      bind (if br then with_updated_leaves ek M nd r u p2 else Ret r) (fun r' =>
      bind fresh (fun i0 => Ret (Node i0 l' r')))).

    Lemma node_case_idf nd :
      (forall t u prefix s G, idf G -> all_below (next s) G -> subt_in t G ->
         wp R (with_updated_leaves ek M nd t u prefix) (wpost G s) s) ->
      forall bl br l r u p1 p2 s G, idf G -> all_below (next s) G -> subt_in l G -> subt_in r G ->
        wp R (node_case_prog nd bl br l r u p1 p2) (wpost G s) s.
    Proof.
      intros IH bl br l r u p1 p2 s G IDF B Hl Hr. unfold node_case_prog. apply wp_bind.
      assert (Wl : wp R (if bl then with_updated_leaves ek M nd l u p1 else Ret l) (wpost G s) s).
      { destruct bl; [apply IH; auto|cbn [wp]; apply wpost_same; auto]. }
      eapply wp_mono; [|exact Wl]. clear Wl. intros [l'|e|c] s1 Hp; cbn [lift wpost]; auto.
      destruct Hp as (N1 & G1 & I1 & IDF1 & B1 & Hl').
      assert (Hr1 : subt_in r G1) by (eapply subt_in_incl; eauto).
      apply wp_bind.
      assert (Wr : wp R (if br then with_updated_leaves ek M nd r u p2 else Ret r) (wpost G1 s1) s1).
      { destruct br; [apply IH; auto|cbn [wp]; apply wpost_same; auto]. }
      eapply wp_mono; [|exact Wr]. clear Wr. intros [r'|e|c] s2 Hp; cbn [lift wpost]; auto.
      destruct Hp as (N2 & G2 & I2 & IDF2 & B2 & Hr').
      cbn [bind fresh wp].
      eapply wpost_weaken; [apply (fresh_tree_idf G2 s2)| |]; auto.
      - intros u0 [->|[Su|Su]]; auto; right; eapply subt_in_subt; eauto.
        eapply subt_in_incl; eauto.
      - eapply incl_tran; eauto.
      - lia.
    Qed.

    Lemma leaf_case_idf (u : U) prefix s G : idf G -> all_below (next s) G ->
      wp R (bind (lift_opt (uget M u prefix) (LeafUpdateMissing prefix)) (fun v =>
            bind fresh (fun i0 => Ret (Leaf i0 v)))) (wpost G s) s.
    Proof.
      intros IDF B. destruct (uget M u prefix) as [v|]; cbn [lift_opt bind fresh wp wpost]; auto.
      apply fresh_tree_idf; auto. intros u0 [->|[]]. auto.
    Qed.
    Lemma packed_case_idf vs (u : U) prefix s G : idf G -> all_below (next s) G ->
      wp R (bind (packed_update ek M vs prefix u) (fun vs' =>
            bind fresh (fun i0 => Ret (Packed i0 vs')))) (wpost G s) s.
    Proof.
      intros IDF B. apply wp_bind. unfold packed_update. apply insert_all_pure.
      intros [vs'|e|c]; cbn [lift bind fresh wp wpost]; auto.
      apply fresh_tree_idf; auto. intros u0 [->|[]]. auto.
    Qed.

    Theorem wul_idf : forall depth t u prefix s G,
      idf G -> all_below (next s) G -> subt_in t G ->
      wp R (with_updated_leaves ek M depth t u prefix) (wpost G s) s.
    Proof.
      induction depth as [|nd IH]; intros t u prefix s G IDF B Ht;
        destruct t as [i v|i vs|i l r|i z]; cbn [with_updated_leaves]; try exact I.
      - apply leaf_case_idf; auto.
      - apply packed_case_idf; auto.
      - destruct (negb (z =? 0)%nat); [exact I|].
        destruct (is_packed ek); [apply packed_case_idf|apply leaf_case_idf]; auto.
      - match goal with |- context [if ?c then Fail _ else _] => destruct c end; [exact I|].
        apply (node_case_idf nd IH); auto.
        + eapply subt_in_subt; [apply subt_l|exact Ht].
        + eapply subt_in_subt; [apply subt_r|exact Ht].
      - destruct (negb (z =? S nd)%nat); [exact I|].
        cbn [bind fresh wp].
        match goal with |- context [if ?c then Fail _ else _] => destruct c end; [exact I|].
        destruct (fresh_tree_idf G s (Zero (next s) nd) IDF B eq_refl) as (N0 & G0 & I0 & IDF0 & B0 & Hz).
        { intros u0 [->|[]]. auto. }
        eapply wp_mono; [|apply (node_case_idf nd IH _ _ (Zero (next s) nd) (Zero (next s) nd) u _ _ (bump s) G0); auto].
        intros o s' Hp. eapply wpost_weaken; eauto.
    Qed.

    Theorem apply_updates_idf capN : forall (h : handle T U) s G,
      idf G -> In (htree h) G -> all_below (next s) G ->
      wp R (apply_updates ek M capN h) (fun o s' => forall e h', o = Ok (e, h') -> idf (htree h' :: G)) s.
    Proof.
      intros h s G IDF Hin B.
      assert (Hsame : forall (e0 : option error) (h0 : handle T U), htree h0 = htree h ->
                forall e h', @Ok (option error * handle T U) (e0, h0) = Ok (e, h') -> idf (htree h' :: G)).
      { intros e0 h0 E0 e h' E. injection E as <- <-. rewrite E0. apply idf_cons_sub; auto using subt_in_here. }
      assert (Hwul : forall (h1 h2 : handle T U), htree h1 = htree h -> htree h2 = htree h ->
                wp R (bind (try_ (with_updated_leaves ek M (hdepth h) (htree h) (hupd h) 0))
                        (fun r => match r with
                                  | inl e => Ret (Some e, h1)
                                  | inr t => Ret (None, with_tree h2 t) end))
                   (fun o s' => forall e h', o = Ok (e, h') -> idf (htree h' :: G)) s).
      { intros h1 h2 E1 E2. apply wp_bind. apply wp_try.
        eapply wp_mono; [|apply (wul_idf (hdepth h) (htree h) (hupd h) 0 s G IDF B (subt_in_here _ _ Hin))].
        intros [t'|e|c] s' Hp; cbn [lift wp].
        - destruct Hp as (_ & G' & I' & IDF' & _ & Ht'). intros e h' E. injection E as <- <-.
          cbn [with_tree htree]. apply (idf_sub G'); [exact IDF'|].
          intros t0 [<-|I0]; [exact Ht'|apply subt_in_here; apply I'; exact I0].
        - split; [apply Hsame; exact E1|]. intros e0 h' E. discriminate E.
        - intros e0 h' E. discriminate E. }
      unfold apply_updates.
      destruct (uis_empty M (hupd h)); [cbn [wp]; apply Hsame; reflexivity|].
      destruct (umax_index M (hupd h)) as [m|]; [|cbn [wp]; apply Hsame; reflexivity].
      destruct (hlist h).
      - destruct (capN <=? m); [cbn [wp]; apply Hsame; reflexivity|]. apply Hwul; reflexivity.
      - destruct (hblen h <=? m); [cbn [wp]; apply Hsame; reflexivity|]. apply Hwul; reflexivity.
    Qed.
  End WulIdf.

  Section CollIntraMemo.
    Context {U : Type}.
    Variable M : umap_impl T U.
    Variable capN : N.
    Variable uinv : U -> Prop.
    Hypothesis CAP : capacity_ok capN.
    Hypothesis apply_spec : forall h l s, hinv ek M capN uinv h l ->
      wp Rexact (apply_updates ek M capN h)
         (fun o s' => exists h', o = Ok (None, h') /\ hinv ek M capN uinv h' l /\ has_pending M h' = false /\
                                 alloc_only s s' /\ fresh_or_from s s' [htree h] (htree h')) s.

    Theorem coll_intra_spec_memo : forall h l s G,
      hinv ek M capN uinv h l -> idf G -> In (htree h) G ->
      (forall t, In t G -> below (next s) t /\ mv s t) -> memo_below s ->
      wp Rexact (coll_intra_rebase ek M H capN h)
         (fun o s' => exists h' G', o = Ok (None, h') /\ hinv ek M capN uinv h' l /\ has_pending M h' = false /\
            incl G G' /\ In (htree h') G' /\ idf G' /\
            (forall t, In t G' -> below (next s') t /\ mv s' t) /\ memo_below s' /\
            (forall i a b, htree h' = Node i a b -> mget s' i = hs (htree h'))) s.
    Proof.
      intros h l s G HI IDF Hin BV MB. unfold coll_intra_rebase. apply wp_bind.
      assert (B : all_below (next s) G) by (intros t It; apply BV; exact It).
      assert (V : all_mvalid s G) by (intros t It; apply BV; exact It).
      eapply wp_mono; [|apply wp_conj; [apply (apply_spec h l s HI)|apply (apply_updates_idf M Rexact capN h s G IDF Hin B)]].
      intros o s1 [(h1 & -> & HI1 & HP1 & AO & FF) Hidf]. specialize (Hidf None h1 eq_refl). cbn [lift].
      destruct (hinv_tree_ok M capN uinv CAP h1 l HI1) as [W P].
      pose proof AO as [Em N1].
      remember (htree h1 :: G) as G1 eqn:EG1.
      assert (Ht1 : subt_in (htree h1) G1) by (apply subt_in_here; subst G1; left; reflexivity).
      assert (B1 : all_below (next s1) G1).
      { subst G1. intros t [<-|It].
        - eapply below_fresh_or_from; [exact FF| |exact N1]. intros t0 [<-|[]]. apply B. exact Hin.
        - eapply all_below_mono; [exact N1|exact B|exact It]. }
      assert (V1 : all_mvalid s1 G1).
      { subst G1. intros t [<-|It].
        - eapply mvalid_fresh_or_from; [exact AO|exact FF| |exact MB]. intros t0 [<-|[]]. apply V. exact Hin.
        - intros u Su Hm. rewrite (mget_memo_eq s s1 _ Em). apply (V t It u Su Hm). }
      assert (MB1 : memo_below s1).
      { intros j Hj. rewrite (mget_memo_eq s s1 _ Em). apply MB. lia. }
      (* tree_hash_root *)
      apply wp_bind. unfold coll_tree_hash_root. apply wp_bind.
      eapply wp_mono; [|apply (ir_tree_hash_exact (htree h1) s1)].
      2:{ apply (idf_sub G1); [exact Hidf|]. intros t [<-|[]]. exact Ht1. }
      2:{ eapply mvalid_in; eauto. }
      2:{ exact P. }
      intros o2 s2 (-> & Ch & _ & _). cbn [lift].
      assert (C2 : hchanges s1 s2 (htree h1)) by (apply changes_hchanges; [eapply below_in; eauto|exact Ch]).
      assert (N2 : next s2 = next s1) by apply Ch.
      assert (B2 : all_below (next s2) G1) by (rewrite N2; exact B1).
      assert (V2 : all_mvalid s2 G1) by (eapply all_mvalid_hchanges; eauto).
      assert (MB2 : memo_below s2) by (eapply memo_below_hchanges; eauto).
      assert (K2 : kinv s2 G1 []) by (intros d0 h0 ks []).
      pose (Q := fun (o : outcome (option error * handle T U)) (s' : state) =>
                   exists h' G', o = Ok (None, h') /\ hinv ek M capN uinv h' l /\ has_pending M h' = false /\
                      incl G G' /\ In (htree h') G' /\ idf G' /\
                      (forall t, In t G' -> below (next s') t /\ mv s' t) /\ memo_below s' /\
                      (forall i a b, htree h' = Node i a b -> mget s' i = hs (htree h'))).
      assert (Hroot : forall (m : prog digest), (exists d, m = Ret d) ->
                wp Rexact m (lift Rexact (fun _ : digest =>
                   bind (try_ (intra_rebase ek H (htree h1) [] (hdepth h1)))
                     (fun r => match r with
                               | inl e => Ret (Some e, h1)
                               | inr (IReplace t, _) => Ret (None, with_tree h1 t)
                               | inr (INoop, _) => Ret (None, h1) end)) Q) s2).
      { intros m (d & ->). cbn [wp lift]. apply wp_bind.
        eapply wp_mono; [|apply wp_try_ok with (P := fun ak s3 =>
           ipost G1 (htree h1) [] (hdepth h1) s2 (Ok ak) s3)].
        - intros o3 s3 ([a k'] & -> & (a' & k'' & G' & E & Sa & _ & C3 & I' & IDF' & B' & V' & Ha & _ & Mm)).
          injection E as <- <-. cbn [lift].
          assert (Hfin : exists h', (h' = match a with INoop => h1 | IReplace t' => with_tree h1 t' end) /\
                                    htree h' = ieff a (htree h1) /\ hinv ek M capN uinv h' l /\ has_pending M h' = false).
          { destruct a as [|t']; cbn [ieff] in *; eexists; (split; [reflexivity|]); split; auto.
            split; [apply hinv_with_tree; auto|exact HP1]. }
          destruct Hfin as (h' & Eh' & Et' & HI' & HP').
          assert (Hgoal : Q (Ok (None, h')) s3).
          { exists h', (htree h' :: G'). rewrite Et'.
            split; [reflexivity|]. split; [exact HI'|]. split; [exact HP'|].
            split; [intros x Hx; right; apply I'; subst G1; right; exact Hx|].
            split; [left; reflexivity|]. split; [apply idf_cons_sub; auto|]. split; [|split].
            - intros t [<-|It]; split.
              + eapply below_in; eauto. + eapply mvalid_in; eauto. + apply B'; exact It. + apply V'; exact It.
            - eapply memo_below_hchanges; eauto.
            - intros i x y En.
              assert (exists i0 x0 y0, htree h1 = Node i0 x0 y0) as (i0 & x0 & y0 & En1).
              { rewrite En in Sa. destruct (htree h1) as [? ?|? ?|i0 x0 y0|? ?]; cbn [shape] in Sa; try discriminate. eauto. }
              rewrite En in *. specialize (Mm _ _ _ En1). cbn [idof] in Mm. rewrite Mm.
              symmetry. apply hs_shape. exact Sa. }
          destruct a as [|t']; subst h'; cbn [wp]; exact Hgoal.
        - eapply wp_mono; [|apply (intra_inv (htree h1) [] (hdepth h1) s2 G1 W P ltac:(subst G1; exact Hidf) B2 V2 Ht1 K2)].
          intros o3 s3 Hp. pose proof Hp as (a & k' & G' & -> & _). exists (a, k'). split; [reflexivity|exact Hp]. }
      destruct (hlist h1); apply Hroot; eauto.
    Qed.
  End CollIntraMemo.
End IntraP.

(* ====================================================================================== *)
(* Part C: the pinned (pre-F2) function is refuted on the [a; 0; a] witness                 *)
(* ====================================================================================== *)
Section Pinned.
  Context {T : Type}.
  Variable ek : ekind T.
  Notation tree := (tree T).
  Local Open Scope prog_scope.
  (* Tree::intra_rebase at the pinned commit: a key hit replaces without a structural check,
     a node without a cached hash is an error *)
  Fixpoint intra_rebase_pinned (orig : tree) (k : known T) (depth : nat) : prog (iaction T * known T) :=
    match orig with
    | Leaf _ _ | Packed _ _ | Zero _ _ => Ret (INoop, k)
    | Node i l r =>
        match depth with
        | O => Fail IntraRebaseZeroDepth
        | S nd =>
            GetMemo i (fun h =>
            if h =? 0 then Fail IntraRebaseZeroHash else
            match known_get k depth h with
            | Some ks => Ret (IReplace ks, k)
            | None =>
              '(la, k1) <- intra_rebase_pinned l k nd ;;
              '(ra, k2) <- intra_rebase_pinned r k1 nd ;;
              act <- (match la, ra with
                      | INoop, INoop => Ret INoop
                      | INoop, IReplace nr => j <- fresh ;; set_memo j h ;;; Ret (IReplace (Node j l nr))
                      | IReplace nl, INoop => j <- fresh ;; set_memo j h ;;; Ret (IReplace (Node j nl r))
                      | IReplace nl, IReplace nr => j <- fresh ;; set_memo j h ;;; Ret (IReplace (Node j nl nr))
                      end) ;;
              let new_subtree := match act with INoop => orig | IReplace n => n end in
              match known_get k2 depth h with
              | Some _ => Fail IntraRebaseRepeatVisit
              | None => Ret (act, ((depth, h), new_subtree) :: k2)
              end
            end)
        end
    end.
End Pinned.

(* Cantor pairing + 1: never 0 *)
Definition Hc (a b : N) : N := (a + b) * (a + b + 1) / 2 + b + 1.
Lemma Hc_nonzero : nonzero_hash Hc.
Proof. intros a b. unfold Hc. rewrite N.add_1_r. apply N.neq_succ_0. Qed.

(* List<Hash256, U4>::new([a, 0, a]) with a = 5, hashed, then intra_rebase: all built by the model *)
Definition wit_a : bytes := 5 :: repeat 0 31.
Definition wit_0 : bytes := repeat 0 32.
Definition wit_prog (f : tree bytes -> known bytes -> nat -> prog (iaction bytes * known bytes))
  : prog (handle bytes (vecmap bytes) * (iaction bytes * known bytes)) :=
  bind (list_try_from_iter ek_h256 (@vecmap_impl bytes) 4 [wit_a; wit_0; wit_a]) (fun h =>
  bind (coll_tree_hash_root ek_h256 (@vecmap_impl bytes) Hc h) (fun _ =>
  bind (f (htree h) [] (hdepth h)) (fun r => Ret (h, r)))).

Example intra_pinned_refuted :
  exists h t' k' s',
    run (wit_prog (intra_rebase_pinned)) init_state = (Ok (h, (IReplace t', k')), s') /\
    elems (htree h) = [wit_a; wit_0; wit_a] /\
    elems t' = [wit_a; wit_0; wit_a; wit_0] /\
    shape t' <> shape (htree h).
Proof.
  eexists _, _, _, _. split; [vm_compute; reflexivity|].
  split; [reflexivity|]. split; [reflexivity|]. vm_compute. discriminate.
Qed.
Example intra_fixed_on_witness :
  exists h k' s',
    run (wit_prog (intra_rebase ek_h256 Hc)) init_state = (Ok (h, (INoop, k')), s') /\
    elems (htree h) = [wit_a; wit_0; wit_a].
Proof. eexists _, _, _. split; [vm_compute; reflexivity|]. reflexivity. Qed.

(* the witness satisfies every premise of intra_shape_top, so the theorem proved above for the repaired
   function is false for the pinned one *)
Definition wit_built : outcome (handle bytes (vecmap bytes)) * state :=
  Eval vm_compute in
    run (bind (list_try_from_iter ek_h256 (@vecmap_impl bytes) 4 [wit_a; wit_0; wit_a]) (fun h =>
         bind (coll_tree_hash_root ek_h256 (@vecmap_impl bytes) Hc h) (fun _ => Ret h))) init_state.
Definition wit_tree : tree bytes :=
  Eval vm_compute in match fst wit_built with Ok h => htree h | _ => Zero 1%positive 0 end.
Definition wit_state : state := Eval vm_compute in snd wit_built.

Ltac split_ors :=
  repeat match goal with
         | HH : _ \/ _ |- _ => destruct HH as [HH|HH]
         | HH : False |- _ => destruct HH
         end.

Lemma wit_idf : idf [wit_tree].
Proof.
  intros t1 t2 u v [<-|[]] [<-|[]] Su Sv E. unfold wit_tree in Su, Sv. cbn [subt] in Su, Sv.
  split_ors; subst u v; try reflexivity; cbn [idof] in E; discriminate E.
Qed.
Lemma wit_below : below (next wit_state) wit_tree.
Proof.
  intros j Hj. unfold wit_tree in Hj. cbn [In_id idof] in Hj. split_ors; subst j; vm_compute; reflexivity.
Qed.
Lemma wit_mvalid : mvalid ek_h256 Hc wit_state wit_tree.
Proof.
  intros u Su Hm. unfold wit_tree in Su. cbn [subt] in Su.
  split_ors; subst u; try discriminate Hm; vm_compute; auto.
Qed.

Theorem intra_pinned_not_shape_preserving :
  ~ (forall (t : tree bytes) d s,
       idf [t] -> below (next s) t -> mvalid ek_h256 Hc s t ->
       node_depth_ok d t -> packed_ok ek_h256 t ->
       wp Rexact (intra_rebase_pinned t [] d)
          (fun o s' => exists a k', o = Ok (a, k') /\ shape (ieff a t) = shape t) s).
Proof.
  intros HH.
  assert (W : node_depth_ok 2 wit_tree) by (vm_compute; tauto).
  assert (P : packed_ok ek_h256 wit_tree) by (vm_compute; tauto).
  specialize (HH wit_tree 2%nat wit_state wit_idf wit_below wit_mvalid W P).
  apply wp_run in HH. destruct HH as (a & k' & E & Sh).
  vm_compute in E. injection E as <- <-. vm_compute in Sh. discriminate Sh.
Qed.
(* ... while the repaired function is covered by intra_shape_top (instance, for the record) *)
Example intra_fixed_witness_wp :
  wp Rexact (intra_rebase ek_h256 Hc wit_tree [] 2)
     (fun o s' => exists a k', o = Ok (a, k') /\ shape (ieff a wit_tree) = shape wit_tree) wit_state.
Proof.
  assert (W : node_depth_ok 2 wit_tree) by (vm_compute; tauto).
  assert (P : packed_ok ek_h256 wit_tree) by (vm_compute; tauto).
  assert (EK : ek_wf ek_h256).
  { split.
    - intros a b. cbn [eeqb ek_h256]. revert b. induction a as [|x a IH]; intros [|y b]; cbn [bytes_eqb]; split; intros E; try discriminate; auto.
      + apply andb_prop in E as [E1 E2]. apply N.eqb_eq in E1. apply IH in E2. congruence.
      + injection E as -> ->. rewrite N.eqb_refl. cbn. apply IH. reflexivity.
    - cbn. lia.
    - intros E. discriminate E.
    - intros E. discriminate E. }
  eapply wp_mono; [|apply (intra_shape_top ek_h256 Hc EK Hc_nonzero wit_tree 2 wit_state wit_idf wit_below wit_mvalid W P)].
  intros o s' (a & k' & E & Sa & _). eauto.
Qed.

Print Assumptions intra_total.
Print Assumptions ir_tree_hash_exact.
Print Assumptions mvalid_hchanges.
Print Assumptions intra_shape.
Print Assumptions intra_shape_top.
Print Assumptions intra_shape_canon.
Print Assumptions coll_intra_spec.
Print Assumptions coll_intra_spec_memo.
Print Assumptions wul_idf.
Print Assumptions apply_updates_idf.
Print Assumptions hchanges_frame.
Print Assumptions intra_pinned_refuted.
Print Assumptions intra_fixed_on_witness.
Print Assumptions intra_pinned_not_shape_preserving.
Print Assumptions intra_fixed_witness_wp.
