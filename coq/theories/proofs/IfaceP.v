(* IfaceP.v — the Interface layer of model/Coll.v (get, len, has_pending_updates, get_mut / Cow
   writes, push, bulk_update) against the per-handle invariant `hinv` of Defs.v: a handle that
   represents the plain list `l` answers reads like `l`, and every mutation yields a handle that
   represents the correspondingly modified list, with the backing tree, its length and depth
   untouched.  Proofs only; no model code.

   Everything is derived from the laws `umap_lawful` of the update map (so it holds for VecMap,
   BTreeMap and MaxMap<_> by UMapP.v) and from `get_rec_canon` (task `wul`, item 1), which is a
   Section hypothesis here. *)
From MH Require Import Defs UMapP.
Local Open Scope N_scope.

(* ---------- list facts used for bulk_update ---------- *)
Section ListAux.
  Context {A B : Type}.
  Lemma nthN_map (f : A -> B) l n : nthN (map f l) n = option_map f (nthN l n).
  Proof. rewrite !nthN_nth_error. apply nth_error_map. Qed.
  Lemma In_nthN (l : list A) x : In x l -> exists n, nthN l n = Some x.
  Proof.
    intros Hin. apply In_nth_error in Hin. destruct Hin as [n Hn]. exists (N.of_nat n).
    now rewrite nthN_nth_error, Nat2N.id.
  Qed.
  Lemma nthN_In (l : list A) n x : nthN l n = Some x -> In x l.
  Proof. rewrite nthN_nth_error. apply nth_error_In. Qed.
  Lemma sorted_app_mid (R : A -> A -> Prop) pre x post :
    StronglySorted R (pre ++ x :: post) ->
    (forall y, In y pre -> R y x) /\ (forall y, In y post -> R x y).
  Proof.
    induction pre as [|a pre IH]; cbn [app]; intros Hs; apply StronglySorted_inv in Hs; destruct Hs as [Hs Hf].
    - split; [intros y []|]. apply Forall_forall. exact Hf.
    - destruct (IH Hs) as [IH1 IH2]. split; auto.
      intros y [<-|Hy]; auto. rewrite Forall_forall in Hf. apply Hf. apply in_or_app. right. now left.
  Qed.
End ListAux.

(* a list of pairs whose keys are e, e+1, e+2, ..., none of them equal to c *)
Section Contig.
  Context {T : Type}.
  Definition contig (c e : N) (kvs : list (N * T)) : Prop :=
    forall n k v, nthN kvs n = Some (k, v) -> k = e + n /\ k <> c.
  Lemma contig_has c e kvs : contig c e kvs -> forall j, e <= j -> j < e + lenN kvs -> exists w, In (j, w) kvs.
  Proof.
    intros Hc j Hj1 Hj2. destruct (nthN kvs (j - e)) as [[k w]|] eqn:E.
    - destruct (Hc _ _ _ E) as [-> _]. exists w. apply nthN_In in E. now replace (e + (j - e)) with j in E by lia.
    - apply nthN_None in E. lia.
  Qed.
  Lemma contig_in c e kvs : contig c e kvs -> forall k v, In (k, v) kvs -> e <= k /\ k < e + lenN kvs /\ k <> c.
  Proof.
    intros Hc k v Hin. apply In_nthN in Hin. destruct Hin as [n Hn].
    assert (n < lenN kvs) as Hlt by (apply nthN_Some; now rewrite Hn).
    destruct (Hc _ _ _ Hn) as [-> Hne]. repeat split; auto; lia.
  Qed.
  Lemma contig_le c e kvs : contig c e kvs -> e <= c -> e + lenN kvs <= c.
  Proof.
    intros Hc Hle. destruct (N.le_gt_cases (e + lenN kvs) c) as [L|L]; auto.
    destruct (contig_has c e kvs Hc c Hle L) as [w Hw]. apply (contig_in c e kvs Hc) in Hw. lia.
  Qed.
  Lemma contig_nil c e : contig c e [].
  Proof. intros n k v E. discriminate. Qed.
  Lemma contig_cons c e v kvs : e <> c -> contig c (e + 1) kvs -> contig c e ((e, v) :: kvs).
  Proof.
    intros Hne Hc n k w. cbn [nthN]. destruct (N.eqb_spec n 0) as [->|En].
    - intros E. injection E as <- <-. split; [lia|auto].
    - intros E. apply Hc in E. destruct E as [-> Hk]. split; [lia|auto].
  Qed.
End Contig.

Section Iface.
  Context {T U : Type}.
  Variable ek : ekind T.
  Variable M : umap_impl T U.
  Variable uinv : U -> Prop.
  Variable capN : N.
  Hypothesis UL : umap_lawful ek M uinv.
  Hypothesis CAP : capacity_ok capN.
  Hypothesis get_rec_canon : forall d (l : list T) t i,
    shape t = canon ek d l -> lenN l <= cap ek d -> get_rec ek t i d = nthN l (i mod cap ek d).
  Hypothesis cap_list_depth : capN <= cap ek (list_depth ek capN).
  Notation handle := (handle T U).
  Notation hinv := (hinv ek M capN uinv).

  (* the backing part of a handle is untouched *)
  Definition same_backing (h h' : handle) : Prop :=
    htree h' = htree h /\ hblen h' = hblen h /\ hdepth h' = hdepth h /\ hlist h' = hlist h.
  Lemma same_backing_with_upd h u : same_backing h (with_upd h u).
  Proof. repeat split. Qed.

  (* ---------- the laws, in directly usable form ---------- *)
  Let get_insert := ul_insert_get _ _ _ UL.
  Let get_entry := ul_entry_get _ _ _ UL.

  Lemma len0_get u : uinv u -> ulen M u = 0 -> forall k, uget M u k = None.
  Proof. intros Hu. apply (ul_len_0 _ _ _ UL u Hu). Qed.
  Lemma max_none_get u : uinv u -> umax_index M u = None -> forall k, uget M u k = None.
  Proof. intros Hu Hm. apply len0_get; auto. now apply (ul_max_none _ _ _ UL u Hu). Qed.
  Lemma has_key_entry u i v k : uinv u -> has_key M u k -> has_key M (uentry_insert M u i v) k.
  Proof. unfold has_key. intros Hu Hk. rewrite get_entry by auto. now destruct (k =? i). Qed.
  Lemma has_key_insert u i v k : uinv u -> has_key M u k -> has_key M (uinsert M u i v) k.
  Proof. unfold has_key. intros Hu Hk. rewrite get_insert by auto. now destruct (k =? i). Qed.

  (* ---------- updated_length under the three kinds of write ---------- *)
  Lemma updlen_entry_below b u i v : uinv u -> i < b ->
    updated_length M b (uentry_insert M u i v) = updated_length M b u.
  Proof.
    intros Hu Hi. unfold updated_length.
    destruct (ul_max_entry _ _ _ UL u i v Hu) as (m' & E & Hge & Hle). rewrite E.
    destruct (umax_index M u) as [m|].
    - specialize (Hge m eq_refl). lia.
    - lia.
  Qed.
  Lemma updlen_entry_same b u i v : uinv u -> has_key M u i ->
    updated_length M b (uentry_insert M u i v) = updated_length M b u.
  Proof. intros Hu Hk. unfold updated_length. now rewrite (ul_max_entry_same _ _ _ UL u i v Hu Hk). Qed.
  Lemma updlen_insert_end b u v : uinv u -> b <= updated_length M b u ->
    updated_length M b (uinsert M u (updated_length M b u) v) = updated_length M b u + 1.
  Proof.
    intros Hu. unfold updated_length.
    destruct (ul_max_insert _ _ _ UL u (updated_length M b u) v Hu) as (m' & E & Hk & Hge & Hor).
    unfold updated_length in *. rewrite E.
    destruct (umax_index M u) as [m|].
    - specialize (Hge m eq_refl). destruct Hor as [->|Hor]; [lia|]. injection Hor as ->. lia.
    - destruct Hor as [->|Hor]; [lia|discriminate].
  Qed.

  (* ---------- the overlay relation under the three kinds of write ---------- *)
  Lemma agrees_entry_read u bl l i v : uinv u ->
    agrees M u bl l -> nthN l i = Some v -> agrees M (uentry_insert M u i v) bl l.
  Proof.
    intros Hu (A1 & A2 & A3 & A4) Hv. repeat split; auto.
    - intros k w. rewrite get_entry by auto. destruct (N.eqb_spec k i) as [->|E]; auto.
      intros Ew. now injection Ew as <-.
    - intros k. rewrite get_entry by auto. destruct (N.eqb_spec k i) as [->|E]; [discriminate|auto].
    - intros k Hk1 Hk2. apply has_key_entry; auto.
  Qed.
  Lemma agrees_entry_write u bl l i v : uinv u ->
    agrees M u bl l -> i < lenN l -> agrees M (uentry_insert M u i v) bl (setN l i v).
  Proof.
    intros Hu (A1 & A2 & A3 & A4) Hi. repeat split.
    - now rewrite lenN_setN.
    - intros k w. rewrite get_entry by auto. rewrite nthN_setN. destruct (N.eqb_spec k i) as [->|E]; cbn [andb].
      + destruct (N.ltb_spec i (lenN l)); [auto|lia].
      + auto.
    - intros k. rewrite get_entry by auto. rewrite nthN_setN.
      destruct (N.eqb_spec k i) as [->|E]; [discriminate|cbn [andb]; auto].
    - intros k. rewrite lenN_setN. intros Hk1 Hk2. apply has_key_entry; auto.
  Qed.
  Lemma agrees_insert_push u bl l v : uinv u ->
    agrees M u bl l -> agrees M (uinsert M u (lenN l) v) bl (l ++ [v]).
  Proof.
    intros Hu (A1 & A2 & A3 & A4). repeat split.
    - rewrite lenN_app. lia.
    - intros k w. rewrite get_insert by auto. destruct (N.eqb_spec k (lenN l)) as [->|E].
      + intros Ew. injection Ew as <-. rewrite nthN_app_r by lia. now rewrite N.sub_diag.
      + intros Hw. apply A2 in Hw as Hn. rewrite nthN_app_l; auto. apply nthN_Some. now rewrite Hn.
    - intros k. rewrite get_insert by auto. destruct (N.eqb_spec k (lenN l)) as [->|E]; [discriminate|].
      intros Hn Hk. rewrite nthN_app_l by lia. auto.
    - intros k Hk1. rewrite lenN_app. change (lenN [v]) with 1. intros Hk2.
      destruct (N.eq_dec k (lenN l)) as [->|E].
      + unfold has_key. rewrite get_insert, N.eqb_refl by auto. discriminate.
      + apply has_key_insert; auto. apply A4; lia.
  Qed.

  (* hinv is stable under replacing the pending map, given the two map-dependent facts *)
  Lemma hinv_with_upd h l u' l' :
    hinv h l -> uinv u' ->
    (forall bl, lenN bl = hblen h -> agrees M (hupd h) bl l -> agrees M u' bl l') ->
    updated_length M (hblen h) u' = lenN l' -> lenN l' <= capN ->
    (hlist h = false -> lenN l' = capN) ->
    hinv (with_upd h u') l'.
  Proof.
    intros ((bl & I1 & I2 & I3 & I4) & I5 & I6 & I7 & I8 & I9) Hu' Hag Hlen Hcap Hvec.
    unfold Defs.hinv, habs. cbn [with_upd htree hdepth hblen hupd hlist].
    split. { exists bl. split; [exact I1|]. split; [exact I2|]. split; [now apply Hag|exact Hlen]. }
    split; [exact I5|]. split; [exact Hcap|]. split; [exact I7|]. split; [|exact Hu'].
    intros Hv. split; [now apply I8|now apply Hvec].
  Qed.

  (* ---------- reads ---------- *)
  Theorem iface_len_spec h l : hinv h l -> iface_len M h = lenN l.
  Proof. intros ((bl & I1 & I2 & I3 & I4) & _). exact I4. Qed.

  Lemma backing_get_spec h l bl i :
    hinv h l -> shape (htree h) = canon ek (hdepth h) bl -> lenN bl = hblen h ->
    backing_get ek h i = nthN bl i.
  Proof.
    intros (_ & I5 & I6 & I7 & I8 & I9) I1 I2. unfold backing_get. rewrite <- I2.
    assert (lenN bl <= cap ek (hdepth h)) as Hc by (rewrite I5; lia).
    destruct (N.ltb_spec i (lenN bl)) as [L|L].
    - rewrite (get_rec_canon _ bl) by auto. f_equal. apply N.mod_small. lia.
    - symmetry. now apply nthN_None.
  Qed.

  Theorem iface_get_spec h l i : hinv h l -> iface_get ek M h i = nthN l i.
  Proof.
    intros Hinv. pose proof Hinv as ((bl & I1 & I2 & (A1 & A2 & A3 & A4) & I4) & _).
    unfold iface_get. destruct (uget M (hupd h) i) as [v|] eqn:E.
    - symmetry. auto.
    - rewrite (backing_get_spec h l bl) by auto.
      destruct (N.lt_ge_cases i (lenN bl)) as [L|L]; [symmetry; auto|].
      assert (nthN bl i = None) as -> by now apply nthN_None.
      symmetry. apply nthN_None. destruct (N.le_gt_cases (lenN l) i) as [L'|L']; auto.
      elim (A4 i L L'). exact E.
  Qed.

  (* no pending update: the backing list is the represented list *)
  Theorem has_pending_spec h l : hinv h l -> has_pending M h = false ->
    shape (htree h) = canon ek (hdepth h) l /\ lenN l = hblen h.
  Proof.
    intros ((bl & I1 & I2 & (A1 & A2 & A3 & A4) & I4) & I5 & I6 & I7 & I8 & I9) Hp.
    unfold has_pending, uis_empty in Hp. apply negb_false_iff, N.eqb_eq in Hp.
    pose proof (len0_get _ I9 Hp) as Hn.
    assert (bl = l) as <-; [|auto].
    apply listN_ext. intros k. destruct (N.lt_ge_cases k (lenN bl)) as [L|L].
    - symmetry. auto.
    - assert (nthN bl k = None) as -> by now apply nthN_None.
      symmetry. apply nthN_None. destruct (N.le_gt_cases (lenN l) k) as [L'|L']; auto.
      elim (A4 k L L'). apply Hn.
  Qed.
  Corollary has_pending_spec' h l : hinv h l -> has_pending M h = false ->
    exists bl, shape (htree h) = canon ek (hdepth h) bl /\ lenN bl = hblen h /\ bl = l.
  Proof. intros Hi Hp. exists l. destruct (has_pending_spec h l Hi Hp). auto. Qed.

  (* ---------- get_mut / Cow ---------- *)
  Theorem get_mut_spec h l i : hinv h l ->
    match nthN l i with
    | Some v => exists h', iface_get_mut ek M h i = Some (v, h') /\ hinv h' l /\
                           has_key M (hupd h') i /\ same_backing h h'
    | None => iface_get_mut ek M h i = None
    end.
  Proof.
    intros Hinv. pose proof (iface_get_spec h l i Hinv) as Hget.
    pose proof Hinv as ((bl & I1 & I2 & I3 & I4) & I5 & I6 & I7 & I8 & I9).
    unfold iface_get in Hget. unfold iface_get_mut.
    destruct (uget M (hupd h) i) as [w|] eqn:E.
    - rewrite <- Hget. exists h. split; [reflexivity|]. split; [exact Hinv|].
      split; [unfold has_key; rewrite E; discriminate|repeat split].
    - rewrite Hget. destruct (nthN l i) as [v|] eqn:Ev; [|reflexivity].
      eexists. split; [reflexivity|].
      assert (i < hblen h) as Hi.
      { unfold backing_get in Hget. destruct (N.ltb_spec i (hblen h)); [auto|discriminate]. }
      split; [|split].
      + apply (hinv_with_upd h l); auto.
        * now apply (ul_entry_inv _ _ _ UL).
        * intros bl' _ Hag. now apply agrees_entry_read.
        * rewrite updlen_entry_below; auto.
        * intros Hv. now apply I8.
      + cbn [with_upd hupd]. unfold has_key. rewrite get_entry, N.eqb_refl by auto. discriminate.
      + apply same_backing_with_upd.
  Qed.

  (* `*x = v` through the reference: the entry exists (it was materialised by get_mut / get_cow,
     or was pending before) *)
  Theorem write_entry_spec h l i v : hinv h l -> has_key M (hupd h) i ->
    hinv (write_entry M h i v) (setN l i v) /\ same_backing h (write_entry M h i v).
  Proof.
    intros Hinv Hk. pose proof Hinv as ((bl & I1 & I2 & I3 & I4) & I5 & I6 & I7 & I8 & I9).
    split; [|apply same_backing_with_upd]. unfold write_entry.
    assert (i < lenN l) as Hi.
    { destruct I3 as (A1 & A2 & A3 & A4). unfold has_key in Hk.
      destruct (uget M (hupd h) i) as [w|] eqn:E; [|contradiction].
      apply A2 in E. apply nthN_Some. now rewrite E. }
    apply (hinv_with_upd h l); auto.
    - now apply (ul_entry_inv _ _ _ UL).
    - intros bl' _ Hag. now apply agrees_entry_write.
    - rewrite lenN_setN, updlen_entry_same; auto.
    - now rewrite lenN_setN.
    - rewrite lenN_setN. intros Hv. now apply I8.
  Qed.

  (* the combined form: get_mut followed by the write *)
  Corollary get_mut_write_spec h l i x h' v : hinv h l -> iface_get_mut ek M h i = Some (x, h') ->
    nthN l i = Some x /\ hinv (write_entry M h' i v) (setN l i v) /\ same_backing h (write_entry M h' i v).
  Proof.
    intros Hinv Hg. pose proof (get_mut_spec h l i Hinv) as Hs.
    destruct (nthN l i) as [y|]; [|rewrite Hs in Hg; discriminate].
    destruct Hs as (h'' & E & Hinv' & Hk & Hsb). rewrite E in Hg. injection Hg as <- <-.
    split; [reflexivity|]. destruct (write_entry_spec h'' l i v Hinv' Hk) as [W1 W2].
    split; [exact W1|]. destruct Hsb as (S1 & S2 & S3 & S4), W2 as (W21 & W22 & W23 & W24).
    repeat split; congruence.
  Qed.

  (* ---------- push ---------- *)
  Theorem push_spec_list h l v : hinv h l -> hlist h = true -> lenN l < capN ->
    exists h', iface_push M capN h v = Ret h' /\ hinv h' (l ++ [v]) /\ same_backing h h'.
  Proof.
    intros Hinv Hl Hlt. pose proof Hinv as ((bl & I1 & I2 & I3 & I4) & I5 & I6 & I7 & I8 & I9).
    unfold iface_push, validate_push, iface_len. rewrite Hl, I4.
    destruct (N.eqb_spec (lenN l) capN) as [E|_]; [lia|]. cbn [bind].
    eexists. split; [reflexivity|]. split; [|apply same_backing_with_upd].
    assert (lenN (l ++ [v]) = lenN l + 1) as Hla by (rewrite lenN_app; reflexivity).
    apply (hinv_with_upd h l); auto.
    - now apply (ul_insert_inv _ _ _ UL).
    - intros bl' _ Hag. now apply agrees_insert_push.
    - rewrite Hla, <- I4. apply updlen_insert_end; auto. rewrite I4.
      destruct I3 as (A1 & _). lia.
    - lia.
    - rewrite Hl. discriminate.
  Qed.
  Theorem push_spec_full h l v : hinv h l -> hlist h = true -> lenN l = capN ->
    iface_push M capN h v = Fail (ListFull capN).
  Proof.
    intros ((bl & I1 & I2 & I3 & I4) & _) Hl He.
    unfold iface_push, validate_push, iface_len. rewrite Hl, I4, He, N.eqb_refl. reflexivity.
  Qed.
  Theorem push_spec_vector h v : hlist h = false -> iface_push M capN h v = Fail PushNotSupported.
  Proof. intros Hl. unfold iface_push, validate_push. rewrite Hl. reflexivity. Qed.
  (* ---------- bulk_update ---------- *)
  (* `umax_index` is the true largest key.  This holds for every map built by `insert` alone
     (bulk_map_max_exact), for VecMap and BTreeMap always (UMapP), but NOT for a MaxMap that has
     received a key through an entry; bulk_update relies on it. *)
  Definition max_exact (u : U) : Prop := is_max (uget M u) (umax_index M u).

  Lemma max_exact_empty : max_exact (uempty M).
  Proof.
    unfold max_exact. pose proof (ul_empty_inv _ _ _ UL) as Hi.
    assert (umax_index M (uempty M) = None) as ->.
    { apply (ul_max_none _ _ _ UL _ Hi). apply (ul_len_0 _ _ _ UL _ Hi). apply (ul_empty_get _ _ _ UL). }
    cbn [is_max]. apply (ul_empty_get _ _ _ UL).
  Qed.
  Lemma max_exact_insert u k v : uinv u -> max_exact u -> max_exact (uinsert M u k v).
  Proof.
    unfold max_exact. intros Hu Hm.
    destruct (ul_max_insert _ _ _ UL u k v Hu) as (m' & E & Hk & Hge & Hor). rewrite E. cbn [is_max]. split.
    - rewrite get_insert by auto. destruct (N.eqb_spec m' k) as [_|Ne]; [discriminate|].
      destruct Hor as [->|Hor]; [contradiction|]. rewrite Hor in Hm. cbn [is_max] in Hm. tauto.
    - intros j Hj. rewrite get_insert by auto. destruct (N.eqb_spec j k) as [->|Ne]; [lia|].
      destruct (umax_index M u) as [m|]; cbn [is_max] in Hm.
      + apply Hm. specialize (Hge m eq_refl). lia.
      + apply Hm.
  Qed.
  Lemma bulk_map_inv : forall kvs u, uinv u -> uinv (bulk_map M u kvs).
  Proof.
    induction kvs as [|[k v] kvs IH]; intros u Hu; cbn [bulk_map]; auto.
    apply IH. now apply (ul_insert_inv _ _ _ UL).
  Qed.
  Lemma bulk_map_max_exact : forall kvs u, uinv u -> max_exact u -> max_exact (bulk_map M u kvs).
  Proof.
    induction kvs as [|[k v] kvs IH]; intros u Hu Hm; cbn [bulk_map]; auto.
    apply IH; [now apply (ul_insert_inv _ _ _ UL)|now apply max_exact_insert].
  Qed.

  Lemma cap_lt_usize : capN < usize_max.
  Proof.
    pose proof CAP as Hc. unfold capacity_ok in Hc. unfold usize_max.
    assert (2 ^ 63 = 9223372036854775808) as E by reflexivity. rewrite E in Hc. lia.
  Qed.

  (* the validation walk over the keys at or beyond the backing length *)
  Lemma bulk_walk_spec (h : handle) : hlist h = true -> forall kvs e,
    match bulk_walk capN kvs h e with
    | Ret e' => e' = e + lenN kvs /\ contig capN e kvs
    | Fail err => exists pre k v post, kvs = pre ++ (k, v) :: post /\ contig capN e pre /\
         ((k <> e + lenN pre /\ err = OutOfBoundsUpdate k (e + lenN pre)) \/
          (k = e + lenN pre /\ k = capN /\ err = ListFull capN))
    | _ => False
    end.
  Proof.
    intros Hl. induction kvs as [|[k v] kvs IH]; intros e; cbn [bulk_walk].
    { split; [rewrite lenN_nil; lia|apply contig_nil]. }
    destruct (N.eqb_spec k e) as [->|Ne]; cbn [negb].
    2:{ exists [], k, v, kvs. split; [reflexivity|]. split; [apply contig_nil|]. left.
        rewrite lenN_nil, N.add_0_r. auto. }
    unfold validate_push. rewrite Hl. destruct (N.eqb_spec e capN) as [Ec|Ec]; cbn [bind].
    { exists [], e, v, kvs. split; [reflexivity|]. split; [apply contig_nil|]. right.
      rewrite lenN_nil, N.add_0_r. rewrite Ec. auto. }
    specialize (IH (e + 1)). destruct (bulk_walk capN kvs h (e + 1)) as [e'|err|c|?|?|?|?|?]; auto.
    - destruct IH as [-> Hc]. split; [rewrite lenN_cons; lia|now apply contig_cons].
    - destruct IH as (pre & k' & v' & post & -> & Hc & Hcase).
      exists ((e, v) :: pre), k', v', post. split; [reflexivity|]. split; [now apply contig_cons|].
      rewrite lenN_cons. replace (e + N.succ (lenN pre)) with (e + 1 + lenN pre) by lia. exact Hcase.
  Qed.

  (* the overlay of the positions below the backing length *)
  Fixpoint ov (u : U) (l : list T) (i : N) : list T :=
    match l with
    | [] => []
    | x :: r => (match uget M u i with Some v => v | None => x end) :: ov u r (i + 1)
    end.
  Lemma lenN_ov u : forall l i, lenN (ov u l i) = lenN l.
  Proof. induction l as [|x l IH]; intros i; cbn [ov]; auto. now rewrite !lenN_cons, IH. Qed.
  Lemma nthN_ov u : forall l i k, nthN (ov u l i) k =
    match nthN l k with Some x => Some (match uget M u (i + k) with Some v => v | None => x end) | None => None end.
  Proof.
    induction l as [|x l IH]; intros i k; cbn [ov nthN]; auto.
    destruct (N.eqb_spec k 0) as [->|Ek]. { now rewrite N.add_0_r. }
    rewrite IH. replace (i + 1 + N.pred k) with (i + k) by lia. reflexivity.
  Qed.

  Lemma agrees_empty_eq u bl l : (forall k, uget M u k = None) -> agrees M u bl l -> bl = l.
  Proof.
    intros Hn (A1 & A2 & A3 & A4). apply listN_ext. intros k. destruct (N.lt_ge_cases k (lenN bl)) as [L|L].
    - symmetry. auto.
    - assert (nthN bl k = None) as -> by now apply nthN_None.
      symmetry. apply nthN_None. destruct (N.le_gt_cases (lenN l) k) as [L'|L']; auto.
      elim (A4 k L L'). apply Hn.
  Qed.

  Theorem bulk_spec_unclean h u : has_pending M h = true -> iface_bulk_update M capN h u = Fail BulkUpdateUnclean.
  Proof. intros Hp. unfold iface_bulk_update. unfold has_pending in Hp. now rewrite Hp. Qed.

  (* bulk_update on a clean List handle.  Either it succeeds, installing `u` as the pending map, and
     the handle then represents an overlay l' of l by u; or it fails (a `Fail` carries no handle: the
     collection is unchanged) with
       - ListFull N: the keys from len up to and including N are all present (pushes beyond capacity);
       - OutOfBoundsUpdate k x: x is the first position at or after len that is not a key (x <= N),
         and k > x is a key: the least one above x if that is below usize::MAX (the range visited
         by for_each_range), otherwise the largest key of u. *)
  Theorem bulk_spec_gen h l u :
    hinv h l -> hlist h = true -> has_pending M h = false -> uinv u -> max_exact u ->
    match iface_bulk_update M capN h u with
    | Ret h' => h' = with_upd h u /\ exists l', agrees M u l l' /\ hinv h' l'
    | Fail (ListFull c) => c = capN /\ forall j, lenN l <= j -> j <= capN -> has_key M u j
    | Fail (OutOfBoundsUpdate k x) =>
        lenN l <= x /\ x <= capN /\ x < k /\ (forall j, lenN l <= j -> j < x -> has_key M u j) /\
        ~ has_key M u x /\ has_key M u k /\
        (forall j, x < j -> j < N.min k usize_max -> ~ has_key M u j) /\
        (usize_max <= k -> forall j, has_key M u j -> j <= k)
    | _ => False
    end.
  Proof.
    intros Hinv Hl Hp Hu Hmax.
    destruct (has_pending_spec h l Hinv Hp) as [Hshape Hlen].
    pose proof Hinv as ((bl & I1 & I2 & I3 & I4) & I5 & I6 & I7 & I8 & I9).
    assert (forall k, uget M (hupd h) k = None) as Hclean.
    { apply len0_get; auto. unfold has_pending, uis_empty in Hp. now apply negb_false_iff, N.eqb_eq in Hp. }
    pose proof cap_lt_usize as Hcu.
    unfold iface_bulk_update. unfold has_pending in Hp. rewrite Hp.
    destruct (umax_index M u) as [m|] eqn:Em.
    2:{ (* empty update map *)
      split; [reflexivity|]. pose proof (max_none_get u Hu Em) as Hn.
      assert (agrees M u l l) as Hag.
      { repeat split; auto; try lia. intros k v. rewrite Hn. discriminate. }
      exists l. split; [exact Hag|]. apply (hinv_with_upd h l); auto.
      - intros bl' _ Hag'. now rewrite (agrees_empty_eq _ _ _ Hclean Hag').
      - unfold updated_length. now rewrite Em.
      - intros Hv. now apply I8. }
    pose proof (ul_range_sorted _ _ _ UL u (hblen h) usize_max Hu) as Hsorted.
    pose proof (fun k v => ul_range_in _ _ _ UL u (hblen h) usize_max k v Hu) as Hin.
    pose proof (bulk_walk_spec h Hl (urange M u (hblen h) usize_max) (hblen h)) as Hw.
    unfold max_exact in Hmax. rewrite Em in Hmax. cbn [is_max] in Hmax. destruct Hmax as [Hm1 Hm2].
    assert (forall j, has_key M u j -> j <= m) as Hall.
    { intros j Hj. destruct (N.le_gt_cases j m) as [L|L]; auto. elim Hj. now apply Hm2. }
    rewrite <- Hlen in *.
    remember (urange M u (lenN l) usize_max) as r eqn:Er. clear Er.
    assert (forall k v, In (k, v) r -> has_key M u k) as Hin_key.
    { intros k v Hk. apply Hin in Hk. unfold has_key. destruct Hk as (_ & _ & ->). discriminate. }
    assert (forall k, has_key M u k -> lenN l <= k -> k < usize_max -> exists v, In (k, v) r) as Hkey_in.
    { intros k Hk Hk1 Hk2. unfold has_key in Hk. destruct (uget M u k) as [v|] eqn:E; [|contradiction].
      exists v. apply Hin. auto. }
    destruct (bulk_walk capN r h (lenN l)) as [e'|err|c|?|?|?|?|?]; try contradiction; cbn [bind].
    - (* the walk succeeded *)
      destruct Hw as [He' Hc].
      pose proof (contig_le _ _ _ Hc I7) as Hcap. rewrite <- He' in Hcap.
      assert (forall j, lenN l <= j -> j < e' -> has_key M u j) as Hkeys.
      { intros j Hj1 Hj2. rewrite He' in Hj2. destruct (contig_has _ _ _ Hc j Hj1 Hj2) as [w Hw]. eauto. }
      assert (~ has_key M u e') as Hne'.
      { intros Hk. destruct (Hkey_in e' Hk) as [w Hw]; try lia. apply (contig_in _ _ _ Hc) in Hw. lia. }
      destruct ((lenN l <=? m) && (e' <=? m)) eqn:Etest.
      + (* a key at or beyond usize::MAX *)
        apply andb_true_iff in Etest. destruct Etest as [Et1 Et2]. apply N.leb_le in Et1, Et2.
        assert (e' <> m) as Hneq by (intros ->; contradiction).
        split; [lia|]. split; [exact Hcap|]. split; [lia|]. split; [exact Hkeys|]. split; [exact Hne'|].
        split; [exact Hm1|]. split.
        * intros j Hj1 Hj2 Hk. destruct (Hkey_in j Hk) as [w Hw]; try lia. apply (contig_in _ _ _ Hc) in Hw. lia.
        * intros _. exact Hall.
      + (* success *)
        split; [reflexivity|]. apply andb_false_iff in Etest.
        assert (forall j, has_key M u j -> j < e') as Hbelow.
        { intros j Hj. apply Hall in Hj. destruct Etest as [Et|Et]; apply N.leb_gt in Et; lia. }
        assert (N.max (m + 1) (lenN l) = e') as Hul.
        { pose proof (Hbelow m Hm1) as Hlt. destruct (N.lt_ge_cases m (lenN l)) as [L|L].
          - destruct (N.eq_dec e' (lenN l)) as [->|Ne]; [lia|].
            assert (has_key M u (lenN l)) as Hk by (apply Hkeys; lia). apply Hall in Hk. lia.
          - assert (has_key M u (e' - 1)) as Hk by (apply Hkeys; lia). apply Hall in Hk. lia. }
        set (l' := ov u l 0 ++ map snd r).
        assert (lenN l' = e') as Hl'.
        { unfold l'. rewrite lenN_app, lenN_ov. unfold lenN at 2. rewrite map_length. fold (lenN r). lia. }
        assert (agrees M u l l') as Hag.
        { split; [lia|]. split; [|split].
          - intros k v Hk. assert (has_key M u k) as Hhk by (unfold has_key; rewrite Hk; discriminate).
            pose proof (Hbelow k Hhk) as Hlt. unfold l'.
            destruct (N.lt_ge_cases k (lenN l)) as [L|L].
            + rewrite nthN_app_l by (now rewrite lenN_ov). rewrite nthN_ov, N.add_0_l, Hk.
              destruct (nthN l k) eqn:E; [reflexivity|]. apply nthN_None in E. lia.
            + rewrite nthN_app_r by (now rewrite lenN_ov). rewrite lenN_ov, nthN_map.
              assert (In (k, v) r) as Hr by (apply Hin; repeat split; auto; lia).
              apply In_nthN in Hr. destruct Hr as [n Hn]. destruct (Hc _ _ _ Hn) as [Ek _].
              replace (k - lenN l) with n by lia. now rewrite Hn.
          - intros k Hk Hlt. unfold l'. rewrite nthN_app_l by (now rewrite lenN_ov).
            rewrite nthN_ov, N.add_0_l, Hk. now destruct (nthN l k).
          - intros k Hk1 Hk2. apply Hkeys; lia. }
        exists l'. split; [exact Hag|]. apply (hinv_with_upd h l); auto.
        * intros bl' _ Hag'. now rewrite (agrees_empty_eq _ _ _ Hclean Hag').
        * unfold updated_length. rewrite Em, Hl', <- Hlen. exact Hul.
        * lia.
        * rewrite Hl. discriminate.
    - (* the walk failed *)
      destruct Hw as (pre & k & v & post & -> & Hc & Hcase).
      destruct (sorted_app_mid _ _ _ _ Hsorted) as [Hpre Hpost].
      assert (In (k, v) (pre ++ (k, v) :: post)) as Hkin by (apply in_or_app; right; now left).
      pose proof (Hin_key _ _ Hkin) as Hkk. apply Hin in Hkin. destruct Hkin as (Hk1 & Hk2 & Hk3).
      pose proof (contig_le _ _ _ Hc I7) as Hcap.
      assert (forall j, lenN l <= j -> j < lenN l + lenN pre -> has_key M u j /\ j < k) as Hkeys.
      { intros j Hj1 Hj2. destruct (contig_has _ _ _ Hc j Hj1 Hj2) as [w Hw]. split.
        - apply (Hin_key j w). apply in_or_app. now left.
        - apply Hpre in Hw. exact Hw. }
      assert (lenN l + lenN pre <= k) as Hxk.
      { destruct (N.le_gt_cases (lenN l + lenN pre) k) as [L|L]; auto. destruct (Hkeys k Hk1 L). lia. }
      assert (forall j, has_key M u j -> lenN l + lenN pre <= j -> j < k -> False) as Hgap.
      { intros j Hj Hj1 Hj2. destruct (Hkey_in j Hj) as [w Hw]; try lia.
        apply in_app_or in Hw. destruct Hw as [Hw|[Hw|Hw]].
        - apply (contig_in _ _ _ Hc) in Hw. lia.
        - injection Hw as -> _. lia.
        - apply Hpost in Hw. cbn [fst] in Hw. lia. }
      destruct Hcase as [[Hne ->]|(He & Hkc & ->)].
      + split; [lia|]. split; [exact Hcap|]. split; [lia|]. split; [intros j Hj1 Hj2; now apply Hkeys|].
        split; [intros Hk; apply (Hgap _ Hk); lia|]. split; [exact Hkk|]. split.
        * intros j Hj1 Hj2 Hk. apply (Hgap _ Hk); lia.
        * intros Hc'. lia.
      + split; [reflexivity|]. intros j Hj1 Hj2. destruct (N.eq_dec j k) as [->|Ne]; auto.
        apply Hkeys; lia.
  Qed.

  (* the form asked for: the map is built from a list of pairs by `bulk_map` (later pairs win) *)
  Corollary bulk_spec h l kvs :
    hinv h l -> hlist h = true -> has_pending M h = false ->
    let u := bulk_map M (uempty M) kvs in
    match iface_bulk_update M capN h u with
    | Ret h' => h' = with_upd h u /\ exists l', agrees M u l l' /\ hinv h' l'
    | Fail (ListFull c) => c = capN /\ forall j, lenN l <= j -> j <= capN -> has_key M u j
    | Fail (OutOfBoundsUpdate k x) =>
        lenN l <= x /\ x <= capN /\ x < k /\ (forall j, lenN l <= j -> j < x -> has_key M u j) /\
        ~ has_key M u x /\ has_key M u k /\
        (forall j, x < j -> j < N.min k usize_max -> ~ has_key M u j) /\
        (usize_max <= k -> forall j, has_key M u j -> j <= k)
    | _ => False
    end.
  Proof.
    intros Hinv Hl Hp u. apply bulk_spec_gen; auto.
    - apply bulk_map_inv. apply (ul_empty_inv _ _ _ UL).
    - apply bulk_map_max_exact; [apply (ul_empty_inv _ _ _ UL)|apply max_exact_empty].
  Qed.
End Iface.

(* ---------- `max_exact` cannot be dropped from bulk_spec_gen ---------- *)
(* A MaxMap that received key 1 through an entry (`get_mut_with` on the map itself: `UpdateMap`,
   `MaxMap` and `List::bulk_update` are all public) keeps max_key = 0.  It satisfies the invariant
   of `maxmap_lawful`, `bulk_update` on the empty list accepts it, and the resulting handle reports
   length 1 while position 1 is readable: it represents no list at all. *)
Example bulk_update_needs_max_exact (T : Type) (ek : ekind T) (a b : T) (d : nat) :
  let M := maxmap_impl (@btmap_impl T) in
  let u := uentry_insert M (uinsert M (uempty M) 0 a) 1 b in
  let h := from_parts M (Zero 1%positive d) d 0 in
  maxmap_inv (@btmap_impl T) bt_sorted u /\ habs ek M h [] /\
  iface_bulk_update M 8 h u = Ret (with_upd h u) /\
  iface_len M (with_upd h u) = 1 /\ iface_get ek M (with_upd h u) 1 = Some b /\
  forall l', ~ habs ek M (with_upd h u) l'.
Proof.
  intros M u h. split; [|split; [|split; [|split; [|split]]]].
  - split; [|discriminate]. cbn. repeat constructor.
  - exists []. split; [destruct d; reflexivity|]. split; [reflexivity|]. split; [|reflexivity].
    repeat split; cbn; auto; try lia; try discriminate.
  - reflexivity.
  - reflexivity.
  - reflexivity.
  - intros l' (bl & _ & _ & (_ & A2 & _) & Hlen).
    change (updated_length M (hblen (with_upd h u)) (hupd (with_upd h u))) with 1 in Hlen.
    specialize (A2 1 b eq_refl). assert (1 < lenN l') as Hlt by (apply nthN_Some; now rewrite A2). lia.
Qed.

Print Assumptions iface_get_spec.
Print Assumptions iface_len_spec.
Print Assumptions has_pending_spec.
Print Assumptions get_mut_spec.
Print Assumptions write_entry_spec.
Print Assumptions get_mut_write_spec.
Print Assumptions push_spec_list.
Print Assumptions push_spec_full.
Print Assumptions push_spec_vector.
Print Assumptions bulk_spec_unclean.
Print Assumptions bulk_spec_gen.
Print Assumptions bulk_spec.
Print Assumptions bulk_update_needs_max_exact.
