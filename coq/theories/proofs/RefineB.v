(* RefineB.v — per-operation refinement lemmas (task `refineB`, wave 3): the cases
   OGet OCowRead OLen OIterFrom OLevelIter OEq OSszEnc OSerdeSer OSszList OSszVec OSerdeList OSerdeVec
   ORebaseOn ORebase OIntra OHash OParHash OParMix of the master refinement theorem.
   Proof file; no model code.  Uses RefineBase.v (agent A) for the register file and the wp rules of the
   System combinators.

   Section context (Section RefineB): ek M H capN vec_based uinv valid, EKW : ek_wf ek, UL : umap_lawful ek M uinv,
   CAP : capacity_ok capN, CF : collision_free H, TRI : troot_inj ek, ECO : ek_codec_on ek valid.

   Exported, all of the shape `SysInv st s a -> refines s a o st`:
     refines_OGet refines_OCowRead refines_OLen refines_OIterFrom refines_OLevelIter refines_OEq refines_OSerdeSer
     refines_OSerdeList refines_OSerdeVec refines_ORebaseOn refines_ORebase refines_OIntra refines_OHash
     refines_OParHash refines_OParMix;
   with an extra premise (see below):
     refines_OSszList, refines_OSszVec : valid_bytes b = true -> SysInv st s a -> refines ...
     refines_OSszEnc : SysInv st s a -> (forall x s0, aget a i = Some x -> efixed ek = Some s0 -> Forall valid (a_vals x)) -> refines ...
     refines_OSszEnc_valid : SysInv st s a -> vals_valid valid a -> refines s a (OSszEnc i) st
   all together: step_refines_B : is_opB o = true -> op_wf o -> vals_valid valid a -> SysInv st s a -> refines s a o st.

   Side conditions (Section SpecValid; Spec level only, no model):
     op_wf o      : the byte string of OSszList/OSszVec consists of bytes (model bytes are N; CodecP's strictness
                    theorem needs it, cf. CodecP.dec_strict_var_needs_bytes);
     op_valid o   : every element value the operation may store is `valid`;
     vals_valid a : every value stored in the abstract register file is `valid`
                    (for a fixed-size kind the model's ssz_bytes_len is s0 * len, the specification says
                    lenN (serialize l): they differ for a stored value whose encoding has not the fixed length);
     vals_valid_init, vals_valid_aget, vals_valid_aset,
     spec_ok_vals_valid : collection_op o = true -> op_valid o -> vals_valid a -> spec_ok a o r a' -> vals_valid a'.

   Auxiliary: allocp_wul, allocp_apply_updates, allocp_apply_q, allocp_vector_try_from, allocp_list_serde_de,
   allocp_vector_serde_de, allocp_list_from_ssz, allocp_vector_from_ssz (Section AllocP: these programs only allocate);
   serialize_inj_on (the encoding is injective on valid values), list_from_ssz_full, vector_from_ssz_full (strictness
   AND completeness of the decoders: a handle holding an admissible preimage, or EDecode and no admissible preimage
   exists below the 4-byte-offset limit) — the basis of refines_OSszList / refines_OSszVec against Spec's
   strict-and-complete specification of decoding;
   liter_collect_strong, level_items_elems, level_items_blocks (Section LevelStrong: IterP's items_blocks does not say
   which constructor an item has; the replayed induction does); wp_try_ok (try_ of a program that cannot fail). *)
From Coq Require Import FMapPositive.
From MH Require Import SysInv RefineBase IfaceP IterP CollCtorP CollObsP HashP CodecP RebaseP IntraP WulP BuilderP.
Local Open Scope N_scope.

(* ====================================================================== *)
(* the flush, the conversions and the decoders only allocate                 *)
(* ====================================================================== *)
Section AllocP.
  Context {T U : Type}.
  Variable ek : ekind T.
  Variable M : umap_impl T U.
  Variable capN : N.
  Notation handle := (handle T U).

  Lemma allocp_insert_all : forall kvs vs, allocp (insert_all ek vs kvs).
  Proof.
    induction kvs as [|[k v] r IH]; intros vs; cbn [insert_all]; [exact I|].
    apply allocp_bind; [|intros vs'; apply IH].
    unfold insert_mut. destruct (_ =? _); [exact I|]. destruct (_ <? _); exact I.
  Qed.

  Lemma allocp_wul : forall depth (t : tree T) u prefix, allocp (with_updated_leaves ek M depth t u prefix).
  Proof.
    induction depth as [|nd IH]; intros t u prefix.
    - assert (Hleaf : allocp (v <- lift_opt (uget M u prefix) (LeafUpdateMissing prefix) ;; i <- fresh ;; Ret (Leaf i v))%prog).
      { destruct (uget M u prefix); cbn [lift_opt bind fresh allocp]; auto. }
      assert (Hpk : forall vs, allocp (vs' <- packed_update ek M vs prefix u ;; i <- fresh ;; Ret (Packed i vs'))%prog).
      { intros vs. apply allocp_bind; [apply allocp_insert_all|]. intros vs'. cbn [bind fresh allocp]. auto. }
      destruct t as [j v|j vs|j a b|j z]; cbn [with_updated_leaves]; cbv zeta.
      + exact Hleaf.
      + apply Hpk.
      + exact I.
      + destruct (negb (Nat.eqb z 0)); [exact I|]. destruct (is_packed ek); [apply Hpk|exact Hleaf].
    - assert (Hnode : forall l r : tree T,
        allocp (let right_prefix := N.lor prefix (pow2 (nd + pd_of ek)) in
                let subtree_end := prefix + pow2 (S nd + pd_of ek) in
                let hasl := has_updates M u prefix right_prefix in
                let hasr := has_updates M u right_prefix subtree_end in
                if negb hasl && negb hasr then Fail (NodeUpdatesMissing prefix) else
                (l' <- (if hasl then with_updated_leaves ek M nd l u prefix else Ret l) ;;
                 r' <- (if hasr then with_updated_leaves ek M nd r u right_prefix else Ret r) ;;
                 i <- fresh ;; Ret (Node i l' r'))%prog)).
      { intros l r. cbv zeta. destruct (negb _ && negb _); [exact I|].
        apply allocp_bind; [destruct (has_updates _ _ _ _); [apply IH|exact I]|]. intros l'.
        apply allocp_bind; [destruct (has_updates _ _ _ _); [apply IH|exact I]|]. intros r'.
        cbn [bind fresh allocp]. auto. }
      destruct t as [j v|j vs|j a b|j z]; cbn [with_updated_leaves]; cbv zeta; try exact I.
      + apply Hnode.
      + destruct (negb (Nat.eqb z (S nd))); [exact I|]. cbn [bind fresh allocp]. intros zi. apply Hnode.
  Qed.

  Lemma allocp_apply_updates (h : handle) : allocp (apply_updates ek M capN h).
  Proof.
    unfold apply_updates. destruct (uis_empty M (hupd h)); [exact I|]. cbv zeta.
    destruct (umax_index M (hupd h)) as [m|]; [|exact I].
    destruct (hlist h).
    - destruct (capN <=? m); [exact I|]. apply allocp_bind; [apply allocp_try, allocp_wul|]. intros [e|t]; exact I.
    - destruct (hblen h <=? m); [exact I|]. apply allocp_bind; [apply allocp_try, allocp_wul|]. intros [e|t]; exact I.
  Qed.
  Lemma allocp_apply_q (h : handle) : allocp (apply_q ek M capN h).
  Proof. unfold apply_q. apply allocp_bind; [apply allocp_apply_updates|]. intros [[e|] h']; exact I. Qed.
  Lemma allocp_vector_try_from (h : handle) : allocp (vector_try_from ek M capN h).
  Proof.
    unfold vector_try_from. destruct (iface_len M h =? capN); [|exact I].
    apply allocp_bind; [destruct (negb _); [apply allocp_apply_q|exact I]|]. intros l'. exact I.
  Qed.
  Lemma allocp_list_serde_de vs : allocp (list_serde_de ek M capN vs).
  Proof.
    unfold list_serde_de. apply allocp_bind; [apply allocp_try, allocp_list_try_from_iter|]. intros [e|h]; exact I.
  Qed.
  Lemma allocp_vector_serde_de vs : allocp (vector_serde_de ek M capN vs).
  Proof.
    unfold vector_serde_de. apply allocp_bind; [apply allocp_list_serde_de|]. intros l.
    apply allocp_bind; [apply allocp_try, allocp_vector_try_from|]. intros [e|h]; exact I.
  Qed.
  Lemma allocp_list_from_ssz b : allocp (list_from_ssz ek M capN b).
  Proof.
    unfold list_from_ssz. destruct b as [|x b']; [apply allocp_list_empty|].
    destruct (efixed ek) as [s0|].
    - destruct (s0 =? 0); [exact I|]. cbv zeta. destruct (capN <? _); [exact I|].
      destruct (decode_chunks _ _ _ _) as [vs|]; [|exact I].
      apply allocp_bind; [apply allocp_try, allocp_list_try_from_iter|]. intros [e|h]; exact I.
    - destruct (decode_var_list _ _ _) as [vs|]; [|exact I].
      apply allocp_bind; [apply allocp_try, allocp_list_try_from_iter|]. intros [e|h]; exact I.
  Qed.
  Lemma allocp_vector_from_ssz b : allocp (vector_from_ssz ek M capN b).
  Proof.
    unfold vector_from_ssz. apply allocp_bind; [apply allocp_list_from_ssz|]. intros l.
    apply allocp_bind; [apply allocp_try, allocp_vector_try_from|]. intros [e|h]; exact I.
  Qed.
End AllocP.

(* ====================================================================== *)
(* LevelIter: which constructor every item has (IterP's items_blocks leaves   *)
(* it open), and the resulting list of blocks                                 *)
(* ====================================================================== *)
Section LevelStrong.
  Context {T : Type}.
  Variable ek : ekind T.
  Notation pd := (pd_of ek).
  Definition is_internal (x : level_node T) : Prop :=
    match x with LInternal _ => True | LPackedLeaf _ => False end.

  Section OneTree.
    Variable l : list T.
    Variable t : tree T.
    Variable fd : nat.
    Hypothesis Hroot : shape t = canon ek fd l.
    Hypothesis Hcap : lenN l <= cap ek fd.

    (* replay of IterP.liter_collect_block, keeping only "every item is an Internal node" *)
    Lemma liter_collect_block_int L LL : L = (LL + pd)%nat ->
      forall n i it, i mod pow2 L = 0 -> linv ek l t fd L it i -> (N.to_nat (lenN l - i) < n)%nat ->
      exists items, liter_collect ek n it = Ok items /\ Forall is_internal items.
    Proof.
      intros EL. induction n as [|n IH]; intros i it Hi (st & -> & Hst) Hn; [lia|].
      cbn [liter_collect]. replace (lfull_depth (mkl l fd L st i)) with fd by reflexivity.
      destruct (N.le_gt_cases (lenN l) i) as [Hge|Hlt].
      - rewrite (liter_next_end ek l fd Hcap) by exact Hge. exists []. split; [reflexivity|constructor].
      - destruct (Hst Hlt) as (dd & HLdd & Hok). pose proof Hok as (Hddfd & _).
        destruct (liter_descend ek l t fd Hcap L LL i Hlt (dd - LL) (S fd - (dd - LL)) st) as (st' & Hok' & Enext).
        { intros x Hx. lia. }
        { replace (LL + (dd - LL))%nat with dd by lia. exact Hok. }
        replace (dd - LL + (S fd - (dd - LL)))%nat with (S fd) in Enext by lia. rewrite Enext.
        destruct (liter_at_level ek l t fd Hcap L LL i st' (S fd - (dd - LL)) EL Hlt Hok')
          as (u & rest & Est' & Hsh & Hsub & Enext').
        rewrite Enext'. pose proof (pow2_pos L) as HpL.
        destruct (IH (i + pow2 L) (mkl l fd L (pop_n (S (tz (i + pow2 L)) - L) st') (i + pow2 L)))
          as (items & Ecol & Hint).
        + now apply (aligned_next ek l fd Hcap).
        + eexists. split; [reflexivity|]. intros Hlt'. exists (S (tz (i + pow2 L)) - pd)%nat.
          pose proof (tz_ge_level i L Hi) as Hge. split; [lia|].
          rewrite EL at 2. apply (stack_ok_step ek l t fd Hcap); auto. lia.
        + lia.
        + rewrite Ecol. exists (LInternal u :: items). split; [reflexivity|]. constructor; [exact I|exact Hint].
    Qed.

    (* IterP.liter_collect_spec_l plus the constructor information *)
    Lemma liter_collect_strong n : n <= lenN l ->
      exists items,
        liter_collect ek (S (S (N.to_nat (lenN l)))) (liter_from_index ek n t fd (lenN l)) = Ok items /\
        items_blocks ek (compute_level n fd pd) items (dropN n l) /\
        (if Nat.eqb (compute_level n fd pd) 0 && Nat.ltb 0 pd then internal_nodes items = []
         else Forall is_internal items /\ (pd <= compute_level n fd pd)%nat).
    Proof.
      intros Hn. destruct (compute_level_facts ek l fd Hcap n Hn) as (Hal & Hcases & Hle).
      change (liter_from_index ek n t fd (lenN l)) with (mkl l fd (compute_level n fd pd) [t] n).
      remember (compute_level n fd pd) as L eqn:EL. clear EL.
      assert (Hinv: linv ek l t fd L (mkl l fd L [t] n) n).
      { exists [t]. split; [reflexivity|]. intros Hlt. exists fd. split; [auto|]. apply (stack_ok_root ek l t fd Hroot Hcap). lia. }
      assert (Hblock : forall LL, L = (LL + pd)%nat ->
        exists items, liter_collect ek (S (S (N.to_nat (lenN l)))) (mkl l fd L [t] n) = Ok items /\
          items_blocks ek L items (dropN n l) /\ Forall is_internal items).
      { intros LL ELL.
        destruct (liter_collect_block ek l t fd Hcap L LL ELL (S (S (N.to_nat (lenN l)))) n _ Hal Hinv ltac:(lia))
          as (items & E1 & E2 & _).
        destruct (liter_collect_block_int L LL ELL (S (S (N.to_nat (lenN l)))) n _ Hal Hinv ltac:(lia))
          as (items' & E1' & E2').
        rewrite E1 in E1'. injection E1' as <-. exists items. auto. }
      destruct L as [|L'].
      - destruct (Nat.eq_dec pd 0) as [Hpd0|Hpd].
        + destruct (Hblock 0%nat ltac:(lia)) as (items & E1 & E2 & E3). exists items.
          split; [exact E1|]. split; [exact E2|]. rewrite Hpd0. cbn [Nat.eqb Nat.ltb Nat.leb andb]. split; [exact E3|lia].
        + destruct (liter_collect_elem ek l t fd Hcap ltac:(lia) (S (S (N.to_nat (lenN l)))) n _ Hinv ltac:(lia))
            as (items & E1 & E2 & E3).
          exists items. split; [exact E1|]. split; [exact E2|].
          destruct (Nat.ltb_spec 0 pd) as [_|Hx]; [|lia]. cbn [Nat.eqb andb]. exact E3.
      - destruct (Hblock (S L' - pd)%nat ltac:(lia)) as (items & E1 & E2 & E3). exists items.
        split; [exact E1|]. split; [exact E2|]. cbn [Nat.eqb andb]. split; [exact E3|lia].
    Qed.
  End OneTree.

  Lemma items_blocks_nil L items : items_blocks ek L items [] -> items = [].
  Proof.
    intros IB. remember (@nil T) as r eqn:Er.
    destruct IB as [|u blk items' rest Hne Hsh Hlen IB'|v items' rest HL Hp IB'].
    - reflexivity.
    - destruct blk; [congruence|discriminate].
    - discriminate.
  Qed.

  Lemma chunks_nil f c : @Spec.chunks T f c [] = [].
  Proof. destruct f; reflexivity. Qed.

  (* element mode *)
  Lemma level_items_elems : forall items rest, items_blocks ek 0 items rest -> internal_nodes items = [] ->
    map level_item items = map (fun v => (false, [v])) rest.
  Proof.
    intros items rest IB. induction IB as [|u blk items rest Hne Hsh Hlen IB IH|v items rest HL Hp IB IH]; intros Hin.
    - reflexivity.
    - cbn [internal_nodes flat_map app] in Hin. discriminate.
    - cbn [map level_item]. f_equal. apply IH. exact Hin.
  Qed.

  (* block mode *)
  Lemma level_items_blocks L : (pd <= L)%nat -> forall items rest, items_blocks ek L items rest ->
    Forall is_internal items -> forall f, (length rest < f)%nat ->
    map level_item items = map (fun b => (true, b)) (Spec.chunks f (pow2 L) rest).
  Proof.
    intros HL items rest IB. induction IB as [|u blk items rest Hne Hsh Hlen IB IH|v items rest HL0 Hp IB IH]; intros Hint f Hf.
    - rewrite chunks_nil. reflexivity.
    - destruct f as [|f]; [lia|]. cbn [Spec.chunks].
      assert (Eel : elems u = blk).
      { unfold elems. rewrite Hsh. apply (selems_canon ek). unfold cap.
        replace (L - pd + pd)%nat with L by lia. destruct Hlen as [E|[_ E]]; lia. }
      assert (Hlenf : (length rest < f)%nat).
      { rewrite app_length in Hf. destruct blk; [congruence|cbn [length] in Hf; lia]. }
      clear Hf.
      destruct (blk ++ rest) as [|x0 r0] eqn:Eapp; [apply app_eq_nil in Eapp; destruct Eapp; congruence|].
      rewrite <- Eapp. clear Eapp x0 r0.
      cbn [map level_item]. rewrite Eel. inversion Hint as [|x y Hx Hy]; subst x y.
      destruct Hlen as [E|[E1 E2]].
      + replace (takeN (pow2 L) (blk ++ rest)) with blk by (rewrite <- E; symmetry; apply takeN_app_exact).
        replace (dropN (pow2 L) (blk ++ rest)) with rest by (rewrite <- E; symmetry; apply dropN_app_exact).
        cbn [map]. f_equal. apply IH; assumption.
      + subst rest. rewrite app_nil_r, takeN_all, dropN_all, chunks_nil by exact E2.
        rewrite (items_blocks_nil L items IB). reflexivity.
    - inversion Hint as [|x y Hx Hy]. contradiction.
  Qed.
End LevelStrong.

(* ====================================================================== *)
(* side conditions on operations, and a Spec-level invariant: all stored      *)
(* values are `valid` (needed by OSszEnc for fixed-size kinds). No model here.  *)
(* ====================================================================== *)
Section SpecValid.
  Context {T : Type}.
  Variable ek : ekind T.
  Variable H : digest -> digest -> digest.
  Variable capN : N.
  Variable vec_based : bool.
  Variable valid : T -> Prop.
  Notation op := (@op T).
  Notation res := (@res T).
  Notation aval := (@aval T).
  Notation sregs := (@sregs T).
  Notation spec_ok := (spec_ok ek H capN vec_based valid).

  (* model bytes are numbers; the Rust harness only ever supplies u8 *)
  Definition op_wf (o : op) : Prop :=
    match o with OSszList _ b | OSszVec _ b => valid_bytes b = true | _ => True end.

  (* every element value that the operation may store is a well-formed value *)
  Definition op_valid (o : op) : Prop :=
    match o with
    | ONewList _ vs | ONewVec _ vs | OListSlow _ vs | OVecIter _ vs | OSerdeList _ vs | OSerdeVec _ vs => Forall valid vs
    | ORepeat _ v _ | ORepeatSlow _ v _ | OFromElem _ v => valid v
    | ODefaultVec _ => valid (edefault ek)
    | OSet _ _ v | OCowInto _ _ v | OCowMake _ _ v | OPush _ v => valid v
    | OCowMake2 _ _ _ w => valid w
    | OIterCow _ items => Forall (fun it => match it with Some v => valid v | None => True end) items
    | OBulk _ kvs => Forall (fun kv => valid (snd kv)) kvs
    | _ => True
    end.

  (* the operations whose refinement is proved in this file *)
  Definition is_opB (o : op) : bool :=
    match o with
    | OGet _ _ | OCowRead _ _ | OLen _ | OIterFrom _ _ | OLevelIter _ _ | OEq _ _ | OSszEnc _ | OSerdeSer _
    | OSszList _ _ | OSszVec _ _ | OSerdeList _ _ | OSerdeVec _ _ | ORebaseOn _ _ | ORebase _ _ _ | OIntra _
    | OHash _ | OParHash _ _ | OParMix _ _ => true
    | _ => false
    end.

  Definition reg_valid (ao : option aval) : Prop :=
    match ao with Some x => Forall valid (a_vals x) | None => True end.
  Definition vals_valid (a : sregs) : Prop := Forall reg_valid a.

  Lemma vals_valid_init : vals_valid init_sregs.
  Proof. unfold vals_valid, init_sregs. apply Forall_forall. intros x Hx. apply repeat_spec in Hx. subst x. exact I. Qed.

  Lemma vals_valid_aget (a : sregs) i x : vals_valid a -> aget a i = Some x -> Forall valid (a_vals x).
  Proof.
    intros V E. unfold aget in E. destruct (nth_error a i) as [[y|]|] eqn:En; try discriminate. injection E as ->.
    apply nth_error_In in En. apply (proj1 (Forall_forall _ _) V _ En).
  Qed.

  Lemma Forall_set_nth {A} (P : A -> Prop) : forall (l : list A) i x, Forall P l -> P x -> Forall P (set_nth l i x).
  Proof.
    induction l as [|y l IH]; intros [|i] x F Px; cbn [set_nth]; auto; inversion F; subst; constructor; auto.
  Qed.
  Lemma vals_valid_aset (a : sregs) i xo : vals_valid a -> reg_valid xo -> vals_valid (aset a i xo).
  Proof. intros V R. unfold aset. apply Forall_set_nth; assumption. Qed.

  (* ---------- Forall over the list functions of the specification ---------- *)
  Lemma Forall_nthN (P : T -> Prop) l : Forall P l <-> forall k v, nthN l k = Some v -> P v.
  Proof.
    split.
    - intros F k v E. rewrite nthN_nth_error in E. apply nth_error_In in E. apply (proj1 (Forall_forall _ _) F _ E).
    - intros Hk. apply Forall_forall. intros v Hv. apply In_nth_error in Hv. destruct Hv as [n En].
      apply (Hk (N.of_nat n) v). rewrite nthN_nth_error, Nat2N.id. exact En.
  Qed.
  Lemma Forall_setN (P : T -> Prop) l i v : Forall P l -> P v -> Forall P (setN l i v).
  Proof.
    intros F Pv. apply Forall_nthN. intros k w E. rewrite nthN_setN in E.
    destruct ((k =? i) && (i <? lenN l)); [injection E as <-; exact Pv|]. eapply Forall_nthN; eauto.
  Qed.
  Lemma Forall_dropN (P : T -> Prop) l n : Forall P l -> Forall P (dropN n l).
  Proof. intros F. apply Forall_nthN. intros k w E. rewrite nthN_dropN in E. eapply Forall_nthN; eauto. Qed.
  Lemma Forall_repeatN (P : T -> Prop) v n : P v -> Forall P (repeatN v n).
  Proof. intros Pv. rewrite repeatN_spec. apply Forall_forall. intros x Hx. apply repeat_spec in Hx. subst x. exact Pv. Qed.

  Lemma iter_cow_vals_valid : forall items vs j,
    Forall (fun it => match it with Some v => valid v | None => True end) items -> Forall valid vs ->
    Forall valid (iter_cow_vals items vs j).
  Proof.
    induction items as [|it r IH]; intros vs j F V; cbn [iter_cow_vals]; [exact V|].
    inversion F as [|x y Hx Hy]; subst. apply IH; [exact Hy|].
    destruct it as [v|]; [|exact V]. destruct (j <? lenN vs); [apply Forall_setN; assumption|exact V].
  Qed.

  Lemma kv_get_In : forall (kvs : list (N * T)) (k : N) (v : T), kv_get kvs k = Some v -> exists j, In (j, v) kvs.
  Proof.
    induction kvs as [|[j w] r IH]; intros k v E; cbn [kv_get] in E; [discriminate|].
    destruct (kv_get r k) as [w'|] eqn:Er.
    - injection E as <-. destruct (IH k w' Er) as [j' Hj]. exists j'. right. exact Hj.
    - destruct (j =? k); [|discriminate]. injection E as <-. exists j. left. reflexivity.
  Qed.
  Lemma overlay_valid (kvs : list (N * T)) (l l' : list T) : overlay kvs l l' -> Forall (fun kv => valid (snd kv)) kvs -> Forall valid l -> Forall valid l'.
  Proof.
    intros (Hle & Hget & Hnone & Hkey) Fk Fl. apply Forall_nthN. intros k v E.
    destruct (kv_get kvs k) as [w|] eqn:Eg.
    - rewrite (Hget k w Eg) in E. injection E as <-. destruct (kv_get_In kvs k w Eg) as [j Hj].
      apply (proj1 (Forall_forall _ _) Fk _ Hj).
    - destruct (N.lt_ge_cases k (lenN l)) as [Hlt|Hge].
      + rewrite (Hnone k Eg Hlt) in E. eapply Forall_nthN; eauto.
      + exfalso. assert (Hk : k < lenN l') by (apply nthN_Some; congruence). apply (Hkey k Hge Hk). exact Eg.
  Qed.

  (* ---------- the combinators of the specification ---------- *)
  Lemma bad_valid (a : sregs) (r : res) a' : vals_valid a -> Spec.bad a r a' -> vals_valid a'.
  Proof. intros V [_ ->]. exact V. Qed.
  Lemma ctor_valid (a : sregs) d ok e (r : res) a' : vals_valid a -> reg_valid ok -> ctor a d ok e r a' -> vals_valid a'.
  Proof.
    intros V Rk C. unfold ctor in C. destruct (nregs <=? d)%nat; [eapply bad_valid; eauto|].
    destruct ok as [x|]; destruct C as [_ ->]; [apply vals_valid_aset; assumption|exact V].
  Qed.
  Lemma with_reg_valid (a : sregs) i (k : aval -> Prop) (r : res) a' : vals_valid a ->
    (forall x, aget a i = Some x -> Forall valid (a_vals x) -> k x -> vals_valid a') ->
    Spec.with_reg a i k r a' -> vals_valid a'.
  Proof.
    intros V K W. unfold Spec.with_reg in W. destruct (aget a i) as [x|] eqn:E.
    - apply (K x); auto. eapply vals_valid_aget; eauto.
    - eapply bad_valid; eauto.
  Qed.
  Lemma with_list_valid (a : sregs) i (k : aval -> Prop) (r : res) a' : vals_valid a ->
    (forall x, aget a i = Some x -> Forall valid (a_vals x) -> k x -> vals_valid a') ->
    Spec.with_list a i k r a' -> vals_valid a'.
  Proof.
    intros V K W. unfold Spec.with_list in W. eapply with_reg_valid; [exact V| |exact W].
    intros x E Fx Hx. cbn beta in Hx. destruct (a_list x); [eapply K; eauto|eapply bad_valid; eauto].
  Qed.
  Lemma write_spec_valid (a : sregs) i idx v (r : res) a' : vals_valid a -> valid v -> write_spec a i idx v r a' -> vals_valid a'.
  Proof.
    intros V Pv W. unfold write_spec in W. eapply with_reg_valid; [exact V| |exact W].
    intros x E Fx Hx. cbn beta in Hx. destruct (idx <? Spec.len x); destruct Hx as [_ ->]; [|exact V].
    apply vals_valid_aset; [exact V|]. cbn [reg_valid mk a_vals]. apply Forall_setN; assumption.
  Qed.

  Ltac same := match goal with
    | V : vals_valid ?a |- vals_valid ?a => exact V
    | V : vals_valid ?a, E : ?a' = ?a |- vals_valid ?a' => rewrite E; exact V
    end.

  (* the specification never stores anything but the given values and the values already stored *)
  Theorem spec_ok_vals_valid (a : sregs) (o : op) (r : res) (a' : sregs) :
    collection_op o = true -> op_valid o -> vals_valid a -> spec_ok a o r a' -> vals_valid a'.
  Proof.
    intros Hc Ho V S. destruct o; cbn [collection_op] in Hc; try discriminate Hc; cbn [Spec.spec_ok op_valid] in S, Ho.
    - (* ONewList *) eapply ctor_valid; [exact V| |exact S]. destruct (_ <=? _); [exact Ho|exact I].
    - (* ONewVec *) eapply ctor_valid; [exact V| |exact S]. destruct (_ =? _); [exact Ho|exact I].
    - (* OListSlow *) eapply ctor_valid; [exact V| |exact S]. destruct (_ <=? _); [exact Ho|exact I].
    - (* OVecIter *) eapply ctor_valid; [exact V| |exact S]. destruct (_ =? _); [exact Ho|exact I].
    - (* OEmpty *) eapply ctor_valid; [exact V| |exact S]. constructor.
    - (* ORepeat *) eapply ctor_valid; [exact V| |exact S]. destruct (_ <=? _); [apply Forall_repeatN; exact Ho|exact I].
    - (* ORepeatSlow *) eapply ctor_valid; [exact V| |exact S]. destruct (_ <=? _); [apply Forall_repeatN; exact Ho|exact I].
    - (* OFromElem *) eapply ctor_valid; [exact V| |exact S]. apply Forall_repeatN; exact Ho.
    - (* ODefaultVec *) eapply ctor_valid; [exact V| |exact S]. apply Forall_repeatN; exact Ho.
    - (* OSszList *) destruct (nregs <=? d)%nat; [eapply bad_valid; eauto|].
      destruct S as [[(l & _ & Fl & _ & _ & ->)|[_ ->]] _]; [apply vals_valid_aset; assumption|exact V].
    - (* OSszVec *) destruct (nregs <=? d)%nat; [eapply bad_valid; eauto|].
      destruct S as [[(l & _ & Fl & _ & _ & ->)|[_ ->]] _]; [apply vals_valid_aset; assumption|exact V].
    - (* OSerdeList *) eapply ctor_valid; [exact V| |exact S]. destruct (_ <=? _); [exact Ho|exact I].
    - (* OSerdeVec *) eapply ctor_valid; [exact V| |exact S]. destruct (_ =? _); [exact Ho|exact I].
    - (* OGet *) eapply with_reg_valid; [exact V| |exact S]. intros x E Fx [_ ->]. exact V.
    - (* OLen *) eapply with_reg_valid; [exact V| |exact S]. intros x E Fx [_ ->]. exact V.
    - (* OIterFrom *) eapply with_reg_valid; [exact V| |exact S]. intros x E Fx [-> _]. exact V.
    - (* OLevelIter *) eapply with_list_valid; [exact V| |exact S]. intros x E Fx [-> _]. exact V.
    - (* OEq *) eapply with_reg_valid; [exact V| |exact S]. intros x E Fx S2.
      eapply with_reg_valid; [exact V| |exact S2]. intros y E' Fy S3. cbn beta in S3.
      destruct (Bool.eqb _ _); [destruct S3 as [-> _]; exact V|eapply bad_valid; eauto].
    - (* OSszEnc *) eapply with_reg_valid; [exact V| |exact S]. intros x E Fx [_ ->]. exact V.
    - (* OSerdeSer *) eapply with_reg_valid; [exact V| |exact S]. intros x E Fx [_ ->]. exact V.
    - (* OSet *) eapply write_spec_valid; eauto.
    - (* OTouch *) eapply with_reg_valid; [exact V| |exact S]. intros x E Fx Hx. cbn beta in Hx.
      destruct (_ <? _); destruct Hx as [_ ->]; [|exact V]. apply vals_valid_aset; [exact V|exact Fx].
    - (* OCowRead *) eapply with_reg_valid; [exact V| |exact S]. intros x E Fx [_ ->]. exact V.
    - (* OCowInto *) eapply write_spec_valid; eauto.
    - (* OCowMake *) eapply write_spec_valid; eauto.
    - (* OCowMake2 *) eapply write_spec_valid; eauto.
    - (* OIterCow *) eapply with_list_valid; [exact V| |exact S]. intros x E Fx [_ ->].
      apply vals_valid_aset; [exact V|]. cbn [reg_valid mk a_vals]. apply iter_cow_vals_valid; assumption.
    - (* OPush *) eapply with_list_valid; [exact V| |exact S]. intros x E Fx Hx. cbn beta in Hx.
      destruct (_ =? _); destruct Hx as [_ ->]; [exact V|].
      apply vals_valid_aset; [exact V|]. cbn [reg_valid mk a_vals]. apply Forall_app. split; [exact Fx|constructor; [exact Ho|constructor]].
    - (* OBulk *) eapply with_list_valid; [exact V| |exact S]. intros x E Fx Hx. cbn beta zeta in Hx.
      destruct (vec_based && _); [eapply bad_valid; eauto|].
      destruct (a_pend x); [destruct Hx as [_ ->]; exact V|].
      destruct Hx as [(l' & Ov & _ & _ & ->)|[(_ & -> & _)|(k & x0 & _ & -> & _)]]; try exact V.
      apply vals_valid_aset; [exact V|]. cbn [reg_valid mk a_vals]. eapply overlay_valid; eauto.
    - (* OApply *) eapply with_reg_valid; [exact V| |exact S]. intros x E Fx [_ ->].
      apply vals_valid_aset; [exact V|exact Fx].
    - (* OPopFront *) eapply with_list_valid; [exact V| |exact S]. intros x E Fx Hx. cbn beta in Hx.
      destruct (_ <? _); destruct Hx as [_ ->]; (apply vals_valid_aset; [exact V|]); [exact Fx|].
      cbn [reg_valid clean_list mk a_vals]. apply Forall_dropN. exact Fx.
    - (* OPopFrontSlow *) eapply with_list_valid; [exact V| |exact S]. intros x E Fx Hx. cbn beta in Hx.
      destruct (_ <? _); destruct Hx as [_ ->]; [exact V|]. apply vals_valid_aset; [exact V|].
      cbn [reg_valid clean_list mk a_vals]. apply Forall_dropN. exact Fx.
    - (* OClone *) destruct (nregs <=? b)%nat; [eapply bad_valid; eauto|].
      eapply with_reg_valid; [exact V| |exact S]. intros x E Fx [_ ->]. apply vals_valid_aset; [exact V|exact Fx].
    - (* OToVector *) destruct (nregs <=? b)%nat; [eapply bad_valid; eauto|].
      eapply with_list_valid; [exact V| |exact S]. intros x E Fx Hx. cbn beta in Hx.
      destruct (_ =? _); destruct Hx as [_ ->]; [|exact V]. apply vals_valid_aset; [exact V|exact Fx].
    - (* OToList *) destruct (nregs <=? b)%nat; [eapply bad_valid; eauto|].
      eapply with_reg_valid; [exact V| |exact S]. intros x E Fx Hx. cbn beta in Hx.
      destruct (a_list x); [eapply bad_valid; eauto|]. destruct Hx as [_ ->]. apply vals_valid_aset; [exact V|exact Fx].
    - (* ORebaseOn *) eapply with_reg_valid; [exact V| |exact S]. intros x E Fx S2.
      eapply with_reg_valid; [exact V| |exact S2]. intros y E' Fy S3. cbn beta in S3.
      destruct (Bool.eqb _ _); [destruct S3 as [_ ->]; exact V|eapply bad_valid; eauto].
    - (* ORebase *) destruct (nregs <=? c)%nat; [eapply bad_valid; eauto|].
      eapply with_reg_valid; [exact V| |exact S]. intros x E Fx S2.
      eapply with_reg_valid; [exact V| |exact S2]. intros y E' Fy S3. cbn beta in S3.
      destruct (Bool.eqb _ _); [destruct S3 as [_ ->]; apply vals_valid_aset; [exact V|exact Fx]|eapply bad_valid; eauto].
    - (* OIntra *) eapply with_reg_valid; [exact V| |exact S]. intros x E Fx [_ ->].
      apply vals_valid_aset; [exact V|exact Fx].
    - (* OHash *) eapply with_reg_valid; [exact V| |exact S]. intros x E Fx [-> _]. exact V.
    - (* ODrop *) eapply with_reg_valid; [exact V| |exact S]. intros x E Fx [_ ->]. apply vals_valid_aset; [exact V|exact I].
    - (* OParHash *) eapply with_reg_valid; [exact V| |exact S]. intros x E Fx [-> _]. exact V.
    - (* OParMix *) eapply with_reg_valid; [exact V| |exact S]. intros x E Fx [-> _]. exact V.
  Qed.
End SpecValid.

(* `try_` of a program that cannot fail (failures inside Par branches are not caught by `try_`, so this is
   the rule for programs with SetMemo/Par, e.g. rebase_on) *)
Lemma wp_try_ok {A} R (m : prog A) : forall (Q : outcome (error + A) -> state -> Prop) s,
  wp R m (fun o s' => match o with Ok a => Q (Ok (inr a)) s' | _ => False end) s -> wp R (try_ m) Q s.
Proof.
  induction m as [A a|A e|A c|A k IH|A i k IH|A i d k IH|A p IHp q IHq k IHk|A t k IH]; cbn [wp try_]; intros Q s W.
  - exact W.
  - contradiction.
  - contradiction.
  - apply IH; exact W.
  - intros d0 Hd. apply IH. apply W; exact Hd.
  - apply IH; exact W.
  - eapply wp_mono; [|exact W]. intros [a|e|c] s1; cbn beta iota; try contradiction.
    intros Wq. eapply wp_mono; [|exact Wq]. intros [b|e|c] s2; cbn beta iota; try contradiction.
    intros Wk. apply IHk. exact Wk.
  - apply IH; exact W.
Qed.

Section RefineB.
  Context {T U : Type}.
  Variable ek : ekind T.
  Variable M : umap_impl T U.
  Variable H : digest -> digest -> digest.
  Variable capN : N.
  Variable vec_based : bool.
  Variable uinv : U -> Prop.
  Variable valid : T -> Prop.
  Hypothesis EKW : ek_wf ek.
  Hypothesis UL : umap_lawful ek M uinv.
  Hypothesis CAP : capacity_ok capN.
  Hypothesis CF : collision_free H.
  Hypothesis TRI : troot_inj ek.
  Hypothesis ECO : ek_codec_on ek valid.
  Notation tree := (tree T).
  Notation handle := (handle T U).
  Notation sys := (@sys T U).
  Notation op := (@op T).
  Notation res := (@res T).
  Notation hinv := (hinv ek M capN uinv).
  Notation hclean := (hclean ek M capN uinv).
  Notation gok := (gok ek H).
  Notation SysInv := (SysInv ek M H capN uinv).
  Notation refines := (refines ek M H capN vec_based uinv valid).
  Notation spec_ok := (spec_ok ek H capN vec_based valid).
  Notation reg_rel := (reg_rel ek M capN uinv).
  Notation step := (step ek M H capN vec_based).

  Lemma NZ : nonzero_hash H.
  Proof. exact (proj2 CF). Qed.

  (* ---------- the handle-level facts of the earlier waves, in this section's context ---------- *)
  Lemma o_get (h : handle) l i : hinv h l -> iface_get ek M h i = nthN l i.
  Proof. eapply obs_get; eassumption. Qed.
  Lemma o_len (h : handle) l : hinv h l -> iface_len M h = lenN l.
  Proof. eapply obs_len; eassumption. Qed.
  Lemma o_to_vec (h : handle) l : hinv h l -> to_vec ek M h = Ret l.
  Proof. eapply obs_to_vec; eassumption. Qed.
  Lemma o_iter_from (h : handle) l i : hinv h l ->
    coll_iter_from ek M h i =
      if lenN l <? i then Fail (OutOfBoundsIterFrom i (lenN l)) else Ret (dropN i l, hints_from (lenN l - i)).
  Proof. eapply obs_iter_from; eassumption. Qed.

  Notation rpost := (rpost ek M H capN uinv).
  Notation hpost := (hpost ek M H capN uinv).

  (* ====================================================================== *)
  (* reads                                                                    *)
  (* ====================================================================== *)
  Theorem refines_OGet (st : state) (s : sys) (a : sregs) (i : nat) (idx : N) :
    SysInv st s a -> refines s a (OGet i idx) st.
  Proof.
    intros SI. rewrite refines_rpost. cbn [System.step Spec.spec_ok].
    eapply wp_with_reg; [exact SI|]. intros h l Er HI Ea Hin. cbn beta.
    eapply wp_ret_same; [exact SI|]. cbn [abs_of a_vals]. rewrite (o_get h l idx HI). auto.
  Qed.

  Theorem refines_OCowRead (st : state) (s : sys) (a : sregs) (i : nat) (idx : N) :
    SysInv st s a -> refines s a (OCowRead i idx) st.
  Proof.
    intros SI. rewrite refines_rpost. cbn [System.step Spec.spec_ok].
    eapply wp_with_reg; [exact SI|]. intros h l Er HI Ea Hin. cbn beta.
    eapply wp_ret_same; [exact SI|]. cbn [abs_of a_vals]. rewrite (o_get h l idx HI). auto.
  Qed.

  Theorem refines_OLen (st : state) (s : sys) (a : sregs) (i : nat) :
    SysInv st s a -> refines s a (OLen i) st.
  Proof.
    intros SI. rewrite refines_rpost. cbn [System.step Spec.spec_ok].
    eapply wp_with_reg; [exact SI|]. intros h l Er HI Ea Hin. cbn beta.
    eapply wp_ret_same; [exact SI|]. unfold Spec.len. cbn [abs_of a_vals]. rewrite (o_len h l HI). auto.
  Qed.

  Theorem refines_OIterFrom (st : state) (s : sys) (a : sregs) (i : nat) (idx : N) :
    SysInv st s a -> refines s a (OIterFrom i idx) st.
  Proof.
    intros SI. rewrite refines_rpost. cbn [System.step Spec.spec_ok].
    eapply wp_with_reg; [exact SI|]. intros h l Er HI Ea Hin. cbn beta.
    rewrite (o_iter_from h l idx HI). unfold Spec.len. cbn [abs_of a_vals].
    destruct (lenN l <? idx) eqn:El; cbn [try_ bind]; (eapply wp_ret_same; [exact SI|]); auto.
  Qed.

  Theorem refines_OSerdeSer (st : state) (s : sys) (a : sregs) (i : nat) :
    SysInv st s a -> refines s a (OSerdeSer i) st.
  Proof.
    intros SI. rewrite refines_rpost. cbn [System.step Spec.spec_ok].
    eapply wp_with_reg; [exact SI|]. intros h l Er HI Ea Hin. cbn beta.
    unfold serde_ser. rewrite (o_to_vec h l HI). cbn [bind].
    eapply wp_ret_same; [exact SI|]. cbn [abs_of a_vals]. auto.
  Qed.

  (* ====================================================================== *)
  (* OEq                                                                      *)
  (* ====================================================================== *)
  Theorem refines_OEq (st : state) (s : sys) (a : sregs) (i j : nat) :
    SysInv st s a -> refines s a (OEq i j) st.
  Proof.
    intros SI. rewrite refines_rpost. cbn [System.step Spec.spec_ok].
    eapply wp_with_reg; [exact SI|]. intros ha la Era HIa Eaa Hina. cbn beta.
    eapply wp_with_reg; [exact SI|]. intros hb lb Erb HIb Eab Hinb. cbn beta.
    cbn [abs_of a_list a_pend a_vals].
    destruct (Bool.eqb (hlist ha) (hlist hb)) eqn:Ek; [|apply wp_bad; exact SI].
    eapply wp_ret_same; [exact SI|]. split; [reflexivity|]. eexists. split; [reflexivity|].
    intros Pa Pb. apply Bool.eqb_prop in Ek.
    eapply coll_eqb_spec; try eassumption; split; eassumption.
  Qed.

  (* ====================================================================== *)
  (* OSszEnc (needs: the stored values are valid when the kind is fixed-size)  *)
  (* ====================================================================== *)
  Theorem refines_OSszEnc (st : state) (s : sys) (a : sregs) (i : nat) :
    SysInv st s a ->
    (forall x s0, aget a i = Some x -> efixed ek = Some s0 -> Forall valid (a_vals x)) ->
    refines s a (OSszEnc i) st.
  Proof.
    intros SI HV. rewrite refines_rpost. cbn [System.step Spec.spec_ok].
    eapply wp_with_reg; [exact SI|]. intros h l Er HI Ea Hin. cbn beta.
    assert (E1 : ssz_encode ek M h = Ret (serialize ek l)) by (eapply ssz_encode_spec; eassumption).
    assert (E2 : ssz_bytes_len ek M h = Ret (lenN (serialize ek l))).
    { eapply ssz_bytes_len_spec; try eassumption. intros s0 Es. apply (HV _ s0 Ea Es). }
    rewrite E1. cbn [bind]. rewrite E2. cbn [bind].
    eapply wp_ret_same; [exact SI|]. cbn [abs_of a_vals]. auto.
  Qed.

  (* ====================================================================== *)
  (* OHash / OParHash                                                         *)
  (* ====================================================================== *)
  Lemma hash_body (st : state) (s : sys) (a : sregs) (h : handle) (l : list T) :
    SysInv st s a -> hinv h l -> In (htree h) (live_trees s) ->
    wp Rexact (if has_pending M h then Ret (RErr EPending, s) else
               (d <- coll_tree_hash_root ek M H h ;; Ret (RHash d, s))%prog)
       (rpost s (fun r a' => a' = a /\ (if a_pend (abs_of M h l) then r = RErr EPending
                                        else r = RHash (root_of ek H capN (abs_of M h l))))) st.
  Proof.
    intros SI HI Hin. cbn [abs_of a_pend]. destruct (has_pending M h) eqn:Hp.
    - eapply wp_ret_same; [exact SI|]. auto.
    - apply wp_bind. eapply wp_mono; [|eapply coll_root_spec; try eassumption; [split; eassumption|eapply SysInv_gok; exact SI]].
      intros o st' (-> & GK & _). cbn [lift wp].
      eapply rpost_intro; [reflexivity| |eapply SysInv_state; eassumption].
      split; [reflexivity|]. unfold root_of. cbn [a_list a_vals]. reflexivity.
  Qed.

  Theorem refines_OHash (st : state) (s : sys) (a : sregs) (i : nat) :
    SysInv st s a -> refines s a (OHash i) st.
  Proof.
    intros SI. rewrite refines_rpost. cbn [System.step Spec.spec_ok].
    eapply wp_with_reg; [exact SI|]. intros h l Er HI Ea Hin. cbn beta.
    apply hash_body; assumption.
  Qed.

  Theorem refines_OParHash (st : state) (s : sys) (a : sregs) (i : nat) (k : N) :
    SysInv st s a -> refines s a (OParHash i k) st.
  Proof.
    intros SI. rewrite refines_rpost. cbn [System.step Spec.spec_ok].
    eapply wp_with_reg; [exact SI|]. intros h l Er HI Ea Hin. cbn beta.
    apply hash_body; assumption.
  Qed.

  (* ====================================================================== *)
  (* OLevelIter                                                               *)
  (* ====================================================================== *)
  Lemma o_cap_ld : capN <= cap ek (list_depth ek capN).
  Proof. eapply cap_ld_o; eassumption. Qed.

  Lemma level_iter_strong (h : handle) l n : hinv h l -> n <= lenN l -> has_pending M h = false ->
    exists items, list_level_iter_from ek M h n = Ret items /\
       map level_item items = level_blocks ek capN n (dropN n l).
  Proof.
    intros HI Hn Hp. unfold list_level_iter_from. rewrite (o_len h l HI).
    destruct (N.ltb_spec (lenN l) n); [lia|]. rewrite Hp.
    assert (Hb : shape (htree h) = canon ek (hdepth h) l /\ hblen h = lenN l)
      by (eapply no_pending_backing; eassumption).
    destruct Hb as (Hsh & Hbl).
    pose proof HI as (_ & Hd & Hl & _).
    assert (Hc : lenN l <= cap ek (hdepth h)).
    { rewrite Hd. eapply N.le_trans; [exact Hl|apply o_cap_ld]. }
    destruct (liter_collect_strong ek l (htree h) (hdepth h) Hsh Hc n Hn) as (items & E & IB & Hk).
    rewrite Hbl, E. cbn [of_outcome]. exists items. split; [reflexivity|].
    unfold level_blocks, Spec.depth, Spec.pd. rewrite <- Hd.
    destruct (Nat.eqb (compute_level n (hdepth h) (pd_of ek)) 0 && Nat.ltb 0 (pd_of ek)) eqn:Ec.
    - apply andb_true_iff in Ec. destruct Ec as [E0 _]. apply Nat.eqb_eq in E0. rewrite E0 in IB.
      apply (level_items_elems ek); assumption.
    - destruct Hk as [Hint HL]. eapply level_items_blocks; eauto.
  Qed.

  Theorem refines_OLevelIter (st : state) (s : sys) (a : sregs) (i : nat) (idx : N) :
    SysInv st s a -> refines s a (OLevelIter i idx) st.
  Proof.
    intros SI. rewrite refines_rpost. cbn [System.step Spec.spec_ok].
    eapply wp_with_list; [exact SI|]. intros h l Er HI Ea Hin Hk. cbn beta.
    unfold Spec.len. cbn [abs_of a_vals a_pend].
    assert (S12 : (lenN l < idx -> list_level_iter_from ek M h idx = Fail (OutOfBoundsIterFrom idx (lenN l))) /\
                  (idx <= lenN l -> has_pending M h = true -> list_level_iter_from ek M h idx = Fail LevelIterPendingUpdates)).
    { unfold list_level_iter_from. rewrite (o_len h l HI). split.
      - intros Hlt. destruct (N.ltb_spec (lenN l) idx); [reflexivity|lia].
      - intros Hge Hp. destruct (N.ltb_spec (lenN l) idx); [lia|]. rewrite Hp. reflexivity. }
    destruct S12 as [S1 S2].
    destruct (N.ltb_spec (lenN l) idx) as [Hlt|Hge].
    - rewrite (S1 Hlt). cbn [try_ bind]. eapply wp_ret_same; [exact SI|]. auto.
    - destruct (has_pending M h) eqn:Hp.
      + rewrite (S2 Hge eq_refl). cbn [try_ bind]. eapply wp_ret_same; [exact SI|]. auto.
      + destruct (level_iter_strong h l idx HI Hge Hp) as (items & E & Em). rewrite E. cbn [try_ bind].
        eapply wp_ret_same; [exact SI|]. rewrite Em. auto.
  Qed.

  (* ====================================================================== *)
  (* decoders: OSerdeList OSerdeVec OSszList OSszVec                          *)
  (* ====================================================================== *)
  Lemma build_spec_R R : forall vs st (G : list tree), gok st G -> lenN vs <= capN ->
    wp R (list_try_from_iter ek M capN vs)
       (fun o st' => exists h', o = Ok h' /\ hclean h' vs /\ gok st' (htree h' :: G)) st.
  Proof.
    intros vs st G GK Hl. eapply wp_mono; [|eapply list_try_from_iter_spec; eassumption].
    intros o st' (h' & -> & HC & _ & _ & _ & GK'). exists h'. auto.
  Qed.
  Lemma build_fail_R R : forall vs st, capN < lenN vs ->
    wp R (list_try_from_iter ek M capN vs) (fun o _ => o = Err BuilderFull) st.
  Proof.
    intros vs st Hl. eapply wp_mono; [|eapply list_try_from_iter_full; eassumption].
    intros o st' [-> _]. reflexivity.
  Qed.

  Theorem refines_OSerdeList (st : state) (s : sys) (a : sregs) (d : nat) (vs : list T) :
    SysInv st s a -> refines s a (OSerdeList d vs) st.
  Proof.
    intros SI. rewrite refines_rpost. cbn [System.step Spec.spec_ok].
    eapply wp_construct; [exact SI|apply allocp_noset, allocp_list_serde_de|].
    pose proof (SysInv_gok _ _ _ _ _ _ _ _ SI) as GK.
    destruct (N.leb_spec (lenN vs) capN) as [Hle|Hgt].
    - eapply wp_mono; [|eapply list_serde_de_ok; [apply build_spec_R|exact Hle|exact GK]].
      intros o st' (h' & -> & HC & Hk & GK' & _). cbn [RefineBase.hpost].
      exists vs. split; [apply HC|]. split; [exact GK'|]. f_equal. symmetry. eapply abs_clean_list; eassumption.
    - eapply wp_mono; [|eapply list_serde_de_fail; [apply build_fail_R|exact Hgt|exact GK]].
      intros o st' (-> & GK' & _). cbn [RefineBase.hpost]. auto.
  Qed.

  Theorem refines_OSerdeVec (st : state) (s : sys) (a : sregs) (d : nat) (vs : list T) :
    SysInv st s a -> refines s a (OSerdeVec d vs) st.
  Proof.
    intros SI. rewrite refines_rpost. cbn [System.step Spec.spec_ok].
    eapply wp_construct; [exact SI|apply allocp_noset, allocp_vector_serde_de|].
    pose proof (SysInv_gok _ _ _ _ _ _ _ _ SI) as GK.
    destruct (N.eqb_spec (lenN vs) capN) as [He|Hne].
    - eapply wp_mono; [|eapply vector_serde_de_ok; [exact UL|apply build_spec_R|exact He|exact GK]].
      intros o st' (h' & -> & HC & Hk & GK' & _). cbn [RefineBase.hpost].
      exists vs. split; [apply HC|]. split; [exact GK'|]. f_equal. symmetry. eapply abs_clean_vec; eassumption.
    - eapply wp_mono; [|eapply vector_serde_de_fail; [exact UL|apply build_spec_R|apply build_fail_R|exact Hne|exact GK]].
      intros o st' (-> & GK' & _). cbn [RefineBase.hpost]. auto.
  Qed.

  (* the encoding is injective on sequences of valid values (below the 4-byte-offset limit for variable-size kinds) *)
  Lemma serialize_inj_on (l1 l2 : list T) : Forall valid l1 -> Forall valid l2 ->
    (efixed ek = None -> lenN (serialize ek l1) < 2 ^ 32) -> serialize ek l1 = serialize ek l2 -> l1 = l2.
  Proof.
    intros V1 V2 H32 E. destruct (efixed ek) as [s0|] eqn:Es.
    - exact (serialize_inj_fixed ek valid ECO s0 l1 l2 Es V1 V2 E).
    - exact (serialize_inj_var ek valid ECO l1 l2 Es V1 V2 (H32 eq_refl) E).
  Qed.

  (* strictness and completeness of the decoders in one statement: a handle holding an admissible preimage, or
     EDecode and then there is no admissible preimage (below the offset limit) *)
  Definition ssz_admissible (inb : list T -> Prop) (b : bytes) : Prop :=
    exists l, serialize ek l = b /\ Forall valid l /\ inb l /\ (efixed ek = None -> lenN b < 2 ^ 32).

  Lemma list_from_ssz_full R (b : bytes) st (G : list tree) : valid_bytes b = true -> gok st G ->
    wp R (list_from_ssz ek M capN b)
       (fun o st' =>
          match o with
          | Ok h' => exists l, hclean h' l /\ hlist h' = true /\ serialize ek l = b /\ Forall valid l /\
                               lenN l <= capN /\ gok st' (htree h' :: G)
          | Err e => e = EDecode /\ gok st' G /\ ~ ssz_admissible (fun l => lenN l <= capN) b
          | Panic _ => False
          end) st.
  Proof.
    intros Hb GK.
    destruct (list_from_ssz_strict ek M capN valid ECO b Hb) as [[-> E]|[E|(vs & Es & Hv & Hl & E)]]; rewrite E.
    - eapply wp_mono; [|apply (list_empty_clean ek M H capN uinv UL CAP R st G GK)].
      intros o st' (h' & -> & HC & Hk & GK' & _). exists []. rewrite serialize_nil.
      repeat (split; [solve [auto]|]). split; [rewrite lenN_nil; lia|exact GK'].
    - cbn [wp]. split; [reflexivity|]. split; [exact GK|].
      intros (l & Es & Hv & Hl & H32).
      assert (H32' : efixed ek = None -> lenN (serialize ek l) < 2 ^ 32) by (rewrite Es; exact H32).
      pose proof (list_from_ssz_roundtrip ek M H capN uinv UL CAP valid ECO R (build_spec_R R) l st G Hv Hl H32' GK) as W.
      rewrite Es, E in W. cbn [wp] in W. destruct W as (h' & W & _). discriminate W.
    - eapply wp_mono; [|apply (build_or_ok ek M H capN uinv R (build_spec_R R) EDecode vs st G GK Hl)].
      intros o st' (h' & -> & HC & Hk & GK' & _). exists vs. auto 8.
  Qed.

  Lemma vector_from_ssz_full R (b : bytes) st (G : list tree) : valid_bytes b = true -> gok st G ->
    wp R (vector_from_ssz ek M capN b)
       (fun o st' =>
          match o with
          | Ok v => exists l, hclean v l /\ hlist v = false /\ serialize ek l = b /\ Forall valid l /\
                              lenN l = capN /\ gok st' (htree v :: G)
          | Err e => e = EDecode /\ gok st' G /\ ~ ssz_admissible (fun l => lenN l = capN) b
          | Panic _ => False
          end) st.
  Proof.
    intros Hb GK. unfold vector_from_ssz. apply wp_bind.
    eapply wp_mono; [|apply (list_from_ssz_full R b st G Hb GK)].
    intros [h'|e|c] st' P; cbn [lift]; [| |contradiction].
    - destruct P as (l & HC & Hk & Es & Hv & Hl & GK').
      apply (vector_finish ek M capN uinv UL R EDecode h' l _ st' HC).
      destruct (N.eqb_spec (lenN l) capN) as [El|El].
      + destruct (as_vector_clean ek M capN uinv UL h' l HC El) as (HC' & Hk' & Et).
        exists l. rewrite Et. auto 8.
      + split; [reflexivity|]. split; [eapply gok_incl_o; [exact GK'|]; intros x Hx; right; exact Hx|].
        intros (l2 & Es2 & Hv2 & Hl2 & H32). apply El.
        assert (l2 = l) as <-; [|exact Hl2].
        apply serialize_inj_on; [exact Hv2|exact Hv| |congruence].
        rewrite Es2. exact H32.
    - destruct P as (-> & GK' & Hno). cbn [wp]. split; [reflexivity|]. split; [exact GK'|].
      intros (l & Es & Hv & Hl & H32). apply Hno. exists l. repeat (split; [assumption|]). split; [lia|exact H32].
  Qed.

  Theorem refines_OSszList (st : state) (s : sys) (a : sregs) (d : nat) (b : bytes) :
    valid_bytes b = true -> SysInv st s a -> refines s a (OSszList d b) st.
  Proof.
    intros Hb SI. rewrite refines_rpost. cbn [System.step Spec.spec_ok].
    pose proof (SysInv_gok _ _ _ _ _ _ _ _ SI) as GK.
    eapply wp_construct_K; [exact SI|apply allocp_noset, allocp_list_from_ssz| |].
    - intros E r a' Hbad. rewrite E. exact Hbad.
    - intros E. rewrite E.
      eapply wp_mono; [|apply (list_from_ssz_full Rexact b st _ Hb GK)].
      intros [h'|e|c] st' P; cbn [RefineBase.hpost]; [| |contradiction].
      + destruct P as (l & HC & Hk & Es & Hv & Hl & GK').
        exists l. split; [apply HC|]. split; [exact GK'|].
        rewrite (abs_clean_list ek M capN uinv UL h' l HC Hk). split.
        * left. exists l. auto 6.
        * intros H32 l2 Es2 Hv2 Hl2. split; [reflexivity|].
          assert (l2 = l) as ->; [|reflexivity].
          apply serialize_inj_on; [exact Hv2|exact Hv| |congruence].
          rewrite Es2. exact H32.
      + destruct P as (-> & GK' & Hno). split; [exact GK'|]. split; [right; auto|].
        intros H32 l Es Hv Hl. exfalso. apply Hno. exists l. auto.
  Qed.

  Theorem refines_OSszVec (st : state) (s : sys) (a : sregs) (d : nat) (b : bytes) :
    valid_bytes b = true -> SysInv st s a -> refines s a (OSszVec d b) st.
  Proof.
    intros Hb SI. rewrite refines_rpost. cbn [System.step Spec.spec_ok].
    pose proof (SysInv_gok _ _ _ _ _ _ _ _ SI) as GK.
    eapply wp_construct_K; [exact SI|apply allocp_noset, allocp_vector_from_ssz| |].
    - intros E r a' Hbad. rewrite E. exact Hbad.
    - intros E. rewrite E.
      eapply wp_mono; [|apply (vector_from_ssz_full Rexact b st _ Hb GK)].
      intros [h'|e|c] st' P; cbn [RefineBase.hpost]; [| |contradiction].
      + destruct P as (l & HC & Hk & Es & Hv & Hl & GK').
        exists l. split; [apply HC|]. split; [exact GK'|].
        rewrite (abs_clean_vec ek M capN uinv h' l HC Hk). split.
        * left. exists l. auto 6.
        * intros H32 l2 Es2 Hv2 Hl2. split; [reflexivity|].
          assert (l2 = l) as ->; [|reflexivity].
          apply serialize_inj_on; [exact Hv2|exact Hv| |congruence].
          rewrite Es2. exact H32.
      + destruct P as (-> & GK' & Hno). split; [exact GK'|]. split; [right; auto|].
        intros H32 l Es Hv Hl. exfalso. apply Hno. exists l. auto.
  Qed.

  (* ====================================================================== *)
  (* ORebaseOn / ORebase                                                      *)
  (* ====================================================================== *)
  Lemma rebase_body (st : state) (s : sys) (ha hb : handle) (la lb : list T) :
    gok st (live_trees s) -> hinv ha la -> hinv hb lb -> hlist ha = hlist hb ->
    In (htree ha) (live_trees s) -> In (htree hb) (live_trees s) ->
    wp Rexact (coll_rebase_on ek ha hb)
       (fun o st' => exists h', o = Ok h' /\ hinv h' la /\ abs_of M h' la = abs_of M ha la /\
                                gok st' (htree h' :: live_trees s)) st.
  Proof.
    intros GK HIa HIb Hk Hina Hinb.
    eapply wp_mono; [|eapply coll_rebase_spec; try eassumption].
    intros o st' (h' & -> & HI' & Eabs & _ & _ & _ & GK' & _). exists h'. auto.
  Qed.

  Theorem refines_ORebaseOn (st : state) (s : sys) (a : sregs) (i j : nat) :
    SysInv st s a -> refines s a (ORebaseOn i j) st.
  Proof.
    intros SI. rewrite refines_rpost. cbn [System.step Spec.spec_ok].
    eapply wp_with_reg; [exact SI|]. intros ha la Era HIa Eaa Hina. cbn beta.
    eapply wp_with_reg; [exact SI|]. intros hb lb Erb HIb Eab Hinb. cbn beta.
    cbn [abs_of a_list].
    destruct (Bool.eqb (hlist ha) (hlist hb)) eqn:Ek; [|apply wp_bad; exact SI].
    apply Bool.eqb_prop in Ek. pose proof (SysInv_gok _ _ _ _ _ _ _ _ SI) as GK.
    unfold inplace. apply wp_bind. apply wp_try_ok.
    eapply wp_mono; [|apply (rebase_body st s ha hb la lb GK HIa HIb Ek Hina Hinb)].
    intros o st' (h' & -> & HI' & Eabs & GK'). cbn [lift wp].
    eapply rpost_intro with (a' := aset a i (Some (abs_of M h' la))); [apply bslot_rset| |eapply SysInv_rset; eassumption].
    split; [reflexivity|]. rewrite Eabs. apply aset_same. exact Eaa.
  Qed.

  Theorem refines_ORebase (st : state) (s : sys) (a : sregs) (i j k : nat) :
    SysInv st s a -> refines s a (ORebase i j k) st.
  Proof.
    intros SI. rewrite refines_rpost. cbn [System.step Spec.spec_ok].
    destruct (nregs <=? k)%nat eqn:E; [apply wp_bad; exact SI|].
    eapply wp_with_reg; [exact SI|]. intros ha la Era HIa Eaa Hina. cbn beta.
    eapply wp_with_reg; [exact SI|]. intros hb lb Erb HIb Eab Hinb. cbn beta.
    cbn [abs_of a_list].
    destruct (Bool.eqb (hlist ha) (hlist hb)) eqn:Ek; [|apply wp_bad; exact SI].
    apply Bool.eqb_prop in Ek. pose proof (SysInv_gok _ _ _ _ _ _ _ _ SI) as GK.
    unfold construct. rewrite E. apply wp_bind. apply wp_try_ok.
    eapply wp_mono; [|apply (rebase_body st s ha hb la lb GK HIa HIb Ek Hina Hinb)].
    intros o st' (h' & -> & HI' & Eabs & GK'). cbn [lift wp].
    eapply rpost_intro with (a' := aset a k (Some (abs_of M h' la))); [apply bslot_rset| |eapply SysInv_rset; eassumption].
    split; [reflexivity|]. rewrite Eabs. reflexivity.
  Qed.

  (* ====================================================================== *)
  (* OIntra                                                                   *)
  (* ====================================================================== *)
  Lemma abs_flushed (h h' : handle) (l : list T) :
    hclean h' l -> hlist h' = hlist h -> abs_of M h' l = Spec.flushed capN (abs_of M h l).
  Proof.
    intros HC Hk. unfold Spec.flushed, mk, Spec.len. cbn [abs_of a_list a_vals]. destruct (hlist h) eqn:El.
    - rewrite (abs_clean_list ek M capN uinv UL h' l HC Hk). reflexivity.
    - rewrite (abs_clean_vec ek M capN uinv h' l HC Hk). reflexivity.
  Qed.

  Theorem refines_OIntra (st : state) (s : sys) (a : sregs) (i : nat) :
    SysInv st s a -> refines s a (OIntra i) st.
  Proof.
    intros SI. rewrite refines_rpost. cbn [System.step Spec.spec_ok].
    eapply wp_with_reg; [exact SI|]. intros h l Er HI Ea Hin. cbn beta.
    eapply wp_inplace_e; [exact SI|].
    pose proof (SysInv_gok _ _ _ _ _ _ _ _ SI) as GK.
    eapply wp_mono; [|eapply coll_intra_spec_gok; [exact EKW|exact CAP|exact NZ| |exact HI|exact GK|exact Hin]].
    - intros o st' (h' & -> & HC & Hk & GK' & _). exists l. split; [apply HC|]. split; [exact GK'|].
      split; [reflexivity|]. rewrite (abs_flushed h h' l HC Hk). reflexivity.
    - intros h0 l0 s0 HI0. eapply apply_spec_hinv; eassumption.
  Qed.

  (* ====================================================================== *)
  (* OParMix                                                                  *)
  (* ====================================================================== *)
  Lemma o_get_rec_canon : forall (d : nat) (l : list T) (t : tree) (i : N),
    shape t = canon ek d l -> lenN l <= cap ek d -> get_rec ek t i d = nthN l (i mod cap ek d).
  Proof. eapply get_rec_canon. Qed.

  (* the handle written by one round of par_mix_run *)
  Lemma mix_write (h : handle) (l : list T) (j : N) (v : T) : hinv h l -> lenN l <> 0 ->
    exists h1, match iface_get_mut ek M h (j mod lenN l) with
               | Some (_, h') => Ret (write_entry M h' (j mod lenN l) v)
               | None => Ret h
               end = Ret h1 /\
      hinv h1 (setN l (j mod lenN l) v) /\ htree h1 = htree h /\ hlist h1 = hlist h.
  Proof.
    intros HI Hne. set (idx := j mod lenN l).
    assert (Hidx : idx < lenN l) by (apply N.mod_upper_bound; exact Hne).
    destruct (iface_get_mut ek M h idx) as [[x h']|] eqn:Eg.
    - destruct (get_mut_write_spec ek M uinv capN UL o_get_rec_canon o_cap_ld h l idx x h' v HI Eg) as (_ & HI' & SB).
      exists (write_entry M h' idx v). split; [reflexivity|]. split; [exact HI'|]. destruct SB as (E1 & _ & _ & E4). auto.
    - exfalso. pose proof (get_mut_spec ek M uinv capN UL o_get_rec_canon o_cap_ld h l idx HI) as X.
      destruct (nthN l idx) as [v0|] eqn:En.
      + destruct X as (h' & E & _). rewrite Eg in E. discriminate.
      + apply nthN_None in En. lia.
  Qed.

  Lemma mix_run (h : handle) (l : list T) (G : list tree) : hinv h l -> In (htree h) G ->
    forall vs j st, gok st G ->
    wp Rexact (par_mix_run ek M H capN h vs j)
       (fun o st' => o = Ok (mix_roots ek H capN (abs_of M h l) vs j) /\ gok st' G) st.
  Proof.
    intros HI Hin. induction vs as [|v vs IH]; intros j st GK; cbn [par_mix_run mix_roots].
    - cbn [wp]. auto.
    - cbv zeta. cbn [abs_of a_vals a_list]. rewrite (o_len h l HI).
      assert (Hh1 : exists h1,
        (if lenN l =? 0 then Ret h else
         match iface_get_mut ek M h (j mod lenN l) with
         | Some (_, h') => Ret (write_entry M h' (j mod lenN l) v)
         | None => Ret h
         end) = Ret h1 /\
        hinv h1 (if lenN l =? 0 then l else setN l (j mod lenN l) v) /\ htree h1 = htree h /\ hlist h1 = hlist h).
      { destruct (N.eqb_spec (lenN l) 0) as [E0|E0]; [exists h; auto|]. apply mix_write; assumption. }
      destruct Hh1 as (h1 & -> & HI1 & Et1 & Ek1). cbn [bind].
      remember (if lenN l =? 0 then l else setN l (j mod lenN l) v) as l' eqn:El'. clear El'.
      apply wp_bind. eapply wp_mono; [|eapply apply_q_spec; [exact EKW|exact UL|exact CAP|exact GK|exact HI1|rewrite Et1; exact Hin]].
      intros o st1 (h2 & -> & HI2 & Hp2 & _ & _ & GK2 & Ek2 & _). cbn [lift].
      apply wp_bind. eapply wp_mono; [|eapply coll_root_spec; [exact UL|exact CAP|split; [exact HI2|exact Hp2]|exact GK2|left; reflexivity]].
      intros o2 st2 (-> & GK3 & _). cbn [lift].
      apply wp_bind. eapply wp_mono; [|apply (IH (j + 1) st2); eapply gok_forget; exact GK3].
      intros o3 st3 (-> & GK4). cbn [lift wp]. split; [|exact GK4].
      rewrite Ek2, Ek1. reflexivity.
  Qed.

  Theorem refines_OParMix (st : state) (s : sys) (a : sregs) (i : nat) (vs : list T) :
    SysInv st s a -> refines s a (OParMix i vs) st.
  Proof.
    intros SI. rewrite refines_rpost. cbn [System.step Spec.spec_ok].
    eapply wp_with_reg; [exact SI|]. intros h l Er HI Ea Hin. cbn beta.
    cbn [abs_of a_pend]. destruct (has_pending M h) eqn:Hp.
    - eapply wp_ret_same; [exact SI|]. auto.
    - pose proof (SysInv_gok _ _ _ _ _ _ _ _ SI) as GK.
      apply wp_bind. eapply wp_mono; [|apply (mix_run h l (live_trees s) HI Hin vs 0 st GK)].
      intros o st1 (-> & GK1). cbn [lift].
      apply wp_bind. eapply wp_mono; [|eapply coll_root_spec; [exact UL|exact CAP|split; [exact HI|exact Hp]|exact GK1|exact Hin]].
      intros o2 st2 (-> & GK2 & _). cbn [lift wp].
      eapply rpost_intro; [reflexivity| |eapply SysInv_state; eassumption].
      split; [reflexivity|]. unfold root_of. cbn [abs_of a_list a_vals]. reflexivity.
  Qed.

  (* OSszEnc under the Spec-level invariant *)
  Corollary refines_OSszEnc_valid (st : state) (s : sys) (a : sregs) (i : nat) :
    SysInv st s a -> vals_valid valid a -> refines s a (OSszEnc i) st.
  Proof.
    intros SI V. apply refines_OSszEnc; [exact SI|]. intros x s0 Ea _. eapply vals_valid_aget; eassumption.
  Qed.

  (* all cases of this file in one statement *)
  Theorem step_refines_B (st : state) (s : sys) (a : sregs) (o : op) :
    is_opB o = true -> op_wf o -> vals_valid valid a -> SysInv st s a -> refines s a o st.
  Proof.
    intros Hb Hw V SI. destruct o; cbn [is_opB] in Hb; try discriminate Hb; cbn [op_wf] in Hw.
    - apply refines_OSszList; assumption.
    - apply refines_OSszVec; assumption.
    - apply refines_OSerdeList; assumption.
    - apply refines_OSerdeVec; assumption.
    - apply refines_OGet; assumption.
    - apply refines_OLen; assumption.
    - apply refines_OIterFrom; assumption.
    - apply refines_OLevelIter; assumption.
    - apply refines_OEq; assumption.
    - apply refines_OSszEnc_valid; assumption.
    - apply refines_OSerdeSer; assumption.
    - apply refines_OCowRead; assumption.
    - apply refines_ORebaseOn; assumption.
    - apply refines_ORebase; assumption.
    - apply refines_OIntra; assumption.
    - apply refines_OHash; assumption.
    - apply refines_OParHash; assumption.
    - apply refines_OParMix; assumption.
  Qed.

End RefineB.

Print Assumptions refines_OLevelIter.
Print Assumptions refines_OSerdeList.
Print Assumptions refines_OSerdeVec.
Print Assumptions serialize_inj_on.
Print Assumptions list_from_ssz_full.
Print Assumptions vector_from_ssz_full.
Print Assumptions refines_OSszList.
Print Assumptions refines_OSszVec.
Print Assumptions refines_ORebaseOn.
Print Assumptions refines_ORebase.
Print Assumptions refines_OIntra.
Print Assumptions refines_OParMix.
Print Assumptions spec_ok_vals_valid.
Print Assumptions vals_valid_init.
Print Assumptions vals_valid_aget.
Print Assumptions refines_OSszEnc_valid.
Print Assumptions step_refines_B.
Print Assumptions refines_OGet.
Print Assumptions refines_OCowRead.
Print Assumptions refines_OLen.
Print Assumptions refines_OIterFrom.
Print Assumptions refines_OSerdeSer.
Print Assumptions refines_OEq.
Print Assumptions refines_OSszEnc.
Print Assumptions refines_OHash.
Print Assumptions refines_OParHash.
