(* CollCtorP.v — specifications of the collection-level constructors, mutators and conversions of
   model/Coll.v, obtained by combining the wave-1 theorems (BuilderP, RepeatP, WulP, IfaceP, IterP,
   IntraP) with the global state invariant `gok` of Inv.v.  Proof file; no model code. *)
From MH Require Import Inv BuilderP RepeatP WulP IfaceP IterP IntraP.
Local Open Scope N_scope.

(* ---------- generic facts about wp / bind ---------- *)
Lemma wp_assoc {A B C} R (m : prog A) (f : A -> prog B) (g : B -> prog C) Q s :
  wp R (bind (bind m f) g) Q s <-> wp R (bind m (fun x => bind (f x) g)) Q s.
Proof.
  rewrite !wp_bind. split; apply wp_mono; intros [a|e|c] s'; cbn [lift]; auto; rewrite wp_bind; auto.
Qed.

(* programs that only allocate (no memo access, no fork) *)
Fixpoint allocp {A} (m : prog A) : Prop :=
  match m with
  | Ret _ | Fail _ | Crash _ => True
  | Fresh k => forall i, allocp (k i)
  | Note _ k => allocp k
  | _ => False
  end.
Lemma allocp_bind {A B} (m : prog A) (f : A -> prog B) :
  allocp m -> (forall a, allocp (f a)) -> allocp (bind m f).
Proof.
  induction m as [A a|A e|A c|A k IH|A i k IH|A i d k IH|A p IHp q IHq k IHk|A t k IH]; cbn [allocp bind]; intros Hm Hf; auto;
    try solve [destruct Hm].
Qed.
Lemma allocp_try {A} (m : prog A) : allocp m -> allocp (try_ m).
Proof.
  induction m as [A a|A e|A c|A k IH|A i k IH|A i d k IH|A p IHp q IHq k IHk|A t k IH]; cbn [allocp try_]; intros Hm; auto.
Qed.
Lemma allocp_wp {A} R (m : prog A) : allocp m -> forall s0 s,
  alloc_only s0 s -> wp R m (fun _ s' => alloc_only s0 s') s.
Proof.
  induction m as [A a|A e|A c|A k IH|A i k IH|A i d k IH|A p IHp q IHq k IHk|A t k IH]; cbn [allocp wp]; intros Hm s0 s Ha; auto;
    try solve [destruct Hm].
  apply IH; auto. destruct Ha as [Em Hn]. split; cbn [bump memo next]; [exact Em|lia].
Qed.
Lemma alloc_only_refl s : alloc_only s s.
Proof. split; [reflexivity|lia]. Qed.
Lemma alloc_only_trans s1 s2 s3 : alloc_only s1 s2 -> alloc_only s2 s3 -> alloc_only s1 s3.
Proof. intros [E1 N1] [E2 N2]. split; [congruence|lia]. Qed.
Lemma allocp_wp0 {A} R (m : prog A) s : allocp m -> wp R m (fun _ s' => alloc_only s s') s.
Proof. intros Hm. apply allocp_wp; auto using alloc_only_refl. Qed.

Section CollCtor.
  Context {T U : Type}.
  Variable ek : ekind T.
  Variable M : umap_impl T U.
  Variable H : digest -> digest -> digest.
  Variable capN : N.
  Variable uinv : U -> Prop.
  Hypothesis EKW : ek_wf ek.
  Hypothesis UL : umap_lawful ek M uinv.
  Hypothesis CAP : capacity_ok capN.
  Notation tree := (tree T).
  Notation handle := (handle T U).
  Notation gok := (gok ek H).
  Notation hinv := (hinv ek M capN uinv).
  Notation hclean := (hclean ek M capN uinv).
  Notation ld := (list_depth ek capN).

  (* ================= A. generic state lemmas ================= *)
  Lemma subt_In_id_cc (u t : tree) : subt u t -> In_id (idof u) t.
  Proof.
    induction t as [i v|i vs|i l IHl r IHr|i d0]; cbn [subt In_id]; intros [->|S]; auto; try contradiction.
    destruct S as [S|S]; auto.
  Qed.
  Lemma subt_idof_below n (t u : tree) : below n t -> subt u t -> (idof u < n)%positive.
  Proof. intros B S. apply B. apply subt_In_id_cc. exact S. Qed.

  Lemma mget_alloc st st' j : alloc_only st st' -> mget st' j = mget st j.
  Proof. intros [Em _]. unfold mget. rewrite Em. reflexivity. Qed.

  Lemma below_mono n n' (t : tree) : (n <= n')%positive -> below n t -> below n' t.
  Proof. intros Hn B i Hi. specialize (B i Hi). lia. Qed.

  Lemma mvalid_alloc st st' (t : tree) : alloc_only st st' -> mvalid ek H st t -> mvalid ek H st' t.
  Proof. intros Ha V u Su Hm. rewrite (mget_alloc st st' _ Ha). apply V; auto. Qed.

  Lemma memo_below_alloc st st' : alloc_only st st' -> memo_below st -> memo_below st'.
  Proof. intros Ha MB j Hj. rewrite (mget_alloc st st' _ Ha). apply MB. destruct Ha as [_ Hn]. lia. Qed.

  (* A2: gok is monotone in G and preserved by allocation *)
  Lemma gok_incl st G G' : gok st G -> incl G' G -> gok st G'.
  Proof.
    intros (IDF & BV & MB) I. split; [|split; [|exact MB]].
    - intros t1 t2 u v I1 I2. apply IDF; apply I; assumption.
    - intros t It. apply BV, I, It.
  Qed.
  Lemma gok_alloc_only st st' G : gok st G -> alloc_only st st' -> gok st' G.
  Proof.
    intros (IDF & BV & MB) Ha. split; [exact IDF|]. split; [|eapply memo_below_alloc; eauto].
    intros t It. destruct (BV t It) as [B V]. split; [|eapply mvalid_alloc; eauto].
    eapply below_mono; [|exact B]. destruct Ha as [_ Hn]. exact Hn.
  Qed.
  Lemma gok_dup st G t : gok st G -> In t G -> gok st (t :: G).
  Proof. intros Gk It. eapply gok_incl; [exact Gk|]. intros x [<-|Hx]; auto. Qed.

  (* the new tree together with the old ones, when the identity discipline of the whole family is known *)
  Lemma gok_alloc_idf st st' G srcs (t : tree) :
    gok st G -> alloc_only st st' -> (forall t0, In t0 srcs -> In t0 G) ->
    fresh_or_from st st' srcs t -> idf (t :: G) -> gok st' (t :: G).
  Proof.
    intros Gk Ha Hsrc FF IDF'. pose proof (gok_alloc_only st st' G Gk Ha) as (_ & BV' & MB').
    destruct Gk as (IDF & BV & MB).
    split; [exact IDF'|]. split; [|exact MB'].
    intros t1 [<-|I1]; [|apply BV'; exact I1]. split.
    - intros i Hi. apply In_id_exists in Hi as (u & Su & <-).
      destruct (FF u Su) as [(t0 & I0 & S0)|[_ Hlt]]; [|exact Hlt].
      destruct (BV' t0 (Hsrc t0 I0)) as [B0 _]. eapply subt_idof_below; eauto.
    - intros u Su Hm. rewrite (mget_alloc st st' _ Ha).
      destruct (FF u Su) as [(t0 & I0 & S0)|[Hge _]].
      + destruct (BV t0 (Hsrc t0 I0)) as [_ V0]. apply V0; auto.
      + left. apply MB. exact Hge.
  Qed.

  (* A1 *)
  Lemma idf_cons_fresh st st' G srcs (t : tree) :
    idf G -> (forall t0, In t0 G -> below (next st) t0) -> (forall t0, In t0 srcs -> In t0 G) ->
    fresh_or_from st st' srcs t -> idf [t] -> idf (t :: G).
  Proof.
    intros IDF B Hsrc FF IDt.
    assert (Hold : forall u t0, In t0 G -> subt u t0 -> (idof u < next st)%positive).
    { intros u t0 I0 S0. eapply subt_idof_below; eauto. }
    assert (Hmix : forall u v t2, subt u t -> In t2 G -> subt v t2 -> idof u = idof v -> u = v).
    { intros u v t2 Su I2 Sv E. destruct (FF u Su) as [(t0 & I0 & S0)|[Hge _]].
      - apply (IDF t0 t2 u v); auto.
      - pose proof (Hold v t2 I2 Sv). lia. }
    intros t1 t2 u v [<-|I1] [<-|I2] Su Sv E.
    - apply (IDt t t u v); auto; left; reflexivity.
    - eapply Hmix; eauto.
    - symmetry. eapply Hmix; eauto.
    - apply (IDF t1 t2 u v); auto.
  Qed.
  Theorem gok_alloc st st' G srcs (t : tree) :
    gok st G -> alloc_only st st' -> (forall t0, In t0 srcs -> In t0 G) ->
    fresh_or_from st st' srcs t -> idf [t] -> gok st' (t :: G).
  Proof.
    intros Gk Ha Hsrc FF IDt. eapply gok_alloc_idf; eauto.
    destruct Gk as (IDF & BV & _). eapply idf_cons_fresh; eauto. intros t0 I0. apply BV, I0.
  Qed.

  Lemma gok_all_below st G : gok st G -> all_below (next st) G.
  Proof. intros (_ & BV & _) t It. apply BV, It. Qed.

  Lemma fresh_or_from_refl st (t : tree) : fresh_or_from st st [t] t.
  Proof. intros u Su. left. exists t. split; [left; reflexivity|exact Su]. Qed.
  Lemma fresh_or_from_mono st st1 st' srcs (t : tree) :
    alloc_only st st1 -> fresh_or_from st1 st' srcs t -> fresh_or_from st st' srcs t.
  Proof. intros [_ Hn] FF u Su. destruct (FF u Su) as [X|[Y Z]]; [left; exact X|right; split; [lia|exact Z]]. Qed.
  Lemma fresh_or_from_nil_srcs st st' srcs (t : tree) :
    fresh_or_from st st' [] t -> fresh_or_from st st' srcs t.
  Proof. intros FF u Su. destruct (FF u Su) as [(t0 & [] & _)|X]; right; exact X. Qed.

  (* ================= facts about the empty map and clean handles ================= *)
  Lemma ulen_empty : ulen M (uempty M) = 0.
  Proof. apply (proj2 (ul_len_0 _ _ _ UL _ (ul_empty_inv _ _ _ UL))). apply (ul_empty_get _ _ _ UL). Qed.
  Lemma umax_empty : umax_index M (uempty M) = None.
  Proof. apply (proj2 (ul_max_none _ _ _ UL _ (ul_empty_inv _ _ _ UL))). apply ulen_empty. Qed.

  Lemma ld_le : (ld + pd_of ek <= 63)%nat.
  Proof. apply (list_depth_le ek EKW capN (proj2 CAP)). Qed.
  Lemma cap_ld : capN <= cap ek ld.
  Proof. apply (IterP.cap_list_depth ek capN CAP). Qed.

  Lemma hclean_mk (h : handle) l :
    hupd h = uempty M -> shape (htree h) = canon ek ld l -> hblen h = lenN l -> hdepth h = ld ->
    lenN l <= capN -> (hlist h = false -> lenN l = capN) -> hclean h l.
  Proof.
    intros Eu Hsh Hb Hd Hl Hv. split.
    - split; [|split; [exact Hd|split; [exact Hl|split; [rewrite Hb; exact Hl|split]]]].
      + exists l. rewrite Hd, Eu. split; [exact Hsh|]. split; [auto|]. split.
        * split; [lia|]. split; [|split; [auto|]].
          -- intros k v E. rewrite (ul_empty_get _ _ _ UL) in E. discriminate.
          -- intros k A B. lia.
        * unfold updated_length. rewrite umax_empty. auto.
      + intros E. rewrite Hb. auto.
      + rewrite Eu. apply (ul_empty_inv _ _ _ UL).
    - unfold has_pending, uis_empty. rewrite Eu, ulen_empty. reflexivity.
  Qed.

  Lemma hclean_shape (h : handle) l : hclean h l ->
    shape (htree h) = canon ek ld l /\ lenN l = hblen h /\ hdepth h = ld /\ lenN l <= capN /\ ulen M (hupd h) = 0 /\ uinv (hupd h).
  Proof.
    intros [HI Hp]. destruct (has_pending_spec ek M uinv capN UL h l HI Hp) as [Hsh Hb].
    pose proof HI as (_ & Hd & Hl & _ & _ & Hu). rewrite Hd in Hsh.
    unfold has_pending, uis_empty in Hp. apply negb_false_iff, N.eqb_eq in Hp. auto 10.
  Qed.

  (* a non-empty lawful map that describes an overlay has a key *)
  Lemma nonempty_has_key (u : U) bl l : uinv u -> agrees M u bl l -> ulen M u <> 0 -> exists k, has_key M u k.
  Proof.
    intros Hu (_ & Hget & _ & _) Hne.
    destruct (urange M u 0 (lenN l)) as [|[k v] r] eqn:Er.
    - exfalso. apply Hne. apply (proj2 (ul_len_0 _ _ _ UL u Hu)). intros k.
      destruct (uget M u k) as [v|] eqn:Ek; [|reflexivity]. exfalso.
      pose proof (Hget k v Ek) as Hn.
      assert (k < lenN l) as Hk by (apply nthN_Some; congruence).
      assert (In (k, v) (urange M u 0 (lenN l))) as Hin by (apply (ul_range_in _ _ _ UL); auto; repeat split; auto; lia).
      rewrite Er in Hin. destruct Hin.
    - exists k. assert (In (k, v) (urange M u 0 (lenN l))) as Hin by (rewrite Er; left; reflexivity).
      apply (ul_range_in _ _ _ UL) in Hin; auto. destruct Hin as (_ & _ & E). unfold has_key. congruence.
  Qed.

  (* ================= B. apply_updates ================= *)
  Definition apply_post (st : state) (h : handle) (l : list T) (o : outcome (option error * handle)) (st' : state) : Prop :=
    exists h', o = Ok (None, h') /\ hinv h' l /\ has_pending M h' = false /\
               alloc_only st st' /\ fresh_or_from st st' [htree h] (htree h').

  Lemma apply_spec_gen R (h : handle) l st : hinv h l ->
    wp R (apply_updates ek M capN h)
       (fun o st' => apply_post st h l o st' /\
                     forall e h', o = Ok (e, h') -> hlist h' = hlist h /\ hdepth h' = ld /\
                        (has_pending M h = false -> h' = h)) st.
  Proof.
    intros HI. pose proof HI as ((bl & Hsh & Hbl & Hag & Hul) & Hd & Hl & Hb & Hv & Hu).
    unfold apply_updates. destruct (uis_empty M (hupd h)) eqn:Ee.
    { cbn [wp]. split.
      - exists h. split; [reflexivity|]. split; [exact HI|]. split; [unfold has_pending; rewrite Ee; reflexivity|].
        split; [apply alloc_only_refl|apply fresh_or_from_refl].
      - intros e h' E. injection E as <- <-. auto. }
    assert (Hp : has_pending M h = true) by (unfold has_pending; rewrite Ee; reflexivity).
    unfold uis_empty in Ee. apply N.eqb_neq in Ee.
    destruct (umax_index M (hupd h)) as [m|] eqn:Em.
    2: { exfalso. apply Ee. apply (ul_max_none _ _ _ UL); auto. }
    assert (Hm : m + 1 <= lenN l). { rewrite <- Hul. unfold updated_length. rewrite Em. lia. }
    pose proof (nonempty_has_key _ _ _ Hu Hag Ee) as Hk.
    assert (W : forall (hA hB : handle), hupd hB = uempty M -> hdepth hB = hdepth h -> hblen hB = lenN l -> hlist hB = hlist h ->
              wp R (bind (try_ (with_updated_leaves ek M (hdepth h) (htree h) (hupd h) 0))
                      (fun r => match r with inl e => Ret (Some e, hA) | inr t => Ret (None, with_tree hB t) end))
                 (fun o st' => apply_post st h l o st' /\
                     forall e h', o = Ok (e, h') -> hlist h' = hlist h /\ hdepth h' = ld /\
                        (has_pending M h = false -> h' = h)) st).
    { intros hA hB EBu EBd EBb EBl. apply wp_bind. apply wp_try.
      eapply wp_mono; [|apply (wul_canon ek M uinv UL (hdepth h) bl l (htree h) (hupd h) R st Hu)]; auto.
      - intros o st' (t' & -> & Hsh' & Ha & FF). cbn [lift wp]. split.
        + exists (with_tree hB t'). split; [reflexivity|].
          assert (HC : hclean (with_tree hB t') l).
          { apply hclean_mk; cbn [with_tree hupd htree hblen hdepth hlist]; auto; try congruence.
            rewrite EBl. intros E. apply Hv, E. }
          destruct HC as [HI' Hp']. auto.
        + intros e h' E. injection E as <- <-. cbn [with_tree hlist hdepth]. split; [auto|]. split; [congruence|].
          intros X. congruence.
      - rewrite Hd. apply ld_le.
      - rewrite Hd. eapply N.le_trans; [exact Hl|apply cap_ld]. }
    destruct (hlist h) eqn:El.
    - destruct (N.leb_spec capN m); [lia|]. apply W; cbn [hupd hdepth hblen hlist]; auto.
    - destruct (Hv eq_refl) as [Eb El']. destruct (N.leb_spec (hblen h) m); [lia|].
      apply W; cbn [with_upd hupd hdepth hblen hlist]; auto. lia.
  Qed.

  (* the exact shape assumed by IntraP.coll_intra_spec / coll_intra_spec_memo *)
  Theorem apply_spec_hinv R (h : handle) l st : hinv h l ->
    wp R (apply_updates ek M capN h)
       (fun o st' => exists h', o = Ok (None, h') /\ hinv h' l /\ has_pending M h' = false /\
                                alloc_only st st' /\ fresh_or_from st st' [htree h] (htree h')) st.
  Proof. intros HI. eapply wp_mono; [|apply (apply_spec_gen R h l st HI)]. intros o st' [X _]. exact X. Qed.

  Theorem apply_spec R (h : handle) l st G : gok st G -> hinv h l -> In (htree h) G ->
    wp R (apply_updates ek M capN h)
       (fun o st' => exists h', o = Ok (None, h') /\ hinv h' l /\ has_pending M h' = false /\
                                alloc_only st st' /\ fresh_or_from st st' [htree h] (htree h') /\
                                gok st' (htree h' :: G) /\ hlist h' = hlist h /\
                                (has_pending M h = false -> h' = h)) st.
  Proof.
    intros Gk HI Hin.
    eapply wp_mono; [|apply (wp_conj R _ _ _ st (apply_spec_gen R h l st HI)
                               (apply_updates_idf ek M R capN h st G (proj1 Gk) Hin (gok_all_below _ _ Gk)))].
    intros o st' [[(h' & -> & HI' & Hp' & Ha & FF) Hx] IDF].
    destruct (Hx None h' eq_refl) as (El & _ & Hsame).
    exists h'. split; [reflexivity|]. repeat (split; [assumption|]). split; [|auto].
    apply (gok_alloc_idf st st' G [htree h] (htree h') Gk Ha).
    - intros t0 [<-|[]]. exact Hin.
    - exact FF.
    - apply (IDF None h'). reflexivity.
  Qed.

  Theorem apply_q_spec R (h : handle) l st G : gok st G -> hinv h l -> In (htree h) G ->
    wp R (apply_q ek M capN h)
       (fun o st' => exists h', o = Ok h' /\ hinv h' l /\ has_pending M h' = false /\
                                alloc_only st st' /\ fresh_or_from st st' [htree h] (htree h') /\
                                gok st' (htree h' :: G) /\ hlist h' = hlist h /\
                                (has_pending M h = false -> h' = h)) st.
  Proof.
    intros Gk HI Hin. unfold apply_q. apply wp_bind.
    eapply wp_mono; [|apply (apply_spec R h l st G Gk HI Hin)].
    intros o st' (h' & -> & Rest). cbn [lift wp]. exists h'. split; [reflexivity|exact Rest].
  Qed.
End CollCtor.

Print Assumptions gok_alloc.
Print Assumptions gok_incl.
Print Assumptions gok_alloc_only.
Print Assumptions apply_spec_hinv.
Print Assumptions apply_spec.
Print Assumptions apply_q_spec.
