(* CollCtorP.v — specifications of the collection-level constructors, mutators and conversions of
   model/Coll.v, obtained by combining the wave-1 theorems (BuilderP, RepeatP, WulP, IfaceP, IterP,
   IntraP) with the global state invariant `gok` of Inv.v.  Proof file; no model code.
   Section context: ek M H capN uinv, EKW : ek_wf ek, UL : umap_lawful ek M uinv, CAP : capacity_ok capN.
   Every wp statement holds for every read relation R.
   Exported:
     A  gok_incl, gok_alloc_only, gok_dup, gok_alloc_idf, gok_alloc, idf_cons_fresh
     B  apply_spec_hinv (the shape assumed by IntraP.coll_intra_spec), apply_spec, apply_q_spec,
        list_empty_spec, list_try_from_iter_spec / _full, list_try_from_iter_slow_spec / _full,
        list_repeat_spec / _full, list_repeat_slow_spec / _full,
        pop_front_spec (with retention C10), pop_front_oob, pop_front_slow_spec / _oob,
        vector_try_from_spec / _wrong_spec, list_from_vector_spec, vector_new_spec / _wrong,
        vector_try_from_iter_spec / _short / _long, vector_from_elem_spec, vector_default_spec
        (posts: ctor_post, vctor_post, fail_post, flushed)
     C  canon_inj, coll_eqb_spec', coll_eqb_spec
     generic: wp_assoc, allocp (+ allocp_wp0: allocation-only programs are alloc_only for every outcome),
        wp_fail_to_panic, level_items (level 0 of a packed kind yields no Internal item) *)
From MH Require Import Inv BuilderP RepeatP WulP IfaceP IterP IntraP.
Local Open Scope N_scope.

(* ---------- generic facts about wp / bind ---------- *)
Lemma wp_assoc {A B C} R (m : prog A) (f : A -> prog B) (g : B -> prog C) Q s :
  wp R (bind (bind m f) g) Q s <-> wp R (bind m (fun x => bind (f x) g)) Q s.
Proof.
  rewrite !wp_bind. split; apply wp_mono; intros [a|e|c] s'; cbn [lift]; auto; rewrite wp_bind; auto.
Qed.

(* programs that only allocate (no memo access, no fork) *)
Fixpoint allocp {A} (m : prog A) : Prop :=
  match m with
  | Ret _ | Fail _ | Crash _ => True
  | Fresh k => forall i, allocp (k i)
  | Note _ k => allocp k
  | _ => False
  end.
Lemma allocp_bind {A B} (m : prog A) (f : A -> prog B) :
  allocp m -> (forall a, allocp (f a)) -> allocp (bind m f).
Proof.
  induction m as [A a|A e|A c|A k IH|A i k IH|A i d k IH|A p IHp q IHq k IHk|A t k IH]; cbn [allocp bind]; intros Hm Hf; auto;
    try solve [destruct Hm].
Qed.
Lemma allocp_try {A} (m : prog A) : allocp m -> allocp (try_ m).
Proof.
  induction m as [A a|A e|A c|A k IH|A i k IH|A i d k IH|A p IHp q IHq k IHk|A t k IH]; cbn [allocp try_]; intros Hm; auto.
Qed.
Lemma allocp_wp {A} R (m : prog A) : allocp m -> forall s0 s,
  alloc_only s0 s -> wp R m (fun _ s' => alloc_only s0 s') s.
Proof.
  induction m as [A a|A e|A c|A k IH|A i k IH|A i d k IH|A p IHp q IHq k IHk|A t k IH]; cbn [allocp wp]; intros Hm s0 s Ha; auto;
    try solve [destruct Hm].
  apply IH; auto. destruct Ha as [Em Hn]. split; cbn [bump memo next]; [exact Em|lia].
Qed.
Lemma alloc_only_refl s : alloc_only s s.
Proof. split; [reflexivity|lia]. Qed.
Lemma alloc_only_trans s1 s2 s3 : alloc_only s1 s2 -> alloc_only s2 s3 -> alloc_only s1 s3.
Proof. intros [E1 N1] [E2 N2]. split; [congruence|lia]. Qed.
Lemma allocp_wp0 {A} R (m : prog A) s : allocp m -> wp R m (fun _ s' => alloc_only s s') s.
Proof. intros Hm. apply allocp_wp; auto using alloc_only_refl. Qed.

Section CollCtor.
  Context {T U : Type}.
  Variable ek : ekind T.
  Variable M : umap_impl T U.
  Variable H : digest -> digest -> digest.
  Variable capN : N.
  Variable uinv : U -> Prop.
  Hypothesis EKW : ek_wf ek.
  Hypothesis UL : umap_lawful ek M uinv.
  Hypothesis CAP : capacity_ok capN.
  Notation tree := (tree T).
  Notation handle := (handle T U).
  Notation gok := (gok ek H).
  Notation hinv := (hinv ek M capN uinv).
  Notation hclean := (hclean ek M capN uinv).
  Notation ld := (list_depth ek capN).

  (* ================= A. generic state lemmas ================= *)
  Lemma subt_In_id_cc (u t : tree) : subt u t -> In_id (idof u) t.
  Proof.
    induction t as [i v|i vs|i l IHl r IHr|i d0]; cbn [subt In_id]; intros [->|S]; auto; try contradiction.
    destruct S as [S|S]; auto.
  Qed.
  Lemma subt_idof_below n (t u : tree) : below n t -> subt u t -> (idof u < n)%positive.
  Proof. intros B S. apply B. apply subt_In_id_cc. exact S. Qed.

  Lemma mget_alloc st st' j : alloc_only st st' -> mget st' j = mget st j.
  Proof. intros [Em _]. unfold mget. rewrite Em. reflexivity. Qed.

  Lemma below_mono n n' (t : tree) : (n <= n')%positive -> below n t -> below n' t.
  Proof. intros Hn B i Hi. specialize (B i Hi). lia. Qed.

  Lemma mvalid_alloc st st' (t : tree) : alloc_only st st' -> mvalid ek H st t -> mvalid ek H st' t.
  Proof. intros Ha V u Su Hm. rewrite (mget_alloc st st' _ Ha). apply V; auto. Qed.

  Lemma memo_below_alloc st st' : alloc_only st st' -> memo_below st -> memo_below st'.
  Proof. intros Ha MB j Hj. rewrite (mget_alloc st st' _ Ha). apply MB. destruct Ha as [_ Hn]. lia. Qed.

  (* A2: gok is monotone in G and preserved by allocation *)
  Lemma gok_incl st G G' : gok st G -> incl G' G -> gok st G'.
  Proof.
    intros (IDF & BV & MB) I. split; [|split; [|exact MB]].
    - intros t1 t2 u v I1 I2. apply IDF; apply I; assumption.
    - intros t It. apply BV, I, It.
  Qed.
  Lemma gok_alloc_only st st' G : gok st G -> alloc_only st st' -> gok st' G.
  Proof.
    intros (IDF & BV & MB) Ha. split; [exact IDF|]. split; [|eapply memo_below_alloc; eauto].
    intros t It. destruct (BV t It) as [B V]. split; [|eapply mvalid_alloc; eauto].
    eapply below_mono; [|exact B]. destruct Ha as [_ Hn]. exact Hn.
  Qed.
  Lemma gok_dup st G t : gok st G -> In t G -> gok st (t :: G).
  Proof. intros Gk It. eapply gok_incl; [exact Gk|]. intros x [<-|Hx]; auto. Qed.

  (* the new tree together with the old ones, when the identity discipline of the whole family is known *)
  Lemma gok_alloc_idf st st' G srcs (t : tree) :
    gok st G -> alloc_only st st' -> (forall t0, In t0 srcs -> In t0 G) ->
    fresh_or_from st st' srcs t -> idf (t :: G) -> gok st' (t :: G).
  Proof.
    intros Gk Ha Hsrc FF IDF'. pose proof (gok_alloc_only st st' G Gk Ha) as (_ & BV' & MB').
    destruct Gk as (IDF & BV & MB).
    split; [exact IDF'|]. split; [|exact MB'].
    intros t1 [<-|I1]; [|apply BV'; exact I1]. split.
    - intros i Hi. apply In_id_exists in Hi as (u & Su & <-).
      destruct (FF u Su) as [(t0 & I0 & S0)|[_ Hlt]]; [|exact Hlt].
      destruct (BV' t0 (Hsrc t0 I0)) as [B0 _]. eapply subt_idof_below; eauto.
    - intros u Su Hm. rewrite (mget_alloc st st' _ Ha).
      destruct (FF u Su) as [(t0 & I0 & S0)|[Hge _]].
      + destruct (BV t0 (Hsrc t0 I0)) as [_ V0]. apply V0; auto.
      + left. apply MB. exact Hge.
  Qed.

  (* A1 *)
  Lemma idf_cons_fresh st st' G srcs (t : tree) :
    idf G -> (forall t0, In t0 G -> below (next st) t0) -> (forall t0, In t0 srcs -> In t0 G) ->
    fresh_or_from st st' srcs t -> idf [t] -> idf (t :: G).
  Proof.
    intros IDF B Hsrc FF IDt.
    assert (Hold : forall u t0, In t0 G -> subt u t0 -> (idof u < next st)%positive).
    { intros u t0 I0 S0. eapply subt_idof_below; eauto. }
    assert (Hmix : forall u v t2, subt u t -> In t2 G -> subt v t2 -> idof u = idof v -> u = v).
    { intros u v t2 Su I2 Sv E. destruct (FF u Su) as [(t0 & I0 & S0)|[Hge _]].
      - apply (IDF t0 t2 u v); auto.
      - pose proof (Hold v t2 I2 Sv). lia. }
    intros t1 t2 u v [<-|I1] [<-|I2] Su Sv E.
    - apply (IDt t t u v); auto; left; reflexivity.
    - eapply Hmix; eauto.
    - symmetry. eapply Hmix; eauto.
    - apply (IDF t1 t2 u v); auto.
  Qed.
  Theorem gok_alloc st st' G srcs (t : tree) :
    gok st G -> alloc_only st st' -> (forall t0, In t0 srcs -> In t0 G) ->
    fresh_or_from st st' srcs t -> idf [t] -> gok st' (t :: G).
  Proof.
    intros Gk Ha Hsrc FF IDt. eapply gok_alloc_idf; eauto.
    destruct Gk as (IDF & BV & _). eapply idf_cons_fresh; eauto. intros t0 I0. apply BV, I0.
  Qed.

  Lemma gok_all_below st G : gok st G -> all_below (next st) G.
  Proof. intros (_ & BV & _) t It. apply BV, It. Qed.

  Lemma fresh_or_from_refl st (t : tree) : fresh_or_from st st [t] t.
  Proof. intros u Su. left. exists t. split; [left; reflexivity|exact Su]. Qed.
  Lemma fresh_or_from_mono st st1 st' srcs (t : tree) :
    alloc_only st st1 -> fresh_or_from st1 st' srcs t -> fresh_or_from st st' srcs t.
  Proof. intros [_ Hn] FF u Su. destruct (FF u Su) as [X|[Y Z]]; [left; exact X|right; split; [lia|exact Z]]. Qed.
  Lemma fresh_or_from_nil_srcs st st' srcs (t : tree) :
    fresh_or_from st st' [] t -> fresh_or_from st st' srcs t.
  Proof. intros FF u Su. destruct (FF u Su) as [(t0 & [] & _)|X]; right; exact X. Qed.

  (* ================= facts about the empty map and clean handles ================= *)
  Lemma ulen_empty : ulen M (uempty M) = 0.
  Proof. apply (proj2 (ul_len_0 _ _ _ UL _ (ul_empty_inv _ _ _ UL))). apply (ul_empty_get _ _ _ UL). Qed.
  Lemma umax_empty : umax_index M (uempty M) = None.
  Proof. apply (proj2 (ul_max_none _ _ _ UL _ (ul_empty_inv _ _ _ UL))). apply ulen_empty. Qed.

  Lemma ld_le : (ld + pd_of ek <= 63)%nat.
  Proof. apply (list_depth_le ek EKW capN CAP). Qed.
  Lemma cap_ld : capN <= cap ek ld.
  Proof. apply (IterP.cap_list_depth ek capN CAP). Qed.

  Lemma hclean_mk (h : handle) l :
    hupd h = uempty M -> shape (htree h) = canon ek ld l -> hblen h = lenN l -> hdepth h = ld ->
    lenN l <= capN -> (hlist h = false -> lenN l = capN) -> hclean h l.
  Proof.
    intros Eu Hsh Hb Hd Hl Hv. split.
    - split; [|split; [exact Hd|split; [exact Hl|split; [rewrite Hb; exact Hl|split]]]].
      + exists l. rewrite Hd, Eu. split; [exact Hsh|]. split; [auto|]. split.
        * split; [lia|]. split; [|split; [auto|]].
          -- intros k v E. rewrite (ul_empty_get _ _ _ UL) in E. discriminate.
          -- intros k A B. lia.
        * unfold updated_length. rewrite umax_empty. auto.
      + intros E. rewrite Hb. auto.
      + rewrite Eu. apply (ul_empty_inv _ _ _ UL).
    - unfold has_pending, uis_empty. rewrite Eu, ulen_empty. reflexivity.
  Qed.

  Lemma hclean_shape (h : handle) l : hclean h l ->
    shape (htree h) = canon ek ld l /\ lenN l = hblen h /\ hdepth h = ld /\ lenN l <= capN /\ ulen M (hupd h) = 0 /\ uinv (hupd h).
  Proof.
    intros [HI Hp]. destruct (has_pending_spec ek M uinv capN UL h l HI Hp) as [Hsh Hb].
    pose proof HI as (_ & Hd & Hl & _ & _ & Hu). rewrite Hd in Hsh.
    unfold has_pending, uis_empty in Hp. apply negb_false_iff, N.eqb_eq in Hp. auto 10.
  Qed.

  (* a non-empty lawful map that describes an overlay has a key *)
  Lemma nonempty_has_key (u : U) bl l : uinv u -> agrees M u bl l -> ulen M u <> 0 -> exists k, has_key M u k.
  Proof.
    intros Hu (_ & Hget & _ & _) Hne.
    destruct (urange M u 0 (lenN l)) as [|[k v] r] eqn:Er.
    - exfalso. apply Hne. apply (proj2 (ul_len_0 _ _ _ UL u Hu)). intros k.
      destruct (uget M u k) as [v|] eqn:Ek; [|reflexivity]. exfalso.
      pose proof (Hget k v Ek) as Hn.
      assert (k < lenN l) as Hk by (apply nthN_Some; congruence).
      assert (In (k, v) (urange M u 0 (lenN l))) as Hin by (apply (ul_range_in _ _ _ UL); auto; repeat split; auto; lia).
      rewrite Er in Hin. destruct Hin.
    - exists k. assert (In (k, v) (urange M u 0 (lenN l))) as Hin by (rewrite Er; left; reflexivity).
      apply (ul_range_in _ _ _ UL) in Hin; auto. destruct Hin as (_ & _ & E). unfold has_key. congruence.
  Qed.

  (* ================= B. apply_updates ================= *)
  Definition apply_post (st : state) (h : handle) (l : list T) (o : outcome (option error * handle)) (st' : state) : Prop :=
    exists h', o = Ok (None, h') /\ hinv h' l /\ has_pending M h' = false /\
               alloc_only st st' /\ fresh_or_from st st' [htree h] (htree h').

  Lemma apply_spec_gen R (h : handle) l st : hinv h l ->
    wp R (apply_updates ek M capN h)
       (fun o st' => apply_post st h l o st' /\
                     forall e h', o = Ok (e, h') -> hlist h' = hlist h /\ hdepth h' = ld /\
                        (has_pending M h = false -> h' = h)) st.
  Proof.
    intros HI. pose proof HI as ((bl & Hsh & Hbl & Hag & Hul) & Hd & Hl & Hb & Hv & Hu).
    unfold apply_updates. destruct (uis_empty M (hupd h)) eqn:Ee.
    { cbn [wp]. split.
      - exists h. split; [reflexivity|]. split; [exact HI|]. split; [unfold has_pending; rewrite Ee; reflexivity|].
        split; [apply alloc_only_refl|apply fresh_or_from_refl].
      - intros e h' E. injection E as <- <-. auto. }
    assert (Hp : has_pending M h = true) by (unfold has_pending; rewrite Ee; reflexivity).
    unfold uis_empty in Ee. apply N.eqb_neq in Ee.
    destruct (umax_index M (hupd h)) as [m|] eqn:Em.
    2: { exfalso. apply Ee. apply (ul_max_none _ _ _ UL); auto. }
    assert (Hm : m + 1 <= lenN l). { rewrite <- Hul. unfold updated_length. rewrite Em. lia. }
    pose proof (nonempty_has_key _ _ _ Hu Hag Ee) as Hk.
    assert (W : forall (hA hB : handle), hupd hB = uempty M -> hdepth hB = hdepth h -> hblen hB = lenN l -> hlist hB = hlist h ->
              wp R (bind (try_ (with_updated_leaves ek M (hdepth h) (htree h) (hupd h) 0))
                      (fun r => match r with inl e => Ret (Some e, hA) | inr t => Ret (None, with_tree hB t) end))
                 (fun o st' => apply_post st h l o st' /\
                     forall e h', o = Ok (e, h') -> hlist h' = hlist h /\ hdepth h' = ld /\
                        (has_pending M h = false -> h' = h)) st).
    { intros hA hB EBu EBd EBb EBl. apply wp_bind. apply wp_try.
      eapply wp_mono; [|apply (wul_canon ek M uinv UL (hdepth h) bl l (htree h) (hupd h) R st Hu)]; auto.
      - intros o st' (t' & -> & Hsh' & Ha & FF). cbn [lift wp]. split.
        + exists (with_tree hB t'). split; [reflexivity|].
          assert (HC : hclean (with_tree hB t') l).
          { apply hclean_mk; cbn [with_tree hupd htree hblen hdepth hlist]; auto; try congruence.
            rewrite EBl. intros E. apply Hv, E. }
          destruct HC as [HI' Hp']. auto.
        + intros e h' E. injection E as <- <-. cbn [with_tree hlist hdepth]. split; [auto|]. split; [congruence|].
          intros X. congruence.
      - rewrite Hd. apply ld_le.
      - rewrite Hd. eapply N.le_trans; [exact Hl|apply cap_ld]. }
    destruct (hlist h) eqn:El.
    - destruct (N.leb_spec capN m); [lia|]. apply W; cbn [hupd hdepth hblen hlist]; auto.
    - destruct (Hv eq_refl) as [Eb El']. destruct (N.leb_spec (hblen h) m); [lia|].
      apply W; cbn [with_upd hupd hdepth hblen hlist]; auto. lia.
  Qed.

  (* the exact shape assumed by IntraP.coll_intra_spec / coll_intra_spec_memo *)
  Theorem apply_spec_hinv R (h : handle) l st : hinv h l ->
    wp R (apply_updates ek M capN h)
       (fun o st' => exists h', o = Ok (None, h') /\ hinv h' l /\ has_pending M h' = false /\
                                alloc_only st st' /\ fresh_or_from st st' [htree h] (htree h')) st.
  Proof. intros HI. eapply wp_mono; [|apply (apply_spec_gen R h l st HI)]. intros o st' [X _]. exact X. Qed.

  Theorem apply_spec R (h : handle) l st G : gok st G -> hinv h l -> In (htree h) G ->
    wp R (apply_updates ek M capN h)
       (fun o st' => exists h', o = Ok (None, h') /\ hinv h' l /\ has_pending M h' = false /\
                                alloc_only st st' /\ fresh_or_from st st' [htree h] (htree h') /\
                                gok st' (htree h' :: G) /\ hlist h' = hlist h /\
                                (has_pending M h = false -> h' = h)) st.
  Proof.
    intros Gk HI Hin.
    eapply wp_mono; [|apply (wp_conj R _ _ _ st (apply_spec_gen R h l st HI)
                               (apply_updates_idf ek M R capN h st G (proj1 Gk) Hin (gok_all_below _ _ Gk)))].
    intros o st' [[(h' & -> & HI' & Hp' & Ha & FF) Hx] IDF].
    destruct (Hx None h' eq_refl) as (El & _ & Hsame).
    exists h'. split; [reflexivity|]. repeat (split; [assumption|]). split; [|auto].
    apply (gok_alloc_idf st st' G [htree h] (htree h') Gk Ha).
    - intros t0 [<-|[]]. exact Hin.
    - exact FF.
    - apply (IDF None h'). reflexivity.
  Qed.

  Theorem apply_q_spec R (h : handle) l st G : gok st G -> hinv h l -> In (htree h) G ->
    wp R (apply_q ek M capN h)
       (fun o st' => exists h', o = Ok h' /\ hinv h' l /\ has_pending M h' = false /\
                                alloc_only st st' /\ fresh_or_from st st' [htree h] (htree h') /\
                                gok st' (htree h' :: G) /\ hlist h' = hlist h /\
                                (has_pending M h = false -> h' = h)) st.
  Proof.
    intros Gk HI Hin. unfold apply_q. apply wp_bind.
    eapply wp_mono; [|apply (apply_spec R h l st G Gk HI Hin)].
    intros o st' (h' & -> & Rest). cbn [lift wp]. exists h'. split; [reflexivity|exact Rest].
  Qed.

  (* ================= allocation-only programs ================= *)
  Lemma allocp_merge_n n : forall (top : tree) st, allocp (merge_n n top st).
  Proof.
    induction n as [|n IH]; intros top st; cbn [merge_n]; [exact I|].
    destruct st as [|[b0 l0] st']; [exact I|]. cbn [bind fresh allocp]. intros i. apply IH.
  Qed.
  Lemma allocp_push b v : allocp (builder_push ek b v).
  Proof.
    unfold builder_push. cbv beta zeta. destruct (blength b =? bcap b); [exact I|]. apply allocp_bind.
    - destruct (is_packed ek).
      + destruct (blength b mod pf_of ek =? 0); [cbn [bind fresh allocp]; auto|].
        destruct (bstack b) as [|[[|] [i0 v0|i0 vs0|i0 l0 r0|i0 d0]] st]; try exact I.
        destruct (lenN vs0 =? pf_of ek); exact I.
      + cbn [bind fresh allocp]. auto.
    - intros [top st]. apply allocp_bind; [apply allocp_merge_n|]. intros [top' st']. exact I.
  Qed.
  Lemma allocp_push_all vs : forall b, allocp (push_all ek b vs).
  Proof.
    induction vs as [|v vs IH]; intros b; cbn [push_all]; [exact I|].
    apply allocp_bind; [apply allocp_push|]. intros b'. apply IH.
  Qed.
  Lemma allocp_merge_up n : forall i x (st : list (bool * tree)) e1 e2, allocp (merge_up ek n i x st e1 e2).
  Proof.
    induction n as [|n IH]; intros i x st e1 e2; cbn [merge_up]; [exact I|].
    destruct (N.testbit x (N.of_nat (i + pd_of ek))); [|exact I].
    destruct st as [|[b1 r1] [|[b2 l2] st']]; try exact I. cbn [bind fresh allocp]. intros j. apply IH.
  Qed.
  Lemma allocp_finish_loop fuel : forall (b : builder T) lv nx st, allocp (finish_loop ek fuel b lv nx st).
  Proof.
    induction fuel as [|f IH]; intros b lv nx st; cbn [finish_loop];
      destruct (N.shiftl nx (N.of_nat lv) mod 2 ^ 64 =? bcap b); try exact I.
    destruct st as [|[b1 top] st']; [exact I|]. cbn [bind fresh allocp]. intros zi ni. cbv zeta.
    apply allocp_bind; [apply allocp_merge_up|]. intros st2.
    match goal with |- allocp (if ?c then _ else _) => destruct c end; [exact I|].
    match goal with |- allocp (if ?c then _ else _) => destruct c end; [exact I|]. apply IH.
  Qed.
  Lemma allocp_finish (b : builder T) : allocp (builder_finish ek b).
  Proof.
    unfold builder_finish. cbv beta zeta. destruct (bstack b) as [|x st] eqn:Es; [cbn [bind fresh allocp]; auto|].
    destruct (64 <=? blevel b); [exact I|]. apply allocp_bind.
    - destruct (is_packed ek); [|exact I].
      match goal with |- allocp (if ?c then _ else _) => destruct c end; [|exact I].
      apply allocp_bind; [apply allocp_merge_up|]. intros st'. exact I.
    - intros [next1 st1]. apply allocp_bind; [apply allocp_finish_loop|].
      intros [|[b1 t1] [|y st2]]; exact I.
  Qed.
  Lemma allocp_new depth level : allocp (builder_new ek depth level).
  Proof. unfold builder_new. cbv beta zeta. destruct (63 <? depth + N.of_nat (pd_of ek)); exact I. Qed.
  Lemma allocp_list_try_from_iter vs : allocp (list_try_from_iter ek M capN vs).
  Proof.
    unfold list_try_from_iter. apply allocp_bind; [apply allocp_new|]. intros b.
    apply allocp_bind; [apply allocp_push_all|]. intros b'.
    apply allocp_bind; [apply allocp_finish|]. intros [[t d] n]. destruct (capN <? n); exact I.
  Qed.
  Lemma allocp_list_empty : allocp (list_empty ek M capN).
  Proof. unfold list_empty. cbn [bind fresh allocp]. auto. Qed.

  Lemma builder_new_ok d lv : (d + pd_of ek <= 63)%nat ->
    builder_new ek (N.of_nat d) lv =
    Ret {| bstack := []; bdepth := d; blevel := lv; blength := 0; bcap := pow2 (d + pd_of ek) |}.
  Proof.
    intros Hd. unfold builder_new. cbv beta zeta.
    destruct (N.ltb_spec 63 (N.of_nat d + N.of_nat (pd_of ek))); [lia|]. rewrite Nat2N.id. reflexivity.
  Qed.

  (* ================= B. constructors ================= *)
  (* the result of a constructor: a clean List handle over a tree all of whose nodes are new *)
  Definition ctor_post (st : state) (G : list tree) (l : list T) (o : outcome handle) (st' : state) : Prop :=
    exists h', o = Ok h' /\ hclean h' l /\ hlist h' = true /\ alloc_only st st' /\
               fresh_or_from st st' [] (htree h') /\ gok st' (htree h' :: G).
  (* a failing constructor: only allocations happened, so gok st' G still holds (gok_alloc_only) *)
  Definition fail_post (st : state) (e : error) {A} (o : outcome A) (st' : state) : Prop :=
    o = Err e /\ alloc_only st st'.

  Lemma from_parts_clean (t : tree) l : shape t = canon ek ld l -> lenN l <= capN ->
    hclean (from_parts M t ld (lenN l)) l.
  Proof. intros Hsh Hl. apply hclean_mk; cbn [from_parts hupd htree hblen hdepth hlist]; auto. discriminate. Qed.

  Lemma canon_nil_cc d : canon ek d [] = SZero d.
  Proof. destruct d; reflexivity. Qed.

  Theorem list_empty_spec R st G : gok st G -> wp R (list_empty ek M capN) (ctor_post st G []) st.
  Proof.
    intros Gk. unfold list_empty. cbn [bind fresh wp].
    assert (Ha : alloc_only st (bump st)) by (split; cbn [bump memo next]; [reflexivity|lia]).
    assert (FF : fresh_or_from st (bump st) [] (Zero (next st) ld : tree)).
    { intros u [->|[]]. right. cbn [idof bump next]. lia. }
    exists (from_parts M (Zero (next st) ld) ld 0). split; [reflexivity|].
    split; [apply (from_parts_clean (Zero (next st) ld) []); [rewrite canon_nil_cc; reflexivity|rewrite lenN_nil; lia]|].
    split; [reflexivity|]. split; [exact Ha|]. split; [exact FF|]. cbn [from_parts htree].
    apply (gok_alloc st (bump st) G [] _ Gk Ha); [intros t0 []|exact FF|].
    intros t1 t2 u v [<-|[]] [<-|[]] [->|[]] [->|[]] _. reflexivity.
  Qed.

    Lemma build_spec R vs st : lenN vs <= cap ek ld ->
      wp R (bind (push_all ek {| bstack := []; bdepth := ld; blevel := 0; blength := 0; bcap := pow2 (ld + pd_of ek) |} vs)
                 (fun b' => builder_finish ek b'))
         (fun o st' => exists t, o = Ok (t, ld, lenN vs) /\ shape t = canon ek ld vs /\
                                 alloc_only st st' /\ fresh_or_from st st' [] t /\ idf [t]) st.
    Proof.
      intros Hl. pose proof (build_canon_idf ek ld vs R st ld_le Hl) as W1.
      rewrite (builder_new_ok ld 0 ld_le) in W1. cbn [bind] in W1. exact W1.
    Qed.

    Theorem list_try_from_iter_spec R vs st G : gok st G -> lenN vs <= capN ->
      wp R (list_try_from_iter ek M capN vs) (ctor_post st G vs) st.
    Proof.
      intros Gk Hl. unfold list_try_from_iter. rewrite (builder_new_ok ld 0 ld_le). cbn [bind].
      apply wp_assoc. apply wp_bind.
      eapply wp_mono; [|apply (build_spec R vs st)]; [|eapply N.le_trans; [exact Hl|apply cap_ld]].
      intros o st' (t & -> & Hsh & Ha & FF & IDt). cbn [lift].
      destruct (N.ltb_spec capN (lenN vs)); [lia|]. cbn [wp].
      exists (from_parts M t ld (lenN vs)). split; [reflexivity|].
      split; [apply from_parts_clean; auto|]. split; [reflexivity|]. split; [exact Ha|]. split; [exact FF|].
      cbn [from_parts htree]. apply (gok_alloc st st' G [] t Gk Ha); auto. intros t0 [].
    Qed.

    Lemma push_all_fail R v e : forall vs1 b s,
      wp R (bind (push_all ek b vs1) (fun b' => builder_push ek b' v)) (fun o _ => o = Err e) s ->
      forall vs2 {A} (k : builder T -> prog A),
        wp R (bind (push_all ek b (vs1 ++ v :: vs2)) k) (fun o _ => o = Err e) s.
    Proof.
      induction vs1 as [|a vs1 IH]; intros b s W vs2 A k.
      - cbn [push_all bind app] in *. apply wp_bind, wp_bind. eapply wp_mono; [|exact W].
        intros [b'|e'|c] s' E; try discriminate E; cbn [lift]. injection E as ->. reflexivity.
      - cbn [push_all app] in *. apply (proj1 (wp_assoc R _ _ _ _ _)) in W. apply wp_bind in W.
        apply (proj2 (wp_assoc R _ _ _ _ _)). apply wp_bind. eapply wp_mono; [|exact W].
        intros [b'|e'|c] s' X; cbn [lift] in *; auto; try discriminate X. injection X as ->. reflexivity.
    Qed.

    Theorem list_try_from_iter_full R vs st : capN < lenN vs ->
      wp R (list_try_from_iter ek M capN vs) (fail_post st BuilderFull) st.
    Proof.
      intros Hl. unfold fail_post. apply wp_conj; [|apply allocp_wp0, allocp_list_try_from_iter].
      unfold list_try_from_iter. rewrite (builder_new_ok ld 0 ld_le). cbn [bind].
      destruct (N.le_gt_cases (lenN vs) (cap ek ld)) as [Hle|Hgt].
      - apply (proj1 (wp_assoc R _ _ _ _ _)). apply wp_bind.
        eapply wp_mono; [|apply (build_spec R vs st Hle)].
        intros o st' (t & -> & _). cbn [lift]. destruct (N.ltb_spec capN (lenN vs)); [reflexivity|lia].
      - rewrite <- (takeN_dropN (cap ek ld) vs).
        destruct (dropN (cap ek ld) vs) as [|v vs2] eqn:Ed.
        { pose proof (lenN_dropN (cap ek ld) vs) as X. rewrite Ed, lenN_nil in X. lia. }
        apply push_all_fail.
        pose proof (push_full ek ld (takeN (cap ek ld) vs) v R st ld_le) as W.
        rewrite (builder_new_ok ld 0 ld_le) in W. cbn [bind] in W. apply W. rewrite lenN_takeN. lia.
    Qed.

    (* ---------- try_from_iter_slow ---------- *)
    Lemma push_all_iface_ok : forall vs (h : handle) l, hinv h l -> hlist h = true -> lenN l + lenN vs <= capN ->
      exists h', push_all_iface M capN h vs = Ret h' /\ hinv h' (l ++ vs) /\ same_backing h h'.
    Proof.
      induction vs as [|v vs IH]; intros h l HI Hlist Hl.
      - exists h. rewrite app_nil_r. split; [reflexivity|]. split; [exact HI|]. unfold same_backing. auto.
      - rewrite lenN_cons in Hl.
        destruct (push_spec_list ek M uinv capN UL cap_ld h l v HI Hlist ltac:(lia)) as (h1 & E1 & HI1 & SB1).
        destruct (IH h1 (l ++ [v]) HI1) as (h' & E' & HI' & SB').
        { destruct SB1 as (_ & _ & _ & X). congruence. }
        { rewrite lenN_app, lenN_cons, lenN_nil. lia. }
        exists h'. cbn [push_all_iface]. rewrite E1. cbn [bind]. split; [exact E'|].
        rewrite <- app_assoc in HI'. split; [exact HI'|].
        destruct SB1 as (A1 & A2 & A3 & A4), SB' as (B1 & B2 & B3 & B4). repeat split; congruence.
    Qed.
    Lemma push_all_iface_full : forall vs1 (h : handle) l v vs2, hinv h l -> hlist h = true -> lenN l + lenN vs1 = capN ->
      push_all_iface M capN h (vs1 ++ v :: vs2) = Fail (ListFull capN).
    Proof.
      induction vs1 as [|a vs1 IH]; intros h l v vs2 HI Hlist Hl.
      - rewrite lenN_nil in Hl. cbn [app push_all_iface].
        rewrite (push_spec_full ek M uinv capN h l v HI Hlist ltac:(lia)). reflexivity.
      - rewrite lenN_cons in Hl.
        destruct (push_spec_list ek M uinv capN UL cap_ld h l a HI Hlist ltac:(lia)) as (h1 & E1 & HI1 & SB1).
        cbn [app push_all_iface]. rewrite E1. cbn [bind]. apply (IH h1 (l ++ [a])); auto.
        + destruct SB1 as (_ & _ & _ & X). congruence.
        + rewrite lenN_app, lenN_cons, lenN_nil. lia.
    Qed.

    Theorem list_try_from_iter_slow_spec R vs st G : gok st G -> lenN vs <= capN ->
      wp R (list_try_from_iter_slow ek M capN vs) (ctor_post st G vs) st.
    Proof.
      intros Gk Hl. unfold list_try_from_iter_slow. apply wp_bind.
      eapply wp_mono; [|apply (list_empty_spec R st G Gk)].
      intros o st1 (h0 & -> & [HI0 Hp0] & Hlist0 & Ha0 & FF0 & Gk0). cbn [lift].
      destruct (push_all_iface_ok vs h0 [] HI0 Hlist0) as (h1 & E1 & HI1 & SB1); [rewrite lenN_nil; lia|].
      rewrite E1. cbn [bind app] in *. destruct SB1 as (S1 & S2 & S3 & S4).
      eapply wp_mono; [|apply (apply_q_spec R h1 vs st1 (htree h0 :: G) Gk0 HI1)]; [|left; congruence].
      intros o st2 (h2 & -> & HI2 & Hp2 & Ha2 & FF2 & Gk2 & Hlist2 & _).
      exists h2. split; [reflexivity|]. split; [split; assumption|]. split; [congruence|].
      split; [eapply alloc_only_trans; eauto|]. split.
      - intros u Su. right. destruct (FF2 u Su) as [(t0 & [<-|[]] & S0)|[A B]].
        + rewrite S1 in S0. destruct (FF0 u S0) as [(t1 & [] & _)|[A B]]. destruct Ha2 as [_ N2]. split; [exact A|lia].
        + destruct Ha0 as [_ N0]. split; [lia|exact B].
      - eapply gok_incl; [exact Gk2|]. intros x [<-|Hx]; [left; reflexivity|right; right; exact Hx].
    Qed.

    Theorem list_try_from_iter_slow_full R vs st G : gok st G -> capN < lenN vs ->
      wp R (list_try_from_iter_slow ek M capN vs) (fail_post st (ListFull capN)) st.
    Proof.
      intros Gk Hl. unfold list_try_from_iter_slow. apply wp_bind.
      eapply wp_mono; [|apply (list_empty_spec R st G Gk)].
      intros o st1 (h0 & -> & [HI0 Hp0] & Hlist0 & Ha0 & FF0 & Gk0). cbn [lift].
      rewrite <- (takeN_dropN capN vs).
      destruct (dropN capN vs) as [|v vs2] eqn:Ed.
      { pose proof (lenN_dropN capN vs) as X. rewrite Ed, lenN_nil in X. lia. }
      rewrite (push_all_iface_full (takeN capN vs) h0 [] v vs2 HI0 Hlist0); [|rewrite lenN_nil, lenN_takeN; lia].
      cbn [bind wp]. split; [reflexivity|exact Ha0].
    Qed.

    (* ---------- repeat ---------- *)
    Theorem list_repeat_spec R v n st G : gok st G -> n <= capN ->
      wp R (list_repeat ek M capN v n) (ctor_post st G (repeatN v n)) st.
    Proof.
      intros Gk Hn. unfold list_repeat. destruct (N.eqb_spec n 0) as [->|Hn0]; [apply list_empty_spec; exact Gk|].
      apply wp_bind.
      eapply wp_mono; [|apply (repeat_canon_idf ek v capN ld n R st)]; [|lia|exact Hn|apply cap_ld].
      intros o st' (root & -> & Hsh & Ha & FF & _ & IDt). cbn [lift wp].
      exists (from_parts M root ld n). split; [reflexivity|]. split.
      { apply hclean_mk; cbn [from_parts hupd htree hblen hdepth hlist]; auto; try discriminate.
        - symmetry. apply lenN_repeatN. - rewrite lenN_repeatN. exact Hn. }
      split; [reflexivity|]. split; [exact Ha|]. split; [exact FF|].
      cbn [from_parts htree]. apply (gok_alloc st st' G [] root Gk Ha); auto. intros t0 [].
    Qed.
    Theorem list_repeat_full R v n st : capN < n ->
      wp R (list_repeat ek M capN v n) (fail_post st BuilderFull) st.
    Proof.
      intros Hn. unfold list_repeat. destruct (N.eqb_spec n 0) as [->|Hn0]; [lia|].
      unfold repeat_tree. cbv beta zeta. destruct (N.ltb_spec capN n); [|lia].
      cbn [bind wp]. split; [reflexivity|apply alloc_only_refl].
    Qed.

    Theorem list_repeat_slow_spec R v n st G : gok st G -> n <= capN ->
      wp R (list_repeat_slow ek M capN v n) (ctor_post st G (repeatN v n)) st.
    Proof.
      intros Gk Hn. unfold list_repeat_slow. cbv zeta. pose proof cap_ld as Hc. unfold cap in Hc.
      rewrite N.min_l by lia. apply list_try_from_iter_spec; auto. rewrite lenN_repeatN. exact Hn.
    Qed.
    Theorem list_repeat_slow_full R v n st : capN < n ->
      wp R (list_repeat_slow ek M capN v n) (fail_post st BuilderFull) st.
    Proof.
      intros Hn. unfold list_repeat_slow. cbv zeta. pose proof cap_ld as Hc. unfold cap in Hc.
      apply list_try_from_iter_full. rewrite lenN_repeatN. lia.
    Qed.

    (* ================= C. derived PartialEq ================= *)
    Lemma list_eqb_iff : forall a b : list T, list_eqb ek a b = true <-> a = b.
    Proof.
      induction a as [|x a IH]; intros [|y b]; cbn [list_eqb]; split; intros E; try discriminate E; auto.
      - apply andb_prop in E as [E1 E2]. apply (ek_eqb_spec ek EKW) in E1. apply IH in E2. congruence.
      - injection E as -> ->. apply andb_true_intro. split; [apply (ek_eqb_spec ek EKW); reflexivity|apply IH; reflexivity].
    Qed.
    Lemma stree_eqb_iff : forall a b : stree T, stree_eqb ek a b = true <-> a = b.
    Proof.
      induction a as [v|vs|l IHl r IHr|d]; intros [w|ws|l' r'|d']; cbn [stree_eqb]; split; intros E; try discriminate E.
      - apply (ek_eqb_spec ek EKW) in E. congruence.
      - injection E as ->. apply (ek_eqb_spec ek EKW). reflexivity.
      - apply list_eqb_iff in E. congruence.
      - injection E as ->. apply list_eqb_iff. reflexivity.
      - apply andb_prop in E as [E1 E2]. apply IHl in E1. apply IHr in E2. congruence.
      - injection E as -> ->. apply andb_true_intro. split; [apply IHl|apply IHr]; reflexivity.
      - apply Nat.eqb_eq in E. congruence.
      - injection E as ->. apply Nat.eqb_eq. reflexivity.
    Qed.
    Theorem canon_inj d l1 l2 : lenN l1 <= cap ek d -> lenN l2 <= cap ek d -> canon ek d l1 = canon ek d l2 -> l1 = l2.
    Proof.
      intros H1 H2 E. rewrite <- (selems_canon ek d l1 H1), <- (selems_canon ek d l2 H2), E. reflexivity.
    Qed.

    (* the kind flags are not compared (List and Vector are different Rust types); `hlist h1 = hlist h2`
       is therefore not needed *)
    Theorem coll_eqb_spec' (h1 h2 : handle) l1 l2 : hclean h1 l1 -> hclean h2 l2 ->
      (coll_eqb ek M h1 h2 = true <-> l1 = l2).
    Proof.
      intros C1 C2. destruct (hclean_shape h1 l1 C1) as (Sh1 & B1 & D1 & L1 & U1 & I1).
      destruct (hclean_shape h2 l2 C2) as (Sh2 & B2 & D2 & L2 & U2 & I2).
      unfold coll_eqb, tree_eqb. rewrite Sh1, Sh2, D1, D2, Nat.eqb_refl, (ul_eqb_empty _ _ _ UL _ _ I1 I2 U1 U2), !andb_true_r.
      rewrite <- B1, <- B2. pose proof cap_ld as Hc. split.
      - intros E. apply andb_prop in E as [E _]. apply stree_eqb_iff in E. apply canon_inj in E; auto; lia.
      - intros ->. rewrite N.eqb_refl, andb_true_r. apply stree_eqb_iff. reflexivity.
    Qed.
    Theorem coll_eqb_spec (h1 h2 : handle) l1 l2 : hclean h1 l1 -> hclean h2 l2 -> hlist h1 = hlist h2 ->
      (coll_eqb ek M h1 h2 = true <-> l1 = l2).
    Proof. intros C1 C2 _. apply coll_eqb_spec'; assumption. Qed.

    (* ================= B. pop_front ================= *)
    Lemma compute_level_cases n : 0 < n -> n <= capN ->
      (compute_level n ld (pd_of ek) = 0%nat \/ (pd_of ek <= compute_level n ld (pd_of ek))%nat) /\
      (compute_level n ld (pd_of ek) <= ld + pd_of ek)%nat.
    Proof.
      intros Hn0 Hn. unfold compute_level. destruct (N.eqb_spec n 0) as [|_]; [lia|].
      assert (tz n <= ld + pd_of ek)%nat as Htz.
      { apply tz_le; [exact Hn0|]. pose proof cap_ld as Hc. unfold cap in Hc. lia. }
      destruct (Nat.ltb_spec (tz n) (pd_of ek)); split; auto; lia.
    Qed.

    (* list_level_iter_from on a clean handle, with the extra fact that level 0 of a packed kind
       (pd > 0) yields single elements only *)
    Lemma level_items (h : handle) l n : hclean h l -> n <= lenN l ->
      exists items, list_level_iter_from ek M h n = Ret items /\
        items_blocks ek (compute_level n ld (pd_of ek)) items (dropN n l) /\
        (forall u, In u (internal_nodes items) -> subt u (htree h)) /\
        (compute_level n ld (pd_of ek) = 0%nat -> (0 < pd_of ek)%nat -> internal_nodes items = []).
    Proof.
      intros HC Hn. pose proof HC as [HI Hp].
      destruct (hclean_shape h l HC) as (Sh & Bl & Dh & Ll & _ & _).
      destruct (list_level_iter_from_spec ek M uinv capN UL CAP h l HI n) as (_ & _ & X).
      destruct (X Hn Hp) as (items & E & IB & Sub). rewrite Dh in IB.
      exists items. split; [exact E|]. split; [exact IB|]. split; [exact Sub|].
      intros HL0 Hpd.
      assert (Hcap : lenN l <= cap ek ld) by (eapply N.le_trans; [exact Ll|apply cap_ld]).
      assert (Hinv : linv ek l (htree h) ld 0 (liter_from_index ek n (htree h) ld (lenN l)) n).
      { exists [htree h]. split; [unfold liter_from_index, mkl; rewrite HL0; reflexivity|].
        intros Hlt. exists ld. split; [lia|]. apply stack_ok_root; auto. lia. }
      destruct (liter_collect_elem ek l (htree h) ld Hcap Hpd (S (S (N.to_nat (lenN l)))) n _ Hinv ltac:(lia))
        as (items' & E' & _ & Hnone).
      unfold list_level_iter_from in E. rewrite (iface_len_spec ek M uinv capN h l HI), Hp, Dh, <- Bl, E' in E.
      destruct (N.ltb_spec (lenN l) n); [lia|]. cbn [of_outcome] in E. injection E as <-. exact Hnone.
    Qed.

    Lemma allocp_push_node b (node : tree) len : allocp (builder_push_node ek b node len).
    Proof.
      unfold builder_push_node. cbv beta zeta. destruct (blength b =? bcap b); [exact I|].
      destruct (64 <=? blevel b); [exact I|]. apply allocp_bind.
      - generalize (if blevel b =? 0
                    then (tz (N.shiftr (blength b) (blevel b) + 1) - pd_of ek)%nat
                    else tz (N.shiftr (blength b) (blevel b) + 1)) as k.
        generalize (true, node) as top. generalize (bstack b) as st.
        intros st top k. revert top st. induction k as [|k IH]; intros top st; cbn [merge_avail]; [exact I|].
        destruct st as [|[b0 l0] st']; [exact I|]. cbn [bind fresh allocp]. intros i. apply IH.
      - intros [top st]. destruct (usize_max <? blength b + len); exact I.
    Qed.
    Lemma allocp_feed items L : forall b, allocp (pop_front_feed ek items L b).
    Proof.
      induction items as [|[node|v] rest IH]; intros b; cbn [pop_front_feed]; [exact I| |].
      - cbv zeta. apply allocp_bind; [apply allocp_push_node|]. intros b'. apply IH.
      - apply allocp_bind; [apply allocp_push|]. intros b'. apply IH.
    Qed.

    (* what pop_front leaves behind, in all cases: h1 is the flushed handle (h itself when h was clean) *)
    Definition flushed (st : state) (G : list tree) (h : handle) (l : list T) (h1 : handle) (st1 : state) : Prop :=
      hclean h1 l /\ hlist h1 = hlist h /\ alloc_only st st1 /\ fresh_or_from st st1 [htree h] (htree h1) /\
      gok st1 (htree h1 :: G) /\ (has_pending M h = false -> h1 = h).

    Theorem pop_front_spec R (h : handle) l n st G : gok st G -> hinv h l -> In (htree h) G -> hlist h = true ->
      n <= lenN l ->
      wp R (list_pop_front ek M capN h n)
         (fun o st' => exists h', o = Ok (None, h') /\ hclean h' (dropN n l) /\ hlist h' = true /\
            alloc_only st st' /\ fresh_or_from st st' [htree h] (htree h') /\ gok st' (htree h' :: G) /\
            (* C10: the level-L blocks of the flushed tree are shared, everything else is new *)
            exists h1 st1 items, flushed st G h l h1 st1 /\ alloc_only st1 st' /\
              gok st' (htree h' :: htree h1 :: G) /\
              (n = 0 -> h' = h1) /\
              (0 < n -> list_level_iter_from ek M h1 n = Ret items /\
                        items_blocks ek (compute_level n ld (pd_of ek)) items (dropN n l) /\
                        (forall u, In u (internal_nodes items) -> subt u (htree h1) /\ subt u (htree h')) /\
                        fresh_or_from st1 st' (internal_nodes items) (htree h'))) st.
    Proof.
      intros Gk HI Hin Hlist Hn. unfold list_pop_front. apply wp_bind.
      eapply wp_mono; [|apply (apply_spec R h l st G Gk HI Hin)].
      intros o st1 (h1 & -> & HI1 & Hp1 & Ha1 & FF1 & Gk1 & Hlist1 & Hsame1). cbn [lift]. cbv beta iota.
      assert (HF : flushed st G h l h1 st1) by (split; [split; assumption|]; repeat (split; [assumption|]); assumption).
      destruct (N.eqb_spec n 0) as [->|Hn0].
      { cbn [wp]. exists h1. rewrite dropN_0. split; [reflexivity|]. split; [split; assumption|].
        split; [congruence|]. split; [exact Ha1|]. split; [exact FF1|]. split; [exact Gk1|].
        exists h1, st1, []. split; [exact HF|]. split; [apply alloc_only_refl|].
        split; [apply gok_dup; [exact Gk1|left; reflexivity]|]. split; [auto|]. intros X. lia. }
      apply wp_bind. apply wp_try. cbv zeta. rewrite (builder_new_ok ld _ ld_le). cbn [bind].
      destruct (level_items h1 l n (conj HI1 Hp1) Hn) as (items & E & IB & Sub & Hnone).
      rewrite E. cbn [bind].
      destruct (compute_level_cases n ltac:(lia)) as (Hcase & HLle); [pose proof HI as (_ & _ & X & _); lia|].
      assert (Hrest : lenN (dropN n l) <= capN) by (rewrite lenN_dropN; pose proof HI as (_ & _ & X & _); lia).
      assert (Hin1 : forall u, In u (internal_nodes items) -> subt_in u (htree h1 :: G)).
      { intros u Hu. exists (htree h1). split; [left; reflexivity|apply Sub, Hu]. }
      pose proof (feed_canon_idf ek ld _ items (dropN n l) R st1 ld_le Hcase Hnone HLle IB
                    ltac:(eapply N.le_trans; [exact Hrest|apply cap_ld])
                    (idf_sub _ _ (proj1 Gk1) Hin1)
                    (fun u Hu => below_in _ _ u (gok_all_below _ _ Gk1) (Hin1 u Hu))) as W.
      pose proof (feed_canon_retain ek ld _ items (dropN n l) R st1 ld_le Hcase Hnone HLle IB
                    ltac:(eapply N.le_trans; [exact Hrest|apply cap_ld])) as Wr.
      rewrite (builder_new_ok ld _ ld_le) in W, Wr. cbn [bind] in W, Wr.
      apply (proj1 (wp_assoc R _ _ _ _ _)). apply wp_bind.
      eapply wp_mono; [|apply (wp_conj R _ _ _ st1 W Wr)].
      intros o st2 [(t' & -> & Hsh & Ha2 & FF2 & IDt) Hret]. cbn [lift wp].
      specialize (Hret t' _ _ eq_refl).
      assert (FF2' : fresh_or_from st1 st2 [htree h1] t').
      { intros u Su. destruct (FF2 u Su) as [(t0 & I0 & S0)|X]; [left|right; exact X].
        exists (htree h1). split; [left; reflexivity|]. eapply IterP.subt_trans; [exact S0|apply Sub, I0]. }
      assert (Gk2 : gok st2 (t' :: htree h1 :: G)).
      { apply (gok_alloc st1 st2 (htree h1 :: G) [htree h1] t' Gk1 Ha2); auto.
        - intros t0 [<-|[]]. left. reflexivity.
        - eapply idf_incl; [|exact IDt]. intros x [<-|[]]. left. reflexivity. }
      exists (from_parts M t' ld (lenN (dropN n l))). split; [reflexivity|].
      split; [apply from_parts_clean; auto|]. split; [reflexivity|].
      split; [eapply alloc_only_trans; eauto|]. cbn [from_parts htree]. split; [|split].
      - intros u Su. destruct (FF2' u Su) as [(t0 & [<-|[]] & S0)|[A B]].
        + destruct (FF1 u S0) as [X|[A B]]; [left; exact X|right]. destruct Ha2 as [_ N2]. split; [exact A|lia].
        + right. destruct Ha1 as [_ N1]. split; [lia|exact B].
      - eapply gok_incl; [exact Gk2|]. intros x [<-|Hx]; [left; reflexivity|right; right; exact Hx].
      - exists h1, st1, items. split; [exact HF|]. split; [exact Ha2|]. split; [exact Gk2|]. split; [intros X; lia|].
        intros _. split; [exact E|]. split; [exact IB|]. split; [|exact FF2].
        intros u Hu. split; [apply Sub, Hu|apply Hret, Hu].
    Qed.

    (* beyond the length: the handle has been flushed, the error is reported *)
    Theorem pop_front_oob R (h : handle) l n st G : gok st G -> hinv h l -> In (htree h) G -> lenN l < n ->
      wp R (list_pop_front ek M capN h n)
         (fun o st' => exists h1, o = Ok (Some (OutOfBoundsIterFrom n (lenN l)), h1) /\ flushed st G h l h1 st') st.
    Proof.
      intros Gk HI Hin Hn. unfold list_pop_front. apply wp_bind.
      eapply wp_mono; [|apply (apply_spec R h l st G Gk HI Hin)].
      intros o st1 (h1 & -> & HI1 & Hp1 & Ha1 & FF1 & Gk1 & Hlist1 & Hsame1). cbn [lift]. cbv beta iota.
      assert (HF : flushed st G h l h1 st1) by (split; [split; assumption|]; repeat (split; [assumption|]); assumption).
      destruct (N.eqb_spec n 0) as [->|Hn0]; [lia|].
      cbv zeta. rewrite (builder_new_ok ld _ ld_le). cbn [bind].
      destruct (list_level_iter_from_spec ek M uinv capN UL CAP h1 l HI1 n) as (X & _ & _).
      rewrite (X Hn). cbn [bind try_ wp]. exists h1. auto.
    Qed.

    (* ---------- pop_front_slow ---------- *)
    Theorem pop_front_slow_spec R (h : handle) l n st G : gok st G -> hinv h l -> n <= lenN l ->
      wp R (list_pop_front_slow ek M capN h n) (ctor_post st G (dropN n l)) st.
    Proof.
      intros Gk HI Hn. unfold list_pop_front_slow. apply wp_bind.
      eapply wp_mono; [|apply (coll_iter_from_spec ek M uinv capN CAP h l HI R st n)].
      intros o st' [-> ->]. destruct (N.ltb_spec (lenN l) n); [lia|]. cbn [lift].
      apply list_try_from_iter_spec; [exact Gk|]. rewrite lenN_dropN. pose proof HI as (_ & _ & X & _). lia.
    Qed.
    Theorem pop_front_slow_oob R (h : handle) l n st : hinv h l -> lenN l < n ->
      wp R (list_pop_front_slow ek M capN h n) (fail_post st (OutOfBoundsIterFrom n (lenN l))) st.
    Proof.
      intros HI Hn. unfold list_pop_front_slow. apply wp_bind.
      eapply wp_mono; [|apply (coll_iter_from_spec ek M uinv capN CAP h l HI R st n)].
      intros o st' [-> ->]. destruct (N.ltb_spec (lenN l) n); [|lia]. cbn [lift].
      split; [reflexivity|apply alloc_only_refl].
    Qed.

    (* ================= B. conversions and Vector constructors ================= *)
    Definition as_vector (h : handle) : handle :=
      {| hlist := false; htree := htree h; hblen := capN; hdepth := hdepth h; hupd := hupd h |}.

    Lemma hinv_as_vector (h : handle) l : hinv h l -> hblen h = capN -> lenN l = capN -> hinv (as_vector h) l.
    Proof.
      intros ((bl & A & B & C & D) & Hd & Hl & Hb & Hv & Hu) E1 E2. split.
      - exists bl. cbn [as_vector htree hdepth hblen hupd]. rewrite <- E1. auto.
      - cbn [as_vector htree hdepth hblen hupd hlist]. split; [exact Hd|]. split; [exact Hl|]. split; [lia|]. split; [auto|exact Hu].
    Qed.
    Lemma has_pending_as_vector (h : handle) : has_pending M (as_vector h) = has_pending M h.
    Proof. reflexivity. Qed.

    Lemma vector_try_from_wrong (h : handle) l : hinv h l -> lenN l <> capN ->
      vector_try_from ek M capN h = Fail (WrongVectorLength (lenN l) capN).
    Proof.
      intros HI Hne. unfold vector_try_from. rewrite (iface_len_spec ek M uinv capN h l HI).
      destruct (N.eqb_spec (lenN l) capN); [contradiction|reflexivity].
    Qed.
    Lemma vector_try_from_noflush (h : handle) l : hinv h l -> lenN l = capN -> hblen h = capN ->
      vector_try_from ek M capN h = Ret (as_vector h).
    Proof.
      intros HI E1 E2. unfold vector_try_from. rewrite (iface_len_spec ek M uinv capN h l HI).
      destruct (N.eqb_spec (lenN l) capN); [|contradiction].
      destruct (N.eqb_spec (hblen h) capN); [|contradiction]. reflexivity.
    Qed.

    (* TryFrom<List> for Vector with the F5 repair: pending writes are flushed exactly when the backing
       length is not yet N (then the tree would not have N leaves); the result represents the same list *)
    Theorem vector_try_from_spec R (h : handle) l st G : gok st G -> hinv h l -> In (htree h) G -> lenN l = capN ->
      wp R (vector_try_from ek M capN h)
         (fun o st' => exists v, o = Ok v /\ hinv v l /\ hlist v = false /\
            alloc_only st st' /\ fresh_or_from st st' [htree h] (htree v) /\ gok st' (htree v :: G) /\
            (hblen h = capN -> st' = st /\ v = as_vector h) /\
            (hblen h <> capN -> has_pending M v = false)) st.
    Proof.
      intros Gk HI Hin El. destruct (N.eq_dec (hblen h) capN) as [Eb|Nb].
      - rewrite (vector_try_from_noflush h l HI El Eb). cbn [wp]. exists (as_vector h).
        split; [reflexivity|]. split; [apply hinv_as_vector; auto|]. split; [reflexivity|].
        split; [apply alloc_only_refl|]. split; [apply fresh_or_from_refl|].
        split; [apply gok_dup; auto|]. split; [auto|contradiction].
      - unfold vector_try_from. rewrite (iface_len_spec ek M uinv capN h l HI).
        destruct (N.eqb_spec (lenN l) capN); [|contradiction].
        destruct (N.eqb_spec (hblen h) capN); [contradiction|]. cbn [negb]. apply wp_bind.
        eapply wp_mono; [|apply (apply_q_spec R h l st G Gk HI Hin)].
        intros o st' (h' & -> & HI' & Hp' & Ha & FF & Gk' & _). cbn [lift wp].
        destruct (has_pending_spec ek M uinv capN UL h' l HI' Hp') as [_ Hb'].
        exists (as_vector h'). split; [reflexivity|]. split; [apply hinv_as_vector; auto; congruence|].
        split; [reflexivity|]. split; [exact Ha|]. split; [exact FF|]. split; [exact Gk'|].
        split; [contradiction|]. intros _. exact Hp'.
    Qed.
    Theorem vector_try_from_wrong_spec R (h : handle) l st : hinv h l -> lenN l <> capN ->
      wp R (vector_try_from ek M capN h) (fun o st' => o = Err (WrongVectorLength (lenN l) capN) /\ st' = st) st.
    Proof. intros HI Hne. rewrite (vector_try_from_wrong h l HI Hne). cbn [wp]. auto. Qed.

    (* From<Vector> for List *)
    Theorem list_from_vector_spec (v : handle) l : hinv v l -> hlist v = false ->
      hinv (list_from_vector capN v) l /\ hlist (list_from_vector capN v) = true /\
      htree (list_from_vector capN v) = htree v /\ hupd (list_from_vector capN v) = hupd v /\
      has_pending M (list_from_vector capN v) = has_pending M v.
    Proof.
      intros ((bl & A & B & C & D) & Hd & Hl & Hb & Hv & Hu) Hlist. destruct (Hv Hlist) as [E1 E2].
      split; [|repeat split]. split.
      - exists bl. cbn [list_from_vector htree hdepth hblen hupd]. rewrite <- E1. auto.
      - cbn [list_from_vector htree hdepth hblen hupd hlist]. split; [exact Hd|]. split; [exact Hl|]. split; [lia|].
        split; [discriminate|exact Hu].
    Qed.

    (* a clean Vector handle all of whose nodes are new *)
    Definition vctor_post (st : state) (G : list tree) (l : list T) (o : outcome handle) (st' : state) : Prop :=
      exists v, o = Ok v /\ hclean v l /\ hlist v = false /\ alloc_only st st' /\
                fresh_or_from st st' [] (htree v) /\ gok st' (htree v :: G).

    Lemma ctor_then_vector R (m : prog handle) l st G : lenN l = capN ->
      wp R m (ctor_post st G l) st ->
      wp R (bind m (vector_try_from ek M capN)) (vctor_post st G l) st.
    Proof.
      intros El W. apply wp_bind. eapply wp_mono; [|exact W].
      intros o st' (h' & -> & HC & Hlist & Ha & FF & Gk'). cbn [lift].
      destruct (hclean_shape h' l HC) as (_ & Hb & _). destruct HC as [HI Hp].
      rewrite (vector_try_from_noflush h' l HI El ltac:(congruence)). cbn [wp].
      exists (as_vector h'). split; [reflexivity|]. split; [split; [apply hinv_as_vector; auto; congruence|exact Hp]|].
      split; [reflexivity|]. auto.
    Qed.
    Lemma ctor_then_vector_wrong R (m : prog handle) l st G : lenN l <> capN ->
      wp R m (ctor_post st G l) st ->
      wp R (bind m (vector_try_from ek M capN)) (fail_post st (WrongVectorLength (lenN l) capN)) st.
    Proof.
      intros El W. apply wp_bind. eapply wp_mono; [|exact W].
      intros o st' (h' & -> & [HI Hp] & Hlist & Ha & FF & Gk'). cbn [lift].
      rewrite (vector_try_from_wrong h' l HI El). cbn [wp]. split; [reflexivity|exact Ha].
    Qed.
    Lemma fail_then R {A B} (m : prog A) (f : A -> prog B) e st :
      wp R m (fail_post st e) st -> wp R (bind m f) (fail_post st e) st.
    Proof.
      intros W. apply wp_bind. eapply wp_mono; [|exact W].
      intros o st' [-> Ha]. cbn [lift]. split; [reflexivity|exact Ha].
    Qed.

    Theorem vector_new_spec R vs st G : gok st G -> lenN vs = capN ->
      wp R (vector_new ek M capN vs) (vctor_post st G vs) st.
    Proof.
      intros Gk El. unfold vector_new. destruct (N.eqb_spec (lenN vs) capN); [|contradiction].
      apply ctor_then_vector; [exact El|]. apply list_try_from_iter_spec; [exact Gk|lia].
    Qed.
    Theorem vector_new_wrong R vs st : lenN vs <> capN ->
      wp R (vector_new ek M capN vs) (fail_post st (WrongVectorLength (lenN vs) capN)) st.
    Proof.
      intros El. unfold vector_new. destruct (N.eqb_spec (lenN vs) capN); [contradiction|].
      cbn [wp]. split; [reflexivity|apply alloc_only_refl].
    Qed.

    Theorem vector_try_from_iter_spec R vs st G : gok st G -> lenN vs = capN ->
      wp R (vector_try_from_iter ek M capN vs) (vctor_post st G vs) st.
    Proof.
      intros Gk El. unfold vector_try_from_iter.
      apply ctor_then_vector; [exact El|]. apply list_try_from_iter_spec; [exact Gk|lia].
    Qed.
    Theorem vector_try_from_iter_short R vs st G : gok st G -> lenN vs < capN ->
      wp R (vector_try_from_iter ek M capN vs) (fail_post st (WrongVectorLength (lenN vs) capN)) st.
    Proof.
      intros Gk El. unfold vector_try_from_iter.
      apply (ctor_then_vector_wrong R _ vs st G); [lia|]. apply list_try_from_iter_spec; [exact Gk|lia].
    Qed.
    Theorem vector_try_from_iter_long R vs st : capN < lenN vs ->
      wp R (vector_try_from_iter ek M capN vs) (fail_post st BuilderFull) st.
    Proof. intros El. unfold vector_try_from_iter. apply fail_then. apply list_try_from_iter_full. exact El. Qed.

    Theorem vector_from_elem_spec R v st G : gok st G ->
      wp R (vector_from_elem ek M capN v) (vctor_post st G (repeatN v capN)) st.
    Proof.
      intros Gk. unfold vector_from_elem.
      apply ctor_then_vector; [apply lenN_repeatN|]. apply list_repeat_spec; [exact Gk|lia].
    Qed.

    Lemma wp_fail_to_panic {A} R (m : prog A) : forall (Q : outcome A -> state -> Prop) s,
      wp R m (fun o s' => match o with
                          | Ok a => Q (Ok a) s'
                          | Err e => Q (Panic PVectorDefault) s' /\ Q (Err e) s'
                          | Panic c => Q (Panic c) s' end) s ->
      wp R (fail_to_panic m) Q s.
    Proof.
      induction m as [A a|A e|A c|A k IH|A i k IH|A i d k IH|A p IHp q IHq k IHk|A t k IH]; cbn [wp fail_to_panic]; intros Q s W.
      - exact W.
      - apply W.
      - exact W.
      - apply IH. exact W.
      - intros d Hd. apply IH. apply W. exact Hd.
      - apply IH. exact W.
      - eapply wp_mono; [|exact W]. intros [a|e|c] s1; [|intros [_ X]; exact X|auto].
        intros V. eapply wp_mono; [|exact V]. intros [b|e|c] s2; [|intros [_ X]; exact X|auto].
        apply IHk.
      - apply IH. exact W.
    Qed.
    (* Vector::default never panics (also at capacity 0: from_elem of 0 elements is the empty vector) *)
    Theorem vector_default_spec R st G : gok st G ->
      wp R (vector_default ek M capN) (vctor_post st G (repeatN (edefault ek) capN)) st.
    Proof.
      intros Gk. unfold vector_default. apply wp_fail_to_panic.
      eapply wp_mono; [|apply (vector_from_elem_spec R (edefault ek) st G Gk)].
      intros o st' (v & -> & Rest). exists v. split; [reflexivity|exact Rest].
    Qed.
End CollCtor.

Print Assumptions gok_alloc.
Print Assumptions gok_incl.
Print Assumptions gok_alloc_only.
Print Assumptions apply_spec_hinv.
Print Assumptions apply_spec.
Print Assumptions apply_q_spec.
Print Assumptions list_empty_spec.
Print Assumptions list_try_from_iter_spec.
Print Assumptions list_try_from_iter_full.
Print Assumptions list_try_from_iter_slow_spec.
Print Assumptions list_try_from_iter_slow_full.
Print Assumptions list_repeat_spec.
Print Assumptions list_repeat_full.
Print Assumptions list_repeat_slow_spec.
Print Assumptions list_repeat_slow_full.
Print Assumptions canon_inj.
Print Assumptions coll_eqb_spec'.
Print Assumptions coll_eqb_spec.
Print Assumptions pop_front_spec.
Print Assumptions pop_front_oob.
Print Assumptions pop_front_slow_spec.
Print Assumptions pop_front_slow_oob.
Print Assumptions vector_try_from_spec.
Print Assumptions vector_try_from_wrong_spec.
Print Assumptions list_from_vector_spec.
Print Assumptions vector_new_spec.
Print Assumptions vector_new_wrong.
Print Assumptions vector_try_from_iter_spec.
Print Assumptions vector_try_from_iter_short.
Print Assumptions vector_try_from_iter_long.
Print Assumptions vector_from_elem_spec.
Print Assumptions vector_default_spec.
