(* FinalP.v — closing corollaries (wave 4).  Proof file; no model code.
   1. C17  incremental_canon, incremental_canon_gen, finish_inc_true, build_eq_incremental
   2. C07/C08 with collision_free H + troot_inj ek instead of the abstract hs_inj premise (…_cf),
      and the path reading of `shares`: sharing_paths, sharing_equal, fresh_differs, sharing_paths_cf
   3. C10  rehash_only_new (+ rehash_recomputed, flush_rehash_only_new)
   4. C04  spec_frame, versions_isolated, versions_isolated_obs *)
From Coq Require Import FMapPositive.
From MH Require Import Inv IfaceP IterP IntraP WulP RepeatP BuilderP CollCtorP CollObsP HashP CodecP ConcP RebaseP
  SysInv RefineBase RefineA RefineB Refine.
Local Open Scope N_scope.

(* ====================================================================================== *)
(* 1. C17: the canonical tree equals one-at-a-time insertion                               *)
(* ====================================================================================== *)
Section Incremental.
  Context {T : Type}.
  Variable ek : ekind T.
  Notation tree := (tree T).

  Lemma alloc_only_refl s : alloc_only s s.
  Proof. split; [reflexivity|lia]. Qed.
  Lemma alloc_only_trans a b c : alloc_only a b -> alloc_only b c -> alloc_only a c.
  Proof. intros [M1 N1] [M2 N2]. split; [congruence|lia]. Qed.

  (* after the insertions of `vs` at positions lenN l, lenN l + 1, ... into a canonical tree of `l`
     the tree is the canonical tree of `l ++ vs` *)
  Theorem incremental_canon_gen : forall d vs l t R s,
    shape t = canon ek d l -> lenN l + lenN vs <= cap ek d ->
    wp R (incremental ek d t vs (lenN l))
       (fun o s' => exists t', o = Ok t' /\ shape t' = canon ek d (l ++ vs) /\ alloc_only s s') s.
  Proof.
    intros d vs. induction vs as [|v r IH]; intros l t R s Hs Hl; cbn [incremental].
    - cbn [wp]. exists t. rewrite app_nil_r. split; [reflexivity|]. split; [exact Hs|apply alloc_only_refl].
    - rewrite lenN_cons in Hl. apply wp_bind.
      eapply wp_mono; [|apply (wul1_canon ek d l t (lenN l) v R s Hs); lia].
      intros o s1 (t1 & -> & Hs1 & A1). cbn [lift].
      destruct (N.ltb_spec (lenN l) (lenN l)) as [Hlt|_]; [lia|].
      replace (lenN l + 1) with (lenN (l ++ [v])) by (rewrite lenN_app; reflexivity).
      eapply wp_mono; [|apply (IH (l ++ [v]) t1 R s1 Hs1)].
      + intros o s2 (t2 & -> & Hs2 & A2). exists t2. split; [reflexivity|].
        rewrite <- app_assoc in Hs2. split; [exact Hs2|eapply alloc_only_trans; eauto].
      + rewrite lenN_app. change (lenN [v]) with 1. lia.
  Qed.

  (* C17: folding with_updated_leaf over vs from the empty tree of depth d gives canon d vs *)
  Theorem incremental_canon : forall d vs z R s, lenN vs <= cap ek d ->
    wp R (incremental ek d (Zero z d) vs 0)
       (fun o _ => exists t, o = Ok t /\ shape t = canon ek d vs) s.
  Proof.
    intros d vs z R s Hl.
    eapply wp_mono; [|apply (incremental_canon_gen d vs [] (Zero z d) R s)].
    - intros o s' (t & -> & Hs & _). exists t. auto.
    - cbn [shape]. destruct d; reflexivity.
    - rewrite lenN_nil. lia.
  Qed.
  (* the same, also recording that nothing but allocation happened *)
  Theorem incremental_canon_alloc : forall d vs z R s, lenN vs <= cap ek d ->
    wp R (incremental ek d (Zero z d) vs 0)
       (fun o s' => exists t, o = Ok t /\ shape t = canon ek d vs /\ alloc_only s s') s.
  Proof.
    intros d vs z R s Hl.
    eapply wp_mono; [|apply (incremental_canon_gen d vs [] (Zero z d) R s)].
    - intros o s' (t & -> & Hs & A). exists t. auto.
    - cbn [shape]. destruct d; reflexivity.
    - rewrite lenN_nil. lia.
  Qed.

  Hypothesis EKW : ek_wf ek.

  (* two trees of equal shape are `==` (derived PartialEq of Tree) *)
  Lemma tree_eqb_shape (a b : tree) : shape a = shape b -> tree_eqb ek a b = true.
  Proof. intros E. unfold tree_eqb. apply (stree_eqb_iff ek EKW). exact E. Qed.

  (* the `inc` flag computed by OBFinish: for ANY tree t that is canonical for vs (in particular the
     builder's result, build_canon), re-inserting its elements one at a time into the empty tree
     succeeds and yields a tree equal to t *)
  Theorem finish_inc_true : forall d vs (t : tree) z R s,
    shape t = canon ek d vs -> lenN vs <= cap ek d ->
    wp R (try_ (incremental ek d (Zero z d) (elems t) 0))
       (fun o _ => exists t2, o = Ok (inr t2) /\ tree_eqb ek t t2 = true) s.
  Proof.
    intros d vs t z R s Hs Hl.
    assert (He : elems t = vs) by (unfold elems; rewrite Hs; apply selems_canon; exact Hl).
    rewrite He. apply wp_try.
    eapply wp_mono; [|apply (incremental_canon d vs z R s Hl)].
    intros o s' (t2 & -> & Hs2). exists t2. split; [reflexivity|]. apply tree_eqb_shape. congruence.
  Qed.

  (* build, then rebuild incrementally: the two results are equal trees *)
  Theorem build_eq_incremental : forall d vs z R s, (d + pd_of ek <= 63)%nat -> lenN vs <= cap ek d ->
    wp R (bind (bind (builder_new ek (N.of_nat d) 0) (fun b => bind (push_all ek b vs) (fun b' => builder_finish ek b')))
            (fun '(t, depth, _) => bind (incremental ek depth (Zero z depth) (elems t) 0) (fun t2 => Ret (t, t2))))
       (fun o _ => exists t t2, o = Ok (t, t2) /\ shape t = canon ek d vs /\ shape t2 = canon ek d vs /\
                                tree_eqb ek t t2 = true) s.
  Proof.
    intros d vs z R s Hd Hl. apply wp_bind.
    eapply wp_mono; [|apply (build_canon ek d vs R s Hd Hl)].
    intros o s1 (t & -> & Hs & _). cbn [lift].
    assert (He : elems t = vs) by (unfold elems; rewrite Hs; apply selems_canon; exact Hl).
    rewrite He. apply wp_bind.
    eapply wp_mono; [|apply (incremental_canon d vs z R s1 Hl)].
    intros o s2 (t2 & -> & Hs2). cbn [lift wp]. exists t, t2. repeat split; auto.
    apply tree_eqb_shape. congruence.
  Qed.
End Incremental.

(* ====================================================================================== *)
(* 2. C07 / C08 from collision freedom (no abstract injectivity premise)                   *)
(* ====================================================================================== *)
Section RebaseCF.
  Context {T : Type}.
  Variable ek : ekind T.
  Variable H : digest -> digest -> digest.
  Hypothesis EKW : ek_wf ek.
  Hypothesis CF : collision_free H.
  Hypothesis TRI : troot_inj ek.
  Notation tree := (tree T).
  Notation action := (action T).

  Let HSI := hs_inj_cf ek H EKW CF TRI.

  (* ---------- C07: the restatements ---------- *)
  Theorem rebase_shape_cf : forall (truth : id -> digest) fd (orig base : tree) n1 n2 s,
    wfc ek fd n1 orig -> wfc ek fd n2 base -> tr_ok ek H truth orig -> tr_ok ek H truth base -> xid orig base ->
    wp (Rdem truth) (rebase_on ek orig base (Some (n1, n2)) fd) (post orig base) s.
  Proof. exact (rebase_shape ek H EKW HSI). Qed.
  Theorem rebase_shape_vec_cf : forall (truth : id -> digest) fd (orig base : tree) n s,
    wfc ek fd n orig -> wfc ek fd n base -> tr_ok ek H truth orig -> tr_ok ek H truth base -> xid orig base ->
    wp (Rdem truth) (rebase_on ek orig base None fd) (post orig base) s.
  Proof. exact (rebase_shape_vec ek H EKW HSI). Qed.
  Theorem rebase_state_cf : forall fd (orig base : tree) n1 n2 s,
    wfc ek fd n1 orig -> wfc ek fd n2 base ->
    below (next s) orig -> below (next s) base -> mvalid ek H s orig -> mvalid ek H s base -> xid orig base ->
    wp Rexact (rebase_on ek orig base (Some (n1, n2)) fd) (post2 ek H orig base s) s.
  Proof. exact (rebase_state ek H EKW HSI). Qed.
  Theorem rebase_state_vec_cf : forall fd (orig base : tree) n s,
    wfc ek fd n orig -> wfc ek fd n base ->
    below (next s) orig -> below (next s) base -> mvalid ek H s orig -> mvalid ek H s base -> xid orig base ->
    wp Rexact (rebase_on ek orig base None fd) (post2 ek H orig base s) s.
  Proof. exact (rebase_state_vec ek H EKW HSI). Qed.

  (* ---------- C08: the restatements ---------- *)
  Theorem rebase_sharing_cf : forall (truth : id -> digest) fd (orig base : tree) n1 n2 s,
    wfc ek fd n1 orig -> wfc ek fd n2 base -> tr_ok ek H truth orig -> tr_ok ek H truth base -> disj orig base ->
    wp (Rdem truth) (rebase_on ek orig base (Some (n1, n2)) fd) (post8 orig base) s.
  Proof. exact (rebase_sharing ek H EKW HSI). Qed.
  Theorem rebase_sharing_vec_cf : forall (truth : id -> digest) fd (orig base : tree) n s,
    wfc ek fd n orig -> wfc ek fd n base -> tr_ok ek H truth orig -> tr_ok ek H truth base -> disj orig base ->
    wp (Rdem truth) (rebase_on ek orig base None fd) (post8 orig base) s.
  Proof. exact (rebase_sharing_vec ek H EKW HSI). Qed.
  Theorem rebase_sharing_exact_cf : forall fd (orig base : tree) n1 n2 s,
    wfc ek fd n1 orig -> wfc ek fd n2 base ->
    below (next s) orig -> below (next s) base -> mvalid ek H s orig -> mvalid ek H s base -> disj orig base ->
    wp Rexact (rebase_on ek orig base (Some (n1, n2)) fd)
       (fun a s' => post2 ek H orig base s a s' /\ post8 orig base a s') s.
  Proof. exact (rebase_sharing_exact ek H EKW HSI). Qed.
  Theorem rebase_sharing_exact_vec_cf : forall fd (orig base : tree) n s,
    wfc ek fd n orig -> wfc ek fd n base ->
    below (next s) orig -> below (next s) base -> mvalid ek H s orig -> mvalid ek H s base -> disj orig base ->
    wp Rexact (rebase_on ek orig base None fd)
       (fun a s' => post2 ek H orig base s a s' /\ post8 orig base a s') s.
  Proof. exact (rebase_sharing_exact_vec ek H EKW HSI). Qed.

  (* ---------- the path reading of `shares` (pure; no hash involved) ---------- *)
  Lemma shares_top (res orig base : tree) : shares res orig base -> shape orig = shape base -> res = base.
  Proof. destruct res; cbn [shares]; intros [Ht _]; exact Ht. Qed.

  (* subtree_at is structural in the tree: unfolding lemmas *)
  Lemma subtree_at_nil (t : tree) : subtree_at t [] = Some t.
  Proof. destruct t; reflexivity. Qed.
  Lemma subtree_at_cons (t : tree) c p : subtree_at t (c :: p) =
    match t with Node _ l r => subtree_at (if c then r else l) p | _ => None end.
  Proof. destruct t; reflexivity. Qed.

  (* trees of equal shape have subtrees at the same paths, of equal shapes *)
  Lemma subtree_at_shape : forall p (a b x : tree), shape a = shape b -> subtree_at a p = Some x ->
    exists y, subtree_at b p = Some y /\ shape y = shape x.
  Proof.
    induction p as [|c p IH]; intros a b x E Ha.
    - rewrite subtree_at_nil in *. injection Ha as <-. exists b. auto.
    - rewrite subtree_at_cons in *.
      destruct a as [| |ia al ar|]; try discriminate Ha.
      destruct b as [| |ib bl br|]; try discriminate E. cbn [shape] in E. injection E as El Er.
      destruct c; eapply IH; eauto.
  Qed.
  Lemma subtree_at_subt : forall p (t v : tree), subtree_at t p = Some v -> subt v t.
  Proof.
    induction p as [|c p IH]; intros t v Hv.
    - rewrite subtree_at_nil in Hv. injection Hv as <-. apply RebaseP.subt_refl.
    - rewrite subtree_at_cons in Hv. destruct t as [| |ib bl br|]; try discriminate Hv. cbn [subt]. right.
      destruct c; [right|left]; apply IH; exact Hv.
  Qed.

  (* wherever orig and base have subtrees of equal shape at the same path, the result holds base's own
     node (same identity, hence same memoised hash and same memory) at that path *)
  Theorem sharing_paths : forall p (res orig base u v : tree),
    shares res orig base -> shape res = shape orig ->
    subtree_at orig p = Some u -> subtree_at base p = Some v -> shape u = shape v ->
    subtree_at res p = Some v.
  Proof.
    induction p as [|c p IH]; intros res orig base u v Sh E Hu Hv Euv.
    - rewrite subtree_at_nil in *. injection Hu as <-. injection Hv as <-. f_equal. apply (shares_top _ _ _ Sh Euv).
    - rewrite subtree_at_cons in *.
      destruct orig as [| |io ol or_|]; try discriminate Hu.
      destruct base as [| |ib bl br|]; try discriminate Hv.
      destruct res as [| |ir rl rr|]; try discriminate E. cbn [shape] in E. injection E as El Er.
      cbn [shares] in Sh. destruct Sh as (_ & Sl & Sr).
      destruct c; eapply IH; eauto.
  Qed.
  (* equal collections: the result IS the base tree *)
  Theorem sharing_equal : forall (res orig base : tree),
    shares res orig base -> shape orig = shape base -> res = base.
  Proof. exact shares_top. Qed.
  (* a node of the result equals base's node at its position exactly when the shapes agree there *)
  Theorem sharing_node_iff : forall p (res orig base x v : tree),
    shares res orig base -> shape res = shape orig ->
    subtree_at res p = Some x -> subtree_at base p = Some v -> (x = v <-> shape x = shape v).
  Proof.
    intros p res orig base x v Sh E Hx Hv. split; [intros ->; reflexivity|]. intros Exv.
    destruct (subtree_at_shape p res orig x E Hx) as (u & Hu & Eu).
    pose proof (sharing_paths p res orig base u v Sh E Hu Hv ltac:(congruence)) as Hr. congruence.
  Qed.
  (* every node of the result that is not a node that existed before the call (identity >= n, where
     every identity of base is < n) has a shape different from base's subtree at its position: it
     lies on a root-to-leaf path to a differing position *)
  Theorem fresh_differs : forall p (res orig base x v : tree) (n : positive),
    shares res orig base -> shape res = shape orig -> below n base ->
    subtree_at res p = Some x -> (n <= idof x)%positive -> subtree_at base p = Some v -> shape x <> shape v.
  Proof.
    intros p res orig base x v n Sh E B Hx Hn Hv Exv.
    apply (sharing_node_iff p res orig base x v Sh E Hx Hv) in Exv. subst x.
    pose proof (subtree_at_subt p base v Hv) as Hs.
    apply RebaseP.subt_In, B in Hs. lia.
  Qed.

  (* ---------- C08 at tree level, as a statement about paths ---------- *)
  (* `eff a orig` is the tree the caller holds afterwards: the replacement if there is one, else orig *)
  Definition paths_post (orig base : tree) (n : positive) (res : tree) : Prop :=
    shape res = shape orig /\
    (forall p u v, subtree_at orig p = Some u -> subtree_at base p = Some v -> shape u = shape v ->
                   subtree_at res p = Some v) /\
    (shape orig = shape base -> res = base) /\
    (forall p x v, subtree_at res p = Some x -> (n <= idof x)%positive -> subtree_at base p = Some v ->
                   shape x <> shape v).
  Lemma shares_paths_post (orig base res : tree) n :
    shares res orig base -> shape res = shape orig -> below n base -> paths_post orig base n res.
  Proof.
    intros Sh E B. split; [exact E|]. split; [|split].
    - intros p u v. apply sharing_paths; assumption.
    - apply sharing_equal; assumption.
    - intros p x v Hx Hn Hv. eapply fresh_differs; eauto.
  Qed.

  Theorem rebase_sharing_paths_cf : forall fd (orig base : tree) n1 n2 s,
    wfc ek fd n1 orig -> wfc ek fd n2 base ->
    below (next s) orig -> below (next s) base -> mvalid ek H s orig -> mvalid ek H s base -> disj orig base ->
    wp Rexact (rebase_on ek orig base (Some (n1, n2)) fd)
       (fun o s' => exists a, o = Ok a /\ paths_post orig base (next s) (eff a orig)) s.
  Proof.
    intros fd orig base n1 n2 s W1 W2 B1 B2 V1 V2 DJ.
    eapply wp_mono; [|apply (rebase_sharing_exact_cf fd orig base n1 n2 s); assumption].
    intros [a|e|c] s' [_ P8]; try (cbn [post8] in P8; contradiction).
    exists a. split; [reflexivity|]. destruct (post8_eff _ _ _ s' P8) as [E Sh].
    apply shares_paths_post; assumption.
  Qed.
  Theorem rebase_sharing_paths_vec_cf : forall fd (orig base : tree) n s,
    wfc ek fd n orig -> wfc ek fd n base ->
    below (next s) orig -> below (next s) base -> mvalid ek H s orig -> mvalid ek H s base -> disj orig base ->
    wp Rexact (rebase_on ek orig base None fd)
       (fun o s' => exists a, o = Ok a /\ paths_post orig base (next s) (eff a orig)) s.
  Proof.
    intros fd orig base n s W1 W2 B1 B2 V1 V2 DJ.
    eapply wp_mono; [|apply (rebase_sharing_exact_vec_cf fd orig base n s); assumption].
    intros [a|e|c] s' [_ P8]; try (cbn [post8] in P8; contradiction).
    exists a. split; [reflexivity|]. destruct (post8_eff _ _ _ s' P8) as [E Sh].
    apply shares_paths_post; assumption.
  Qed.

  (* ---------- collection level ---------- *)
  Context {U : Type}.
  Variable M : umap_impl T U.
  Notation handle := (handle T U).

  Theorem coll_rebase_on_spec_cf : forall (h base : handle) l lb s,
    habs ek M h l -> habs ek M base lb ->
    hlist h = hlist base -> hdepth h = hdepth base -> (hlist h = false -> hblen h = hblen base) ->
    hblen h <= cap ek (hdepth h) -> hblen base <= cap ek (hdepth base) ->
    below (next s) (htree h) -> below (next s) (htree base) ->
    mvalid ek H s (htree h) -> mvalid ek H s (htree base) -> xid (htree h) (htree base) ->
    wp Rexact (coll_rebase_on ek h base) (coll_post ek H M h base l s) s.
  Proof. exact (coll_rebase_on_spec ek H EKW HSI M). Qed.

  Theorem coll_rebase_on_sharing_cf : forall (h base : handle) l lb s,
    habs ek M h l -> habs ek M base lb ->
    hlist h = hlist base -> hdepth h = hdepth base -> (hlist h = false -> hblen h = hblen base) ->
    hblen h <= cap ek (hdepth h) -> hblen base <= cap ek (hdepth base) ->
    below (next s) (htree h) -> below (next s) (htree base) ->
    mvalid ek H s (htree h) -> mvalid ek H s (htree base) -> disj (htree h) (htree base) ->
    wp Rexact (coll_rebase_on ek h base)
       (fun o s' => coll_post ek H M h base l s o s' /\
          forall h', o = Ok h' -> shares (htree h') (htree h) (htree base)) s.
  Proof. exact (coll_rebase_on_sharing ek H EKW HSI M). Qed.

  Theorem coll_rebase_on_hinv_cf : forall capN (uinv : U -> Prop) (h base : handle) l lb s,
    capacity_ok capN -> hinv ek M capN uinv h l -> hinv ek M capN uinv base lb -> hlist h = hlist base ->
    below (next s) (htree h) -> below (next s) (htree base) ->
    mvalid ek H s (htree h) -> mvalid ek H s (htree base) -> xid (htree h) (htree base) ->
    wp Rexact (coll_rebase_on ek h base)
       (fun o s' => coll_post ek H M h base l s o s' /\ forall h', o = Ok h' -> hinv ek M capN uinv h' l) s.
  Proof. exact (coll_rebase_on_hinv ek H EKW HSI M). Qed.

  Theorem coll_rebase_on_dem_cf : forall (truth : id -> digest) (h base : handle) l lb s,
    habs ek M h l -> habs ek M base lb ->
    hlist h = hlist base -> hdepth h = hdepth base -> (hlist h = false -> hblen h = hblen base) ->
    hblen h <= cap ek (hdepth h) -> hblen base <= cap ek (hdepth base) ->
    tr_ok ek H truth (htree h) -> tr_ok ek H truth (htree base) -> xid (htree h) (htree base) ->
    wp (Rdem truth) (coll_rebase_on ek h base)
       (fun o s' => exists h', o = Ok h' /\ habs ek M h' l /\ hupd h' = hupd h /\ hblen h' = hblen h /\
          hdepth h' = hdepth h /\ hlist h' = hlist h /\ shape (htree h') = shape (htree h)) s.
  Proof. intros truth. exact (coll_rebase_on_dem ek H EKW HSI truth M). Qed.

  (* C08 as the property reads: List/Vector::rebase_on of a collection that shares no memory with
     `base` (e.g. freshly deserialised) under the per-handle invariants.  The result h' represents
     the same list and
       (a) at every path where the two trees had subtrees of equal shape, h' holds base's own node;
       (b) if the two backing trees are equal, the tree of h' IS the tree of base;
       (c) every node of h' allocated by the call differs in shape from base's subtree at its position. *)
  Theorem sharing_paths_cf : forall capN (uinv : U -> Prop) (h base : handle) l lb s,
    capacity_ok capN -> hinv ek M capN uinv h l -> hinv ek M capN uinv base lb -> hlist h = hlist base ->
    below (next s) (htree h) -> below (next s) (htree base) ->
    mvalid ek H s (htree h) -> mvalid ek H s (htree base) -> disj (htree h) (htree base) ->
    wp Rexact (coll_rebase_on ek h base)
       (fun o s' => exists h', o = Ok h' /\ hinv ek M capN uinv h' l /\
          coll_post ek H M h base l s o s' /\
          paths_post (htree h) (htree base) (next s) (htree h')) s.
  Proof.
    intros capN uinv h base l lb s Cok I1 I2 Hk B1 B2 V1 V2 DJ.
    assert (X : xid (htree h) (htree base)) by (intros u v Hu Hv E; exfalso; eapply DJ; eauto).
    pose proof I1 as (A1 & D1 & Ll1 & Bl1 & Vec1 & U1). pose proof I2 as (A2 & D2 & Ll2 & Bl2 & Vec2 & U2).
    pose proof (cap_list_depth ek capN Cok) as Hc.
    eapply wp_mono; [|apply wp_conj;
      [apply (coll_rebase_on_hinv_cf capN uinv h base l lb s Cok I1 I2 Hk B1 B2 V1 V2 X)
      |apply (coll_rebase_on_sharing_cf h base l lb s A1 A2 Hk)]]; auto.
    - intros o s' [[P HI] [_ Sh]]. pose proof P as (h' & -> & _ & _ & _ & _ & _ & E & _).
      exists h'. split; [reflexivity|]. split; [apply HI; reflexivity|]. split; [exact P|].
      apply shares_paths_post; auto.
    - congruence.
    - intros Hf. rewrite Hk in Hf. destruct (Vec1 ltac:(congruence)) as [-> _]. destruct (Vec2 Hf) as [-> _]. reflexivity.
    - rewrite D1. lia.
    - rewrite D2. lia.
  Qed.
End RebaseCF.

(* ====================================================================================== *)
(* 3. C10: the next root computation rehashes only the rewritten paths                     *)
(* ====================================================================================== *)
(* exact reads make wp deterministic: the converse of Prog.wp_run *)
Lemma run_wp {A} (m : prog A) : forall (Q : outcome A -> state -> Prop) s,
  Q (fst (run m s)) (snd (run m s)) -> wp Rexact m Q s.
Proof.
  induction m as [A a|A e|A c|A k IH|A i k IH|A i d k IH|A p IHp q IHq k IHk|A t k IH]; cbn [run wp fst snd]; intros Q s HQ; auto.
  - intros d Hd. unfold Rexact in Hd. subst d. apply IH. exact HQ.
  - apply IHp. destruct (run p s) as [[a|e|c] s1]; cbn [fst snd] in *; auto.
    apply IHq. destruct (run q s1) as [[b|e|c] s2]; cbn [fst snd] in *; auto.
Qed.
Lemma wp_exact_iff {A} (m : prog A) (Q : outcome A -> state -> Prop) s :
  wp Rexact m Q s <-> Q (fst (run m s)) (snd (run m s)).
Proof. split; [apply wp_run|apply run_wp]. Qed.

Section Rehash.
  Context {T : Type}.
  Variable ek : ekind T.
  Variable H : digest -> digest -> digest.
  Notation tree := (tree T).

  (* every memo-carrying node of t has its specification hash recorded in s *)
  Definition hashed (s : state) (t : tree) : Prop :=
    forall u, subt u t -> has_memo u = true -> mget s (idof u) = hash_spec ek H u.

  Lemma hashed_mvalid s t : hashed s t -> mvalid ek H s t.
  Proof. intros Hh u Hu Hm. right. apply Hh; assumption. Qed.

  Lemma mget_memo s s' i : memo s' = memo s -> mget s' i = mget s i.
  Proof. unfold mget. intros ->. reflexivity. Qed.

  (* `need`, with the witness node and the fact that its memo was absent *)
  Lemma need_node_zero s0 (w : tree) j : need s0 w j ->
    exists v, subt v w /\ has_memo v = true /\ idof v = j /\ mget s0 j = 0.
  Proof.
    induction w as [i v|i vs|i l IHl r IHr|i d]; intros (Hm & Z & Hd); cbn [idof] in Z.
    - destruct Hd as [->|[]]. exists (Leaf i v). repeat split; auto. left; reflexivity.
    - destruct Hd as [->|[]]. exists (Packed i vs). repeat split; auto. left; reflexivity.
    - destruct Hd as [->|[Hd|Hd]].
      + exists (Node i l r). repeat split; auto. left; reflexivity.
      + destruct (IHl Hd) as (v & Hv & Hmv & Ev & Zv). exists v. cbn [subt]. auto 10.
      + destruct (IHr Hd) as (v & Hv & Hmv & Ev & Zv). exists v. cbn [subt]. auto 10.
    - discriminate.
  Qed.
  (* a memo-carrying node all of whose ancestors (itself included) have no memo is visited *)
  Lemma need_path s0 (u : tree) : has_memo u = true -> forall w, subt u w ->
    (forall x, subt x w -> subt u x -> mget s0 (idof x) = 0) -> need s0 w (idof u).
  Proof.
    intros Hmu. induction w as [i v|i vs|i l IHl r IHr|i d]; intros Hu Hz.
    - destruct Hu as [->|[]]. cbn [need has_memo idof]. repeat split; auto.
      apply (Hz (Leaf i v)); left; reflexivity.
    - destruct Hu as [->|[]]. cbn [need has_memo idof]. repeat split; auto.
      apply (Hz (Packed i vs)); left; reflexivity.
    - cbn [need has_memo]. split; [reflexivity|]. split.
      + apply (Hz (Node i l r)); [left; reflexivity|exact Hu].
      + destruct Hu as [->|[Hu|Hu]]; [left; reflexivity|right; left|right; right].
        * apply IHl; [exact Hu|]. intros x Hx Hux. apply Hz; [right; left; exact Hx|exact Hux].
        * apply IHr; [exact Hu|]. intros x Hx Hux. apply Hz; [right; right; exact Hx|exact Hux].
    - destruct Hu as [->|[]]. discriminate Hmu.
  Qed.

  Section Derived.
    (* t : the old tree, fully hashed in s;  t' : a tree built from nodes of t and nodes allocated
       between s and s' without touching the memo table (what with_updated_leaves, with_updated_leaf,
       the builder, ... produce: alloc_only + fresh_or_from) *)
    Variables (t t' : tree) (s s' : state).
    Hypothesis HT : hashed s t.
    Hypothesis BT : below (next s) t.
    Hypothesis MB : memo_below s.
    Hypothesis AO : alloc_only s s'.
    Hypothesis FF : fresh_or_from s s' [t] t'.
    Hypothesis IDF : idf_memo [t'].
    Hypothesis PK : forall i vs, subt (Packed i vs) t' -> lenN vs <= pf_of ek.

    Lemma old_or_new (u : tree) : subt u t' ->
      (subt u t /\ (idof u < next s)%positive) \/ ((next s <= idof u)%positive /\ (idof u < next s')%positive).
    Proof.
      intros Hu. destruct (FF u Hu) as [(t0 & [<-|[]] & Hs)|Hf]; [left|right; exact Hf].
      split; [exact Hs|]. apply BT, RebaseP.subt_In, Hs.
    Qed.
    Lemma new_zero (u : tree) : subt u t' -> (next s <= idof u)%positive -> mget s' (idof u) = 0.
    Proof. intros _ Hn. rewrite (mget_memo s s' _ (proj1 AO)). apply MB. exact Hn. Qed.
    Lemma old_hashed (u : tree) : subt u t -> has_memo u = true -> mget s' (idof u) = hash_spec ek H u.
    Proof. intros Hu Hm. rewrite (mget_memo s s' _ (proj1 AO)). apply HT; assumption. Qed.
    Lemma derived_mvalid : mvalid ek H s' t'.
    Proof.
      intros u Hu Hm. destruct (old_or_new u Hu) as [[Ho _]|[Hn _]].
      - right. apply old_hashed; assumption.
      - left. apply new_zero; assumption.
    Qed.
    (* every ancestor, within t', of a new node is new *)
    Lemma above_new (u x : tree) : subt x t' -> subt u x -> (next s <= idof u)%positive -> (next s <= idof x)%positive.
    Proof.
      intros Hx Hux Hn. destruct (old_or_new x Hx) as [[Ho _]|[Hx' _]]; [|exact Hx'].
      pose proof (RebaseP.subt_trans u x t Hux Ho) as Hut. apply RebaseP.subt_In, BT in Hut. lia.
    Qed.
    Lemma new_needed (u : tree) : subt u t' -> has_memo u = true -> (next s <= idof u)%positive ->
      need s' t' (idof u).
    Proof.
      intros Hu Hm Hn. apply need_path; [exact Hm|exact Hu|].
      intros x Hx Hux. apply new_zero; [exact Hx|]. eapply above_new; eauto.
    Qed.

    (* C10.  Hashing the new tree: the root is the specification hash; nothing is allocated;
       (a) the memo of every identity that existed before the update (i < next s) is unchanged:
           only nodes allocated by the update are (re)hashed;
       (b) no memo is recorded for unallocated identities;
       (c) afterwards the new tree is fully hashed again, and the old tree still is
           (so the statement applies again to the next update + root computation). *)
    Theorem rehash_only_new :
      wp Rexact (tree_hash ek H t')
         (fun o s'' => o = Ok (hash_spec ek H t') /\ next s'' = next s' /\
            (forall i, (i < next s)%positive -> mget s'' i = mget s' i /\ mget s' i = mget s i) /\
            memo_below s'' /\ hashed s'' t' /\ hashed s'' t) s'.
    Proof.
      apply run_wp. destruct (run (tree_hash ek H t') s') as [o s''] eqn:Er. cbn [fst snd].
      destruct (tree_hash_run_final ek H t' s' o s'' IDF derived_mvalid PK Er) as (-> & Hn & Hfin).
      assert (TO : forall u, subt u t' -> has_memo u = true -> truth_of ek H [t'] (idof u) = hash_spec ek H u).
      { intros u Hu Hm. apply truth_of_ok; [exact IDF| |exact Hm]. exists t'. split; [left; reflexivity|exact Hu]. }
      assert (Hval : forall i, mget s'' i = mget s' i \/
                exists v, subt v t' /\ has_memo v = true /\ idof v = i /\ mget s' i = 0 /\ mget s'' i = hash_spec ek H v).
      { intros i. rewrite Hfin. unfold final_memo. cbn [existsb]. rewrite orb_false_r.
        destruct (needb s' t' i) eqn:Eb; [right|left; reflexivity].
        apply needb_spec, need_node_zero in Eb. destruct Eb as (v & Hv & Hm & <- & Z).
        exists v. repeat split; auto. }
      assert (Hold : forall i, (i < next s)%positive -> mget s'' i = mget s' i).
      { intros i Hi. destruct (Hval i) as [E|(v & Hv & Hm & <- & Z & E)]; [exact E|].
        destruct (old_or_new v Hv) as [[Ho _]|[Hn' _]]; [|lia].
        rewrite E. symmetry. apply old_hashed; assumption. }
      split; [reflexivity|]. split; [exact Hn|]. split; [|split; [|split]].
      - intros i Hi. split; [apply Hold; exact Hi|apply mget_memo, AO].
      - intros j Hj. rewrite Hn in Hj. destruct (Hval j) as [E|(v & Hv & Hm & <- & Z & E)].
        + rewrite E, (mget_memo s s' _ (proj1 AO)). apply MB. destruct AO as [_ Hle]. lia.
        + destruct (old_or_new v Hv) as [[_ Hlt]|[_ Hlt]]; destruct AO as [_ Hle]; lia.
      - intros u Hu Hm. destruct (old_or_new u Hu) as [[Ho Hlt]|[Hge _]].
        + rewrite (Hold _ Hlt). apply old_hashed; assumption.
        + pose proof (new_needed u Hu Hm Hge) as Nd. rewrite Hfin. unfold final_memo. cbn [existsb].
          apply needb_spec in Nd. rewrite Nd. cbn [orb]. apply TO; assumption.
      - intros u Hu Hm. rewrite Hold by (apply BT, RebaseP.subt_In, Hu). apply old_hashed; assumption.
    Qed.

    (* the same for the extracted interpreter *)
    Corollary rehash_only_new_run o s'' : run (tree_hash ek H t') s' = (o, s'') ->
      o = Ok (hash_spec ek H t') /\ next s'' = next s' /\
      (forall i, (i < next s)%positive -> mget s'' i = mget s' i /\ mget s' i = mget s i) /\
      memo_below s'' /\ hashed s'' t' /\ hashed s'' t.
    Proof. intros Er. pose proof (wp_run _ _ _ rehash_only_new) as W. rewrite Er in W. exact W. Qed.

    (* which hashes are computed at all (`needb s' t' i`: node i is visited and its memo found absent):
       only nodes allocated by the update -- and old leaves whose true hash is the zero chunk (for
       those "absent" and "recorded" coincide; recomputing them stores the same value).  Internal
       nodes of the old tree are never rehashed when H never returns zero. *)
    Theorem rehash_recomputed : nonzero_hash H -> forall i, needb s' t' i = true ->
      ((next s <= i)%positive /\ (i < next s')%positive) \/
      (exists u, subt u t /\ subt u t' /\ idof u = i /\ hash_spec ek H u = 0 /\
                 match u with Leaf _ _ | Packed _ _ => True | _ => False end).
    Proof.
      intros NZ i Eb. apply needb_spec, need_node_zero in Eb. destruct Eb as (v & Hv & Hm & <- & Z).
      destruct (old_or_new v Hv) as [[Ho _]|Hn]; [right|left; exact Hn].
      exists v. rewrite (old_hashed v Ho Hm) in Z. repeat split; auto.
      destruct v as [| |j l r|]; auto; [|discriminate Hm].
      unfold hash_spec in Z. cbn [shape shash] in Z. exact (NZ _ _ Z).
    Qed.
  End Derived.
End Rehash.

(* C10 end to end: flush the pending updates (with_updated_leaves), then compute the root *)
Section FlushRehash.
  Context {T U : Type}.
  Variable ek : ekind T.
  Variable M : umap_impl T U.
  Variable H : digest -> digest -> digest.
  Variable uinv : U -> Prop.
  Hypothesis UL : umap_lawful ek M uinv.
  Notation tree := (tree T).

  Theorem flush_rehash_only_new : forall d (l l' : list T) (t : tree) u s,
    uinv u -> shape t = canon ek d l -> lenN l' <= cap ek d -> agrees M u l l' -> (exists k, has_key M u k) ->
    idf [t] -> below (next s) t -> memo_below s -> hashed ek H s t ->
    wp Rexact (bind (with_updated_leaves ek M d t u 0) (fun t' =>
               bind (tree_hash ek H t') (fun r => Ret (t', r))))
       (fun o s'' => exists t', o = Ok (t', hash_spec ek H t') /\ shape t' = canon ek d l' /\
          (* subtrees outside the updated windows are the old nodes themselves *)
          retained ek M u d t t' /\
          (* memos of all pre-existing identities are untouched by update + root computation *)
          (forall i, (i < next s)%positive -> mget s'' i = mget s i) /\
          (* the invariant is re-established for the new tree (and kept for the old one) *)
          idf [t'; t] /\ below (next s'') t' /\ memo_below s'' /\ hashed ek H s'' t' /\ hashed ek H s'' t) s.
  Proof.
    intros d l l' t u s UI Hs Hl' Hag Hk IDF BT MB HT.
    apply wp_bind. eapply wp_mono; [|apply wp_conj;
      [apply (wul_full ek M uinv UL d l l' t u Rexact s UI Hs Hl' Hag Hk)
      |apply (wul_idf ek M Rexact d t u 0 s [t] IDF)]].
    2:{ intros t0 [<-|[]]. exact BT. }
    2:{ apply subt_in_here. left. reflexivity. }
    intros o s' [(t' & -> & Hsh & AO & FF & _ & Ret') WP]. cbn [wpost] in WP.
    destruct WP as (_ & G' & Inc & IDF' & B' & Ht'). cbn [lift].
    assert (IDF2 : idf [t'; t]).
    { apply (IntraP.idf_sub G'); [exact IDF'|]. intros t0 [<-|[<-|[]]]; [exact Ht'|].
      apply subt_in_here, Inc. left. reflexivity. }
    assert (IDF1 : idf_memo [t']).
    { apply idf_idf_memo. apply (IntraP.idf_sub G'); [exact IDF'|]. intros t0 [<-|[]]. exact Ht'. }
    assert (PK : forall i vs, subt (Packed i vs) t' -> lenN vs <= pf_of ek).
    { intros i vs Hp. exact (canon_packed_le ek d t' l' Hsh Hl' vs i Hp). }
    apply wp_bind. eapply wp_mono; [|apply (rehash_only_new ek H t t' s s' HT BT MB AO FF IDF1 PK)].
    intros o s'' (-> & Hn & Hold & MB'' & HT' & HT''). cbn [lift wp].
    exists t'. split; [reflexivity|]. split; [exact Hsh|]. split; [exact Ret'|]. split.
    - intros i Hi. destruct (Hold i Hi) as [E1 E2]. congruence.
    - split; [exact IDF2|]. split; [rewrite Hn; eapply below_in; eauto|auto].
  Qed.
End FlushRehash.

(* ====================================================================================== *)
(* 4. C04: versions are isolated — an operation changes only its destination register      *)
(* ====================================================================================== *)
Section SpecFrame.
  Context {T : Type}.
  Variable ek : ekind T.
  Variable H : digest -> digest -> digest.
  Variable capN : N.
  Variable vec_based : bool.
  Variable valid : T -> Prop.
  Notation aval := (@aval T).
  Notation sregs := (@sregs T).
  Notation res := (@res T).
  Notation op := (@op T).
  Notation spec_ok := (spec_ok ek H capN vec_based valid).

  Lemma aget_aset_neq (a : sregs) d x j : d <> j -> aget (aset a d x) j = aget a j.
  Proof. intros Hne. unfold aget, aset. rewrite nth_error_set_nth_neq by exact Hne. reflexivity. Qed.

  (* purely at the level of the specification: whatever an operation answers, the abstract value
     (kind, contents, pending flag, backing length) of every register other than its destination
     is the same afterwards *)
  Theorem spec_frame (a : sregs) (o : op) (r : res) (a' : sregs) :
    collection_op o = true -> spec_ok a o r a' ->
    forall j, dest o <> Some j -> aget a' j = aget a j.
  Proof.
    intros Hc Hs j Hd. destruct o; cbn [collection_op] in Hc; try discriminate Hc; cbn [dest] in Hd;
      cbn [Spec.spec_ok] in Hs; unfold write_spec, ctor, with_list in Hs; unfold with_reg, Spec.bad in Hs;
      spec_inv; subst; try reflexivity; apply aget_aset_neq; congruence.
  Qed.

  (* the read-only operations on register j *)
  Definition obs_op (q : op) (j : nat) : bool :=
    match q with
    | OGet i _ | OLen i | OIterFrom i _ | OLevelIter i _ | OSszEnc i | OSerdeSer i | OCowRead i _
    | OHash i | OParHash i _ | OParMix i _ => Nat.eqb i j
    | _ => false
    end.
  Lemma obs_op_facts q j : obs_op q j = true -> collection_op q = true /\ det_op q = true /\ dest q = None.
  Proof. destruct q; cbn [obs_op]; intros E; try discriminate E; auto. Qed.

  (* what such an operation answers (an element, the length, the iteration, the serialization, the
     root, ...) depends only on the abstract value of register j, and it leaves the state alone *)
  Lemma spec_obs_reg (a1 a2 : sregs) q j r a1' : obs_op q j = true -> aget a1 j = aget a2 j ->
    spec_ok a1 q r a1' -> a1' = a1 /\ spec_ok a2 q r a2.
  Proof.
    intros Ho Hag Hs. destruct q; cbn [obs_op] in Ho; try discriminate Ho; apply Nat.eqb_eq in Ho; subst;
      cbn [Spec.spec_ok] in Hs |- *; unfold with_list in *; unfold with_reg, Spec.bad in *; rewrite <- Hag;
      destruct (aget a1 j) as [x|]; try (destruct (a_list x)); intuition (subst; auto).
  Qed.
End SpecFrame.

Section Isolation.
  Context {T U : Type}.
  Variable ek : ekind T.
  Variable M : umap_impl T U.
  Variable H : digest -> digest -> digest.
  Variable capN : N.
  Variable vec_based : bool.
  Variable uinv : U -> Prop.
  Variable valid : T -> Prop.
  Hypothesis EKW : ek_wf ek.
  Hypothesis UL : umap_lawful ek M uinv.
  Hypothesis CAP : capacity_ok capN.
  Hypothesis CF : collision_free H.
  Hypothesis TRI : troot_inj ek.
  Hypothesis ECO : ek_codec_on ek valid.
  Notation sys := (@sys T U).
  Notation sregs := (@sregs T).
  Notation res := (@res T).
  Notation op := (@op T).
  Notation SysInv := (SysInv ek M H capN uinv).
  Notation spec_ok := (spec_ok ek H capN vec_based valid).
  Notation step := (step ek M H capN vec_based).

  Lemma rget_frame (s s' : sys) j : nth_error (regs s') j = nth_error (regs s) j -> rget s' j = rget s j.
  Proof. unfold rget. intros ->. reflexivity. Qed.

  (* C04 for the model: one step of any collection operation, from any state satisfying the system
     invariant.  Every register j other than the destination holds the very same handle afterwards
     (same tree, same pending map) and has the same abstract value; the invariant is kept, so this
     applies along every history. *)
  Theorem versions_isolated st (s : sys) (a : sregs) (o : op) r s' st' :
    collection_op o = true -> op_wf o -> vals_valid valid a -> SysInv st s a ->
    run (step s o) st = (Ok (r, s'), st') ->
    exists a', spec_ok a o r a' /\ SysInv st' s' a' /\
      forall j, dest o <> Some j -> rget s' j = rget s j /\ aget a' j = aget a j.
  Proof.
    intros Hc Hw Hv I Er.
    destruct (step_run ek M H capN vec_based uinv valid EKW UL CAP CF TRI ECO st s a o Hc Hw Hv I)
      as (r0 & s0 & st0 & a' & Er0 & _ & Hs & I').
    rewrite Er in Er0. injection Er0 as <- <- <-.
    exists a'. split; [exact Hs|]. split; [exact I'|]. intros j Hd. split.
    - destruct (step_regs_frame ek M H capN vec_based s o st r s' st' Hc Er) as (_ & _ & Hn & _).
      apply rget_frame, Hn, Hd.
    - eapply spec_frame; eauto.
  Qed.

  (* ... hence every observation of register j — element reads, length, iteration, serialization,
     pending-ness (OHash answers EPending on a dirty handle) and the Merkle root — answers after the
     operation exactly what it answered before it *)
  Theorem versions_isolated_obs st (s : sys) (a : sregs) (o : op) r s' st' (q : op) j :
    collection_op o = true -> op_wf o -> op_valid ek valid o -> vals_valid valid a -> SysInv st s a ->
    run (step s o) st = (Ok (r, s'), st') -> dest o <> Some j -> obs_op q j = true ->
    exists rq, fst (run (step s q) st) = Ok (rq, s) /\ fst (run (step s' q) st') = Ok (rq, s').
  Proof.
    intros Hc Hw Hov Hv I Er Hd Hq.
    destruct (versions_isolated st s a o r s' st' Hc Hw Hv I Er) as (a' & Hs & I' & Hfr).
    destruct (Hfr j Hd) as [_ Hag].
    pose proof (spec_ok_vals_valid ek H capN vec_based valid a o r a' Hc Hov Hv Hs) as Hv'.
    destruct (obs_op_facts q j Hq) as (Hcq & Hdq & Hnq).
    assert (Hwq : op_wf q) by (destruct q; cbn [obs_op] in Hq; try discriminate Hq; exact Logic.I).
    destruct (step_run ek M H capN vec_based uinv valid EKW UL CAP CF TRI ECO st s a q Hcq Hwq Hv I)
      as (r1 & s1 & st1 & a1 & Er1 & _ & Hs1 & _).
    destruct (step_run ek M H capN vec_based uinv valid EKW UL CAP CF TRI ECO st' s' a' q Hcq Hwq Hv' I')
      as (r2 & s2 & st2 & a2 & Er2 & _ & Hs2 & _).
    destruct (step_regs_frame ek M H capN vec_based s q st r1 s1 st1 Hcq Er1) as (_ & _ & _ & E1).
    destruct (step_regs_frame ek M H capN vec_based s' q st' r2 s2 st2 Hcq Er2) as (_ & _ & _ & E2).
    rewrite (E1 Hnq) in Er1. rewrite (E2 Hnq) in Er2.
    destruct (spec_obs_reg ek H capN vec_based valid a' a q j r2 a2 Hq Hag Hs2) as [_ Hs2'].
    destruct (spec_det ek H capN vec_based valid a q r1 a1 r2 a Hdq Hs1 Hs2') as [-> _].
    exists r2. rewrite Er1, Er2. split; reflexivity.
  Qed.
End Isolation.

Print Assumptions incremental_canon_gen.
Print Assumptions incremental_canon.
Print Assumptions incremental_canon_alloc.
Print Assumptions finish_inc_true.
Print Assumptions build_eq_incremental.
Print Assumptions rebase_shape_cf.
Print Assumptions rebase_shape_vec_cf.
Print Assumptions rebase_state_cf.
Print Assumptions rebase_state_vec_cf.
Print Assumptions rebase_sharing_cf.
Print Assumptions rebase_sharing_vec_cf.
Print Assumptions rebase_sharing_exact_cf.
Print Assumptions rebase_sharing_exact_vec_cf.
Print Assumptions sharing_paths.
Print Assumptions sharing_equal.
Print Assumptions sharing_node_iff.
Print Assumptions fresh_differs.
Print Assumptions rebase_sharing_paths_cf.
Print Assumptions rebase_sharing_paths_vec_cf.
Print Assumptions coll_rebase_on_spec_cf.
Print Assumptions coll_rebase_on_sharing_cf.
Print Assumptions coll_rebase_on_hinv_cf.
Print Assumptions coll_rebase_on_dem_cf.
Print Assumptions sharing_paths_cf.
Print Assumptions run_wp.
Print Assumptions rehash_only_new.
Print Assumptions rehash_only_new_run.
Print Assumptions rehash_recomputed.
Print Assumptions flush_rehash_only_new.
Print Assumptions spec_frame.
Print Assumptions spec_obs_reg.
Print Assumptions versions_isolated.
Print Assumptions versions_isolated_obs.
