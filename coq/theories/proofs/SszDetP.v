(* SszDetP.v — SSZ decoding is deterministic, strict and complete (C12), stated about the model.
     ssz_list_decode_iff, ssz_vec_decode_iff :
        in every state satisfying the system invariant, `step` on OSszList d b / OSszVec d b (b a byte string,
        below the 4-byte-offset limit when the element kind is variable-size) returns normally, answers ROk or
        RErr EDecode, answers ROk IF AND ONLY IF b is the canonical serialization of an in-bounds sequence of
        well-formed values, and then register d holds a clean handle whose contents are exactly that sequence
        (for every such sequence: there is only one); on EDecode the abstract register file is unchanged.
     spec_ssz_list_alt(_conv), spec_ssz_vec_alt(_conv) :
        Spec.spec_ok for the two decoders is equivalent (under the codec laws) to the formulation
        "success on an admissible preimage, or EDecode and there is no admissible preimage";
        without the codec laws it implies it.
   Proof file; no model code. *)
From Coq Require Import FMapPositive.
From MH Require Import Inv IfaceP IterP CollObsP HashP CodecP SysInv RefineBase RefineA RefineB Refine.
Local Open Scope N_scope.

(* ====================================================================== *)
(* the specification of the decoders in the "no admissible preimage" form  *)
(* ====================================================================== *)
Section SpecAlt.
  Context {T : Type}.
  Variable ek : ekind T.
  Variable H : digest -> digest -> digest.
  Variable capN : N.
  Variable vec_based : bool.
  Variable valid : T -> Prop.
  Notation aval := (@aval T).
  Notation sregs := (@sregs T).
  Notation res := (@res T).
  Notation spec_ok := (spec_ok ek H capN vec_based valid).

  Definition ssz_list_alt (a : sregs) (d : nat) (b : bytes) (r : res) (a' : sregs) : Prop :=
    (exists l, serialize ek l = b /\ Forall valid l /\ lenN l <= capN /\ r = ROk /\ a' = aset a d (Some (clean_list l)))
    \/ (r = RErr EDecode /\ a' = a /\
        ~ exists l, serialize ek l = b /\ Forall valid l /\ lenN l <= capN /\ (efixed ek = None -> lenN b < 2 ^ 32)).
  Definition ssz_vec_alt (a : sregs) (d : nat) (b : bytes) (r : res) (a' : sregs) : Prop :=
    (exists l, serialize ek l = b /\ Forall valid l /\ lenN l = capN /\ r = ROk /\ a' = aset a d (Some (clean_vec capN l)))
    \/ (r = RErr EDecode /\ a' = a /\
        ~ exists l, serialize ek l = b /\ Forall valid l /\ lenN l = capN /\ (efixed ek = None -> lenN b < 2 ^ 32)).

  Lemma spec_ssz_list_alt (a : sregs) d b r a' : (d < nregs)%nat -> spec_ok a (OSszList d b) r a' -> ssz_list_alt a d b r a'.
  Proof.
    intros Hd. cbn [Spec.spec_ok]. destruct (Nat.leb_spec nregs d) as [Hle|_]; [lia|].
    intros [[S|[-> ->]] C]; [left; exact S|]. right. split; [reflexivity|]. split; [reflexivity|].
    intros (l & Es & Hv & Hl & H32). destruct (C H32 l Es Hv Hl) as [D _]. discriminate D.
  Qed.
  Lemma spec_ssz_vec_alt (a : sregs) d b r a' : (d < nregs)%nat -> spec_ok a (OSszVec d b) r a' -> ssz_vec_alt a d b r a'.
  Proof.
    intros Hd. cbn [Spec.spec_ok]. destruct (Nat.leb_spec nregs d) as [Hle|_]; [lia|].
    intros [[S|[-> ->]] C]; [left; exact S|]. right. split; [reflexivity|]. split; [reflexivity|].
    intros (l & Es & Hv & Hl & H32). destruct (C H32 l Es Hv Hl) as [D _]. discriminate D.
  Qed.

  Hypothesis ECO : ek_codec_on ek valid.

  Lemma spec_ssz_list_alt_conv (a : sregs) d b r a' : (d < nregs)%nat -> ssz_list_alt a d b r a' -> spec_ok a (OSszList d b) r a'.
  Proof.
    intros Hd. cbn [Spec.spec_ok]. destruct (Nat.leb_spec nregs d) as [Hle|_]; [lia|].
    intros [(l & Es & Hv & Hl & -> & ->)|(-> & -> & Hno)].
    - split; [left; exists l; auto 6|]. intros H32 l2 Es2 Hv2 Hl2. split; [reflexivity|].
      assert (l2 = l) as ->; [|reflexivity].
      apply (serialize_inj_on ek valid ECO l2 l Hv2 Hv); [rewrite Es2; exact H32|congruence].
    - split; [right; auto|]. intros H32 l Es Hv Hl. exfalso. apply Hno. exists l. auto.
  Qed.
  Lemma spec_ssz_vec_alt_conv (a : sregs) d b r a' : (d < nregs)%nat -> ssz_vec_alt a d b r a' -> spec_ok a (OSszVec d b) r a'.
  Proof.
    intros Hd. cbn [Spec.spec_ok]. destruct (Nat.leb_spec nregs d) as [Hle|_]; [lia|].
    intros [(l & Es & Hv & Hl & -> & ->)|(-> & -> & Hno)].
    - split; [left; exists l; auto 6|]. intros H32 l2 Es2 Hv2 Hl2. split; [reflexivity|].
      assert (l2 = l) as ->; [|reflexivity].
      apply (serialize_inj_on ek valid ECO l2 l Hv2 Hv); [rewrite Es2; exact H32|congruence].
    - split; [right; auto|]. intros H32 l Es Hv Hl. exfalso. apply Hno. exists l. auto.
  Qed.
End SpecAlt.

(* ====================================================================== *)
(* the model                                                                *)
(* ====================================================================== *)
Section SszDet.
  Context {T U : Type}.
  Variable ek : ekind T.
  Variable M : umap_impl T U.
  Variable H : digest -> digest -> digest.
  Variable capN : N.
  Variable vec_based : bool.
  Variable uinv : U -> Prop.
  Variable valid : T -> Prop.
  Hypothesis EKW : ek_wf ek.
  Hypothesis UL : umap_lawful ek M uinv.
  Hypothesis CAP : capacity_ok capN.
  Hypothesis ECO : ek_codec_on ek valid.
  Notation handle := (handle T U).
  Notation sys := (@sys T U).
  Notation aval := (@aval T).
  Notation sregs := (@sregs T).
  Notation res := (@res T).
  Notation op := (@op T).
  Notation hinv := (hinv ek M capN uinv).
  Notation SysInv := (SysInv ek M H capN uinv).
  Notation refines := (refines ek M H capN vec_based uinv valid).
  Notation spec_ok := (spec_ok ek H capN vec_based valid).
  Notation step := (step ek M H capN vec_based).

  (* what the invariant says about a register whose abstract value is a freshly decoded collection *)
  Lemma decoded_handle st (s : sys) (a a' : sregs) d (x : aval) l :
    (d < nregs)%nat -> SysInv st s a' -> length a = nregs -> a' = aset a d (Some x) ->
    a_vals x = l -> a_pend x = false ->
    exists h, rget s d = Some h /\ hlist h = a_list x /\ has_pending M h = false /\ hinv h l /\
              iface_len M h = lenN l /\ to_vec ek M h = Ret l.
  Proof.
    intros Hd I La -> Ev Ep.
    assert (Ea : aget (aset a d (Some x)) d = Some x) by (apply aget_aset_eq; lia).
    pose proof (regs_rel_get ek M capN uinv s _ d (SysInv_rel ek M H capN uinv _ _ _ I)) as Hr. rewrite Ea in Hr.
    destruct (rget s d) as [h|] eqn:Er; [|contradiction]. destruct Hr as (l' & Hi & Ex).
    assert (l' = l) as -> by (rewrite <- Ev, Ex; reflexivity).
    exists h. split; [reflexivity|]. split; [rewrite Ex; reflexivity|].
    split; [rewrite Ex in Ep; exact Ep|]. split; [exact Hi|].
    split; [eapply obs_len; eauto|eapply obs_to_vec; eauto].
  Qed.

  Theorem ssz_list_decode_iff st (s : sys) (a : sregs) d b :
    (d < nregs)%nat -> valid_bytes b = true -> SysInv st s a -> (efixed ek = None -> lenN b < 2 ^ 32) ->
    exists r s' st' a', run (step s (OSszList d b)) st = (Ok (r, s'), st') /\ SysInv st' s' a' /\
      (r = ROk <-> exists l, serialize ek l = b /\ Forall valid l /\ lenN l <= capN) /\
      (r = ROk \/ r = RErr EDecode /\ a' = a) /\
      (forall l, serialize ek l = b -> Forall valid l -> lenN l <= capN ->
         r = ROk /\ a' = aset a d (Some (clean_list l)) /\
         exists h, rget s' d = Some h /\ hlist h = true /\ has_pending M h = false /\ hinv h l /\
                   iface_len M h = lenN l /\ to_vec ek M h = Ret l).
  Proof.
    intros Hd Hb SI H32.
    pose proof (wp_run _ _ _ (refines_OSszList ek M H capN vec_based uinv valid EKW UL CAP ECO st s a d b Hb SI)) as W.
    destruct (run (step s (OSszList d b)) st) as [out st']. cbn [fst snd] in W.
    destruct W as (r & s' & -> & _ & a' & Hs & I'). exists r, s', st', a'.
    split; [reflexivity|]. split; [exact I'|].
    destruct (spec_ssz_list_iff ek H capN vec_based valid a d b r a' Hd H32 Hs) as (Hiff & Hex & Hor).
    split; [exact Hiff|]. split; [exact Hor|].
    intros l Es Hv Hl. destruct (Hex l Es Hv Hl) as [Er Ea]. split; [exact Er|]. split; [exact Ea|].
    apply (decoded_handle st' s' a a' d (clean_list l) l Hd I'); auto.
    apply (SysInv_len ek M H capN uinv _ _ _ SI).
  Qed.

  Theorem ssz_vec_decode_iff st (s : sys) (a : sregs) d b :
    (d < nregs)%nat -> valid_bytes b = true -> SysInv st s a -> (efixed ek = None -> lenN b < 2 ^ 32) ->
    exists r s' st' a', run (step s (OSszVec d b)) st = (Ok (r, s'), st') /\ SysInv st' s' a' /\
      (r = ROk <-> exists l, serialize ek l = b /\ Forall valid l /\ lenN l = capN) /\
      (r = ROk \/ r = RErr EDecode /\ a' = a) /\
      (forall l, serialize ek l = b -> Forall valid l -> lenN l = capN ->
         r = ROk /\ a' = aset a d (Some (clean_vec capN l)) /\
         exists h, rget s' d = Some h /\ hlist h = false /\ has_pending M h = false /\ hinv h l /\
                   iface_len M h = lenN l /\ to_vec ek M h = Ret l).
  Proof.
    intros Hd Hb SI H32.
    pose proof (wp_run _ _ _ (refines_OSszVec ek M H capN vec_based uinv valid EKW UL CAP ECO st s a d b Hb SI)) as W.
    destruct (run (step s (OSszVec d b)) st) as [out st']. cbn [fst snd] in W.
    destruct W as (r & s' & -> & _ & a' & Hs & I'). exists r, s', st', a'.
    split; [reflexivity|]. split; [exact I'|].
    destruct (spec_ssz_vec_iff ek H capN vec_based valid a d b r a' Hd H32 Hs) as (Hiff & Hex & Hor).
    split; [exact Hiff|]. split; [exact Hor|].
    intros l Es Hv Hl. destruct (Hex l Es Hv Hl) as [Er Ea]. split; [exact Er|]. split; [exact Ea|].
    apply (decoded_handle st' s' a a' d (clean_vec capN l) l Hd I'); auto.
    apply (SysInv_len ek M H capN uinv _ _ _ SI).
  Qed.
End SszDet.

Print Assumptions spec_ssz_list_alt.
Print Assumptions spec_ssz_vec_alt.
Print Assumptions spec_ssz_list_alt_conv.
Print Assumptions spec_ssz_vec_alt_conv.
Print Assumptions ssz_list_decode_iff.
Print Assumptions ssz_vec_decode_iff.
