(* Repeat.v — src/repeat.rs: repeat_list (with the F1 repair). Returns the root; the caller wraps it
   with List::from_parts(root, tree_depth, n). Model code only. *)
From MH Require Export Tree.
Local Open Scope N_scope.
Local Open Scope prog_scope.

Section Repeat.
  Context {T : Type}.
  Variable ek : ekind T.
  Let pf := pf_of ek.
  Notation tree := (tree T).

  Definition layer := list (tree * N).

  Definition mk_node (l r : tree) : prog tree := i <- fresh ;; Ret (Node i l r).
  Definition mk_zero (d : nat) : prog tree := i <- fresh ;; Ret (Zero i d).

  (* one iteration of `for depth in 0..tree_depth` *)
  Definition repeat_step (depth : nat) (ly : layer) : prog layer :=
    match ly with
    | [(rl, c)] =>
        if c =? 1 then z <- mk_zero depth ;; n <- mk_node rl z ;; Ret [(n, 1)]
        else if c mod 2 =? 0 then n <- mk_node rl rl ;; Ret [(n, c / 2)]
        else n <- mk_node rl rl ;; z <- mk_zero depth ;; m <- mk_node rl z ;; Ret [(n, c / 2); (m, 1)]
    | [(rl, c); (ll, c2)] =>
        if negb (c2 =? 1) then Crash PUnreachable else
        if c =? 1 then n <- mk_node rl ll ;; Ret [(n, 1)]
        else if c mod 2 =? 0
             then n <- mk_node rl rl ;; z <- mk_zero depth ;; m <- mk_node ll z ;; Ret [(n, c / 2); (m, 1)]
             else n <- mk_node rl rl ;; m <- mk_node rl ll ;; Ret [(n, c / 2); (m, 1)]
    | _ => Crash PUnreachable
    end.

  Fixpoint repeat_layers (todo : nat) (depth : nat) (ly : layer) : prog layer :=
    match todo with
    | O => Ret ly
    | S t => ly' <- repeat_step depth ly ;; repeat_layers t (S depth) ly'
    end.

  (* PackedLeaf::repeat(value, n): assert!(n <= packing_factor) *)
  Definition packed_repeat (v : T) (n : N) : prog tree :=
    if pf <? n then Crash PAssert else i <- fresh ;; Ret (Packed i (repeatN v n)).

  (* repeat_list for n > 0; capN = N::to_usize() *)
  Definition repeat_tree (capN : N) (tree_depth : nat) (elem : T) (n : N) : prog tree :=
    if capN <? n then Fail BuilderFull else
    ly0 <- (if is_packed ek then
              let repeat_count := n / pf in
              let lonely_count := n mod pf in
              rl <- packed_repeat elem pf ;;
              ll <- packed_repeat elem lonely_count ;;
              if (repeat_count =? 0) && (lonely_count =? 0) then Crash PUnreachable
              else if lonely_count =? 0 then Ret [(rl, repeat_count)]
              else if repeat_count =? 0 then Ret [(ll, 1)]
              else Ret [(rl, repeat_count); (ll, 1)]
            else i <- fresh ;; Ret [(Leaf i elem, n)]) ;;
    ly <- repeat_layers tree_depth 0 ly0 ;;
    match rev ly with
    | [] => Fail BuilderStackEmptyFinalize
    | (root, count) :: rest =>
        if negb (match rest with [] => true | _ => false end) || negb (count =? 1)
        then Fail BuilderStackLeftover else Ret root
    end.
End Repeat.
