(* UMap.v — the UpdateMap trait of src/update_map.rs as a record of functions, and its three
   implementations: VecMap<T> (dense vector of options), BTreeMap<usize,T> (strictly sorted
   association list), MaxMap<M> (inner map + max_key raised only by `insert`).
   `for_each_range(start,end,f)` is modelled by `urange`, the list of (key,value) it visits in order;
   the ControlFlow::Break early exit is then "take the first element".
   The two Cow flavours of src/cow.rs are modelled by their effect on the map (`uentry_insert`:
   insertion through a vacant entry, or overwriting through the &mut of an occupied one). *)
From MH Require Export Base.
Local Open Scope N_scope.

Record umap_impl (T U : Type) := {
  uempty : U;                               (* Default::default() *)
  uget : U -> N -> option T;
  uinsert : U -> N -> T -> U;               (* UpdateMap::insert *)
  uentry_insert : U -> N -> T -> U;         (* entry.insert(v) / *entry.into_mut() = v *)
  urange : U -> N -> N -> list (N * T);     (* for_each_range start end *)
  umax_index : U -> option N;
  ulen : U -> N;
  ueqb : (T -> T -> bool) -> U -> U -> bool (* PartialEq *)
}.
Arguments uempty {T U}. Arguments uget {T U}. Arguments uinsert {T U}. Arguments uentry_insert {T U}.
Arguments urange {T U}. Arguments umax_index {T U}. Arguments ulen {T U}. Arguments ueqb {T U}.

Definition uis_empty {T U} (M : umap_impl T U) (u : U) : bool := ulen M u =? 0.

Section Impl.
  Context {T : Type}.

  Fixpoint pairs_eqb (eqb : T -> T -> bool) (a b : list (N * T)) : bool :=
    match a, b with
    | [], [] => true
    | (i, x) :: a', (j, y) :: b' => (i =? j) && eqb x y && pairs_eqb eqb a' b'
    | _, _ => false
    end.

  (* ---------- VecMap ---------- *)
  Definition vecmap := list (option T).
  Definition vm_get (m : vecmap) (k : N) : option T :=
    match nthN m k with Some (Some v) => Some v | _ => None end.
  Definition vm_insert (m : vecmap) (k : N) (v : T) : vecmap :=
    if k <? lenN m then setN m k (Some v)
    else m ++ repeatN None (k - lenN m) ++ [Some v].
  Fixpoint vm_range_aux (m : vecmap) (idx start end_ : N) : list (N * T) :=
    match m with
    | [] => []
    | x :: r =>
        if end_ <=? idx then [] else
        let rest := vm_range_aux r (idx + 1) start end_ in
        match x with
        | Some v => if start <=? idx then (idx, v) :: rest else rest
        | None => rest
        end
    end.
  Definition vm_range (m : vecmap) (start end_ : N) := vm_range_aux m 0 start end_.
  Fixpoint vm_max_aux (m : vecmap) (idx : N) (acc : option N) : option N :=
    match m with
    | [] => acc
    | x :: r => vm_max_aux r (idx + 1) (match x with Some _ => Some idx | None => acc end)
    end.
  Fixpoint vm_len (m : vecmap) : N :=
    match m with [] => 0 | Some _ :: r => 1 + vm_len r | None :: r => vm_len r end.
  Definition vecmap_impl : umap_impl T vecmap :=
    {| uempty := []; uget := vm_get; uinsert := vm_insert; uentry_insert := vm_insert;
       urange := vm_range; umax_index := fun m => vm_max_aux m 0 None; ulen := vm_len;
       ueqb := fun eqb a b => (vm_len a =? vm_len b) &&
                              pairs_eqb eqb (vm_range a 0 (lenN a)) (vm_range b 0 (lenN b)) |}.

  (* ---------- BTreeMap ---------- *)
  Definition btmap := list (N * T).
  Fixpoint bt_get (m : btmap) (k : N) : option T :=
    match m with [] => None | (j, v) :: r => if j =? k then Some v else if k <? j then None else bt_get r k end.
  Fixpoint bt_insert (m : btmap) (k : N) (v : T) : btmap :=
    match m with
    | [] => [(k, v)]
    | (j, w) :: r => if j =? k then (k, v) :: r else if k <? j then (k, v) :: m else (j, w) :: bt_insert r k v
    end.
  Fixpoint bt_range (m : btmap) (start end_ : N) : list (N * T) :=
    match m with
    | [] => []
    | (j, v) :: r => if end_ <=? j then [] else if start <=? j then (j, v) :: bt_range r start end_ else bt_range r start end_
    end.
  Fixpoint bt_max (m : btmap) : option N :=
    match m with [] => None | [(j, _)] => Some j | _ :: r => bt_max r end.
  Definition btmap_impl : umap_impl T btmap :=
    {| uempty := []; uget := bt_get; uinsert := bt_insert; uentry_insert := bt_insert;
       urange := bt_range; umax_index := bt_max; ulen := lenN;
       ueqb := fun eqb a b => pairs_eqb eqb a b |}.

  (* ---------- MaxMap<M> ---------- *)
  Definition maxmap (U : Type) : Type := (U * N)%type.
  Definition maxmap_impl {U} (M : umap_impl T U) : umap_impl T (maxmap U) :=
    {| uempty := (uempty M, 0);
       uget := fun m k => uget M (fst m) k;
       uinsert := fun m k v => (uinsert M (fst m) k v, if snd m <? k then k else snd m);
       uentry_insert := fun m k v => (uentry_insert M (fst m) k v, snd m);
       urange := fun m s e => urange M (fst m) s e;
       umax_index := fun m => if ulen M (fst m) =? 0 then None else Some (snd m);
       ulen := fun m => ulen M (fst m);
       ueqb := fun eqb a b => ueqb M eqb (fst a) (fst b) && (snd a =? snd b) |}.
End Impl.
Arguments vecmap : clear implicits.
Arguments btmap : clear implicits.
