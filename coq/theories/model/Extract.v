(* Extract.v — extraction of the executable model. Only the directives of ExtrOcamlBasic are used
   (bool, option, unit, list, prod, sumbool, sumor; andb/orb inlined); nat, positive, N and
   PositiveMap stay the extracted Coq datatypes. *)
From Coq Require Extraction ExtrOcamlBasic.
From MH Require Import System.
Extraction Language OCaml.

Extraction "../model_driver/model.ml"
  step init_sys run run_cov init_state mget
  ek_uint ek_h256 ek_pair ek_quad ek_var ek_nl vecmap_impl btmap_impl maxmap_impl
  iface_len iface_get has_pending to_vec shape idof nodes elems
  urange umax_index usize_max le_num num_le zh coll_is_ssz_fixed coll_ssz_fixed_len hlist.
