(* System.v — the history language of docs/FORMAT.md as a Coq datatype, and its small-step
   semantics over a register file of collections plus one builder slot. `step` is what the
   extracted model driver executes, one call per history line. Model code only. *)
From MH Require Export Coll.
Local Open Scope N_scope.
Local Open Scope prog_scope.

Section System.
  Context {T U : Type}.
  Variable ek : ekind T.
  Variable M : umap_impl T U.
  Variable H : digest -> digest -> digest.
  Variable capN : N.
  Variable vec_based : bool.     (* VecMap-backed map: huge keys are refused by the harness itself *)
  Notation tree := (tree T).
  Notation handle := (handle T U).

  Inductive op :=
  | ONewList (d : nat) (vs : list T) | ONewVec (d : nat) (vs : list T)
  | OListSlow (d : nat) (vs : list T) | OVecIter (d : nat) (vs : list T)
  | OEmpty (d : nat) | ORepeat (d : nat) (v : T) (n : N) | ORepeatSlow (d : nat) (v : T) (n : N)
  | OFromElem (d : nat) (v : T) | ODefaultVec (d : nat)
  | OSszList (d : nat) (b : bytes) | OSszVec (d : nat) (b : bytes)
  | OSerdeList (d : nat) (vs : list T) | OSerdeVec (d : nat) (vs : list T)
  | OGet (a : nat) (i : N) | OLen (a : nat) | OIterFrom (a : nat) (i : N) | OLevelIter (a : nat) (i : N)
  | OEq (a b : nat) | OSszEnc (a : nat) | OSerdeSer (a : nat)
  | OSet (a : nat) (i : N) (v : T) | OTouch (a : nat) (i : N) | OCowRead (a : nat) (i : N)
  | OCowInto (a : nat) (i : N) (v : T) | OCowMake (a : nat) (i : N) (v : T)
  | OCowMake2 (a : nat) (i : N) (v w : T) | OIterCow (a : nat) (items : list (option T))
  | OPush (a : nat) (v : T) | OBulk (a : nat) (kvs : list (N * T)) | OApply (a : nat)
  | OPopFront (a : nat) (n : N) | OPopFrontSlow (a : nat) (n : N)
  | OClone (a b : nat) | OToVector (a b : nat) | OToList (a b : nat)
  | ORebaseOn (a b : nat) | ORebase (a b c : nat) | OIntra (a : nat) | OHash (a : nat) | ODrop (a : nat)
  | OBNew (d l : N) | OBPush (v : T) | OBPushNode (a : nat) (path : list bool) | OBFinish
  | OParHash (a : nat) (k : N) | OParMix (a : nat) (vs : list T).

  Inductive res :=
  | ROk
  | RVal (v : option T)                       (* ok:V / ok:none *)
  | RNum (n : N)
  | RSome (b : bool)                          (* ok:some / ok:none *)
  | RBool (b : bool)
  | RIter (vs : list T) (hints : list N)
  | RLevel (items : list (bool * list T))     (* (true, elems) = I:elems ; (false,[v]) = P:v *)
  | RBytes (b : bytes) (n : N)
  | RVals (vs : list T)
  | RHash (d : digest)
  | RHashes (ds : list digest)
  | RFinish (depth : nat) (len : N) (t : tree) (root : digest) (inc : bool)
  | RErr (e : error).

  Record sys := { regs : list (option handle); bslot : option (builder T) }.
  Definition nregs : nat := 8.
  Definition init_sys : sys := {| regs := repeat None nregs; bslot := None |}.

  Definition rget (s : sys) (a : nat) : option handle :=
    match nth_error (regs s) a with Some (Some h) => Some h | _ => None end.
  Fixpoint set_nth {A} (l : list A) (n : nat) (x : A) : list A :=
    match l, n with
    | [], _ => []
    | _ :: r, O => x :: r
    | y :: r, S n' => y :: set_nth r n' x
    end.
  Definition rset (s : sys) (a : nat) (h : option handle) : sys :=
    {| regs := set_nth (regs s) a h; bslot := bslot s |}.
  Definition bset (s : sys) (b : option (builder T)) : sys := {| regs := regs s; bslot := b |}.

  Definition bad (s : sys) : prog (res * sys) := Ret (RErr EBadReg, s).

  (* a constructor: on success the destination register is replaced, on Err nothing changes *)
  Definition construct (s : sys) (d : nat) (m : prog handle) : prog (res * sys) :=
    if (nregs <=? d)%nat then bad s else
    r <- try_ m ;;
    match r with
    | inl e => Ret (RErr e, s)
    | inr h => Ret (ROk, rset s d (Some h))
    end.

  Definition with_reg (s : sys) (a : nat) (f : handle -> prog (res * sys)) : prog (res * sys) :=
    match rget s a with Some h => f h | None => bad s end.
  Definition with_list (s : sys) (a : nat) (f : handle -> prog (res * sys)) : prog (res * sys) :=
    with_reg s a (fun h => if hlist h then f h else bad s).
  Definition with_vector (s : sys) (a : nat) (f : handle -> prog (res * sys)) : prog (res * sys) :=
    with_reg s a (fun h => if hlist h then bad s else f h).

  (* an in-place operation that either succeeds with a new value or fails leaving the old one *)
  Definition inplace (s : sys) (a : nat) (m : prog handle) : prog (res * sys) :=
    r <- try_ m ;;
    match r with
    | inl e => Ret (RErr e, s)
    | inr h => Ret (ROk, rset s a (Some h))
    end.
  (* an in-place operation that reports its own error together with the state it leaves *)
  Definition inplace_e (s : sys) (a : nat) (m : prog (option error * handle)) : prog (res * sys) :=
    '(e, h) <- m ;;
    Ret (match e with Some e => RErr e | None => ROk end, rset s a (Some h)).

  Definition level_item (x : level_node T) : bool * list T :=
    match x with LInternal t => (true, elems t) | LPackedLeaf v => (false, [v]) end.

  Fixpoint subtree_at (t : tree) (path : list bool) : option tree :=
    match path with
    | [] => Some t
    | b :: r => match t with Node _ l rr => subtree_at (if b then rr else l) r | _ => None end
    end.

  (* the tree obtained from Tree::empty(depth) by with_updated_leaf(j, v_j, depth), j = 0.. *)
  Fixpoint incremental (depth : nat) (t : tree) (vs : list T) (j : N) : prog tree :=
    match vs with
    | [] => Ret t
    | v :: r => t' <- with_updated_leaf ek depth t j v ;; incremental depth t' r (j + 1)
    end.

  Fixpoint bulk_map (u : U) (kvs : list (N * T)) : U :=
    match kvs with [] => u | (k, v) :: r => bulk_map (uinsert M u k v) r end.

  Fixpoint par_mix_run (h : handle) (vs : list T) (j : N) : prog (list digest) :=
    match vs with
    | [] => Ret []
    | v :: r =>
        let len := iface_len M h in
        h1 <- (if len =? 0 then Ret h else
               match iface_get_mut ek M h (j mod len) with
               | Some (_, h') => Ret (write_entry M h' (j mod len) v)
               | None => Ret h
               end) ;;
        h2 <- apply_q ek M capN h1 ;;
        d <- coll_tree_hash_root ek M H h2 ;;
        ds <- par_mix_run h r (j + 1) ;;
        Ret (d :: ds)
    end.

  Definition step (s : sys) (o : op) : prog (res * sys) :=
    match o with
    | ONewList d vs => construct s d (list_try_from_iter ek M capN vs)
    | ONewVec d vs => construct s d (vector_new ek M capN vs)
    | OListSlow d vs => construct s d (list_try_from_iter_slow ek M capN vs)
    | OVecIter d vs => construct s d (vector_try_from_iter ek M capN vs)
    | OEmpty d => construct s d (list_empty ek M capN)
    | ORepeat d v n => construct s d (list_repeat ek M capN v n)
    | ORepeatSlow d v n => construct s d (list_repeat_slow ek M capN v n)
    | OFromElem d v => construct s d (vector_from_elem ek M capN v)
    | ODefaultVec d => construct s d (vector_default ek M capN)
    | OSszList d b => construct s d (list_from_ssz ek M capN b)
    | OSszVec d b => construct s d (vector_from_ssz ek M capN b)
    | OSerdeList d vs => construct s d (list_serde_de ek M capN vs)
    | OSerdeVec d vs => construct s d (vector_serde_de ek M capN vs)
    | OGet a i => with_reg s a (fun h => Ret (RVal (iface_get ek M h i), s))
    | OLen a => with_reg s a (fun h => Ret (RNum (iface_len M h), s))
    | OIterFrom a i => with_reg s a (fun h =>
        r <- try_ (coll_iter_from ek M h i) ;;
        match r with inl e => Ret (RErr e, s) | inr (vs, hs) => Ret (RIter vs hs, s) end)
    | OLevelIter a i => with_list s a (fun h =>
        r <- try_ (list_level_iter_from ek M h i) ;;
        match r with inl e => Ret (RErr e, s) | inr items => Ret (RLevel (map level_item items), s) end)
    | OEq a b => with_reg s a (fun ha => with_reg s b (fun hb =>
        if Bool.eqb (hlist ha) (hlist hb) then Ret (RBool (coll_eqb ek M ha hb), s) else bad s))
    | OSszEnc a => with_reg s a (fun h =>
        b <- ssz_encode ek M h ;; n <- ssz_bytes_len ek M h ;; Ret (RBytes b n, s))
    | OSerdeSer a => with_reg s a (fun h => vs <- serde_ser ek M h ;; Ret (RVals vs, s))
    | OSet a i v | OCowInto a i v | OCowMake a i v => with_reg s a (fun h =>
        match iface_get_mut ek M h i with
        | Some (_, h') => Ret (RSome true, rset s a (Some (write_entry M h' i v)))
        | None => Ret (RSome false, s)
        end)
    | OCowMake2 a i v w => with_reg s a (fun h =>
        match iface_get_mut ek M h i with
        | Some (_, h') => Ret (RSome true, rset s a (Some (write_entry M (write_entry M h' i v) i w)))
        | None => Ret (RSome false, s)
        end)
    | OTouch a i => with_reg s a (fun h =>
        match iface_get_mut ek M h i with
        | Some (_, h') => Ret (RSome true, rset s a (Some h'))
        | None => Ret (RSome false, s)
        end)
    | OCowRead a i => with_reg s a (fun h => Ret (RVal (iface_get ek M h i), s))
    | OIterCow a items => with_list s a (fun h =>
        '(c, h') <- coll_iter_cow ek M h items ;; Ret (RNum c, rset s a (Some h')))
    | OPush a v => with_list s a (fun h => inplace s a (iface_push M capN h v))
    | OBulk a kvs => with_list s a (fun h =>
        if vec_based && existsb (fun kv => 65536 <=? fst kv) kvs then bad s else
        inplace s a (iface_bulk_update M capN h (bulk_map (uempty M) kvs)))
    | OApply a => with_reg s a (fun h => inplace_e s a (apply_updates ek M capN h))
    | OPopFront a n => with_list s a (fun h => inplace_e s a (list_pop_front ek M capN h n))
    | OPopFrontSlow a n => with_list s a (fun h => inplace s a (list_pop_front_slow ek M capN h n))
    | OClone a b => if (nregs <=? b)%nat then bad s else with_reg s a (fun h => Ret (ROk, rset s b (Some h)))
    | OToVector a b => if (nregs <=? b)%nat then bad s else
        with_list s a (fun h => construct s b (vector_try_from ek M capN h))
    | OToList a b => if (nregs <=? b)%nat then bad s else
        with_vector s a (fun h => Ret (ROk, rset s b (Some (list_from_vector capN h))))
    | ORebaseOn a b => with_reg s a (fun ha => with_reg s b (fun hb =>
        if Bool.eqb (hlist ha) (hlist hb) then inplace s a (coll_rebase_on ek ha hb) else bad s))
    | ORebase a b c => if (nregs <=? c)%nat then bad s else
        with_reg s a (fun ha => with_reg s b (fun hb =>
        if Bool.eqb (hlist ha) (hlist hb) then construct s c (coll_rebase_on ek ha hb) else bad s))
    | OIntra a => with_reg s a (fun h => inplace_e s a (coll_intra_rebase ek M H capN h))
    | OHash a => with_reg s a (fun h =>
        if has_pending M h then Ret (RErr EPending, s) else
        d <- coll_tree_hash_root ek M H h ;; Ret (RHash d, s))
    | ODrop a => with_reg s a (fun _ => Ret (ROk, rset s a None))
    | OBNew d l =>
        r <- try_ (builder_new ek d l) ;;
        match r with inl e => Ret (RErr e, s) | inr b => Ret (ROk, bset s (Some b)) end
    | OBPush v =>
        match bslot s with
        | None => Ret (RErr ENoBuilder, s)
        | Some b =>
            r <- try_ (builder_push ek b v) ;;
            match r with
            | inl BuilderFull => Ret (RErr BuilderFull, s)
            | inl e => Ret (RErr e, bset s None)
            | inr b' => Ret (ROk, bset s (Some b'))
            end
        end
    | OBPushNode a path =>
        match bslot s with
        | None => Ret (RErr ENoBuilder, s)
        | Some b =>
            with_reg s a (fun h =>
            if has_pending M h then Ret (RErr EPending, s) else
            match subtree_at (htree h) path with
            | None => Ret (RErr EBadPath, s)
            | Some t =>
                r <- try_ (builder_push_node ek b t (compute_len t)) ;;
                match r with
                | inl BuilderFull => Ret (RErr BuilderFull, s)
                | inl e => Ret (RErr e, bset s None)
                | inr b' => Ret (ROk, bset s (Some b'))
                end
            end)
        end
    | OBFinish =>
        match bslot s with
        | None => Ret (RErr ENoBuilder, s)
        | Some b =>
            r <- try_ (builder_finish ek b) ;;
            match r with
            | inl e => Ret (RErr e, bset s None)
            | inr (t, depth, len) =>
                root <- tree_hash ek H t ;;
                z <- fresh ;;
                r2 <- try_ (incremental depth (Zero z depth) (elems t) 0) ;;
                let inc := match r2 with inl _ => false | inr t2 => tree_eqb ek t t2 end in
                Ret (RFinish depth len t root inc, bset s None)
            end
        end
    | OParHash a _ => with_reg s a (fun h =>
        if has_pending M h then Ret (RErr EPending, s) else
        d <- coll_tree_hash_root ek M H h ;; Ret (RHash d, s))
    | OParMix a vs => with_reg s a (fun h =>
        if has_pending M h then Ret (RErr EPending, s) else
        ds <- par_mix_run h vs 0 ;;
        d <- coll_tree_hash_root ek M H h ;;
        Ret (RHashes (ds ++ [d]), s))
    end.
End System.
