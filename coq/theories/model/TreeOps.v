(* TreeOps.v — Tree::{get_recursive, with_updated_leaf, with_updated_leaves} of src/tree.rs and
   PackedLeaf::{insert_at_index, update, insert_mut} of src/packed_leaf.rs (hashes = None: the
   hash_updates argument of MutList::update is out of scope). Model code only. *)
From MH Require Export Tree UMap.
Local Open Scope N_scope.
Local Open Scope prog_scope.

Section TreeOps.
  Context {T U : Type}.
  Variable ek : ekind T.
  Variable M : umap_impl T U.
  Let pd := pd_of ek.
  Let pf := pf_of ek.
  Notation tree := (tree T).

  (* Tree::get_recursive *)
  Fixpoint get_rec (t : tree) (index : N) (depth : nat) : option T :=
    match t, depth with
    | Leaf _ v, O => Some v
    | Packed _ vs, O => nthN vs (index mod pf)
    | Node _ l r, S nd =>
        if N.testbit index (N.of_nat (nd + pd)) then get_rec r index nd else get_rec l index nd
    | _, _ => None
    end.

  (* PackedLeaf::insert_mut on the values vector *)
  Definition insert_mut (vs : list T) (sub_index : N) (v : T) : prog (list T) :=
    if sub_index =? lenN vs then Ret (vs ++ [v])
    else if sub_index <? lenN vs then Ret (setN vs sub_index v)
    else Fail (PackedLeafOutOfBounds sub_index (lenN vs)).

  (* PackedLeaf::update: insert_mut for every pending (index, value) in [prefix, prefix + pf) *)
  Fixpoint insert_all (vs : list T) (kvs : list (N * T)) : prog (list T) :=
    match kvs with
    | [] => Ret vs
    | (k, v) :: r => vs' <- insert_mut vs (k mod pf) v ;; insert_all vs' r
    end.
  Definition packed_update (vs : list T) (prefix : N) (u : U) : prog (list T) :=
    insert_all vs (urange M u prefix (prefix + pf)).

  Definition has_updates (u : U) (start end_ : N) : bool :=
    match urange M u start end_ with [] => false | _ => true end.

  (* Tree::with_updated_leaves (hashes = None, so every new node has a zero memo).
     Recursion is on depth; the Zero arm splits into a node over one shared new zero child and
     recurses exactly as the Rust does. *)
  Fixpoint with_updated_leaves (depth : nat) (t : tree) (u : U) (prefix : N) {struct depth} : prog tree :=
    let leaf_case :=
      v <- lift_opt (uget M u prefix) (LeafUpdateMissing prefix) ;;
      i <- fresh ;; Ret (Leaf i v) in
    let node_case (nd : nat) (l r : tree) :=
      let right_prefix := N.lor prefix (pow2 (nd + pd)) in
      let subtree_end := prefix + pow2 (S nd + pd) in
      let hasl := has_updates u prefix right_prefix in
      let hasr := has_updates u right_prefix subtree_end in
      if negb hasl && negb hasr then Fail (NodeUpdatesMissing prefix) else
      l' <- (if hasl then with_updated_leaves nd l u prefix else Ret l) ;;
      r' <- (if hasr then with_updated_leaves nd r u right_prefix else Ret r) ;;
      i <- fresh ;; Ret (Node i l' r') in
    match t, depth with
    | Leaf _ _, O => leaf_case
    | Packed _ vs, O => vs' <- packed_update vs prefix u ;; i <- fresh ;; Ret (Packed i vs')
    | Node _ l r, S nd => node_case nd l r
    | Zero _ z, _ =>
        if negb (Nat.eqb z depth) then Fail UpdateLeavesError else
        match depth with
        | O => if is_packed ek
               then vs' <- packed_update [] prefix u ;; i <- fresh ;; Ret (Packed i vs')
               else leaf_case
        | S nd => zi <- fresh ;; node_case nd (Zero zi nd) (Zero zi nd)
        end
    | _, _ => Fail UpdateLeavesError
    end.

  (* Tree::with_updated_leaf *)
  Fixpoint with_updated_leaf (depth : nat) (t : tree) (index : N) (v : T) {struct depth} : prog tree :=
    let node_case (nd : nat) (l r : tree) :=
      if N.testbit index (N.of_nat (nd + pd))
      then r' <- with_updated_leaf nd r index v ;; i <- fresh ;; Ret (Node i l r')
      else l' <- with_updated_leaf nd l index v ;; i <- fresh ;; Ret (Node i l' r) in
    match t, depth with
    | Leaf _ _, O => i <- fresh ;; Ret (Leaf i v)
    | Packed _ vs, O => vs' <- insert_mut vs (index mod pf) v ;; i <- fresh ;; Ret (Packed i vs')
    | Node _ l r, S nd => node_case nd l r
    | Zero _ z, _ =>
        if negb (Nat.eqb z depth) then Fail UpdateLeafError else
        match depth with
        | O => i <- fresh ;; if is_packed ek then Ret (Packed i [v]) else Ret (Leaf i v)
        | S nd => zi <- fresh ;; node_case nd (Zero zi nd) (Zero zi nd)
        end
    | _, _ => Fail UpdateLeafError
    end.
End TreeOps.
