(* Sha256.v — SHA-256 (FIPS 180-4) in Gallina, on byte lists, and the hash of two 32-byte chunks
   `Hsha` in the model's digest representation (a digest is the number whose 32-byte little-endian
   encoding is the chunk). It instantiates the Section variable `H` of the model when histories are
   evaluated INSIDE Coq (`vm_compute`) and compared with what the real crate printed (tools/coqcases.py):
   the roots computed by the kernel's evaluator are then the implementation's actual SHA-256 roots.
   Model code only; tested below against the FIPS vectors by computation. *)
From MH Require Export Elem.
Local Open Scope N_scope.

Definition m32 : N := 4294967295.
Definition w32 (x : N) : N := N.land x m32.
Definition add32 (x y : N) : N := w32 (x + y).
Definition rotr (x : N) (n : N) : N := w32 (N.lor (N.shiftr x n) (N.shiftl x (32 - n))).
Definition not32 (x : N) : N := N.lxor x m32.

Definition Ksha : list N := [
  1116352408; 1899447441; 3049323471; 3921009573; 961987163; 1508970993; 2453635748; 2870763221;
  3624381080; 310598401; 607225278; 1426881987; 1925078388; 2162078206; 2614888103; 3248222580;
  3835390401; 4022224774; 264347078; 604807628; 770255983; 1249150122; 1555081692; 1996064986;
  2554220882; 2821834349; 2952996808; 3210313671; 3336571891; 3584528711; 113926993; 338241895;
  666307205; 773529912; 1294757372; 1396182291; 1695183700; 1986661051; 2177026350; 2456956037;
  2730485921; 2820302411; 3259730800; 3345764771; 3516065817; 3600352804; 4094571909; 275423344;
  430227734; 506948616; 659060556; 883997877; 958139571; 1322822218; 1537002063; 1747873779;
  1955562222; 2024104815; 2227730452; 2361852424; 2428436474; 2756734187; 3204031479; 3329325298 ].
Definition H0sha : list N := [1779033703; 3144134277; 1013904242; 2773480762; 1359893119; 2600822924; 528734635; 1541459225].

(* big-endian 32-bit words of a byte list (length a multiple of 4) *)
Fixpoint be_words (fuel : nat) (b : bytes) : list N :=
  match fuel with
  | O => []
  | S f => match b with
           | b0 :: b1 :: b2 :: b3 :: r => (b0 * 16777216 + b1 * 65536 + b2 * 256 + b3) :: be_words f r
           | _ => []
           end
  end.

(* message schedule: `w` holds W[t-1], W[t-2], ... (most recent first); extend to 64 words *)
Definition nthw (w : list N) (k : nat) : N := nth k w 0.
Fixpoint extend (n : nat) (w : list N) : list N :=
  match n with
  | O => w
  | S n' =>
      let w15 := nthw w 14 in let w2 := nthw w 1 in
      let s0 := N.lxor (N.lxor (rotr w15 7) (rotr w15 18)) (N.shiftr w15 3) in
      let s1 := N.lxor (N.lxor (rotr w2 17) (rotr w2 19)) (N.shiftr w2 10) in
      extend n' (add32 (add32 (add32 (nthw w 15) s0) (nthw w 6)) s1 :: w)
  end.

Definition st8 := (N * N * N * N * N * N * N * N)%type.
Definition round (s : st8) (k w : N) : st8 :=
  let '(a, b, c, d, e, f, g, h) := s in
  let s1 := N.lxor (N.lxor (rotr e 6) (rotr e 11)) (rotr e 25) in
  let ch := N.lxor (N.land e f) (N.land (not32 e) g) in
  let t1 := add32 (add32 (add32 (add32 h s1) ch) k) w in
  let s0 := N.lxor (N.lxor (rotr a 2) (rotr a 13)) (rotr a 22) in
  let maj := N.lxor (N.lxor (N.land a b) (N.land a c)) (N.land b c) in
  let t2 := add32 s0 maj in
  (add32 t1 t2, a, b, c, add32 d t1, e, f, g).
Fixpoint rounds (s : st8) (ks ws : list N) : st8 :=
  match ks, ws with
  | k :: ks', w :: ws' => rounds (round s k w) ks' ws'
  | _, _ => s
  end.
Definition compress (hs : list N) (block : list N) : list N :=
  match hs with
  | [a; b; c; d; e; f; g; h] =>
      let w := rev (extend 48 (rev block)) in
      let '(a', b', c', d', e', f', g', h') := rounds (a, b, c, d, e, f, g, h) Ksha w in
      [add32 a a'; add32 b b'; add32 c c'; add32 d d'; add32 e e'; add32 f f'; add32 g g'; add32 h h']
  | _ => hs
  end.
Fixpoint blocks (fuel : nat) (hs : list N) (ws : list N) : list N :=
  match fuel with
  | O => hs
  | S f => match ws with [] => hs | _ => blocks f (compress hs (firstn 16 ws)) (skipn 16 ws) end
  end.

Definition be_bytes (len : nat) (n : N) : bytes := rev (num_le len n).
Definition sha_pad (msg : bytes) : bytes :=
  let l := length msg in
  let r := Nat.modulo (l + 9) 64 in
  let z := match r with O => O | _ => (64 - r)%nat end in
  msg ++ [128] ++ repeat 0 z ++ be_bytes 8 (8 * N.of_nat l).
Definition sha256 (msg : bytes) : bytes :=
  let p := sha_pad msg in
  let hs := blocks (S (Nat.div (length p) 64)) H0sha (be_words (length p) p) in
  flat_map (be_bytes 4) hs.

(* hash32_concat on the model's digests *)
Definition Hsha (a b : digest) : digest := le_num (sha256 (num_le 32 a ++ num_le 32 b)).

(* ---------- FIPS 180-4 test vectors, by computation ---------- *)
Definition hexd (n : N) : N := n.   (* readability only *)
Example sha_abc : sha256 [97; 98; 99] =
  [186;120;22;191;143;1;207;234;65;65;64;222;93;174;34;35;176;3;97;163;150;23;122;156;180;16;255;97;242;0;21;173].
Proof. vm_compute. reflexivity. Qed.
Example sha_empty : sha256 [] =
  [227;176;196;66;152;252;28;20;154;251;244;200;153;111;185;36;39;174;65;228;100;155;147;76;164;149;153;27;120;82;184;85].
Proof. vm_compute. reflexivity. Qed.
(* 56 bytes: the padding spills into a second block *)
Example sha_two_blocks : sha256 (map (fun c => c) [97;98;99;100;98;99;100;101;99;100;101;102;100;101;102;103;101;102;103;104;102;103;104;105;103;104;105;106;104;105;106;107;105;106;107;108;106;107;108;109;107;108;109;110;108;109;110;111;109;110;111;112;110;111;112;113]) =
  [36;141;106;97;210;6;56;184;229;192;38;147;12;62;96;57;163;60;228;89;100;255;33;103;246;236;237;212;25;219;6;193].
Proof. vm_compute. reflexivity. Qed.
(* ZERO_HASHES[1] of ethereum_hashing: the hash of 64 zero bytes *)
Example Hsha_zero : num_le 32 (Hsha 0 0) =
  [245;165;253;66;209;106;32;48;39;152;239;110;211;9;151;155;67;0;61;35;32;217;240;232;234;152;49;169;39;89;251;75].
Proof. vm_compute. reflexivity. Qed.
