(* Coll.v — src/interface.rs (Interface), src/interface_iter.rs, src/list.rs (List, ListInner),
   src/vector.rs (Vector, VectorInner), src/serde.rs, with the F1/F3/F5 repairs. One `handle`
   record serves both collection kinds (`hlist` says which); for a Vector `hblen` is always N.
   Model code only. *)
From MH Require Export TreeOps Builder Iter Rebase Repeat.
Local Open Scope N_scope.
Local Open Scope prog_scope.

(* run m; a failure becomes a value (used where the Rust code has already mutated `self` when an
   inner call returns Err). Failures inside the branches of a Par are not caught (tree_hash never fails). *)
Fixpoint try_ {A} (m : prog A) : prog (error + A) :=
  match m with
  | Ret a => Ret (inr a) | Fail e => Ret (inl e) | Crash s => Crash s
  | Fresh k => Fresh (fun i => try_ (k i))
  | GetMemo i k => GetMemo i (fun d => try_ (k d))
  | SetMemo i d k => SetMemo i d (try_ k)
  | Par p q k => Par p q (fun a b => try_ (k a b))
  | Note t k => Note t (try_ k)
  end.

Section Coll.
  Context {T U : Type}.
  Variable ek : ekind T.
  Variable M : umap_impl T U.
  Variable H : digest -> digest -> digest.
  Variable capN : N.                       (* N::to_usize() *)
  Let pd := pd_of ek.
  Let pf := pf_of ek.
  Notation tree := (tree T).

  Record handle := {
    hlist : bool;       (* true: List, false: Vector *)
    htree : tree;       (* backing.tree *)
    hblen : N;          (* ListInner.length; N for a Vector *)
    hdepth : nat;       (* backing.depth *)
    hupd : U            (* interface.updates *)
  }.
  Definition with_upd (h : handle) (u : U) : handle :=
    {| hlist := hlist h; htree := htree h; hblen := hblen h; hdepth := hdepth h; hupd := u |}.
  Definition with_tree (h : handle) (t : tree) : handle :=
    {| hlist := hlist h; htree := t; hblen := hblen h; hdepth := hdepth h; hupd := hupd h |}.

  (* List::depth() *)
  Definition list_depth : nat := (int_log capN - pd)%nat.

  (* List::from_parts *)
  Definition from_parts (t : tree) (depth : nat) (length : N) : handle :=
    {| hlist := true; htree := t; hblen := length; hdepth := depth; hupd := uempty M |}.

  (* ---------- ImmList for ListInner / VectorInner ---------- *)
  Definition backing_get (h : handle) (index : N) : option T :=
    if index <? hblen h then get_rec ek (htree h) index (hdepth h) else None.

  (* ---------- Interface ---------- *)
  Definition iface_get (h : handle) (idx : N) : option T :=
    match uget M (hupd h) idx with Some v => Some v | None => backing_get h idx end.

  (* utils::updated_length *)
  Definition updated_length (prev : N) (u : U) : N :=
    match umax_index M u with None => prev | Some m => N.max (m + 1) prev end.
  Definition iface_len (h : handle) : N := updated_length (hblen h) (hupd h).
  Definition has_pending (h : handle) : bool := negb (uis_empty M (hupd h)).

  (* get_mut: Some (current value, collection with the entry materialised) *)
  Definition iface_get_mut (h : handle) (idx : N) : option (T * handle) :=
    match uget M (hupd h) idx with
    | Some v => Some (v, h)
    | None => match backing_get h idx with
              | Some v => Some (v, with_upd h (uentry_insert M (hupd h) idx v))
              | None => None
              end
    end.
  (* `*x = v` through the reference returned by get_mut / Cow::into_mut / Cow::make_mut *)
  Definition write_entry (h : handle) (idx : N) (v : T) : handle :=
    with_upd h (uentry_insert M (hupd h) idx v).

  Definition validate_push (h : handle) (current_len : N) : prog unit :=
    if hlist h then (if current_len =? capN then Fail (ListFull current_len) else Ret tt)
    else Fail PushNotSupported.

  Definition iface_push (h : handle) (v : T) : prog handle :=
    let index := iface_len h in
    validate_push h index ;;;
    Ret (with_upd h (uinsert M (hupd h) index v)).

  (* MutList::update for ListInner / VectorInner, after `mem::take(&mut self.updates)`.
     Returns the error (if any) together with the state the call leaves behind. *)
  Definition apply_updates (h : handle) : prog (option error * handle) :=
    if uis_empty M (hupd h) then Ret (None, h) else
    let u := hupd h in
    let h0 := with_upd h (uempty M) in
    match umax_index M u with
    | None => Ret (None, h0)
    | Some m =>
        if hlist h then
          if capN <=? m then Ret (Some InvalidListUpdate, h0) else
          let h1 := {| hlist := true; htree := htree h; hblen := updated_length (hblen h) u;
                       hdepth := hdepth h; hupd := uempty M |} in
          r <- try_ (with_updated_leaves ek M (hdepth h) (htree h) u 0) ;;
          match r with
          | inl e => Ret (Some e, h1)
          | inr t => Ret (None, with_tree h1 t)
          end
        else
          if hblen h <=? m then Ret (Some InvalidVectorUpdate, h0) else
          r <- try_ (with_updated_leaves ek M (hdepth h) (htree h) u 0) ;;
          match r with
          | inl e => Ret (Some e, h0)
          | inr t => Ret (None, with_tree h0 t)
          end
    end.
  (* `self.apply_updates()?` *)
  Definition apply_q (h : handle) : prog handle :=
    '(e, h') <- apply_updates h ;; match e with Some e => Fail e | None => Ret h' end.

  (* Interface::bulk_update with the F3 validation *)
  Fixpoint bulk_walk (kvs : list (N * T)) (h : handle) (expected : N) : prog N :=
    match kvs with
    | [] => Ret expected
    | (k, _) :: r =>
        if negb (k =? expected) then Fail (OutOfBoundsUpdate k expected) else
        validate_push h k ;;; bulk_walk r h (expected + 1)
    end.
  Definition iface_bulk_update (h : handle) (u : U) : prog handle :=
    if negb (uis_empty M (hupd h)) then Fail BulkUpdateUnclean else
    match umax_index M u with
    | None => Ret (with_upd h u)
    | Some m =>
        let len := hblen h in
        expected <- bulk_walk (urange M u len usize_max) h len ;;
        if (len <=? m) && (expected <=? m) then Fail (OutOfBoundsUpdate m expected)
        else Ret (with_upd h u)
    end.

  (* ---------- InterfaceIter ---------- *)
  Record iiter := { ii_tree : iter T; ii_index : N; ii_length : N }.
  Definition iface_iter_from (h : handle) (index : N) : iiter :=
    {| ii_tree := iter_from_index index (htree h) (hdepth h) (hblen h);
       ii_index := index; ii_length := iface_len h |}.
  Definition iiter_next (h : handle) (it : iiter) : step_res T iiter :=
    match iter_next ek (S (hdepth h)) (ii_tree it) with
    | SPanic c => SPanic c
    | SOk bv ti =>
        let r := match uget M (hupd h) (ii_index it) with Some v => Some v | None => bv end in
        SOk r {| ii_tree := ti; ii_index := ii_index it + 1; ii_length := ii_length it |}
    end.
  Definition iiter_hint (it : iiter) : N := ii_length it - ii_index it.

  (* run an iterator to its end, recording ExactSizeIterator::len() before every next() *)
  Fixpoint iiter_collect (fuel : nat) (h : handle) (it : iiter) : outcome (list T * list N) :=
    match fuel with
    | O => Panic POutOfFuel
    | S f =>
        let hint := iiter_hint it in
        match iiter_next h it with
        | SPanic c => Panic c
        | SOk None _ => Ok ([], [hint])
        | SOk (Some v) it' =>
            match iiter_collect f h it' with
            | Ok (vs, hs) => Ok (v :: vs, hint :: hs)
            | Err e => Err e | Panic c => Panic c
            end
        end
    end.
  Definition collect_fuel (h : handle) : nat := S (S (N.to_nat (iface_len h))).
  Definition of_outcome {A} (o : outcome A) : prog A :=
    match o with Ok a => Ret a | Err e => Fail e | Panic c => Crash c end.

  (* to_vec / iter().cloned().collect() *)
  Definition to_vec (h : handle) : prog (list T) :=
    '(vs, _) <- of_outcome (iiter_collect (collect_fuel h) h (iface_iter_from h 0)) ;; Ret vs.

  (* List::iter_from / Vector::iter_from *)
  Definition coll_iter_from (h : handle) (index : N) : prog (list T * list N) :=
    if iface_len h <? index then Fail (OutOfBoundsIterFrom index (iface_len h))
    else of_outcome (iiter_collect (collect_fuel h) h (iface_iter_from h index)).

  (* InterfaceIterCow::next_cow applied to a list of optional writes (None = ignore the Cow) *)
  Fixpoint iter_cow_run (items : list (option T)) (h : handle) (ti : iter T) (index : N) (count : N)
    : prog (N * handle) :=
    match items with
    | [] => Ret (count, h)
    | item :: rest =>
        match iter_next ek (S (hdepth h)) ti with
        | SPanic c => Crash c
        | SOk bv ti' =>
            let present := match uget M (hupd h) index with Some _ => true | None =>
                             match bv with Some _ => true | None => false end end in
            if present then
              let h' := match item with Some v => write_entry h index v | None => h end in
              iter_cow_run rest h' ti' (index + 1) (count + 1)
            else iter_cow_run rest h ti' (index + 1) count
        end
    end.
  Definition coll_iter_cow (h : handle) (items : list (option T)) : prog (N * handle) :=
    iter_cow_run items h (iter_from_index 0 (htree h) (hdepth h) (hblen h)) 0 0.

  (* ---------- List constructors ---------- *)
  Definition list_empty : prog handle :=
    z <- fresh ;; Ret (from_parts (Zero z list_depth) list_depth 0).

  Fixpoint push_all (b : builder T) (vs : list T) : prog (builder T) :=
    match vs with [] => Ret b | v :: r => b' <- builder_push ek b v ;; push_all b' r end.

  (* List::try_from_iter (= List::new) *)
  Definition list_try_from_iter (vs : list T) : prog handle :=
    b <- builder_new ek (N.of_nat list_depth) 0 ;;
    b' <- push_all b vs ;;
    '(t, depth, length) <- builder_finish ek b' ;;
    if capN <? length then Fail BuilderFull else Ret (from_parts t depth length).

  Fixpoint push_all_iface (h : handle) (vs : list T) : prog handle :=
    match vs with [] => Ret h | v :: r => h' <- iface_push h v ;; push_all_iface h' r end.
  (* List::try_from_iter_slow *)
  Definition list_try_from_iter_slow (vs : list T) : prog handle :=
    h <- list_empty ;; h' <- push_all_iface h vs ;; apply_q h'.

  (* List::repeat / repeat_slow *)
  Definition list_repeat (elem : T) (n : N) : prog handle :=
    if n =? 0 then list_empty else
    root <- repeat_tree ek capN list_depth elem n ;;
    Ret (from_parts root list_depth n).
  (* repeat_slow: try_from_iter(repeat_n(elem, n)); the builder stops the iteration at its capacity,
     so at most cap+1 elements are ever drawn however large n is *)
  Definition list_repeat_slow (elem : T) (n : N) : prog handle :=
    let bound := pow2 (list_depth + pd) + 1 in
    list_try_from_iter (repeatN elem (N.min n bound)).

  (* ---------- level iteration and pop_front ---------- *)
  Definition list_level_iter_from (h : handle) (index : N) : prog (list (level_node T)) :=
    if iface_len h <? index then Fail (OutOfBoundsIterFrom index (iface_len h)) else
    if has_pending h then Fail LevelIterPendingUpdates else
    of_outcome (liter_collect ek (S (S (N.to_nat (hblen h)))) (liter_from_index ek index (htree h) (hdepth h) (hblen h))).

  Fixpoint pop_front_feed (items : list (level_node T)) (level : nat) (b : builder T) : prog (builder T) :=
    match items with
    | [] => Ret b
    | LInternal node :: rest =>
        let last := match rest with [] => true | _ => false end in
        let sublen := if last then compute_len node else pow2 level in
        b' <- builder_push_node ek b node sublen ;; pop_front_feed rest level b'
    | LPackedLeaf v :: rest => b' <- builder_push ek b v ;; pop_front_feed rest level b'
    end.

  (* List::pop_front; the state is returned also on failure (apply_updates has already run) *)
  Definition list_pop_front (h : handle) (n : N) : prog (option error * handle) :=
    '(e, h1) <- apply_updates h ;;
    match e with Some e => Ret (Some e, h1) | None =>
    if n =? 0 then Ret (None, h1) else
    r <- try_ (
      let level := compute_level n list_depth pd in
      b <- builder_new ek (N.of_nat list_depth) (N.of_nat level) ;;
      items <- list_level_iter_from h1 n ;;
      b' <- pop_front_feed items level b ;;
      '(t, depth, length) <- builder_finish ek b' ;;
      Ret (from_parts t depth length)) ;;
    match r with inl e => Ret (Some e, h1) | inr h2 => Ret (None, h2) end
    end.

  (* List::pop_front_slow *)
  Definition list_pop_front_slow (h : handle) (n : N) : prog handle :=
    '(vs, _) <- coll_iter_from h n ;; list_try_from_iter vs.

  (* ---------- rebase, intra_rebase, tree_hash_root ---------- *)
  Definition coll_rebase_on (h base : handle) : prog handle :=
    a <- rebase_on ek (htree h) (htree base)
           (if hlist h then Some (hblen h, hblen base) else None) (hdepth h + pd) ;;
    match a with
    | EqualReplace t | NotEqualReplace t => Ret (with_tree h t)
    | _ => Ret h
    end.

  Definition coll_tree_hash_root (h : handle) : prog digest :=
    root <- tree_hash ek H (htree h) ;;
    if hlist h then Ret (H root (iface_len h)) else Ret root.

  Definition coll_intra_rebase (h : handle) : prog (option error * handle) :=
    '(e, h1) <- apply_updates h ;;
    match e with Some e => Ret (Some e, h1) | None =>
    coll_tree_hash_root h1 ;;;
    r <- try_ (intra_rebase ek H (htree h1) [] (hdepth h1)) ;;
    match r with
    | inl e => Ret (Some e, h1)
    | inr (IReplace t, _) => Ret (None, with_tree h1 t)
    | inr (INoop, _) => Ret (None, h1)
    end
    end.

  (* ---------- conversions ---------- *)
  (* TryFrom<List> for Vector, with the F5 repair *)
  Definition vector_try_from (l : handle) : prog handle :=
    if iface_len l =? capN then
      l' <- (if negb (hblen l =? capN) then apply_q l else Ret l) ;;
      Ret {| hlist := false; htree := htree l'; hblen := capN; hdepth := hdepth l'; hupd := hupd l' |}
    else Fail (WrongVectorLength (iface_len l) capN).
  (* From<Vector> for List *)
  Definition list_from_vector (v : handle) : handle :=
    {| hlist := true; htree := htree v; hblen := capN; hdepth := hdepth v; hupd := hupd v |}.

  Definition vector_new (vs : list T) : prog handle :=
    if lenN vs =? capN then l <- list_try_from_iter vs ;; vector_try_from l
    else Fail (WrongVectorLength (lenN vs) capN).
  Definition vector_try_from_iter (vs : list T) : prog handle :=
    l <- list_try_from_iter vs ;; vector_try_from l.
  Definition vector_from_elem (elem : T) : prog handle :=
    l <- list_repeat elem capN ;; vector_try_from l.
  (* Vector::default: unwrap_or_else(panic!) *)
  Fixpoint fail_to_panic {A} (m : prog A) : prog A :=
    match m with
    | Ret a => Ret a | Fail _ => Crash PVectorDefault | Crash s => Crash s
    | Fresh k => Fresh (fun i => fail_to_panic (k i))
    | GetMemo i k => GetMemo i (fun d => fail_to_panic (k d))
    | SetMemo i d k => SetMemo i d (fail_to_panic k)
    | Par p q k => Par p q (fun a b => fail_to_panic (k a b))
    | Note t k => Note t (fail_to_panic k)
    end.
  Definition vector_default : prog handle := fail_to_panic (vector_from_elem (edefault ek)).

  (* ---------- derived PartialEq ---------- *)
  Definition coll_eqb (a b : handle) : bool :=
    tree_eqb ek (htree a) (htree b) && (hblen a =? hblen b) && Nat.eqb (hdepth a) (hdepth b)
    && ueqb M (eeqb ek) (hupd a) (hupd b).

  (* ---------- SSZ ---------- *)
  Definition bytes_per_offset : N := 4.
  (* ssz_bytes_len *)
  Definition ssz_bytes_len (h : handle) : prog N :=
    match efixed ek with
    | Some s => Ret (s * iface_len h)
    | None => vs <- to_vec h ;;
              Ret (fold_left (fun acc v => acc + lenN (eenc ek v)) vs 0 + bytes_per_offset * iface_len h)
    end.
  (* the static half of `Encode`: is_ssz_fixed_len() / ssz_fixed_len() of the collection TYPE (what an
     enclosing container uses to lay the collection out): a List is always variable-size (the default
     ssz_fixed_len() = BYTES_PER_LENGTH_OFFSET); a Vector is fixed-size iff its element type is, and then
     occupies N elements' worth of bytes *)
  Definition coll_is_ssz_fixed (is_list : bool) : bool :=
    if is_list then false else match efixed ek with Some _ => true | None => false end.
  Definition coll_ssz_fixed_len (is_list : bool) (capN : N) : N :=
    if coll_is_ssz_fixed is_list
    then match efixed ek with Some s => s * capN | None => bytes_per_offset end
    else bytes_per_offset.
  (* SszEncoder::container(buf, n*4); append each; finalize — modelled: offsets then payloads *)
  Fixpoint var_offsets (vs : list T) (off : N) : list N :=
    match vs with [] => [] | v :: r => num_le 4 off ++ var_offsets r (off + lenN (eenc ek v)) end.
  Definition ssz_encode (h : handle) : prog bytes :=
    vs <- to_vec h ;;
    match efixed ek with
    | Some _ => Ret (flat_map (eenc ek) vs)
    | None => Ret (var_offsets vs (bytes_per_offset * iface_len h) ++ flat_map (eenc ek) vs)
    end.

  (* bytes.chunks(n).map(T::from_ssz_bytes) collected through process_results *)
  Fixpoint decode_chunks (fuel : nat) (s : N) (b : bytes) : option (list T) :=
    match b with
    | [] => Some []
    | _ => match fuel with
           | O => None
           | S f => match edec ek (takeN s b) with
                    | None => None
                    | Some v => match decode_chunks f s (dropN s b) with
                                | None => None | Some r => Some (v :: r) end
                    end
           end
    end.
  (* ssz::decode_list_of_variable_length_items (ethereum_ssz; modelled external code) *)
  Definition read_offset (b : bytes) : option N :=
    if lenN b <? 4 then None else Some (le_num (takeN 4 b)).
  Fixpoint var_items (n : nat) (i : N) (b : bytes) (offset : N) (first : N) : option (list T) :=
    match n with
    | O => Some []
    | S O => match edec ek (dropN offset b) with Some v => Some [v] | None => None end
    | S n' =>
        match read_offset (dropN (i * 4) b) with
        | None => None
        | Some nxt =>
            (* sanitize_offset next (Some offset) len (Some first) *)
            if (nxt <? first) || (lenN b <? nxt) || (nxt <? offset) then None else
            match edec ek (takeN (nxt - offset) (dropN offset b)) with
            | None => None
            | Some v => match var_items n' (i + 1) b nxt first with
                        | None => None | Some r => Some (v :: r) end
            end
        end
    end.
  Definition decode_var_list (b : bytes) (max_len : N) : option (list T) :=
    match b with
    | [] => Some []
    | _ =>
        match read_offset b with
        | None => None
        | Some first =>
            (* sanitize_offset first None len (Some first): first > len is the only failing case *)
            if lenN b <? first then None else
            if negb (first mod 4 =? 0) || (first <? 4) then None else
            let num_items := first / 4 in
            if max_len <? num_items then None else
            var_items (N.to_nat num_items) 1 b first first
        end
    end.

  (* Decode for List *)
  Definition list_from_ssz (b : bytes) : prog handle :=
    match b with
    | [] => list_empty
    | _ =>
        match efixed ek with
        | Some s =>
            if s =? 0 then Fail EDecode else
            let num_items := lenN b / s in
            if capN <? num_items then Fail EDecode else
            match decode_chunks (S (length b)) s b with
            | None => Fail EDecode
            | Some vs => r <- try_ (list_try_from_iter vs) ;;
                         match r with inl _ => Fail EDecode | inr h => Ret h end
            end
        | None =>
            match decode_var_list b capN with
            | None => Fail EDecode
            | Some vs => r <- try_ (list_try_from_iter vs) ;;
                         match r with inl _ => Fail EDecode | inr h => Ret h end
            end
        end
    end.
  (* Decode for Vector *)
  Definition vector_from_ssz (b : bytes) : prog handle :=
    l <- list_from_ssz b ;;
    r <- try_ (vector_try_from l) ;;
    match r with inl _ => Fail EDecode | inr v => Ret v end.

  (* ---------- serde ---------- *)
  Definition serde_ser (h : handle) : prog (list T) := to_vec h.
  Definition list_serde_de (vs : list T) : prog handle :=
    r <- try_ (list_try_from_iter vs) ;; match r with inl _ => Fail ESerde | inr h => Ret h end.
  Definition vector_serde_de (vs : list T) : prog handle :=
    l <- list_serde_de vs ;;
    r <- try_ (vector_try_from l) ;; match r with inl _ => Fail ESerde | inr v => Ret v end.
End Coll.
Arguments handle : clear implicits.
