(* Tree.v — the tree datatype of src/tree.rs with node identities, its identity-free shape, and the
   specification-level functions on it (elements, canonical form, spec hash, node sets).
   Every Arc::new(node) is one `id`; the memoised hash of Leaf/PackedLeaf/Node lives in the memo table
   of Prog.state under that id (absent/0 = not computed). *)
From MH Require Export Prog Elem.
Local Open Scope N_scope.

Section Tree.
  Context {T : Type}.

  Inductive tree :=
  | Leaf (i : id) (v : T)
  | Packed (i : id) (vs : list T)
  | Node (i : id) (l r : tree)
  | Zero (i : id) (d : nat).

  Inductive stree :=
  | SLeaf (v : T)
  | SPacked (vs : list T)
  | SNode (l r : stree)
  | SZero (d : nat).

  Fixpoint shape (t : tree) : stree :=
    match t with
    | Leaf _ v => SLeaf v | Packed _ vs => SPacked vs
    | Node _ l r => SNode (shape l) (shape r) | Zero _ d => SZero d
    end.

  Definition idof (t : tree) : id :=
    match t with Leaf i _ | Packed i _ | Node i _ _ | Zero i _ => i end.

  (* elements stored under a (shape of a) tree, left to right *)
  Fixpoint selems (t : stree) : list T :=
    match t with
    | SLeaf v => [v] | SPacked vs => vs | SNode l r => selems l ++ selems r | SZero _ => []
    end.
  Definition elems (t : tree) : list T := selems (shape t).

  (* Tree::compute_len *)
  Fixpoint compute_len (t : tree) : N :=
    match t with
    | Leaf _ _ => 1 | Packed _ vs => lenN vs
    | Node _ l r => compute_len l + compute_len r | Zero _ _ => 0
    end.

  (* u is a subtree (node occurrence) of t *)
  Fixpoint subt (u t : tree) : Prop :=
    u = t \/ match t with Node _ l r => subt u l \/ subt u r | _ => False end.

  (* all nodes in pre-order *)
  Fixpoint nodes (t : tree) : list tree :=
    t :: match t with Node _ l r => nodes l ++ nodes r | _ => [] end.
  Fixpoint snodes (t : stree) : N :=
    match t with SNode l r => 1 + snodes l + snodes r | _ => 1 end.

  (* ---------- canonical form ---------- *)
  Variable ek : ekind T.
  Let pd := pd_of ek.

  (* number of elements a subtree of depth d can hold *)
  Definition cap (d : nat) : N := pow2 (d + pd).

  Fixpoint canon (d : nat) (l : list T) : stree :=
    match l with
    | [] => SZero d
    | v :: _ =>
        match d with
        | O => if is_packed ek then SPacked l else SLeaf v
        | S d' => SNode (canon d' (takeN (cap d') l)) (canon d' (dropN (cap d') l))
        end
    end.

  (* structural equality ignoring identities and memos: the derived PartialEq of Tree *)
  Fixpoint list_eqb (a b : list T) : bool :=
    match a, b with
    | [], [] => true
    | x :: a', y :: b' => eeqb ek x y && list_eqb a' b'
    | _, _ => false
    end.
  Fixpoint stree_eqb (a b : stree) : bool :=
    match a, b with
    | SLeaf v, SLeaf w => eeqb ek v w
    | SPacked vs, SPacked ws => list_eqb vs ws
    | SNode l r, SNode l' r' => stree_eqb l l' && stree_eqb r r'
    | SZero d, SZero d' => Nat.eqb d d'
    | _, _ => false
    end.
  Definition tree_eqb (a b : tree) : bool := stree_eqb (shape a) (shape b).

  (* ---------- specification hash ---------- *)
  Variable H : digest -> digest -> digest.
  (* `let` so that the extracted code evaluates the recursive call once *)
  Fixpoint zh (d : nat) : digest := match d with O => 0 | S d' => let z := zh d' in H z z end.

  (* bits per packed value: 256 / packing factor *)
  Definition vbits : N := 256 / pf_of ek.
  (* the 32-byte chunk of a packed leaf, as a little-endian number *)
  Fixpoint chunk_of (vs : list T) : N :=
    match vs with [] => 0 | v :: r => epenc ek v + 2 ^ vbits * chunk_of r end.

  Fixpoint shash (t : stree) : digest :=
    match t with
    | SLeaf v => etroot ek v
    | SPacked vs => chunk_of vs
    | SNode l r => H (shash l) (shash r)
    | SZero d => zh d
    end.
  Definition hash_spec (t : tree) : digest := shash (shape t).
End Tree.
Arguments tree : clear implicits.
Arguments stree : clear implicits.
