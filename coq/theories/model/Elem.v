(* Elem.v — what milhouse uses of its element type T (trait Value = Encode + Decode + TreeHash +
   PartialEq + Clone), as a record of functions, and the concrete element kinds the correspondence
   check runs (docs/FORMAT.md): values are byte strings (list of N < 256). Model code only. *)
From MH Require Export Base.
Local Open Scope N_scope.

Record ekind (T : Type) := {
  eeqb : T -> T -> bool;          (* PartialEq *)
  epd : option nat;               (* Some pd: TreeHashType::Basic with packing factor 2^pd *)
  epenc : T -> N;                 (* tree_hash_packed_encoding, little-endian, as a number *)
  etroot : T -> digest;           (* tree_hash_root (used for unpacked kinds) *)
  efixed : option N;              (* Some n: is_ssz_fixed_len, ssz_fixed_len = n *)
  eenc : T -> list N;             (* ssz_append *)
  edec : list N -> option T;      (* from_ssz_bytes *)
  edefault : T                    (* Default::default (Vector::default only) *)
}.
Arguments eeqb {T}. Arguments epd {T}. Arguments epenc {T}. Arguments etroot {T}.
Arguments efixed {T}. Arguments eenc {T}. Arguments edec {T}. Arguments edefault {T}.

(* packing depth used by the tree code: opt_packing_depth().unwrap_or(0) *)
Definition pd_of {T} (ek : ekind T) : nat := match epd ek with Some pd => pd | None => O end.
Definition is_packed {T} (ek : ekind T) : bool := match epd ek with Some _ => true | None => false end.
(* packing factor (1 for unpacked kinds, where it is never used) *)
Definition pf_of {T} (ek : ekind T) : N := pow2 (pd_of ek).

(* ---------- bytes ---------- *)
Definition bytes := list N.
Fixpoint le_num (b : bytes) : N := match b with [] => 0 | x :: r => x + 256 * le_num r end.
Fixpoint num_le (len : nat) (n : N) : bytes :=
  match len with O => [] | S l => (n mod 256) :: num_le l (n / 256) end.
Fixpoint bytes_eqb (a b : bytes) : bool :=
  match a, b with
  | [], [] => true
  | x :: a', y :: b' => (x =? y) && bytes_eqb a' b'
  | _, _ => false
  end.
Definition valid_bytes (b : bytes) : bool := forallb (fun x => x <? 256) b.

(* ---------- concrete kinds; T = bytes ---------- *)
(* uintN with w = 2^k bytes (k = 0..5: u8,u16,u32,u64,u128,u256); packing factor 32/w = 2^(5-k) *)
Definition ek_uint (k : nat) : ekind bytes :=
  let w := Nat.pow 2 k in
  {| eeqb := bytes_eqb; epd := Some (5 - k)%nat; epenc := le_num; etroot := le_num;
     efixed := Some (N.of_nat w);
     eenc := fun v => v;
     edec := fun b => if (Nat.eqb (length b) w) && valid_bytes b then Some b else None;
     edefault := repeat 0 w |}.

Section Composite.
  Variable H : digest -> digest -> digest.
  (* Hash256: a 32-byte vector, not packed; its root is the value itself *)
  Definition ek_h256 : ekind bytes :=
    {| eeqb := bytes_eqb; epd := None; epenc := le_num; etroot := le_num;
       efixed := Some 32;
       eenc := fun v => v;
       edec := fun b => if (Nat.eqb (length b) 32) && valid_bytes b then Some b else None;
       edefault := repeat 0 32%nat |}.
  (* struct Pair { a: u64, b: u64 }: fixed-size container, root = H(chunk a, chunk b) *)
  Definition ek_pair : ekind bytes :=
    {| eeqb := bytes_eqb; epd := None; epenc := le_num;
       etroot := fun v => H (le_num (firstn 8 v)) (le_num (skipn 8 v));
       efixed := Some 16;
       eenc := fun v => v;
       edec := fun b => if (Nat.eqb (length b) 16) && valid_bytes b then Some b else None;
       edefault := repeat 0 16%nat |}.
  (* struct Quad { a, b, c, d : u64 }: fixed-size container of exactly 32 bytes - the size of one chunk and of a
     Hash256, but four field chunks: root = H (H a b) (H c d), not the bytes themselves *)
  Definition ek_quad : ekind bytes :=
    {| eeqb := bytes_eqb; epd := None; epenc := le_num;
       etroot := fun v => H (H (le_num (firstn 8 v)) (le_num (firstn 8 (skipn 8 v))))
                            (H (le_num (firstn 8 (skipn 16 v))) (le_num (skipn 24 v)));
       efixed := Some 32;
       eenc := fun v => v;
       edec := fun b => if (Nat.eqb (length b) 32) && valid_bytes b then Some b else None;
       edefault := repeat 0 32%nat |}.
  (* VariableList<u8, U4>: variable size, root = mix_in_length(chunk(bytes), len) *)
  Definition ek_var : ekind bytes :=
    {| eeqb := bytes_eqb; epd := None; epenc := le_num;
       etroot := fun v => H (le_num v) (N.of_nat (length v));
       efixed := None;
       eenc := fun v => v;
       edec := fun b => if (Nat.leb (length b) 4) && valid_bytes b then Some b else None;
       edefault := [] |}.

  (* milhouse::List<u64, U64> used as an ELEMENT (a nested collection, as in List<List<u64,_>,_>):
     variable size; SSZ bytes = the u64 values concatenated (a multiple of 8, at most 512 bytes);
     root = mix_in_length(merkleize(pack(values), limit 16 chunks), number of values). In the
     implementation hashing one such element walks an inner tree of depth 4 and forks (rayon::join)
     inside the outer leaf's hash computation. *)
  Fixpoint zh_el (d : nat) : digest := match d with O => 0 | S d' => H (zh_el d') (zh_el d') end.
  Fixpoint chunks32 (fuel : nat) (b : bytes) : list digest :=
    match fuel with
    | O => []
    | S f => match b with [] => [] | _ => le_num (firstn 32 b) :: chunks32 f (skipn 32 b) end
    end.
  Fixpoint mroot (d : nat) (cs : list digest) : digest :=
    match d with
    | O => match cs with c :: _ => c | [] => 0 end
    | S d' => match cs with
              | [] => H (zh_el d') (zh_el d')
              | _ => H (mroot d' (firstn (Nat.pow 2 d') cs)) (mroot d' (skipn (Nat.pow 2 d') cs))
              end
    end.
  Definition nl_ok (b : bytes) : bool :=
    Nat.eqb (Nat.modulo (length b) 8) 0 && Nat.leb (length b) 512 && valid_bytes b.
  Definition ek_nl : ekind bytes :=
    {| eeqb := bytes_eqb; epd := None; epenc := le_num;
       etroot := fun v => H (mroot 4 (chunks32 17 v)) (N.of_nat (Nat.div (length v) 8));
       efixed := None;
       eenc := fun v => v;
       edec := fun b => if nl_ok b then Some b else None;
       edefault := [] |}.
End Composite.
