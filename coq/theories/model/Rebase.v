(* Rebase.v — Tree::rebase_on, Tree::intra_rebase (with the F2 repair) and Tree::tree_hash of
   src/tree.rs, PackedLeaf::tree_hash of src/packed_leaf.rs. Model code only. *)
From MH Require Export Tree.
Local Open Scope N_scope.
Local Open Scope prog_scope.

Section Rebase.
  Context {T : Type}.
  Variable ek : ekind T.
  Variable H : digest -> digest -> digest.
  Let pd := pd_of ek.
  Let pf := pf_of ek.
  Notation tree := (tree T).

  (* ---------- rebase_on ---------- *)
  Inductive action := NotEqualNoop | NotEqualReplace (t : tree) | EqualNoop | EqualReplace (t : tree).

  Definition minN (a b : N) := if a <=? b then a else b.

  (* coverage tags *)
  Definition tag_shortcut := 1%nat.
  Definition tag_ptr_eq := 2%nat.
  Definition tag_rebuild := 3%nat.

  Fixpoint rebase_on (orig base : tree) (lengths : option (N * N)) (full_depth : nat) : prog action :=
    if Pos.eqb (idof orig) (idof base) then Note tag_ptr_eq (Ret EqualNoop) else
    match orig, base with
    | Leaf _ v1, Leaf _ v2 => if eeqb ek v1 v2 then Ret (EqualReplace base) else Ret NotEqualNoop
    | Packed _ vs1, Packed _ vs2 => if list_eqb ek vs1 vs2 then Ret (EqualReplace base) else Ret NotEqualNoop
    | Zero _ z1, Zero _ z2 => if Nat.eqb z1 z2 then Ret (EqualReplace base) else Ret NotEqualNoop
    | Node io l1 r1, Node ib l2 r2 =>
        match full_depth with
        | O => Fail InvalidRebaseNode
        | S nfd =>
          GetMemo io (fun oh => GetMemo ib (fun bh =>
          if negb (oh =? 0) && (oh =? bh) && (match lengths with None => true | Some (a, b) => a =? b end)
          then Note tag_shortcut (Ret (EqualReplace base)) else
          let ml := pow2 nfd in
          let ll := match lengths with None => None | Some (a, b) => Some (minN a ml, minN b ml) end in
          let rl := match lengths with None => None | Some (a, b) => Some (a - minN a ml, b - minN b ml) end in
          la <- rebase_on l1 l2 ll nfd ;;
          ra <- rebase_on r1 r2 rl nfd ;;
          let mk l r := Note tag_rebuild (Fresh (fun i => SetMemo i oh (Ret (NotEqualReplace (Node i l r))))) in
          match la, ra with
          | NotEqualNoop, (NotEqualNoop | EqualNoop) | EqualNoop, NotEqualNoop => Ret NotEqualNoop
          | EqualNoop, EqualNoop => Ret EqualNoop
          | (NotEqualNoop | EqualNoop), NotEqualReplace nr => mk l1 nr
          | (NotEqualNoop | EqualNoop), EqualReplace nr => mk l1 nr
          | NotEqualReplace nl, (NotEqualNoop | EqualNoop) => mk nl r1
          | NotEqualReplace nl, NotEqualReplace nr => mk nl nr
          | NotEqualReplace nl, EqualReplace nr => mk nl nr
          | EqualReplace nl, NotEqualNoop => mk nl r1
          | EqualReplace nl, NotEqualReplace nr => mk nl nr
          | EqualReplace _, EqualReplace _ | EqualReplace _, EqualNoop => Ret (EqualReplace base)
          end))
        end
    | Zero _ _, _ | _, Zero _ _ => Ret NotEqualNoop
    | _, _ => Fail InvalidRebaseLeaf
    end.

  (* ---------- tree_hash ---------- *)
  Fixpoint tree_hash (t : tree) : prog digest :=
    match t with
    | Leaf i v =>
        GetMemo i (fun e => if negb (e =? 0) then Ret e
                            else SetMemo i (etroot ek v) (Ret (etroot ek v)))
    | Packed i vs =>
        GetMemo i (fun e => if negb (e =? 0) then Ret e
                            else if pf <? lenN vs then Crash PSliceIndex
                            else SetMemo i (chunk_of ek vs) (Ret (chunk_of ek vs)))
    | Zero _ d => Ret (zh H d)
    | Node i l r =>
        GetMemo i (fun e => if negb (e =? 0) then Ret e
                            else Par (tree_hash l) (tree_hash r)
                                     (fun a b => SetMemo i (H a b) (Ret (H a b))))
    end.
  (* ---------- intra_rebase (as repaired by the F2 and F6 fixes) ---------- *)
  Inductive iaction := INoop | IReplace (t : tree).
  Definition known := list ((nat * digest) * tree).
  Fixpoint known_get (k : known) (d : nat) (h : digest) : option tree :=
    match k with
    | [] => None
    | ((d', h'), t) :: r => if Nat.eqb d d' && (h =? h') then Some t else known_get r d h
    end.
  Definition tag_intra_hit := 4%nat.
  Definition tag_intra_collide := 5%nat.

  Fixpoint intra_rebase (orig : tree) (k : known) (depth : nat) : prog (iaction * known) :=
    match orig with
    | Leaf _ _ | Packed _ _ | Zero _ _ => Ret (INoop, k)
    | Node i l r =>
        match depth with
        | O => Fail IntraRebaseZeroDepth
        | S nd =>
            GetMemo i (fun h0 =>
            h <- (if h0 =? 0 then tree_hash orig else Ret h0) ;;
            if h =? 0 then Fail IntraRebaseZeroHash else
            let found := known_get k depth h in
            match (match found with
                   | Some ks => if tree_eqb ek ks orig then Some ks else None
                   | None => None end) with
            | Some ks => Note tag_intra_hit (Ret (IReplace ks, k))
            | None =>
              let key_known := match found with Some _ => true | None => false end in
              '(la, k1) <- intra_rebase l k nd ;;
              '(ra, k2) <- intra_rebase r k1 nd ;;
              act <- (match la, ra with
                      | INoop, INoop => Ret INoop
                      | INoop, IReplace nr => j <- fresh ;; set_memo j h ;;; Ret (IReplace (Node j l nr))
                      | IReplace nl, INoop => j <- fresh ;; set_memo j h ;;; Ret (IReplace (Node j nl r))
                      | IReplace nl, IReplace nr => j <- fresh ;; set_memo j h ;;; Ret (IReplace (Node j nl nr))
                      end) ;;
              if key_known then Note tag_intra_collide (Ret (act, k2)) else
              let new_subtree := match act with INoop => orig | IReplace n => n end in
              match known_get k2 depth h with
              | Some _ => Fail IntraRebaseRepeatVisit
              | None => Ret (act, ((depth, h), new_subtree) :: k2)
              end
            end)
        end
    end.

End Rebase.
Arguments action : clear implicits.
Arguments iaction : clear implicits.
Arguments known : clear implicits.
