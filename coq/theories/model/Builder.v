(* Builder.v — src/builder.rs: Builder::{new, push, push_node, finish}. Model code only.
   Stack entries carry the MaybeArced flag (true = Arced). A node identity is allocated when the
   node value is created (the Rust allocates it at `.arced()`; every stack entry is arced exactly
   once, so identity classes and fresh counts of reachable nodes coincide). *)
From MH Require Export Tree.
Local Open Scope N_scope.
Local Open Scope prog_scope.

Section Builder.
  Context {T : Type}.
  Variable ek : ekind T.
  Let pd := pd_of ek.
  Let pf := pf_of ek.
  Notation tree := (tree T).

  Record builder := {
    bstack : list (bool * tree);   (* top first *)
    bdepth : nat;
    blevel : N;                    (* unchecked usize argument *)
    blength : N;
    bcap : N
  }.

  (* Builder::new(depth, level); depth is an unchecked usize *)
  Definition builder_new (depth level : N) : prog builder :=
    if 63 <? depth + N.of_nat pd then Fail (BuilderInvalidDepth depth)
    else
      let d := N.to_nat depth in
      Ret {| bstack := []; bdepth := d; blevel := level; blength := 0; bcap := pow2 (d + pd) |}.

  (* `for _ in 0..n { let left = stack.pop().ok_or(e)?; top = node(left, top) }` *)
  Fixpoint merge_n (n : nat) (top : tree) (st : list (bool * tree)) : prog (tree * list (bool * tree)) :=
    match n with
    | O => Ret (top, st)
    | S n' =>
        match st with
        | [] => Fail BuilderStackEmptyMerge
        | (_, lft) :: st' => i <- fresh ;; merge_n n' (Node i lft top) st'
        end
    end.
  (* `for _ in 0..n { if let Some(left) = stack.pop() { top = node(left, top) } }` *)
  Fixpoint merge_avail (n : nat) (top : bool * tree) (st : list (bool * tree)) : prog ((bool * tree) * list (bool * tree)) :=
    match n with
    | O => Ret (top, st)
    | S n' =>
        match st with
        | [] => Ret (top, st)
        | (_, lft) :: st' => i <- fresh ;; merge_avail n' (false, Node i lft (snd top)) st'
        end
    end.

  Definition builder_push (b : builder) (v : T) : prog builder :=
    if blength b =? bcap b then Fail BuilderFull else
    let index := blength b in
    let next_index := index + 1 in
    '(top, st) <-
       (if is_packed ek then
          if index mod pf =? 0 then i <- fresh ;; Ret (Packed i [v], bstack b)
          else match bstack b with
               | (false, Packed i vs) :: st =>
                   if lenN vs =? pf then Fail (PackedLeafFull (lenN vs))
                   else Ret (Packed i (vs ++ [v]), st)
               | _ => Fail BuilderExpectedLeaf
               end
        else i <- fresh ;; Ret (Leaf i v, bstack b)) ;;
    let values_to_merge := (tz next_index - pd)%nat in
    '(top', st') <- merge_n values_to_merge top st ;;
    Ret {| bstack := (false, top') :: st'; bdepth := bdepth b; blevel := blevel b;
           blength := blength b + 1; bcap := bcap b |}.

  Definition builder_push_node (b : builder) (node : tree) (len : N) : prog builder :=
    if blength b =? bcap b then Fail BuilderFull else
    if 64 <=? blevel b then Crash PShift else
    let index_on_level := N.shiftr (blength b) (blevel b) in
    let next := index_on_level + 1 in
    let values_to_merge := if blevel b =? 0 then (tz next - pd)%nat else tz next in
    '(top, st) <- merge_avail values_to_merge (true, node) (bstack b) ;;
    if usize_max <? blength b + len then Crash POverflow else
    Ret {| bstack := top :: st; bdepth := bdepth b; blevel := blevel b;
           blength := blength b + len; bcap := bcap b |}.

  (* `for i in from..to { if bit(x, i + pd) { right = pop?; left = pop?; push(node(left,right)) } else break }` *)
  Fixpoint merge_up (n : nat) (i : nat) (x : N) (st : list (bool * tree)) (eright eleft : error)
    : prog (list (bool * tree)) :=
    match n with
    | O => Ret st
    | S n' =>
        if N.testbit x (N.of_nat (i + pd)) then
          match st with
          | [] => Fail eright
          | [_] => Fail eleft
          | (_, rgt) :: (_, lft) :: st' =>
              j <- fresh ;; merge_up n' (S i) x ((false, Node j lft rgt) :: st') eright eleft
          end
        else Ret st
    end.

  (* the padding loop of finish: `while next << level != capacity` *)
  Fixpoint finish_loop (fuel : nat) (b : builder) (lv : nat) (next : N) (st : list (bool * tree))
    : prog (list (bool * tree)) :=
    if N.shiftl next (N.of_nat lv) mod 2 ^ 64 =? bcap b then Ret st else
    match fuel with
    | O => Crash POutOfFuel
    | S f =>
        let depth := ((tz next + lv) - pd)%nat in
        match st with
        | [] => Fail BuilderStackEmptyFinish
        | (_, top) :: st' =>
            zi <- fresh ;; ni <- fresh ;;
            let st1 := (false, Node ni top (Zero zi depth)) :: st' in
            st2 <- merge_up (bdepth b - (depth + 1)) (depth + 1) (N.shiftl next (N.of_nat lv) mod 2 ^ 64) st1
                     BuilderStackEmptyFinishRight BuilderStackEmptyFinishLeft ;;
            if (depth + pd <? lv)%nat then Crash POverflow else
            if (64 <=? depth + pd - lv)%nat then Crash POverflow else
            finish_loop f b lv (next + pow2 (depth + pd - lv)) st2
        end
    end.

  Definition builder_finish (b : builder) : prog (tree * nat * N) :=
    match bstack b with
    | [] => zi <- fresh ;; Ret (Zero zi (bdepth b), bdepth b, 0)
    | _ =>
        if 64 <=? blevel b then Crash PShift else
        let lv := N.to_nat (blevel b) in
        let length := blength b in
        let level_capacity := pow2 lv in
        let next := (length + level_capacity - 1) / level_capacity in
        '(next1, st1) <-
           (if is_packed ek then
              let skip := (pf - length mod pf) mod pf in
              if (0 <? skip) && (blevel b =? 0) then
                st' <- merge_up (bdepth b) 0 next (bstack b)
                         BuilderStackEmptyMergeRight BuilderStackEmptyMergeLeft ;;
                Ret (next + skip, st')
              else Ret (next, bstack b)
            else Ret (next, bstack b)) ;;
        st2 <- finish_loop 66 b lv next1 st1 ;;
        match st2 with
        | [] => Fail BuilderStackEmptyFinalize
        | [(_, t)] => Ret (t, bdepth b, blength b)
        | _ => Fail BuilderStackLeftover
        end
    end.
End Builder.
Arguments builder : clear implicits.
