(* Cases.v — evaluating histories INSIDE Coq and rendering their results in the trace format of
   docs/FORMAT.md (`R` lines), so that a generated file of cases (tools/coqcases.py) can state, and the
   kernel's evaluator (vm_compute) can check, "on this history the model answers exactly what the real
   crate printed". This path involves neither the extraction plugin nor the OCaml driver. Model code only. *)
From Coq Require Import String Ascii.
From MH Require Export System Sha256.
Local Open Scope N_scope.
Local Open Scope string_scope.

(* ---------- rendering ---------- *)
Definition hexdigit (n : N) : ascii :=
  match n with
  | 0 => "0" | 1 => "1" | 2 => "2" | 3 => "3" | 4 => "4" | 5 => "5" | 6 => "6" | 7 => "7"
  | 8 => "8" | 9 => "9" | 10 => "a" | 11 => "b" | 12 => "c" | 13 => "d" | 14 => "e" | _ => "f"
  end%char.
Fixpoint hex_raw (b : bytes) : string :=
  match b with
  | [] => EmptyString
  | x :: r => String (hexdigit (x / 16)) (String (hexdigit (x mod 16)) (hex_raw r))
  end.
Definition hexv (b : bytes) : string := match b with [] => "." | _ => hex_raw b end.
Fixpoint dec_aux (fuel : nat) (n : N) (acc : string) : string :=
  match fuel with
  | O => acc
  | S f => let acc' := String (hexdigit (n mod 10)) acc in
           if (n / 10 =? 0)%N then acc' else dec_aux f (n / 10) acc'
  end.
Definition dec (n : N) : string := dec_aux 80 n EmptyString.
Definition decn (n : nat) : string := dec (N.of_nat n).
Fixpoint join (sep : string) (l : list string) : string :=
  match l with
  | [] => EmptyString
  | [x] => x
  | x :: r => x ++ sep ++ join sep r
  end.
Definition pvals (vs : list bytes) : string := match vs with [] => "-" | _ => join "," (map hexv vs) end.
Definition hexd (d : digest) : string := hex_raw (num_le 32 d).

Definition perr (e : error) : string :=
  match e with
  | OutOfBoundsUpdate i l => "OutOfBoundsUpdate{index:" ++ dec i ++ ",len:" ++ dec l ++ "}"
  | OutOfBoundsIterFrom i l => "OutOfBoundsIterFrom{index:" ++ dec i ++ ",len:" ++ dec l ++ "}"
  | ListFull l => "ListFull{len:" ++ dec l ++ "}"
  | PackedLeafFull l => "PackedLeafFull{len:" ++ dec l ++ "}"
  | LeafUpdateMissing i => "LeafUpdateMissing{index:" ++ dec i ++ "}"
  | PackedLeafOutOfBounds s l => "PackedLeafOutOfBounds{sub_index:" ++ dec s ++ ",len:" ++ dec l ++ "}"
  | NodeUpdatesMissing p => "NodeUpdatesMissing{prefix:" ++ dec p ++ "}"
  | InvalidListUpdate => "InvalidListUpdate" | InvalidVectorUpdate => "InvalidVectorUpdate"
  | WrongVectorLength l x => "WrongVectorLength{len:" ++ dec l ++ ",expected:" ++ dec x ++ "}"
  | PushNotSupported => "PushNotSupported" | UpdateLeafError => "UpdateLeafError"
  | UpdateLeavesError => "UpdateLeavesError" | InvalidRebaseNode => "InvalidRebaseNode"
  | InvalidRebaseLeaf => "InvalidRebaseLeaf"
  | BuilderInvalidDepth d => "BuilderInvalidDepth{depth:" ++ dec d ++ "}"
  | BuilderExpectedLeaf => "BuilderExpectedLeaf" | BuilderStackEmptyMerge => "BuilderStackEmptyMerge"
  | BuilderStackEmptyMergeLeft => "BuilderStackEmptyMergeLeft"
  | BuilderStackEmptyMergeRight => "BuilderStackEmptyMergeRight"
  | BuilderStackEmptyFinish => "BuilderStackEmptyFinish"
  | BuilderStackEmptyFinishLeft => "BuilderStackEmptyFinishLeft"
  | BuilderStackEmptyFinishRight => "BuilderStackEmptyFinishRight"
  | BuilderStackEmptyFinalize => "BuilderStackEmptyFinalize"
  | BuilderStackLeftover => "BuilderStackLeftover" | BuilderFull => "BuilderFull"
  | BulkUpdateUnclean => "BulkUpdateUnclean" | CowMissingEntry => "CowMissingEntry"
  | LevelIterPendingUpdates => "LevelIterPendingUpdates" | IntraRebaseZeroHash => "IntraRebaseZeroHash"
  | IntraRebaseZeroDepth => "IntraRebaseZeroDepth" | IntraRebaseRepeatVisit => "IntraRebaseRepeatVisit"
  | EDecode => "decode" | ESerde => "serde" | EBadReg => "badreg" | EPending => "pending"
  | ENoBuilder => "nobuilder" | EBadPath => "badpath"
  end.

Fixpoint dump_tree (t : tree bytes) : string :=
  match t with
  | Leaf _ v => "L" ++ hex_raw v ++ ";"
  | Packed _ vs => "P" ++ join ":" (map hex_raw vs) ++ ";"
  | Node _ l r => "(" ++ dump_tree l ++ dump_tree r ++ ")"
  | Zero _ d => "Z" ++ decn d ++ ";"
  end.

Definition pres (r : @res bytes) : string :=
  match r with
  | ROk => "ok"
  | RVal None => "ok:none" | RVal (Some v) => "ok:" ++ hexv v
  | RNum n => "ok:" ++ dec n
  | RSome true => "ok:some" | RSome false => "ok:none"
  | RBool true => "ok:true" | RBool false => "ok:false"
  | RIter vs hs => "ok:" ++ pvals vs ++ "|" ++ join "," (map dec hs)
  | RLevel items =>
      match items with
      | [] => "ok:-"
      | _ => "ok:" ++ join "/" (map (fun it : bool * list bytes =>
               let (internal, vs) := it in
               if internal then "I:" ++ pvals vs
               else "P:" ++ match vs with [v] => hexv v | _ => pvals vs end) items)
      end
  | RBytes b n => "ok:" ++ hexv b ++ "|" ++ dec n
  | RVals vs => "ok:" ++ pvals vs
  | RHash d => "ok:" ++ hexd d
  | RHashes ds => "ok:" ++ join "," (map hexd ds)
  | RFinish depth len t root inc =>
      "ok:d=" ++ decn depth ++ ",len=" ++ dec len ++ ",tree=" ++ dump_tree t ++ ",root=" ++ hexd root
      ++ ",inc=" ++ (if inc then "true" else "false")
  | RErr e => "err:" ++ perr e
  end.

(* ---------- running ---------- *)
Section Run.
  Context {U : Type}.
  Variable ek : ekind bytes.
  Variable M : umap_impl bytes U.
  Variable H : digest -> digest -> digest.
  Variable capN : N.
  Variable vec_based : bool.

  (* the payloads of the `R` lines of a history; a panic ends it (as in both executables) *)
  Fixpoint trace (s : sys (T := bytes) (U := U)) (st : state) (os : list (@op bytes)) : list string :=
    match os with
    | [] => []
    | o :: os' =>
        match run (step ek M H capN vec_based s o) st with
        | (Ok (r, s'), st') => pres r :: trace s' st' os'
        | (Err e, st') => ("err:" ++ perr e) :: trace s st' os'
        | (Panic _, _) => ["panic"]
        end
    end.
  Definition run_case (os : list (@op bytes)) : list string := trace init_sys init_state os.
End Run.
