(* Prog.v — the effect language of the model: allocation of node identities (Arc::new), reads and
   writes of per-node hash memos (RwLock<Hash256>), fork-join (rayon::join), failure and panic.
   `run` is the sequential interpreter that gets extracted; `wp` is the predicate transformer used
   by the proofs (bind rule proved without functional extensionality). *)
From Coq Require Import FMapPositive.
From MH Require Export Base.
Local Open Scope N_scope.

Inductive prog (A : Type) : Type :=
| Ret (a : A) | Fail (e : error) | Crash (s : site)
| Fresh (k : id -> prog A)
| GetMemo (i : id) (k : digest -> prog A)
| SetMemo (i : id) (d : digest) (k : prog A)
| Par (p q : prog digest) (k : digest -> digest -> prog A)
| Note (t : nat) (k : prog A).
Arguments Ret {A}. Arguments Fail {A}. Arguments Crash {A}. Arguments Fresh {A}.
Arguments GetMemo {A}. Arguments SetMemo {A}. Arguments Par {A}. Arguments Note {A}.

Fixpoint bind {A B} (m : prog A) (f : A -> prog B) : prog B :=
  match m with
  | Ret a => f a | Fail e => Fail e | Crash s => Crash s
  | Fresh k => Fresh (fun i => bind (k i) f)
  | GetMemo i k => GetMemo i (fun d => bind (k d) f)
  | SetMemo i d k => SetMemo i d (bind k f)
  | Par p q k => Par p q (fun a b => bind (k a b) f)
  | Note t k => Note t (bind k f)
  end.

Declare Scope prog_scope.
Delimit Scope prog_scope with prog.
Notation "x <- m ;; k" := (bind m (fun x => k))
  (at level 61, m at next level, right associativity) : prog_scope.
Notation "' pat <- m ;; k" := (bind m (fun x => match x with pat => k end))
  (at level 61, pat pattern, m at next level, right associativity) : prog_scope.
Notation "m ;;; k" := (bind m (fun _ => k)) (at level 61, right associativity) : prog_scope.

Definition fresh : prog id := Fresh (fun i => Ret i).
Definition get_memo (i : id) : prog digest := GetMemo i (fun d => Ret d).
Definition set_memo (i : id) (d : digest) : prog unit := SetMemo i d (Ret tt).
Definition note (t : nat) : prog unit := Note t (Ret tt).
Definition lift_opt {A} (o : option A) (e : error) : prog A :=
  match o with Some a => Ret a | None => Fail e end.

(* ---------- sequential interpreter ---------- *)
Record state := { next : positive; memo : PositiveMap.t digest }.
Definition mget (s : state) (i : id) : digest :=
  match PositiveMap.find i (memo s) with Some d => d | None => 0 end.
Definition mset (s : state) (i : id) (d : digest) : state :=
  {| next := next s; memo := PositiveMap.add i d (memo s) |}.
Definition bump (s : state) : state := {| next := Pos.succ (next s); memo := memo s |}.
Definition init_state : state := {| next := 1%positive; memo := PositiveMap.empty digest |}.

Fixpoint run {A} (m : prog A) (s : state) : outcome A * state :=
  match m with
  | Ret a => (Ok a, s) | Fail e => (Err e, s) | Crash c => (Panic c, s)
  | Fresh k => run (k (next s)) (bump s)
  | GetMemo i k => run (k (mget s i)) s
  | SetMemo i d k => run k (mset s i d)
  | Par p q k =>
      match run p s with
      | (Ok a, s1) => match run q s1 with
                      | (Ok b, s2) => run (k a b) s2
                      | (Err e, s2) => (Err e, s2) | (Panic c, s2) => (Panic c, s2) end
      | (Err e, s1) => (Err e, s1) | (Panic c, s1) => (Panic c, s1) end
  | Note _ k => run k s
  end.

(* Same interpreter, additionally logging the Note tags (branch coverage for the driver). *)
Fixpoint run_cov {A} (m : prog A) (s : state) (cov : list nat) : outcome A * state * list nat :=
  match m with
  | Ret a => (Ok a, s, cov) | Fail e => (Err e, s, cov) | Crash c => (Panic c, s, cov)
  | Fresh k => run_cov (k (next s)) (bump s) cov
  | GetMemo i k => run_cov (k (mget s i)) s cov
  | SetMemo i d k => run_cov k (mset s i d) cov
  | Par p q k =>
      match run_cov p s cov with
      | (Ok a, s1, c1) => match run_cov q s1 c1 with
                      | (Ok b, s2, c2) => run_cov (k a b) s2 c2
                      | (Err e, s2, c2) => (Err e, s2, c2) | (Panic c, s2, c2) => (Panic c, s2, c2) end
      | (Err e, s1, c1) => (Err e, s1, c1) | (Panic c, s1, c1) => (Panic c, s1, c1) end
  | Note t k => run_cov k s (t :: cov)
  end.

(* ---------- weakest preconditions, parametrised by what a memo read may return ---------- *)
Section WP.
  Variable R : state -> id -> digest -> Prop.
  Fixpoint wp {A} (m : prog A) (Q : outcome A -> state -> Prop) (s : state) : Prop :=
    match m with
    | Ret a => Q (Ok a) s | Fail e => Q (Err e) s | Crash c => Q (Panic c) s
    | Fresh k => wp (k (next s)) Q (bump s)
    | GetMemo i k => forall d, R s i d -> wp (k d) Q s
    | SetMemo i d k => wp k Q (mset s i d)
    | Par p q k =>
        wp p (fun oa s1 => match oa with
              | Ok a => wp q (fun ob s2 => match ob with
                           | Ok b => wp (k a b) Q s2
                           | Err e => Q (Err e) s2 | Panic c => Q (Panic c) s2 end) s1
              | Err e => Q (Err e) s1 | Panic c => Q (Panic c) s1 end) s
    | Note _ k => wp k Q s
    end.

  Lemma wp_mono {A} (m : prog A) : forall (Q Q' : outcome A -> state -> Prop) s,
    (forall o s', Q o s' -> Q' o s') -> wp m Q s -> wp m Q' s.
  Proof.
    induction m as [A a|A e|A c|A k IH|A i k IH|A i d k IH|A p IHp q IHq k IHk|A t k IH]; cbn; intros Q Q' s HQ Hw; auto.
    - eapply IH; eauto.
    - intros d Hr. eapply IH; eauto.
    - eapply IH; eauto.
    - eapply IHp; [|exact Hw]. intros [a|e|c] s1; auto.
      intros Hq. eapply IHq; [|exact Hq]. intros [b|e|c] s2; auto.
      intros Hk. eapply IHk; eauto.
    - eapply IH; eauto.
  Qed.

  Definition lift {A B} (f : A -> prog B) (Q : outcome B -> state -> Prop) : outcome A -> state -> Prop :=
    fun o s => match o with Ok a => wp (f a) Q s | Err e => Q (Err e) s | Panic c => Q (Panic c) s end.

  Lemma wp_bind {A B} (m : prog A) (f : A -> prog B) : forall Q s,
    wp (bind m f) Q s <-> wp m (lift f Q) s.
  Proof.
    induction m as [A a|A e|A c|A k IH|A i k IH|A i d k IH|A p IHp q IHq k IHk|A t k IH]; cbn; intros Q s; try tauto.
    - apply IH.
    - split; intros Hw d Hr; apply IH; auto.
    - apply IH.
    - split; intro Hw; (eapply wp_mono; [|exact Hw]); intros [a|e|c] s1; auto;
        intro Hq; (eapply wp_mono; [|exact Hq]); intros [b|e|c] s2; auto; intro Hk; apply IHk; auto.
    - apply IH.
  Qed.
End WP.

Definition Rexact (s : state) (i : id) (d : digest) : Prop := d = mget s i.

Lemma wp_run {A} (m : prog A) : forall Q s, wp Rexact m Q s -> Q (fst (run m s)) (snd (run m s)).
Proof.
  induction m as [A a|A e|A c|A k IH|A i k IH|A i d k IH|A p IHp q IHq k IHk|A t k IH]; cbn; intros Q s Hw; auto.
  - apply IH; auto.
  - apply IH. apply Hw. reflexivity.
  - apply IH; auto.
  - apply IHp in Hw. destruct (run p s) as [[a|e|c] s1]; cbn in *; auto.
    apply IHq in Hw. destruct (run q s1) as [[b|e|c] s2]; cbn in *; auto.
    apply IHk in Hw. auto.
  - apply IH; auto.
Qed.

Lemma run_cov_run {A} (m : prog A) : forall s cov, fst (run_cov m s cov) = run m s.
Proof.
  induction m as [A a|A e|A c|A k IH|A i k IH|A i d k IH|A p IHp q IHq k IHk|A t k IH]; cbn; intros s cov; auto.
  - specialize (IHp s cov). destruct (run_cov p s cov) as [[oa s1] c1]; cbn in IHp; rewrite <- IHp.
    destruct oa as [a|e|c]; auto.
    specialize (IHq s1 c1). destruct (run_cov q s1 c1) as [[ob s2] c2]; cbn in IHq; rewrite <- IHq.
    destruct ob as [b|e|c]; auto.
Qed.
