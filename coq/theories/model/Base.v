(* Base.v — outcomes, errors (a constructor-for-constructor copy of src/error.rs), panic sites,
   usize arithmetic helpers and the small functions of src/utils.rs.  Model code only. *)
From Coq Require Export List NArith PArith Arith Bool Lia.
Export ListNotations.
Local Open Scope N_scope.

Definition id := positive.
Definition digest := N.

(* src/error.rs, plus the harness-level outcomes of docs/FORMAT.md (last line) *)
Inductive error :=
| OutOfBoundsUpdate (index len : N) | OutOfBoundsIterFrom (index len : N) | ListFull (len : N)
| PackedLeafFull (len : N) | LeafUpdateMissing (index : N) | PackedLeafOutOfBounds (sub_index len : N)
| NodeUpdatesMissing (prefix : N) | InvalidListUpdate | InvalidVectorUpdate
| WrongVectorLength (len expected : N) | PushNotSupported | UpdateLeafError | UpdateLeavesError
| InvalidRebaseNode | InvalidRebaseLeaf | BuilderInvalidDepth (depth : N) | BuilderExpectedLeaf
| BuilderStackEmptyMerge | BuilderStackEmptyMergeLeft | BuilderStackEmptyMergeRight
| BuilderStackEmptyFinish | BuilderStackEmptyFinishLeft | BuilderStackEmptyFinishRight
| BuilderStackEmptyFinalize | BuilderStackLeftover | BuilderFull | BulkUpdateUnclean
| CowMissingEntry | LevelIterPendingUpdates | IntraRebaseZeroHash | IntraRebaseZeroDepth
| IntraRebaseRepeatVisit
| EDecode | ESerde | EBadReg | EPending | ENoBuilder | EBadPath.

(* Places where the Rust code can panic for some arguments. *)
Inductive site :=
| PZeroHashIndex      (* ZERO_HASHES[depth] out of range (pre-F4) *)
| PIterExpect         (* "index should have at least packing_depth trailing zeroes" *)
| PUnreachable        (* unreachable!() in repeat.rs *)
| PAssert             (* assert! in PackedLeaf::repeat *)
| PSliceIndex         (* slice index in PackedLeaf::tree_hash *)
| POverflow           (* checked usize arithmetic (overflow-checks = true) *)
| PShift              (* shift amount >= 64 *)
| PVectorDefault      (* panic! in Vector::default *)
| POutOfFuel.         (* model artefact: fuel exhausted; excluded by theorem *)

Inductive outcome (A : Type) := Ok (a : A) | Err (e : error) | Panic (s : site).
Arguments Ok {A}. Arguments Err {A}. Arguments Panic {A}.

(* ---------- usize ---------- *)
Definition usize_max : N := 18446744073709551615.
Definition usize_bits : nat := 64.

(* ---------- bits ---------- *)
Fixpoint tzp (p : positive) : nat := match p with xO p => S (tzp p) | _ => O end.
(* usize::trailing_zeros: 64 for 0 *)
Definition tz (n : N) : nat := match n with N0 => 64%nat | Npos p => tzp p end.

Definition pow2 (k : nat) : N := 2 ^ N.of_nat k.

(* checked_next_power_of_two().trailing_zeros(), 64 when it overflows: smallest d with n <= 2^d *)
Fixpoint int_log_aux (fuel : nat) (d : nat) (n : N) : nat :=
  match fuel with
  | O => d
  | S f => if n <=? pow2 d then d else int_log_aux f (S d) n
  end.
Definition int_log (n : N) : nat := int_log_aux 64 0 n.

(* utils::compute_level *)
Definition compute_level (index : N) (depth pd : nat) : nat :=
  let raw := if index =? 0 then (depth + pd)%nat else tz index in
  if (raw <? pd)%nat then O else raw.

(* ---------- list-structural take/drop with binary counts (never convert a capacity to nat) ---------- *)
Section ListN.
  Context {A : Type}.
  Fixpoint takeN (n : N) (l : list A) : list A :=
    match l with [] => [] | x :: l' => if n =? 0 then [] else x :: takeN (N.pred n) l' end.
  Fixpoint dropN (n : N) (l : list A) : list A :=
    match l with [] => [] | x :: l' => if n =? 0 then l else dropN (N.pred n) l' end.
  Definition lenN (l : list A) : N := N.of_nat (length l).
  Fixpoint nthN (l : list A) (n : N) : option A :=
    match l with [] => None | x :: l' => if n =? 0 then Some x else nthN l' (N.pred n) end.
  (* l with position n replaced by x; unchanged when n is out of range *)
  Fixpoint setN (l : list A) (n : N) (x : A) : list A :=
    match l with [] => [] | y :: l' => if n =? 0 then x :: l' else y :: setN l' (N.pred n) x end.
  Fixpoint repeatN_pos (x : A) (p : positive) : list A :=
    match p with
    | xH => [x]
    | xO p' => let r := repeatN_pos x p' in r ++ r
    | xI p' => let r := repeatN_pos x p' in x :: r ++ r
    end.
  Definition repeatN (x : A) (n : N) : list A := match n with N0 => [] | Npos p => repeatN_pos x p end.
End ListN.

Definition opt_bind {A B} (o : option A) (f : A -> option B) : option B :=
  match o with Some a => f a | None => None end.
