(* Iter.v — the two stack-machine iterators: src/iter.rs (Iter) and src/level_iter.rs (LevelIter).
   They only read the tree, so they are pure functions on explicit iterator states; the recursive
   `self.next()` through internal nodes is fuelled (fuel exhaustion is a Panic outcome excluded by
   theorem). Model code only. *)
From MH Require Export Tree.
Local Open Scope N_scope.

Section Iter.
  Context {T : Type}.
  Variable ek : ekind T.
  Let pd := pd_of ek.
  Let pf := pf_of ek.
  Notation tree := (tree T).

  Fixpoint pop_n {A} (n : nat) (st : list A) : list A :=
    match n with O => st | S n' => match st with [] => [] | _ :: r => pop_n n' r end end.

  Inductive step_res (A S : Type) := SOk (a : option A) (s : S) | SPanic (c : site).
  Arguments SOk {A S}. Arguments SPanic {A S}.

  (* ---------- Iter ---------- *)
  Record iter := { istack : list tree; iindex : N; ifull_depth : nat; ilength : N }.

  Definition iter_from_index (index : N) (root : tree) (depth : nat) (length : N) : iter :=
    {| istack := [root]; iindex := index; ifull_depth := depth; ilength := length |}.

  Fixpoint iter_next (fuel : nat) (it : iter) : step_res T iter :=
    if ilength it <=? iindex it then SOk None it else
    match istack it with
    | [] => SOk None it
    | Zero _ _ :: _ => SOk None it
    | Leaf _ v :: _ =>
        let idx := iindex it + 1 in
        SOk (Some v) {| istack := pop_n (S (tz idx)) (istack it); iindex := idx;
                        ifull_depth := ifull_depth it; ilength := ilength it |}
    | Packed _ vs :: _ =>
        let sub := iindex it mod pf in
        let idx := iindex it + 1 in
        if sub + 1 =? pf then
          if (tz idx <? pd)%nat then SPanic PIterExpect else
          SOk (nthN vs sub) {| istack := pop_n (S (tz idx - pd)) (istack it); iindex := idx;
                               ifull_depth := ifull_depth it; ilength := ilength it |}
        else SOk (nthN vs sub) {| istack := istack it; iindex := idx;
                                  ifull_depth := ifull_depth it; ilength := ilength it |}
    | Node _ l r :: _ =>
        match fuel with
        | O => SPanic POutOfFuel
        | S f =>
            if (ifull_depth it <? length (istack it))%nat then SPanic POverflow else
            let depth := (ifull_depth it - length (istack it))%nat in
            let child := if N.testbit (iindex it) (N.of_nat (depth + pd)) then r else l in
            iter_next f {| istack := child :: istack it; iindex := iindex it;
                           ifull_depth := ifull_depth it; ilength := ilength it |}
        end
    end.

  Definition iter_size_hint (it : iter) : N := ilength it - iindex it.

  (* ---------- LevelIter ---------- *)
  Record liter := { lstack : list tree; lindex : N; llevel : nat; lfull_depth : nat; llength : N }.
  Inductive level_node := LInternal (t : tree) | LPackedLeaf (v : T).

  Definition liter_from_index (index : N) (root : tree) (depth : nat) (length : N) : liter :=
    {| lstack := [root]; lindex := index; llevel := compute_level index depth pd;
       lfull_depth := depth; llength := length |}.

  Definition liter_set (it : liter) (st : list tree) (idx : N) : liter :=
    {| lstack := st; lindex := idx; llevel := llevel it; lfull_depth := lfull_depth it; llength := llength it |}.

  (* `self.index += 1 << level; to_pop = tz(index) + 1 - level` (saturating) *)
  Definition liter_jump (it : liter) (node : tree) : step_res level_node liter :=
    let idx := lindex it + pow2 (llevel it) in
    let to_pop := (S (tz idx) - llevel it)%nat in
    SOk (Some (LInternal node)) (liter_set it (pop_n to_pop (lstack it)) idx).

  Fixpoint liter_next (fuel : nat) (it : liter) : step_res level_node liter :=
    if llength it <=? lindex it then SOk None it else
    match lstack it with
    | [] => SOk None it
    | Zero _ _ :: _ => SOk None it
    | (Leaf _ _ as node) :: _ =>
        let idx := lindex it + 1 in
        SOk (Some (LInternal node)) (liter_set it (pop_n (S (tz idx)) (lstack it)) idx)
    | (Packed _ vs as node) :: _ =>
        if (lfull_depth it + pd + 1 <? length (lstack it))%nat then SPanic POverflow else
        let node_depth := (lfull_depth it + pd + 1 - length (lstack it))%nat in
        if Nat.eqb node_depth (llevel it) then liter_jump it node else
        let sub := lindex it mod pf in
        let idx := lindex it + 1 in
        let res := match nthN vs sub with Some v => Some (LPackedLeaf v) | None => None end in
        if sub + 1 =? pf then
          if (tz idx <? pd)%nat then SPanic PIterExpect else
          SOk res (liter_set it (pop_n (S (tz idx - pd)) (lstack it)) idx)
        else SOk res (liter_set it (lstack it) idx)
    | (Node _ l r as node) :: _ =>
        if (lfull_depth it + pd <? length (lstack it))%nat then SPanic POverflow else
        let child_depth := (lfull_depth it + pd - length (lstack it))%nat in
        let node_depth := S child_depth in
        if Nat.eqb node_depth (llevel it) then liter_jump it node else
        match fuel with
        | O => SPanic POutOfFuel
        | S f =>
            let child := if N.testbit (lindex it) (N.of_nat child_depth) then r else l in
            liter_next f (liter_set it (child :: lstack it) (lindex it))
        end
    end.

  (* run a level iterator to the end; n bounds the number of items *)
  Fixpoint liter_collect (n : nat) (it : liter) : outcome (list level_node) :=
    match n with
    | O => Panic POutOfFuel
    | S n' =>
        match liter_next (S (lfull_depth it)) it with
        | SPanic c => Panic c
        | SOk None _ => Ok []
        | SOk (Some x) it' =>
            match liter_collect n' it' with
            | Ok r => Ok (x :: r) | Err e => Err e | Panic c => Panic c
            end
        end
    end.
End Iter.
Arguments iter : clear implicits.
Arguments liter : clear implicits.
Arguments level_node : clear implicits.
Arguments SOk {A S}. Arguments SPanic {A S}.
